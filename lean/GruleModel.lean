-- This module serves as the root of the `GruleModel` library.
-- Import modules here that should be built as part of the library.
import GruleModel.Basic

/-
  Line-protocol driver: reads scenarios (one JSON object per line) and runs them on the model.
  `lake env lean --run Main.lean < scenarios.jsonl`
-/
import GruleModel.Codec
import GruleModel.Syntax.Build
import GruleModel.Json.Sem
import GruleModel.Gen.ArithTables
import GruleModel.Catalog
open Lean Grule Grule.Codec

def genTab : BinOp → OpTable
  | .mul => Gen.tblMultiplication | .div => Gen.tblDivision | .mod => Gen.tblModulo
  | .add => Gen.tblAddition | .sub => Gen.tblSubtraction | .band => Gen.tblBitAnd | .bor => Gen.tblBitOr
  | .gt => Gen.tblGreaterThan | .lt => Gen.tblLesserThan | .gte => Gen.tblGreaterThanEqual
  | .lte => Gen.tblLesserThanEqual | .eq => Gen.tblEqual | .neq => Gen.tblNotEqual
  | .and => Gen.tblLogicAnd | .or => Gen.tblLogicOr

-- the harness' Fact methods (harness/types.go) ------------------------------------------------

def fldOf (st : Store) (p : Path) (f : String) : Option Node := (st.get p).bind (·.child (.fld f))

def setFld (st : Store) (p : Path) (f : String) (n : Node) : Store :=
  (st.update p (fun m => m.setChild (.fld f) n)).getD st

def factMethods : MethodTable := fun f ncalls st recv args =>
  match recv with
  | .ref p =>
    let i64? : Val → Option Int := fun v => match v with | .int .int64 i => some i | _ => none
    match f, args with
    | "Heavy", [.int .int64 k] => .ran (.ok (.int .int64 (wrapI64 (k * 2 + 1)))) st false
    | "Heavy", _ => .badArgs
    | "GetI", [] => match fldOf st p "I" with
      | some (.leaf v) => .ran (.ok v) st false
      | _ => .ran (unmodelled "GetI") st false
    | "GetI", _ => .badArgs
    | "Inc", [] => match fldOf st p "I" with
      | some (.leaf (.int .int64 i)) => .ran (.ok .invalid) (setFld st p "I" (.leaf (.int .int64 (wrapI64 (i + 1))))) false
      | _ => .ran (unmodelled "Inc") st false
    | "Inc", _ => .badArgs
    | "SetI", [.int .int64 v] => .ran (.ok .invalid) (setFld st p "I" (.leaf (.int .int64 v))) false
    | "SetI", _ => .badArgs
    | "Str", [.str s] => .ran (.ok (.str (s ++ "!"))) st false
    | "Str", _ => .badArgs
    | "Neg", [.bool b] => .ran (.ok (.bool (!b))) st false
    | "Neg", _ => .badArgs
    | "Half", [.float .f64 b] => .ran (.ok (.float .f64 ((Float.ofBits b) / 2).toBits)) st false
    | "Half", _ => .badArgs
    | "Sum", as => match as.mapM i64? with
      | some is => .ran (.ok (.int .int64 (wrapI64 (is.foldl (· + ·) 0)))) st false
      | none => .badArgs
    | "Cat", as => match as.mapM (fun v => match v with | .str x => some x | _ => none) with
      | some xs => .ran (.ok (.str (String.intercalate "|" xs))) st false
      | none => .badArgs
    | "Boom", [.int .int64 m] => if m == 1 then .ran (panicErr "boom") st false else .ran (.ok (.int .int64 m)) st false
    | "Boom", _ => .badArgs
    | "FailAt", [.int .int64 k] =>
      if (ncalls : Int) == k then .ran (panicErr "programmed failure") st false else .ran (.ok (.int .int64 k)) st false
    | "FailAt", _ => .badArgs
    | "Cancel", [] => .ran (.ok .invalid) st true
    | "Cancel", _ => .badArgs
    | "CancelRet", [.int .int64 k] => .ran (.ok (.int .int64 k)) st true
    | "CancelRet", _ => .badArgs
    | "GetP", [] => match fldOf st p "P" with
      | some n => .ran (.ok (valOf (p ++ [.fld "P"]) n)) st false
      | none => .ran (unmodelled "GetP") st false
    | "GetP", _ => .badArgs
    | "GetA", [] => match fldOf st p "A" with
      | some n => .ran (.ok (valOf (p ++ [.fld "A"]) n)) st false
      | none => .ran (unmodelled "GetA") st false
    | "GetA", _ => .badArgs
    | "GetA2", [] => match fldOf st p "A" with
      | some n => .ran (.ok (valOf (p ++ [.fld "A"]) n)) st false
      | none => .ran (unmodelled "GetA2") st false
    | "GetA2", _ => .badArgs
    | "GetM", [] => match fldOf st p "M" with
      | some n => .ran (.ok (valOf (p ++ [.fld "M"]) n)) st false
      | none => .ran (unmodelled "GetM") st false
    | "GetM", _ => .badArgs
    | "Score", [.int .int64 k] =>
      -- only *Sub has Score; Fact has not
      -- (pointer receiver: not in the method set of a struct held by value)
      match st.get p, (st.get p).bind (·.child (.fld "N")), (st.get p).bind (·.child (.fld "I")) with
      | some (.ptr (some _)), some _, none => .ran (.ok (.int .int64 (wrapI64 (k + 10)))) st false
      | _, _, _ => .noMethod
    | "Score", _ => match st.get p, (st.get p).bind (·.child (.fld "I")) with
      | some (.ptr (some _)), none => .badArgs
      | _, _ => .noMethod
    | _, _ => .noMethod
  | _ => .noMethod

-- world ------------------------------------------------------------------------------------------

structure World where
  kbs : List (String × KB) := []          -- "<lib>/<name>:<ver>"
  insts : List (String × Instance) := []
  stored : List (String × KB) := []       -- handle ↦ what a load of that stream yields
  lastHex : String := ""                  -- the stream of the last `wire` op
  deriving Inhabited

def World.kb (w : World) (k name ver : String) : KB := (assocGet k w.kbs).getD { name := name, version := ver }

def floatTexts (j : Json) : UInt64 → String :=
  match fieldOpt j "ftext" with
  | some (.arr a) =>
    let tbl : List (UInt64 × String) := a.toList.filterMap (fun p => match p with
      | .arr #[b, .str t] => match u64 b with
        | .ok bits => some (bits, t)
        | _ => none
      | _ => none)
    fun b => match tbl.find? (·.1 == b) with
      | some (_, t) => t
      | none => "?"
  | _ => fun _ => "?"

def rulesJ (entries : List RuleEntry) : Json :=
  let es := entries.toArray.qsort (fun a b => a.key < b.key)
  .arr (es.map (fun e => Json.arr #[jstr e.key, jstr e.rule.name, jint e.rule.salience, jstr e.rule.desc,
    .bool e.deleted, jsnap (snapRule e.rule)]))

def sortedSnaps (l : List Snap) : Json :=
  .arr ((l.map String.ofList).toArray.qsort (· < ·) |>.map jstr)

def wmJ (w : WM) : Json :=
  let keys (l : List (Snap × Snap)) : Json :=
    .arr ((l.map (fun (k, t) => (String.ofList k, String.ofList t))).toArray.qsort (fun a b => a.1 < b.1)
      |>.map (fun (k, t) => Json.arr #[jstr k, jstr t]))
  let idx (l : List (Snap × List Snap)) : Json :=
    .arr ((l.map (fun (k, vs) => (String.ofList k, vs))).toArray.qsort (fun a b => a.1 < b.1)
      |>.map (fun (k, vs) => Json.arr #[jstr k, sortedSnaps vs]))
  Json.mkObj [("E", keys w.exprs), ("A", keys w.atoms), ("V", keys w.vars), ("EI", idx w.exprIdx), ("AI", idx w.atomIdx)]

def orderOf (j : Json) : Nat → Option (List String) :=
  match fieldOpt j "orders" with
  | some (.arr passes) => fun i =>
    match passes[i]? with
    | some (.arr ks) => some (ks.toList.filterMap (fun k => match k with | .str s => some s | _ => none))
    | _ => none
  | _ => fun _ => none

def callsJ (log : List Ev) : Json :=
  .arr (log.filterMap (fun e => match e with
    | .call _ f args => some (Json.arr (#[jstr f] ++ (args.map valJ).toArray))
    | _ => none)).toArray

def hexVal (c : Char) : Nat :=
  if c.toNat ≥ 48 && c.toNat ≤ 57 then c.toNat - 48 else if c.toNat ≥ 97 && c.toNat ≤ 102 then c.toNat - 87 else 0

def hexBytes (s : String) : List UInt8 :=
  let rec go : List Char → List UInt8
    | a :: b :: rest => UInt8.ofNat (hexVal a * 16 + hexVal b) :: go rest
    | _ => []
  go s.toList

partial def binopOperand (j : Json) : P Val := do
  let a ← arr j
  match (← str a[0]!) with
  | "invalid" => pure .invalid
  | "nilptr" => pure .nilptr
  | "pscalar" => binopOperand a[1]!
  | "iscalar" => binopOperand a[1]!
  | _ => match (← node j) with
    | .leaf v => pure v
    | _ => throw "binop operand"

-- JSON rule documents (pkg/JsonResource.go): the decoding step of encoding/json into GruleJSON ------------------

partial def toJ (j : Json) : Grule.Json.J :=
  match j with
  | .null => .null
  | .bool b => .bool b
  | .num n =>
    let neg := n.mantissa < 0
    let m := n.mantissa.natAbs
    let bits := (Syntax.ratToF64 m (10 ^ n.exponent)).getD 0x7FF0000000000000
    .num (Syntax.withSign neg bits)
  | .str s => .str s.toList
  | .arr a => .arr (a.toList.foldr (fun x acc => .cons (toJ x) acc) .nil)
  | .obj kvs => .obj (kvs.toList.foldr (fun (k, v) acc => .cons k.toList (toJ v) acc) .nil)

/-- json.Unmarshal into a GruleJSON struct; `none` = an unmarshal error -/
def ruleJOf (j : Json) : Option Grule.Json.RuleJ :=
  match j with
  | .obj _ =>
    let strF (k : String) : Option (List Char) := match j.getObjVal? k with
      | .ok (.str s) => some s.toList
      | .ok .null => some []
      | .ok _ => none
      | .error _ => some []
    let sal : Option Int := match j.getObjVal? "salience" with
      | .ok (.num n) => if n.exponent == 0 then some n.mantissa else none
      | .ok .null => some 0
      | .ok _ => none
      | .error _ => some 0
    let thn : Option (Option Grule.Json.JL) := match j.getObjVal? "then" with
      | .ok (.arr a) => some (some (a.toList.foldr (fun x acc => .cons (toJ x) acc) .nil))
      | .ok .null => some none
      | .ok _ => none
      | .error _ => some none
    let whn : Grule.Json.J := match j.getObjVal? "when" with
      | .ok v => toJ v
      | .error _ => .null
    match strF "name", strF "desc", sal, thn with
    | some name, some desc, some salience, some then_ => some { name, desc, salience, when := whn, then_ }
    | _, _, _, _ => none
  | _ => none

def doOp (w : World) (op : Json) : P (World × Json) := do
  let get := fun (k : String) => match fieldOpt op k with
    | some (.str s) => s
    | _ => ""
  let kbName := get "kb"
  let ver := if get "ver" == "" then "1" else get "ver"
  let kbKey := get "lib" ++ "/" ++ kbName ++ ":" ++ ver
  match get "op" with
  | "build" =>
    let ft := floatTexts op
    if fieldOpt op "front" == some (.bool true) then
      -- the model reads the text itself: lexer, parser, literal decoding (Syntax/*), then Library.build
      let text := (get "text").toList
      let fo := Syntax.front text
      let kb := w.kb kbKey kbName ver
      if fo.verdict == .unmodelled then
        pure ({ w with kbs := assocSet kbKey kb w.kbs }, Json.mkObj [("out", jstr "unmodelled: string literal with a byte escape ≥ 0x80")])
      else
      let (kb', errs) := kb.buildText text
      let intended : List (String × Json) ← match fieldOpt op "rules" with
        | some rj => do
          let rules ← (← arr rj).toList.mapM rule
          pure [("astEq", Json.bool (fo.verdict == .accepted && rules.map snapRule == fo.rules.map snapRule))]
        | none => pure []
      let res := [("ok", Json.bool (errs == 0)), ("rules", rulesJ kb'.entries),
        ("verdict", jstr (reprStr fo.verdict)), ("lexErrs", (fo.lexErrs : Nat)), ("grammatical", Json.bool fo.grammatical),
        ("parsed", .arr (fo.rules.map (fun r => jsnap (snapRule r))).toArray)] ++ intended ++
        (if fieldOpt op "wm" == some (.bool true) then
          [("wm", wmJ (kb'.wm.restrict (kb'.entries.filter (fun e => !e.deleted))))] else [])
      pure ({ w with kbs := assocSet kbKey kb' w.kbs }, Json.mkObj res)
    else
    match fieldOpt op "rules" with
    | none =>
      -- a text the scenario gives no AST for (a rejected one): the knowledge base exists afterwards; what the
      -- listener registered before the error is unreachable garbage, invisible after the F8 repair
      let kb := w.kb kbKey kbName ver
      pure ({ w with kbs := assocSet kbKey kb w.kbs }, Json.mkObj [("skip", jstr "no AST")])
    | some rj =>
      let rules ← (← arr rj).toList.mapM rule
      let (kb', errs) := (w.kb kbKey kbName ver).build (LitText.ofFloats ft) rules
      let res := [("ok", Json.bool (errs == 0)), ("rules", rulesJ kb'.entries)] ++
        (if errs == 0 then [] else [("nerr", Json.num (errs : Nat))]) ++
        (if fieldOpt op "wm" == some (.bool true) then
          [("wm", wmJ (kb'.wm.restrict (kb'.entries.filter (fun e => !e.deleted))))] else [])
      pure ({ w with kbs := assocSet kbKey kb' w.kbs }, Json.mkObj res)
  | "jsonbuild" =>
    let kb := w.kb kbKey kbName ver
    let w0 := { w with kbs := assocSet kbKey kb w.kbs }
    let fail (why : String) : P (World × Json) :=
      pure (w0, Json.mkObj [("tok", .bool false), ("ok", .bool false), ("rules", rulesJ kb.entries), ("why", jstr why)])
    let doc := get "json"
    let first := doc.toList.dropWhile (fun c => c == ' ' || c == '\t' || c == '\r' || c == '\n')
    match first.head?, Json.parse doc with
    | none, _ => fail "blank"
    | _, .error _ => fail "not JSON"
    | some c, .ok j =>
      let rjs : Option (List Grule.Json.RuleJ) :=
        if c == '[' then (match j with | .arr a => a.toList.mapM ruleJOf | _ => none)
        else if c == '{' then (ruleJOf j).map (fun r => [r])
        else none
      match rjs with
      | none => fail "unmarshal"
      | some rs =>
        match Grule.Json.parseRuleset rs with
        | .error (.unmodelled m) => pure (w0, Json.mkObj [("out", jstr ("unmodelled: " ++ m))])
        | .error (.invalid m) => fail m
        | .ok text =>
          let fo := Syntax.front text
          if fo.verdict == .unmodelled then pure (w0, Json.mkObj [("out", jstr "unmodelled: byte escape")]) else
          let (kb', errs) := kb.buildText text
          let sems := rs.map Grule.Json.semRule
          let semOk := sems.all (fun r => match r with | .ok _ => true | .error _ => false)
          let semRules := sems.filterMap (fun r => match r with | .ok x => some x | .error _ => none)
          let astEq := semOk && fo.verdict == .accepted &&
            semRules.map (fun r => snapRule (Grule.Json.eraseRule r)) == fo.rules.map (fun r => snapRule (Grule.Json.eraseRule r))
          let res := [("tok", Json.bool true), ("text", jstr (String.ofList text)), ("ok", Json.bool (errs == 0)), ("rules", rulesJ kb'.entries),
            ("verdict", jstr (reprStr fo.verdict)), ("semOk", Json.bool semOk), ("astEq", Json.bool astEq),
            ("semText", jstr (String.ofList (semRules.flatMap Grule.Json.printRule))),
            ("semDescs", .arr (semRules.map (fun r => jstr r.desc)).toArray)]
          pure ({ w with kbs := assocSet kbKey kb' w.kbs }, Json.mkObj res)
  | "inst" =>
    match assocGet kbKey w.kbs with
    | none => pure (w, Json.mkObj [("ok", .bool false)])
    | some kb =>
      match kb.instantiate with
      | none => pure (w, Json.mkObj [("ok", .bool false)])
      | some inst => pure ({ w with insts := assocSet (get "as") inst w.insts },
          Json.mkObj [("ok", .bool true), ("rules", rulesJ inst.entries)])
  | "exec" =>
    match assocGet (get "inst") w.insts with
    | none => pure (w, Json.mkObj [("skip", jstr "no such instance (its creation failed)")])
    | some inst =>
      let st ← store (← field op "facts")
      let maxC ← nat (← field op "max")
      let retErr := fieldOpt op "retErr" == some (.bool true)
      let cancelAt ← match fieldOpt op "cancelAt" with
        | some c => do pure (some (← nat c))
        | none => pure none
      let memo := fieldOpt op "spec" != some (.bool true)
      let cancelAtEvent ← match fieldOpt op "cancelAtEvent" with
        | some c => do pure (some (← nat c))
        | none => pure none
      let rc : RunCfg := { maxCycle := maxC, retErr, cancelAt, cancelAtEvent, order := orderOf op }
      let cfg := mkCfg memo genTab Gen.setNumberCells factMethods inst.wm
      let r := execute rc cfg inst st
      -- the from-scratch semantics on the same call (property oracle)
      let rs := execute rc { cfg with memo := false } inst st
      let spec := Json.mkObj [("out", outcomeJ rs.outcome), ("trace", .arr (rs.trace.map tevJ).toArray),
        ("store", storeJ rs.store)]
      let res := Json.mkObj [("spec", spec), ("out", outcomeJ r.outcome), ("trace", .arr (r.trace.map tevJ).toArray),
        ("polls", (r.polls : Nat)), ("store", storeJ r.store), ("calls", callsJ r.log),
        ("memo", Json.mkObj [("E", sortedSnaps (r.inst.memoE.map (·.1))), ("A", sortedSnaps (r.inst.memoA.map (·.1)))]),
        ("retracted", .arr ((r.inst.entries.filter (fun e => r.inst.retracted.contains e.rule.name)).map (·.rule.name)
            |>.toArray.qsort (· < ·) |>.map jstr))]
      pure ({ w with insts := assocSet (get "inst") r.inst w.insts }, res)
  | "fetch" =>
    match assocGet (get "inst") w.insts with
    | none => pure (w, Json.mkObj [("skip", jstr "no such instance (its creation failed)")])
    | some inst =>
      let st ← store (← field op "facts")
      let retErr := fieldOpt op "retErr" == some (.bool true)
      let memo := fieldOpt op "spec" != some (.bool true)
      let cfg := mkCfg memo genTab Gen.setNumberCells factMethods inst.wm
      let r := fetch retErr none cfg inst st
      let rs := fetch retErr none { cfg with memo := false } { inst with retracted := [] } st
      let spec := Json.mkObj [("out", outcomeJ rs.outcome),
        ("rules", .arr (rs.rules.map (fun e => Json.arr #[jstr e.rule.name, jint e.rule.salience])).toArray),
        ("store", storeJ rs.store)]
      let res := Json.mkObj [("spec", spec), ("out", outcomeJ r.outcome),
        ("rules", .arr (r.rules.map (fun e => Json.arr #[jstr e.rule.name, jint e.rule.salience])).toArray),
        ("store", storeJ r.store)]
      pure ({ w with insts := assocSet (get "inst") r.inst w.insts }, res)
  | "remove" =>
    if get "inst" != "" then
      match assocGet (get "inst") w.insts with
      | none => throw "no such instance"
      | some inst =>
        let es := removeEntry (fun n => "Deleted_" ++ n) inst.entries (get "rule")
        pure ({ w with insts := assocSet (get "inst") { inst with entries := es } w.insts }, Json.mkObj [("rules", rulesJ es)])
    else
      let kb := w.kb kbKey kbName ver
      let kb' := if fieldOpt op "viaKb" == some (.bool true) then kb.remove (get "rule") else kb.removeLib (get "uuid") (get "rule")
      pure ({ w with kbs := assocSet kbKey kb' w.kbs }, Json.mkObj [("rules", rulesJ kb'.entries)])
  | "ptrcheck" => pure (w, Json.mkObj [("skip", jstr "pointer graph of the implementation")])
  | "concurrent" =>
    -- the sequential meaning: every goroutine creates its own instance and executes it on its own facts
    match assocGet kbKey w.kbs with
    | none => pure (w, Json.mkObj [("skip", jstr "no knowledge base")])
    | some kb =>
      match kb.instantiate with
      | none => pure (w, Json.mkObj [("skip", jstr "no instance")])
      | some inst =>
        let maxC ← nat (← field op "max")
        let fl ← arr (← field op "factsList")
        let rs ← fl.toList.mapM (fun fj => do
          let st ← store fj
          let cfg := mkCfg true genTab Gen.setNumberCells factMethods inst.wm
          let r := execute { maxCycle := maxC } cfg inst st
          pure (Json.mkObj [("out", outcomeJ r.outcome), ("store", storeJ r.store)]))
        pure (w, Json.mkObj [("results", .arr rs.toArray)])
  | "info" =>
    if get "inst" != "" then
      match assocGet (get "inst") w.insts with
      | none => throw "no such instance"
      | some inst => pure (w, Json.mkObj [("rules", rulesJ inst.entries)])
    else
      -- (the harness asks the library with GetKnowledgeBase, which creates a missing knowledge base)
      let kb := w.kb kbKey kbName ver
      pure ({ w with kbs := assocSet kbKey kb w.kbs }, Json.mkObj [("rules", rulesJ kb.entries)])
  | "store" =>
    let kb := w.kb kbKey kbName ver
    -- GetKnowledgeBase creates the knowledge base when it does not exist yet
    pure ({ w with kbs := assocSet kbKey kb w.kbs, stored := assocSet (get "as") kb.storeLoad w.stored },
      Json.mkObj [("ok", .bool true)])
  | "load" =>
    if (fieldOpt op "cut").isSome then pure (w, Json.mkObj [("skip", jstr "byte-level: see Wire model")]) else
    match assocGet (get "from") w.stored with
    | none => throw "no such stored stream"
    | some kb =>
      let key := get "lib" ++ "/" ++ kb.name ++ ":" ++ kb.version
      let overwrite := fieldOpt op "overwrite" == some (.bool true)
      if !overwrite && (assocGet key w.kbs).isSome then pure (w, Json.mkObj [("ok", .bool false)])
      else pure ({ w with kbs := assocSet key kb w.kbs },
        Json.mkObj [("ok", .bool true), ("rules", rulesJ kb.entries), ("name", jstr kb.name), ("version", jstr kb.version)])
  | "loadhex" =>
    let bs := hexBytes (if get "hex" == "" then w.lastHex else get "hex")
    let bs ← match fieldOpt op "cut" with
      | some c => do pure (bs.take (← nat c))
      | none => pure bs
    match Wire.loadBytes bs with
    | .ok _ => pure (w, Json.mkObj [("ok", .bool true)])
    | .error _ => pure (w, Json.mkObj [("ok", .bool false)])
  | "wire" =>
    let w := { w with lastHex := get "hex" }
    let bs := hexBytes (get "hex")
    match Wire.catalogDec bs with
    | .error e => pure (w, Json.mkObj [("decoded", .bool false), ("err", jstr (reprStr e))])
    | .ok (c, rest) =>
      let again := Wire.catalogEnc c
      let types := c.2.2.2.1.map (fun m => m.2.1)
      pure (w, Json.mkObj [("decoded", .bool true), ("rest", (rest.length : Nat)), ("reencodeEqual", .bool (again == bs)),
        ("metas", (c.2.2.2.1.length : Nat)), ("rules", ((types.filter (· == 7)).length : Nat)),
        ("name", jstr (String.fromUTF8! (ByteArray.mk c.2.1.toArray)))])
  | "binop" =>
    let l ← binopOperand (← field op "l")
    let r ← binopOperand (← field op "r")
    let o ← binop (get "o")
    let cfg := mkCfg true genTab Gen.setNumberCells factMethods {}
    match evalBinOp cfg [] o l r with
    | .ok v => pure (w, Json.mkObj [("v", valJ v)])
    | .error (.eval _) => pure (w, Json.mkObj [("err", jstr "error")])
    | .error (.panic _) => pure (w, Json.mkObj [("err", jstr "panic")])
    | .error (.unmodelled m) => pure (w, Json.mkObj [("out", jstr s!"unmodelled:{m}")])
  | o => pure (w, Json.mkObj [("skip", jstr s!"op {o} not modelled")])

def doScenario (j : Json) : Json :=
  let id := (fieldOpt j "id").getD .null
  match fieldOpt j "ops" with
  | some (.arr ops) =>
    let (_, res) := ops.foldl (fun (acc : World × Array Json) op =>
      match doOp acc.1 op with
      | .ok (w', r) => (w', acc.2.push r)
      | .error e => (acc.1, acc.2.push (Json.mkObj [("modelError", jstr e)]))) (({} : World), #[])
    Json.mkObj [("id", id), ("res", .arr res)]
  | _ => Json.mkObj [("id", id), ("error", jstr "no ops")]

partial def loop (h : IO.FS.Stream) (out : IO.FS.Stream) : IO Unit := do
  let line ← h.getLine
  if line.isEmpty then return ()
  if line.trimAscii.toString.isEmpty then loop h out else
  match Json.parse line with
  | .ok j => out.putStrLn (doScenario j).compress
  | .error e => out.putStrLn (Json.mkObj [("error", jstr e)]).compress
  out.flush
  loop h out

def main : IO Unit := do
  loop (← IO.getStdin) (← IO.getStdout)

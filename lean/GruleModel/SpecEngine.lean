/-
  The textbook forward-chaining loop over the from-scratch semantics: no working memory anywhere.
  State is what a user can observe: the facts, which rules are retracted, whether Complete() was
  called, whether the context was cancelled; plus the poll counter and the listener trace.
-/
import GruleModel.Spec
import GruleModel.Engine
import GruleModel.Valid
namespace Grule

/-- the engine-visible part of the evaluation state -/
structure Vis where
  st : Store
  retracted : List String := []
  complete : Bool := false
  cancelled : Bool := false
  deriving Inhabited

def EState.vis (s : EState) : Vis :=
  { st := s.st, retracted := s.retracted, complete := s.complete, cancelled := s.cancelled }

-- actions ---------------------------------------------------------------------------------------

/-- Variable.Assign on the visible state -/
def specAssign (c : Cfg) (v : Vis) (target : Var) (new : Val) : R Unit × Vis :=
  match target with
  | .root n =>
    match writeRoot v.st n new with
    | .ok st' => (.ok (), { v with st := st' })
    | .error e => (.error e, v)
  | .field p f =>
    match specV c v.st p with
    | .error e => (.error e, v)
    | .ok pv =>
      match writeField c.cells v.st pv f new with
      | .ok st' => (.ok (), { v with st := st' })
      | .error e => (.error e, v)
  | .index p e =>
    match specV c v.st p with
    | .error err => (.error err, v)
    | .ok pv =>
      match specE c v.st e with
      | .error err => (.error err, v)
      | .ok iv =>
        match writeIndex c.cells v.st pv iv new with
        | .ok st' => (.ok (), { v with st := st' })
        | .error err => (.error err, v)

/-- the state-changing built-ins on the visible state (Forget/Changed only touch the working memory) -/
def specEffect (v : Vis) (f : String) (args : List Val) : R Val × Vis :=
  if args.any (· == .invalid) then (badCall, v) else
  if f == "Complete" then
    match args with
    | [] => (.ok .invalid, { v with complete := true })
    | _ => (badCall, v)
  else if f == "Retract" then
    match args with
    | [.str n] => (.ok .invalid, { v with retracted := n :: v.retracted })
    | _ => (badCall, v)
  else
    match args with
    | [.str _] => (.ok .invalid, v)
    | _ => (badCall, v)

/-- one `then` statement: the right-hand side is computed on the facts as they are now, the result
    is stored into exactly the addressed cell; a statement atom is evaluated for its effect -/
def specAction (c : Cfg) (v : Vis) : Action → R Unit × Vis
  | .assign op target rhs =>
    match specE c v.st rhs with
    | .error e => (.error e, v)
    | .ok rv =>
      match op.binop with
      | none => specAssign c v target rv
      | some bop =>
        match specV c v.st target with
        | .error e => (.error e, v)
        | .ok cur =>
          match evalBinOp c v.st bop cur rv with
          | .error e => (.error e, v)
          | .ok nv => specAssign c v target nv
  | .stmt (.call f args) =>
    if isEffectful f then
      match specArgs c v.st args with
      | .error e => (.error e, v)
      | .ok vs =>
        match specEffect v f vs with
        | (.ok _, v') => (.ok (), v')
        | (.error e, v') => (.error e, v')
    else
      match specA c v.st (.call f args) with
      | .ok _ => (.ok (), v)
      | .error e => (.error e, v)
  | .stmt a =>
    match specA c v.st a with
    | .ok _ => (.ok (), v)
    | .error e => (.error e, v)

/-- actions run in textual order; the first failure stops the list and keeps what was done -/
def specActions (c : Cfg) (v : Vis) : List Action → R Unit × Vis
  | [] => (.ok (), v)
  | a :: rest =>
    match specAction c v a with
    | (.error e, v1) => (.error e, v1)
    | (.ok _, v1) => specActions c v1 rest

-- the loop ---------------------------------------------------------------------------------------

structure SState where
  vis : Vis
  polls : Nat := 0
  passes : Nat := 0
  trace : List TEv := []
  /-- ghost history for stating the properties: every firing with the visible state it started from
      (newest first); not observable, not part of the refinement relation -/
  fired : List (Nat × RuleEntry × Vis) := []
  deriving Inhabited

def SState.emit (ss : SState) (e : TEv) : SState := { ss with trace := e :: ss.trace }

def specPoll (rc : RunCfg) (ss : SState) : Bool × SState :=
  let c := ss.vis.cancelled || (match rc.cancelAt with | some k => decide (k ≤ ss.polls) | none => false)
    || (match rc.cancelAtEvent with | some k => decide (k < ss.trace.length) | none => false)
  (c, { ss with polls := ss.polls + (if c then 2 else 1) })

def visRetracted (v : Vis) (e : RuleEntry) : Bool := v.retracted.contains e.rule.name

/-- RuleEntry.Evaluate on the visible state -/
def specCond (c : Cfg) (v : Vis) (e : RuleEntry) : CondResult :=
  if visRetracted v e then .cand false else
  match specE c v.st e.rule.cond with
  | .ok (.bool b) => .cand b
  | .ok _ => .failed
  | .error (.unmodelled m) => .unmodelled m
  | .error _ => .failed

def specPass (rc : RunCfg) (c : Cfg) (cycle : Nat) :
    List RuleEntry → SState → List RuleEntry → Option Outcome × SState × List RuleEntry
  | [], ss, acc => (none, ss, acc)
  | e :: rest, ss, acc =>
    let (cancelled, ss) := specPoll rc ss
    if cancelled then (some .ctx, ss, acc) else
    if visRetracted ss.vis e || e.deleted then specPass rc c cycle rest ss acc else
    let (cancelled, ss) := specPoll rc ss
    if cancelled then
      if rc.retErr then (some (.evalErr e.rule.name true), ss, acc)
      else specPass rc c cycle rest (ss.emit (.eval cycle e.rule.name false)) acc
    else
      match specCond c ss.vis e with
      | .unmodelled m => (some (.unmodelled m), ss, acc)
      | .failed =>
        if rc.retErr then (some (.evalErr e.rule.name false), ss, acc)
        else specPass rc c cycle rest (ss.emit (.eval cycle e.rule.name false)) acc
      | .cand b => specPass rc c cycle rest (ss.emit (.eval cycle e.rule.name b)) (if b then acc ++ [e] else acc)

def specLoop (rc : RunCfg) (c : Cfg) (entries : List RuleEntry) : Nat → Nat → SState → Outcome × SState
  | 0, _, ss => (.unmodelled "fuel exhausted", ss)
  | fuel + 1, cycle, ss =>
    let (cancelled, ss) := specPoll rc ss
    if cancelled then (.ctx, ss) else
    let ss := ss.emit (.begin (cycle + 1))
    let ord := orderEntries (rc.order ss.passes) entries
    let ss := { ss with passes := ss.passes + 1 }
    match specPass rc c (cycle + 1) ord ss [] with
    | (some out, ss, _) => (out, ss)
    | (none, ss, acc) =>
      let (cancelled, ss) := specPoll rc ss
      if cancelled then (.ctx, ss) else
      match acc with
      | [] => (.ok, ss)
      | r0 :: rs =>
      let cycle := cycle + 1
      if cycle > rc.maxCycle then (.cycleLimit, ss) else
      let runner := pickRunner r0 rs
      let ss := { ss.emit (.exec cycle runner.rule.name) with fired := (cycle, runner, ss.vis) :: ss.fired }
      let (cancelled, ss) := specPoll rc ss
      if cancelled then (.actionErr runner.rule.name true, ss) else
      match specActions c ss.vis runner.rule.acts with
      | (.error (.unmodelled m), v') => (.unmodelled m, { ss with vis := v' })
      | (.error _, v') => (.actionErr runner.rule.name false, { ss with vis := v' })
      | (.ok _, v') =>
        let ss := { ss with vis := v' }
        if v'.complete then (.ok, ss) else specLoop rc c entries fuel cycle ss

structure SpecResult where
  outcome : Outcome
  trace : List TEv
  store : Store
  retracted : List String
  polls : Nat
  fired : List (Nat × RuleEntry × Vis)   -- oldest first
  complete : Bool

/-- the reference semantics of Execute: a fresh run on the given facts -/
def specExecute (rc : RunCfg) (c : Cfg) (entries : List RuleEntry) (st : Store) : SpecResult :=
  let (out, ss) := specLoop rc c entries (rc.maxCycle + 1) 0 { vis := { st := st } }
  { outcome := out, trace := ss.trace.reverse, store := ss.vis.st, retracted := ss.vis.retracted, polls := ss.polls,
    fired := ss.fired.reverse, complete := ss.vis.complete }

/-- what the rules may contain for the refinement theorems: pure, well-named expressions; state-changing
    built-ins only as statements -/
def wfAction : Action → Bool
  | .assign _ t e => pureV t && validV t && pureE e && validE e
  | .stmt (.call f args) => pureArgs args && validArgs args && okName f
  | .stmt a => pureA a && validA a

def wfRule (r : Rule) : Bool := pureE r.cond && validE r.cond && r.acts.all wfAction

end Grule

/-
  Token language the T3 extractor emits, and the expected field sequences of the format.
-/
import GruleModel.Wire
namespace Grule.Wire

inductive Tok
  | node | str | u64 | bool | f64 | raw | count | lb | le | metaRec | dispatch
  | unknown (s : String)
  deriving DecidableEq, Repr, Inhabited

/-- fields of a record after the three NodeMeta strings -/
inductive Fld | str | u64 | bool | rawBool | strs
  deriving DecidableEq, Repr, Inhabited

/-- the per-type schemas of the format, by NodeType number (iota order in Serializer.go) -/
def schemaOf : Nat → Option (String × List Fld)
  | 0 => some ("ArgumentListMeta", [.strs])
  | 1 => some ("ArrayMapSelectorMeta", [.str])
  | 2 => some ("AssigmentMeta", [.str, .str, .bool, .bool, .bool, .bool, .bool])
  | 3 => some ("ExpressionMeta", [.str, .str, .str, .str, .u64, .bool])
  | 4 => some ("ConstantMeta", [.u64, .rawBool])
  | 5 => some ("ExpressionAtomMeta", [.str, .str, .str, .str, .bool, .str, .str])
  | 6 => some ("FunctionCallMeta", [.str, .str])
  | 7 => some ("RuleEntryMeta", [.str, .str, .u64, .str, .str])
  | 8 => some ("ThenExpressionMeta", [.str, .str])
  | 9 => some ("ThenExpressionListMeta", [.strs])
  | 10 => some ("ThenScopeMeta", [.str])
  | 11 => some ("VariableMeta", [.str, .str, .str])
  | 12 => some ("WhenScopeMeta", [.str])
  | _ => none

def Fld.toks : Fld → List Tok
  | .str => [.str] | .u64 => [.u64] | .bool => [.bool] | .rawBool => [.u64, .raw, .bool] | .strs => [.count, .lb, .str, .le]

/-- what the extractor must find for every type, on the write and on the read side -/
def expectedToks : List (String × List Tok) :=
  ((List.range 13).filterMap schemaOf).map (fun (n, fs) => (n, Tok.node :: fs.flatMap Fld.toks)) ++ [("NodeMeta", [.str, .str, .str])]

def sortByName (l : List (String × List Tok)) : List (String × List Tok) :=
  l.foldr (fun x acc => let rec ins : List (String × List Tok) → List (String × List Tok)
      | [] => [x]
      | y :: r => if x.1 < y.1 then x :: y :: r else y :: ins r
    ins acc) []

def expectedFrameWrite : List Tok :=
  [.str, .str, .str, .count, .lb, .str, .u64, .metaRec, .le, .str, .str,
   .count, .lb, .str, .str, .le, .count, .lb, .str, .str, .le, .count, .lb, .str, .str, .le,
   .count, .lb, .str, .count, .lb, .str, .le, .le, .count, .lb, .str, .count, .lb, .str, .le, .le]

def expectedFrameRead : List Tok :=
  [.str, .str, .str, .count, .lb, .str, .u64, .dispatch, .metaRec, .le, .str, .str,
   .count, .lb, .str, .str, .le, .count, .lb, .str, .str, .le, .count, .lb, .str, .str, .le,
   .count, .lb, .str, .count, .lb, .str, .le, .le, .count, .lb, .str, .count, .lb, .str, .le, .le]

end Grule.Wire

/-
  Values, kinds and store trees of the model.

  `Val` is what an expression evaluates to (a Go `reflect.Value` as far as the engine looks at it):
  a scalar tagged with its Go kind, the zero `reflect.Value` (`invalid`), or a reference to a
  composite fact node (struct / pointer / slice / map / interface / JSON object / JSON array),
  identified by its path from the data-context root.
-/
namespace Grule

inductive IntK | int | int8 | int16 | int32 | int64
  deriving DecidableEq, Repr, Inhabited
inductive UIntK | uint | uint8 | uint16 | uint32 | uint64
  deriving DecidableEq, Repr, Inhabited
inductive FloatK | f32 | f64
  deriving DecidableEq, Repr, Inhabited

def IntK.bits : IntK → Nat
  | .int => 64 | .int8 => 8 | .int16 => 16 | .int32 => 32 | .int64 => 64
def UIntK.bits : UIntK → Nat
  | .uint => 64 | .uint8 => 8 | .uint16 => 16 | .uint32 => 32 | .uint64 => 64

def IntK.name : IntK → String
  | .int => "int" | .int8 => "int8" | .int16 => "int16" | .int32 => "int32" | .int64 => "int64"
def UIntK.name : UIntK → String
  | .uint => "uint" | .uint8 => "uint8" | .uint16 => "uint16" | .uint32 => "uint32" | .uint64 => "uint64"
def FloatK.name : FloatK → String
  | .f32 => "float32" | .f64 => "float64"

/-- A `time.Time` as far as the engine can observe it: the instant (unix nanoseconds), an
    identifier of the `*Location`, and whether a monotonic reading is attached (and its value). -/
structure TimeV where
  inst : Int
  loc  : Nat
  mono : Option Int
  deriving DecidableEq, Repr, Inhabited

/-- map keys -/
inductive Key
  | s (v : String)
  | i (v : Int)
  deriving DecidableEq, Repr, Inhabited

inductive Hop
  | root (n : String)
  | fld (n : String)
  | idx (i : Nat)
  | key (k : Key)
  deriving DecidableEq, Repr, Inhabited

abbrev Path := List Hop

inductive Val
  | int (k : IntK) (v : Int)
  | uint (k : UIntK) (v : Nat)
  | float (k : FloatK) (bits : UInt64)
  | str (s : String)
  | bool (b : Bool)
  | time (t : TimeV)
  | invalid            -- the zero reflect.Value (nil literal, result of a void method)
  | nilptr             -- a nil pointer / nil interface
  | ref (p : Path)     -- a composite fact node, by location
  deriving DecidableEq, Repr, Inhabited

/-- static type descriptors (only what assignment needs) -/
inductive Ty
  | int (k : IntK) | uint (k : UIntK) | float (k : FloatK) | str | bool | time | other
  deriving DecidableEq, Repr, Inhabited

def Val.ty : Val → Ty
  | .int k _ => .int k | .uint k _ => .uint k | .float k _ => .float k
  | .str _ => .str | .bool _ => .bool | .time _ => .time | _ => .other

/-- reflect.Kind().String() of a value -/
def Val.kindName : Val → String
  | .int k _ => k.name | .uint k _ => k.name | .float k _ => k.name
  | .str _ => "string" | .bool _ => "bool" | .time _ => "struct" | .invalid => "invalid"
  | .nilptr => "ptr" | .ref _ => "ref"

/-- Errors are classified, never compared by text. -/
inductive Err
  | eval (msg : String)        -- an error value returned by the engine's own code
  | panic (msg : String)       -- a Go panic (recovered at the rule boundary)
  | unmodelled (msg : String)  -- the model declines: scenario is outside what it describes
  deriving DecidableEq, Repr, Inhabited

abbrev R := Except Err

def unmodelled {α} (m : String) : R α := .error (.unmodelled m)
def evalErr {α} (m : String) : R α := .error (.eval m)
def panicErr {α} (m : String) : R α := .error (.panic m)

/-- fact trees -/
inductive Node
  | leaf (v : Val)
  | struct (fields : List (String × Node))
  | ptr (target : Option Node)
  | slice (elems : List Node)
  | map (keyT elemT : Ty) (entries : List (Key × Node))
  | iface (v : Option Node)
  | jobj (entries : List (String × Node))
  | jarr (elems : List Node)
  deriving Repr, Inhabited

abbrev Store := List (String × Node)

-- two's complement helpers ---------------------------------------------------

def wrapU (bits : Nat) (n : Int) : Nat := (n % (2 ^ bits : Nat)).toNat

def wrapS (bits : Nat) (n : Int) : Int :=
  let m : Int := (2 ^ bits : Nat)
  let r := n % m
  if r ≥ m / 2 then r - m else r

def wrapI64 (n : Int) : Int := wrapS 64 n
def wrapU64 (n : Int) : Nat := wrapU 64 n

def inI64 (n : Int) : Bool := decide (-(2:Int)^63 ≤ n) && decide (n < (2:Int)^63)
def inU64 (n : Int) : Bool := decide (0 ≤ n) && decide (n < (2:Int)^64)

end Grule

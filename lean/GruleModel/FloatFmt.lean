/-
  Exact `%f` (six decimals) formatting of an IEEE-754 binary64 given by its bit pattern, in `Nat`
  arithmetic (kernel-reducible, no `Float`): this is what `fmt.Sprintf("%f", x)` prints and hence what
  `Constant.GetSnapshot` and string concatenation use.
-/
namespace Grule

def natDigits (n : Nat) : List Char := (Nat.repr n).toList

def padLeft (n : Nat) (c : Char) (l : List Char) : List Char :=
  List.replicate (n - l.length) c ++ l

/-- round-half-even of `num / den` (den > 0) -/
def roundHalfEven (num den : Nat) : Nat :=
  let q := num / den
  let r := num % den
  if 2 * r < den then q
  else if 2 * r > den then q + 1
  else if q % 2 == 0 then q else q + 1

/-- `%f` of the double with the given bits -/
def fmtF6Chars (bits : UInt64) : List Char :=
  let b : Nat := bits.toNat
  let sign : Nat := b / 2^63
  let ex : Nat := (b / 2^52) % 2048
  let frac : Nat := b % 2^52
  if ex == 2047 then
    if frac == 0 then (if sign == 1 then "-Inf".toList else "+Inf".toList) else "NaN".toList
  else
    -- value = m * 2^(e)
    let m : Nat := if ex == 0 then frac else frac + 2^52
    let e : Int := (if ex == 0 then (1:Int) else (ex : Int)) - 1075
    -- scaled = round(m * 2^e * 10^6)
    let q : Nat :=
      if e ≥ 0 then m * 2^(e.toNat) * 1000000
      else roundHalfEven (m * 1000000) (2^((-e).toNat))
    let ip := q / 1000000
    let fp := q % 1000000
    (if sign == 1 then ['-'] else []) ++ natDigits ip ++ ['.'] ++ padLeft 6 '0' (natDigits fp)

def fmtF6 (bits : UInt64) : String := String.ofList (fmtF6Chars bits)

-- shortest round-trip formatting (strconv.FormatFloat(x, 'g', -1, 64), i.e. fmt's %v) --------------------

abbrev Q := Nat × Nat     -- numerator, denominator (> 0)

def Q.le (a b : Q) : Bool := a.1 * b.2 ≤ b.1 * a.2
def Q.lt (a b : Q) : Bool := a.1 * b.2 < b.1 * a.2
def Q.scale10 (q : Q) (k : Int) : Q := if k ≥ 0 then (q.1 * 10^k.toNat, q.2) else (q.1, q.2 * 10^(-k).toNat)

def numDigits (n : Nat) : Nat := (Nat.repr n).length

/-- the decimal exponent X of a positive rational: 10^(X-1) ≤ q < 10^X -/
def decExp (q : Q) : Int :=
  if q.1 ≥ q.2 then (numDigits (q.1 / q.2) : Int)
  else
    let rec go (fuel j : Nat) : Nat :=
      match fuel with
      | 0 => j
      | f + 1 => if q.1 * 10^j ≥ q.2 then j else go f (j + 1)
    1 - (go 400 1 : Int)

/-- shortest decimal digits of a finite positive double: (digits as a number without trailing zeros, dp) with
    value = 0.d1d2… × 10^dp, the unique shortest decimal inside the rounding interval, closest to the value -/
def shortestDigits (m : Nat) (e : Int) (boundary : Bool) : Nat × Int :=
  let ep := e.toNat
  let en := (-e).toNat
  let v : Q := (m * 2^ep, 2^en)
  let hi : Q := ((2 * m + 1) * 2^ep, 2^(en + 1))
  let lo : Q := if boundary then ((4 * m - 1) * 2^ep, 2^(en + 2)) else ((2 * m - 1) * 2^ep, 2^(en + 1))
  let even := m % 2 == 0
  let X := decExp v
  let inside (c : Nat) (k : Int) : Bool :=
    let cq : Q := Q.scale10 (c, 1) (-k)
    if even then Q.le lo cq && Q.le cq hi else Q.lt lo cq && Q.lt cq hi
  let rec search (fuel n : Nat) : Nat × Int :=
    match fuel with
    | 0 => (m, 0)
    | fuel' + 1 =>
      let k : Int := (n : Int) - X
      let s := Q.scale10 v k
      let f := s.1 / s.2
      let r := s.1 % s.2
      let inF := inside f k && f != 0
      let inC := r != 0 && inside (f + 1) k
      let pick : Option Nat :=
        if inF && inC then
          (if 2 * r < s.2 then some f else if 2 * r > s.2 then some (f + 1) else if f % 2 == 0 then some f else some (f + 1))
        else if inF then some f else if inC then some (f + 1) else none
      match pick with
      | none => search fuel' (n + 1)
      | some c =>
        let L := numDigits c
        let rec strip (fuel c : Nat) : Nat :=
          match fuel with
          | 0 => c
          | g + 1 => if c % 10 == 0 && c != 0 then strip g (c / 10) else c
        (strip 20 c, X + ((L : Int) - (n : Int)))
  search 18 1

/-- `eprec`: 6 for strconv 'g' with shortest precision (fmt's %v) -/
def fmtShortestChars (bits : UInt64) (eprec : Int := 6) (emin : Int := -4) : List Char :=
  let b : Nat := bits.toNat
  let sign : Nat := b / 2^63
  let ex : Nat := (b / 2^52) % 2048
  let frac : Nat := b % 2^52
  let sg : List Char := if sign == 1 then ['-'] else []
  if ex == 2047 then
    if frac == 0 then (if sign == 1 then "-Inf".toList else "+Inf".toList) else "NaN".toList
  else if ex == 0 && frac == 0 then sg ++ ['0']
  else
    let m : Nat := if ex == 0 then frac else frac + 2^52
    let e : Int := (if ex == 0 then (1:Int) else (ex : Int)) - 1075
    let boundary := frac == 0 && ex > 1
    let (d, dp) := shortestDigits m e boundary
    let ds := natDigits d
    let nd := ds.length
    let exp := dp - 1
    if exp < emin || exp ≥ eprec then
      -- %e
      let mant := match ds with
        | [] => ['0']
        | [c] => [c]
        | c :: rest => c :: '.' :: rest
      let ea := natDigits exp.natAbs
      sg ++ mant ++ ['e'] ++ [if exp < 0 then '-' else '+'] ++ padLeft 2 '0' ea
    else if dp ≤ 0 then
      sg ++ "0.".toList ++ List.replicate (-dp).toNat '0' ++ ds
    else if (nd : Int) ≤ dp then
      sg ++ ds ++ List.replicate (dp.toNat - nd) '0'
    else
      sg ++ ds.take dp.toNat ++ ['.'] ++ ds.drop dp.toNat

def intChars (i : Int) : List Char :=
  if i < 0 then '-' :: natDigits i.natAbs else natDigits i.natAbs

end Grule

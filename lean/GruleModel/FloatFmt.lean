/-
  Exact `%f` (six decimals) formatting of an IEEE-754 binary64 given by its bit pattern, in `Nat`
  arithmetic (kernel-reducible, no `Float`): this is what `fmt.Sprintf("%f", x)` prints and hence what
  `Constant.GetSnapshot` and string concatenation use.
-/
namespace Grule

def natDigits (n : Nat) : List Char := (Nat.repr n).toList

def padLeft (n : Nat) (c : Char) (l : List Char) : List Char :=
  List.replicate (n - l.length) c ++ l

/-- round-half-even of `num / den` (den > 0) -/
def roundHalfEven (num den : Nat) : Nat :=
  let q := num / den
  let r := num % den
  if 2 * r < den then q
  else if 2 * r > den then q + 1
  else if q % 2 == 0 then q else q + 1

/-- `%f` of the double with the given bits -/
def fmtF6Chars (bits : UInt64) : List Char :=
  let b : Nat := bits.toNat
  let sign : Nat := b / 2^63
  let ex : Nat := (b / 2^52) % 2048
  let frac : Nat := b % 2^52
  if ex == 2047 then
    if frac == 0 then (if sign == 1 then "-Inf".toList else "+Inf".toList) else "NaN".toList
  else
    -- value = m * 2^(e)
    let m : Nat := if ex == 0 then frac else frac + 2^52
    let e : Int := (if ex == 0 then (1:Int) else (ex : Int)) - 1075
    -- scaled = round(m * 2^e * 10^6)
    let q : Nat :=
      if e ≥ 0 then m * 2^(e.toNat) * 1000000
      else roundHalfEven (m * 1000000) (2^((-e).toNat))
    let ip := q / 1000000
    let fp := q % 1000000
    (if sign == 1 then ['-'] else []) ++ natDigits ip ++ ['.'] ++ padLeft 6 '0' (natDigits fp)

def fmtF6 (bits : UInt64) : String := String.ofList (fmtF6Chars bits)

def intChars (i : Int) : List Char :=
  if i < 0 then '-' :: natDigits i.natAbs else natDigits i.natAbs

end Grule

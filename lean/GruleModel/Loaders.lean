/-
  What the four loaders do with memory and control on arbitrary input, as far as it is decided by the
  repository's own code (C20). The cost of the ANTLR runtime's prediction, of encoding/json and of the Go
  allocator is not modelled (validated in child processes, see run/props.py: run_c20).

  Binary streams: every length- or count-prefixed read of ast/Serializer.go goes through
  `readBytesFromReader` / `preallocCount` (tie: `Gen/LoaderFacts.serializerMakes`), which grow the buffer with
  the data that actually arrives, at most `chunk` bytes ahead of it.
-/
import GruleModel.Wire
namespace Grule.Loaders

/-- `maxPrealloc` of ast/Serializer.go -/
def chunk : Nat := 65536

/-- bytes `readBytesFromReader(reader, n)` allocates when `avail` bytes remain in the stream:
    it appends blocks of at most `chunk` bytes and stops at the first block the stream cannot fill -/
def readAlloc : Nat → Nat → Nat → Nat
  | 0, _, _ => 0
  | fuel + 1, n, avail =>
    if n == 0 then 0 else
    let step := min n chunk
    if avail < step then step                          -- this block is allocated, ReadFull fails, the loader gives up
    else step + readAlloc fuel (n - step) (avail - step)

/-- a read never allocates more than one block beyond the data that is there, whatever length the field announces -/
theorem readAlloc_le (fuel n avail : Nat) : readAlloc fuel n avail ≤ avail + chunk := by
  induction fuel generalizing n avail with
  | zero => simp [readAlloc]
  | succ f ih =>
    unfold readAlloc
    by_cases h0 : (n == 0) = true
    · simp [h0]
    · simp only [h0, Bool.false_eq_true, if_false]
      by_cases h1 : avail < min n chunk
      · simp only [h1, if_true]
        have : min n chunk ≤ chunk := Nat.min_le_right _ _
        omega
      · simp only [h1, if_false]
        have := ih (n - min n chunk) (avail - min n chunk)
        omega

/-- … and a read that succeeds allocates exactly what it announced -/
theorem readAlloc_success (fuel n avail : Nat) (h : n ≤ avail) (hf : n ≤ fuel * chunk) : readAlloc fuel n avail ≤ n := by
  induction fuel generalizing n avail with
  | zero => simp [readAlloc]
  | succ f ih =>
    unfold readAlloc
    by_cases h0 : (n == 0) = true
    · simp [h0]
    · simp only [h0, Bool.false_eq_true, if_false]
      have hs : min n chunk ≤ n := Nat.min_le_left _ _
      have h1 : ¬ avail < min n chunk := by omega
      simp only [h1, if_false]
      have hc : min n chunk = n ∨ min n chunk = chunk := by
        rcases Nat.le_total n chunk with hle | hle
        · left; exact Nat.min_eq_left hle
        · right; exact Nat.min_eq_right hle
      have := ih (n - min n chunk) (avail - min n chunk) (by omega) (by
        rcases hc with hc | hc
        · rw [hc]; simp
        · rw [hc]; rw [Nat.succ_mul] at hf; omega)
      omega

/-- capacity reserved for `count` announced elements (`preallocCount`) -/
def preallocCount (count : Nat) : Nat := min count chunk

theorem preallocCount_le (count : Nat) : preallocCount count ≤ chunk := Nat.min_le_right _ _

/-- a sequence of length-prefixed reads on `bs` (as the catalog reader does, field after field): total bytes allocated
    for payloads until the stream is exhausted or a read fails -/
def readMany : Nat → List UInt8 → Nat
  | 0, _ => 0
  | fuel + 1, bs =>
    match Wire.decU64 bs with
    | .error _ => 0
    | .ok (n, rest) =>
      if n ≤ rest.length then n + readMany fuel (rest.drop n)
      else readAlloc (rest.length / chunk + 2) n rest.length

theorem decU64_rest_length (bs rest : List UInt8) (n : Nat) (h : Wire.decU64 bs = .ok (n, rest)) : rest.length + 8 = bs.length := by
  unfold Wire.decU64 at h
  split at h
  · simp at h
  · rename_i hlen
    simp only [Except.ok.injEq, Prod.mk.injEq] at h
    rw [← h.2]
    simp only [List.length_drop]
    omega

/-- **the payload allocation of a whole stream is bounded by its length plus one block** — for every byte
    string, however its length fields are set -/
theorem C20_grb_alloc_bounded (fuel : Nat) (bs : List UInt8) : readMany fuel bs ≤ bs.length + chunk := by
  induction fuel generalizing bs with
  | zero => simp [readMany]
  | succ f ih =>
    unfold readMany
    cases h : Wire.decU64 bs with
    | error e => simp
    | ok p =>
      obtain ⟨n, rest⟩ := p
      have hl := decU64_rest_length bs rest n h
      simp only
      by_cases hn : n ≤ rest.length
      · simp only [hn, if_true]
        have := ih (rest.drop n)
        simp only [List.length_drop] at this
        omega
      · simp only [hn, if_false]
        have := readAlloc_le (rest.length / chunk + 2) n rest.length
        omega

/-- a stream shorter than a field header allocates nothing -/
theorem C20_grb_short (fuel : Nat) (bs : List UInt8) (h : bs.length < 8) : readMany fuel bs = 0 := by
  cases fuel with
  | zero => rfl
  | succ f =>
    unfold readMany
    have : Wire.decU64 bs = .error (Wire.short bs) := by
      unfold Wire.decU64
      simp [h]
    simp [this]

end Grule.Loaders

/-
  C12 — binary store/load yields an equivalent knowledge base or an error.

  Byte level: `Wire.lean` / `Catalog.lean` model the format of ast/Serializer.go; the per-type field
  sequences and the frame are tied to the Go source by the T3 extractor (`Gen/WireSchema.lean`, equalities
  below by `decide`); the decoder is run on every stream the real StoreKnowledgeBaseToWriter produced and
  must re-encode it to the identical bytes.
  Knowledge-base level: `KB.storeLoad` (Library.lean), theorem `C16_storeLoad` and `C09_faithful`.
-/
import GruleModel.Catalog
import GruleModel.Gen.WireSchema
import GruleModel.Library
namespace Grule.C12
open Grule Grule.Wire

/-- **Round trip.** Loading the encoding of a catalog yields that catalog — for every catalog (any number of
    nodes, any field values incl. empty strings and zero-length constants, any map sizes). -/
theorem C12_roundtrip (c : CatalogT) (h : catalogOk c) : loadBytes (catalogEnc c) = .ok c := by
  unfold loadBytes
  have := wb_catalog.roundtrip c [] h
  rw [List.append_nil] at this
  rw [this]

/-- **Truncation.** A stream cut off at *any* byte offset before its end is rejected by the loader — never a
    knowledge base that loads and then behaves differently. -/
theorem C12_truncation (c : CatalogT) (h : catalogOk c) (k : Nat) (hk : k < (catalogEnc c).length) :
    ∃ e, loadBytes ((catalogEnc c).take k) = .error e := by
  obtain ⟨e, he⟩ := wb_catalog.prefixFails c k h hk
  exact ⟨e, by unfold loadBytes; rw [he]⟩

/-- storing what was loaded gives the same bytes again (store ∘ load ∘ store = store) -/
theorem C12_restore (c c' : CatalogT) (h : catalogOk c) (hl : loadBytes (catalogEnc c) = .ok c') :
    catalogEnc c' = catalogEnc c := by
  rw [C12_roundtrip c h] at hl
  cases hl; rfl

/-- with `overwrite = false` an existing entry is left untouched (`LoadKnowledgeBaseFromReader`, last branch) -/
def loadInto (lib : List (String × KB)) (key : String) (kb : KB) (overwrite : Bool) : Option (List (String × KB)) :=
  if overwrite then some (assocSet key kb lib)
  else if (assocGet key lib).isSome then none else some (assocSet key kb lib)

theorem C12_overwrite_false (lib : List (String × KB)) (key : String) (kb old : KB) (h : assocGet key lib = some old) :
    loadInto lib key kb false = none := by
  simp [loadInto, h]

-- the tie to ast/Serializer.go ---------------------------------------------------------------------------------

/-- every WriteMetaTo writes the fields its ReadMetaFrom reads, in the same order -/
theorem tie_write_eq_read : Gen.wireWrite = Gen.wireRead := by decide

/-- … and they are the sequences the model's schemas prescribe -/
theorem tie_schema : sortByName Gen.wireWrite = sortByName expectedToks := by decide

theorem tie_frame : Gen.frameWrite = expectedFrameWrite ∧ Gen.frameRead = expectedFrameRead := by decide

/-- the removal flag is not part of the format (removed rules are not stored: C16_storeLoad) -/
theorem tie_no_deleted_field : Gen.ruleEntryMetaHasDeleted = false := by decide

/-- non-vacuity: a catalog with one constant record (zero-length value), an argument list and a map entry -/
example : catalogOk
    (versionBytes, [75], [49], [([1], 4, ([1], [], [67]), [.u64 0, .rawBool [] true]), ([2], 0, ([2], [], []), [.strs [[1], [3]]])],
     [75], [49], [([86], [1])], [], [], [([1], [[2]])], []) := by
  simp only [catalogOk, okBytes, metaOk, metaBodyOk, strMapOk, strListMapOk]
  refine ⟨⟨by decide, by decide⟩, by decide, by decide, ⟨by decide, ?_⟩, by decide, by decide, ⟨by decide, by decide⟩, ⟨by decide, by decide⟩,
    ⟨by decide, by decide⟩, ⟨by decide, by decide⟩, ⟨by decide, by decide⟩⟩
  intro m hm
  simp only [List.mem_cons, List.mem_nil_iff, or_false] at hm
  rcases hm with hm | hm <;> subst hm
  · exact ⟨by decide, by decide, "ConstantMeta", [.u64, .rawBool], rfl, ⟨by decide, by decide, by decide⟩, by simp [Fits, MV.fits]⟩
  · exact ⟨by decide, by decide, "ArgumentListMeta", [.strs], rfl, ⟨by decide, by decide, by decide⟩, by simp [Fits, MV.fits]⟩

end Grule.C12

#print axioms Grule.C12.C12_roundtrip
#print axioms Grule.C12.C12_truncation
#print axioms Grule.C12.C12_restore
#print axioms Grule.C12.C12_overwrite_false
#print axioms Grule.C12.tie_write_eq_read
#print axioms Grule.C12.tie_schema
#print axioms Grule.C12.tie_frame
#print axioms Grule.Wire.wb_catalog

/-
  C16 — rule names stay unique and removed rules never fire again.
  Model: `Library.lean` (KB.build / addRules, removeEntry with both tomb-stone namings, instantiate,
  storeLoad), mirroring ast/KnowledgeBase.go, ast/Grl.go, builder/RuleBuilder.go and the registering side
  of the listener.
-/
import GruleModel.Library
import GruleModel.Proofs.SpecTrace
namespace Grule.C16
open Grule

/-- the entry map is a map: keys are unique, and every entry sits under its own RuleName -/
structure MapInv (entries : List RuleEntry) : Prop where
  nodup : (entries.map (·.key)).Nodup
  keyIsName : ∀ e ∈ entries, e.key = e.rule.name

theorem contains_iff (kb : KB) (k : String) : kb.contains k = true ↔ k ∈ kb.entries.map (·.key) := by
  unfold KB.contains
  simp only [List.any_eq_true, List.mem_map, beq_iff_eq]

/-- one `AddRuleEntry` step of `ExitGrl` -/
def addStep (acc : KB × Nat) (r : Rule) : KB × Nat :=
  if acc.1.contains r.name then (acc.1, acc.2 + 1)
  else ({ acc.1 with entries := acc.1.entries ++ [{ key := r.name, rule := r }] }, acc.2)

theorem addStep_inv (acc : KB × Nat) (r : Rule) (h : MapInv acc.1.entries) : MapInv (addStep acc r).1.entries := by
  unfold addStep
  split
  · exact h
  · rename_i hc
    have hnot : r.name ∉ acc.1.entries.map (·.key) := fun hm => hc ((contains_iff acc.1 r.name).mpr hm)
    constructor
    · simp only [List.map_append, List.map_cons, List.map_nil]
      rw [List.nodup_append]
      refine ⟨h.nodup, by simp, ?_⟩
      intro a ha b hb
      simp only [List.mem_singleton] at hb
      subst hb
      intro e; subst e; exact hnot ha
    · intro e he
      simp only [List.mem_append, List.mem_singleton] at he
      rcases he with he | he
      · exact h.keyIsName e he
      · subst he; rfl

theorem addStep_keeps (acc : KB × Nat) (r : Rule) : ∀ e ∈ acc.1.entries, e ∈ (addStep acc r).1.entries := by
  intro e he
  unfold addStep
  split
  · exact he
  · simp [he]

theorem foldl_addStep_inv (rs : List Rule) : ∀ (acc : KB × Nat), MapInv acc.1.entries →
    MapInv (rs.foldl addStep acc).1.entries ∧ (∀ e ∈ acc.1.entries, e ∈ (rs.foldl addStep acc).1.entries) ∧
    acc.2 ≤ (rs.foldl addStep acc).2 := by
  induction rs with
  | nil => intro acc h; exact ⟨h, fun e he => he, Nat.le_refl _⟩
  | cons r rest ih =>
    intro acc h
    simp only [List.foldl_cons]
    obtain ⟨h1, h2, h3⟩ := ih (addStep acc r) (addStep_inv acc r h)
    refine ⟨h1, fun e he => h2 e (addStep_keeps acc r e he), Nat.le_trans ?_ h3⟩
    unfold addStep; split <;> simp

/-- **Building keeps the map a map and never touches an existing entry**: every entry present before a
    `BuildRuleFromResource` — accepted or rejected, with duplicate names inside or across resources — is
    still there, unchanged, afterwards. -/
theorem C16_build_preserves (ft : LitText) (kb : KB) (rules : List Rule) (h : MapInv kb.entries) :
    MapInv (kb.build ft rules).1.entries ∧ ∀ e ∈ kb.entries, e ∈ (kb.build ft rules).1.entries := by
  unfold KB.build KB.addRules
  simp only
  generalize (List.foldl _ (([] : List Rule), 0) rules) = g
  obtain ⟨grl, e1⟩ := g
  simp only
  have := foldl_addStep_inv grl ({ kb with wm := List.foldl (regRule ft) kb.wm rules }, e1) h
  exact ⟨this.1, this.2.1⟩

/-- a rule whose name is already active is reported as an error -/
theorem addStep_dup_counts (acc : KB × Nat) (r : Rule) (h : acc.1.contains r.name = true) :
    (addStep acc r).2 = acc.2 + 1 ∧ (addStep acc r).1 = acc.1 := by
  unfold addStep; simp [h]

-- removal ------------------------------------------------------------------------------------------------

/-- **After RemoveRuleEntry the name is free and the rule is tomb-stoned**: no entry sits under the name, the
    entry that did is flagged `deleted` (so it is never a candidate, never fetched — `CandOn`, `C11_exact`
    require `deleted = false`), every other entry is untouched. Holds for both tomb-stone namings. -/
theorem C16_remove (newName : String → String) (entries : List RuleEntry) (name : String) (e : RuleEntry)
    (hfind : entries.find? (·.key == name) = some e) (hnn : newName e.rule.name ≠ name) :
    (∀ x ∈ removeEntry newName entries name, x.key ≠ name) ∧
    (∃ x ∈ removeEntry newName entries name, x.key = newName e.rule.name ∧ x.deleted = true) ∧
    (∀ x ∈ entries, x.key ≠ name → x.key ≠ newName e.rule.name → x ∈ removeEntry newName entries name) := by
  unfold removeEntry
  simp only [hfind]
  refine ⟨?_, ?_, ?_⟩
  · intro x hx
    simp only [List.mem_append, List.mem_filter, List.mem_singleton, Bool.and_eq_true, bne_iff_ne, ne_eq] at hx
    rcases hx with ⟨_, h1, _⟩ | hx
    · exact h1
    · subst hx; exact hnn
  · refine ⟨{ key := newName e.rule.name, rule := { e.rule with name := newName e.rule.name }, deleted := true }, ?_, rfl, rfl⟩
    simp
  · intro x hx h1 h2
    simp only [List.mem_append, List.mem_filter, Bool.and_eq_true, bne_iff_ne, ne_eq]
    exact Or.inl ⟨hx, h1, h2⟩

theorem C16_remove_inv (newName : String → String) (entries : List RuleEntry) (name : String) (h : MapInv entries) :
    MapInv (removeEntry newName entries name) := by
  unfold removeEntry
  cases hf : entries.find? (·.key == name) with
  | none => exact h
  | some e =>
    simp only
    constructor
    · simp only [List.map_append, List.map_cons, List.map_nil]
      rw [List.nodup_append]
      refine ⟨?_, by simp, ?_⟩
      · exact (h.nodup.sublist (List.Sublist.map _ List.filter_sublist))
      · intro a ha b hb
        simp only [List.mem_singleton] at hb
        subst hb
        simp only [List.mem_map, List.mem_filter, Bool.and_eq_true, bne_iff_ne, ne_eq] at ha
        obtain ⟨x, ⟨_, _, hx2⟩, hxa⟩ := ha
        intro e'; subst e'; exact hx2 hxa
    · intro x hx
      simp only [List.mem_append, List.mem_filter, List.mem_singleton] at hx
      rcases hx with ⟨hx, _⟩ | hx
      · exact h.keyIsName x hx
      · subst hx; rfl

/-- **The name can be used again**: after removal no entry has the key, so a later resource defining the name is
    added under it (`addStep`, first branch not taken) -/
theorem C16_name_reusable (acc : KB × Nat) (r : Rule) (hfree : acc.1.contains r.name = false) :
    (⟨r.name, r, false⟩ : RuleEntry) ∈ (addStep acc r).1.entries ∧ (addStep acc r).2 = acc.2 := by
  unfold addStep; simp [hfree]

/-- **Store and load never bring a removed rule back**: what `load (store kb)` yields has no tomb-stoned entry and
    exactly the live entries of `kb`, under their names -/
theorem C16_storeLoad (kb : KB) :
    (∀ e ∈ kb.storeLoad.entries, e.deleted = false) ∧
    (kb.storeLoad.entries.map (·.rule) = (kb.entries.filter (fun e => !e.deleted)).map (·.rule)) := by
  unfold KB.storeLoad
  simp only
  refine ⟨?_, ?_⟩
  · intro e he
    simp only [List.mem_map, List.mem_filter, Bool.not_eq_true'] at he
    obtain ⟨x, ⟨_, hx⟩, hxe⟩ := he
    subst hxe; exact hx
  · simp [List.map_map, Function.comp_def]

/-- instances carry the removal flags of the blueprint (a rule removed from the library is removed in every instance
    created afterwards) -/
theorem C16_instance_keeps_flags (kb : KB) : ∀ i, kb.instantiate = some i → i.entries = kb.entries := by
  intro i h
  unfold KB.instantiate at h
  cases h; rfl

end Grule.C16

#print axioms Grule.C16.C16_build_preserves
#print axioms Grule.C16.C16_remove
#print axioms Grule.C16.C16_remove_inv
#print axioms Grule.C16.C16_name_reusable
#print axioms Grule.C16.C16_storeLoad
#print axioms Grule.C16.C16_instance_keeps_flags

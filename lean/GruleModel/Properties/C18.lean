/-
  C18 — JSON rule definitions translate to GRL with the same meaning.

  Model: `Json/Translate` (pkg/JsonResource.go function by function: depth-dependent bracketing, noWrap, the
  `!( … )` form of the single-operand `not`, number and string formatting) and `Json/Sem` (the operator tree read
  directly as a syntax tree, operands grouped as nested).

  Proved here: malformed documents are rejected (every arm of the translator that the property names), and the
  building blocks of "string constants round-trip". That the translated text *parses to* the operator tree needs
  the print/parse round trip of the GRL front end, which is not proved (DESIGN.md §5.C05); it is checked on every
  run by the correspondence (model text = real text byte for byte, model parse of the text = Sem modulo grouping
  parentheses) and, independently of the model's parser, by running the real engine on the translated text and on
  the explicitly grouped meaning.
-/
import GruleModel.Json.Sem
import GruleModel.Proofs.QuoteRoundTrip
namespace Grule.C18
open Grule Grule.Json Grule.Syntax

def one : J := .num 0x3FF0000000000000
def objFI : J := .obj (.cons "obj".toList (.str "F.I".toList) .nil)

/-- an operator the translator does not know is an error, at any depth below the guard, whatever its operands -/
theorem C18_unknown_operator (fuel depth : Nat) (key : List Char) (v : J) (hd : depth ≤ 1024)
    (h1 : key ≠ "and".toList) (h2 : key ≠ "or".toList) (h3 : key ≠ "set".toList) (h4 : key ≠ "call".toList)
    (h5 : key ≠ "obj".toList) (h6 : key ≠ "const".toList) (h7 : opText key = none) :
    buildEx (fuel + 1) (.obj (.cons key v .nil)) depth = bad "unknown operator type" := by
  have hd' : ¬ depth > 1024 := by omega
  simp only [buildEx, hd', if_false, beq_iff_eq, h1, h2, h3, h4, h5, h6, h7]

/-- an operator object with two keys is an error -/
theorem C18_two_keys (fuel depth : Nat) (k1 k2 : List Char) (v1 v2 : J) (rest : JKV) (hd : depth ≤ 1024) :
    buildEx (fuel + 1) (.obj (.cons k1 v1 (.cons k2 v2 rest))) depth =
      bad "expression objects can only contain a single operation type" := by
  have hd' : ¬ depth > 1024 := by omega
  simp only [buildEx, hd', if_false]

/-- an empty operator object is an error -/
theorem C18_empty_object (fuel depth : Nat) (hd : depth ≤ 1024) :
    buildEx (fuel + 1) (.obj .nil) depth = bad "boolean expression cannot be empty" := by
  have hd' : ¬ depth > 1024 := by omega
  simp only [buildEx, hd', if_false]

/-- wrong arity: no operand at all -/
theorem C18_arity_zero (fuel : Nat) (op : List Char) :
    joinOperator (fuel + 1) (.arr .nil) op = bad "operator cannot have 0 operands" := by
  simp [joinOperator, JL.length]

/-- `and` / `or` need two operands … -/
theorem C18_compound_arity (fuel depth : Nat) (op : List Char) (x : J) :
    compound (fuel + 1) (.arr .nil) depth op = bad "and operator must have at least 2 operands" ∧
    compound (fuel + 1) (.arr (.cons x .nil)) depth op = bad "and operator must have at least 2 operands" := by
  constructor <;> simp [compound, JL.length]

/-- … and every operand of `and` / `or` must be an operator object -/
theorem C18_compound_operand_type (fuel depth : Nat) (rest : JL) (s : List Char) (b : Bool) (n : UInt64) :
    compoundParts (fuel + 1) (.cons (.str s) rest) depth = bad "and operands must be an array of objects" ∧
    compoundParts (fuel + 1) (.cons (.bool b) rest) depth = bad "and operands must be an array of objects" ∧
    compoundParts (fuel + 1) (.cons (.num n) rest) depth = bad "and operands must be an array of objects" ∧
    compoundParts (fuel + 1) (.cons .null rest) depth = bad "and operands must be an array of objects" := by
  refine ⟨?_, ?_, ?_, ?_⟩ <;> simp [compoundParts]

/-- `set` takes exactly two operands -/
theorem C18_set_arity (fuel : Nat) (a b c : J) (rest : JL) :
    joinSet (fuel + 1) (.arr .nil) = bad "set operand count must be 2" ∧
    joinSet (fuel + 1) (.arr (.cons a .nil)) = bad "set operand count must be 2" ∧
    joinSet (fuel + 1) (.arr (.cons a (.cons b (.cons c rest)))) = bad "set operand count must be 2" := by
  refine ⟨?_, ?_, ?_⟩ <;> simp [joinSet]

/-- `call` needs a callee, and the callee is a string -/
theorem C18_call_shape (fuel : Nat) (n : UInt64) (rest : JL) :
    joinCall (fuel + 1) (.arr .nil) = bad "call operator must have at least one operand" ∧
    joinCall (fuel + 1) (.arr (.cons (.num n) rest)) = bad "first call operand must be a string" := by
  constructor <;> simp [joinCall]

/-- operands that are neither string, number, boolean nor object are errors -/
theorem C18_operand_type (fuel : Nat) (noWrap neg : Bool) (xs : JL) :
    operand (fuel + 1) .null noWrap neg = bad "operand has an invalid type" ∧
    operand (fuel + 1) (.arr xs) noWrap neg = bad "operand has an invalid type" := by
  constructor <;> simp [operand]

/-- a rule without a name, without `when` or without `then` is rejected -/
theorem C18_missing_parts (r : RuleJ) :
    (r.name = [] → Json.parseRule r = bad "rule name cannot be blank") ∧
    (r.name ≠ [] → r.when = .null → Json.parseRule r = bad "rule when condition cannot be nil") ∧
    (r.name ≠ [] → r.when ≠ .null → r.then_ = none → Json.parseRule r = bad "rule then condition cannot be nil") := by
  refine ⟨?_, ?_, ?_⟩
  · intro h; simp [Json.parseRule, h]
  · intro h1 h2
    have : r.name.isEmpty = false := by cases hn : r.name <;> simp_all
    simp [Json.parseRule, this, h2]
  · intro h1 h2 h3
    have : r.name.isEmpty = false := by cases hn : r.name <;> simp_all
    unfold Json.parseRule
    simp only [this]
    cases hw : r.when <;> simp_all

/-- an error anywhere in a rule set rejects the whole set (no text is produced) -/
theorem C18_ruleset_all_or_nothing (r : RuleJ) (rest : List RuleJ) (e : TErr) :
    (Json.parseRule r = .error e → Json.parseRuleset (r :: rest) = .error e) ∧
    (∀ t, Json.parseRule r = .ok t → Json.parseRuleset rest = .error e → Json.parseRuleset (r :: rest) = .error e) := by
  constructor
  · intro h; simp [Json.parseRuleset, h, bind, Except.bind]
  · intro t h1 h2; simp [Json.parseRuleset, h1, h2, bind, Except.bind]

-- bracketing: the places where the translator adds parentheses --------------------------------------------------

/-- an operator-object operand of an operator is parenthesised, unless it is obj / const / set / call -/
theorem C18_operand_wrapped (fuel : Nat) (o : JKV) (expr : List Char) (h : buildEx fuel (.obj o) 0 = .ok (expr, false)) :
    operand (fuel + 1) (.obj o) false false = .ok (['('] ++ expr ++ [')']) ∧
    operand (fuel + 1) (.obj o) false true = .ok ("!(".toList ++ expr ++ [')']) ∧
    operand (fuel + 1) (.obj o) true false = .ok expr := by
  refine ⟨?_, ?_, ?_⟩ <;> simp [operand, h, bind, Except.bind, pure, Except.pure]

/-- examples evaluated by the kernel (tests of the model, not the unbounded claim) -/
def okIs (r : T (List Char)) (s : String) : Bool := match r with | .ok x => x == s.toList | .error _ => false

example : okIs ((buildEx 50 (.obj (.cons "minus".toList (.arr (.cons one (.cons (.obj (.cons "minus".toList (.arr (.cons one (.cons one .nil))) .nil)) .nil))) .nil)) 0).map (·.1))
    "1 - (1 - 1)" = true := by decide +kernel
example : fmtNumber 0x412E848000000000 = "1000000".toList ∧ fmtNumber 0x43E158E460913D00 = "10000000000000000000.0".toList ∧
    fmtNumber 0x3E7AD7F29ABCAF48 = "0.0000001".toList ∧ fmtNumber 0xC3E0000000000000 = "-9223372036854776000.0".toList := by
  decide +kernel
example : okIs (quoteGo "a\"b\\c\n\x01é".toList) "\"a\\\"b\\\\c\\n\\x01é\"" = true := by decide +kernel
example : unquote "\"a\\\"b\\\\c\\n\\x01é\"".toList = .ok "a\"b\\c\n\x01é".toList := by decide +kernel

/-- **String constants round-trip exactly whatever characters they contain**: the literal `strconv.Quote` writes
    (`quoteGo`) is read back by the listener's `unquoteString` (`unquote`) as exactly the same string — every length,
    every code point of the modelled `IsPrint` table (all of ASCII with quotes, backslashes, control characters; the listed
    printable and unprintable non-ASCII code points). `Proofs/QuoteRoundTrip.lean`. -/
theorem C18_const_string (s q : List Char) (h : quoteGo s = .ok q) : unquote q = .ok s :=
  QuoteRoundTrip.C18_const_string s q h

example : (match quoteGo "a\"b\\\n\x01é".toList with | .ok _ => true | .error _ => false) = true := by decide +kernel

#print axioms C18_unknown_operator
#print axioms C18_two_keys
#print axioms C18_empty_object
#print axioms C18_arity_zero
#print axioms C18_compound_arity
#print axioms C18_compound_operand_type
#print axioms C18_set_arity
#print axioms C18_call_shape
#print axioms C18_operand_type
#print axioms C18_missing_parts
#print axioms C18_ruleset_all_or_nothing
#print axioms C18_operand_wrapped
#print axioms C18_const_string

end Grule.C18

/-
  C15 — cancellation stops the run before any further rule fires.
  Poll points of the model, in code order: top of every cycle, before every entry of the pass, on entry of
  RuleEntry.Evaluate, once after the pass, on entry of RuleEntry.Execute. A cancelled context stays
  cancelled (`pollsCancelled_mono`).
-/
import GruleModel.Proofs.Side
namespace Grule.C15
open Grule

/-- **No action after cancellation.** From any state of the reference loop in which a `ctx.Err()` call would
    report cancellation, the rest of the run touches neither the facts nor the retract/complete flags,
    fires nothing, and ends with the context's error. In particular the actions that were running when
    the flag was raised are the last ones (the flag is only read at poll points). -/
theorem C15_no_action_after_cancel {c : Cfg} (rc : RunCfg) (entries : List RuleEntry) (fuel cycle : Nat) (ss : SState)
    (h : pollsCancelled rc ss = true) :
    (specLoop rc c entries (fuel + 1) cycle ss).1 = .ctx ∧
    (specLoop rc c entries (fuel + 1) cycle ss).2.vis = ss.vis ∧
    (specLoop rc c entries (fuel + 1) cycle ss).2.fired = ss.fired ∧
    (specLoop rc c entries (fuel + 1) cycle ss).2.trace = ss.trace := by
  unfold pollsCancelled at h
  simp only [specLoop, h, if_true]
  exact ⟨trivial, rfl, rfl, rfl⟩

/-- **Already cancelled: nothing fires at all** (engine with working memory, under `Side`): the listeners
    see nothing, the facts are untouched, the result is the context's error. -/
theorem C15_precancelled {c : Cfg} (rc : RunCfg) (inst : Instance) (st : Store) (h : Side c inst.entries)
    (hc : rc.cancelAt = some 0) :
    (execute rc c inst st).outcome = .ctx ∧ (execute rc c inst st).trace = [] ∧ (execute rc c inst st).store = st := by
  obtain ⟨ho, htr, hst, _, _⟩ := execute_refines h.pure h.inj rc inst st h.wf h.frame
  rw [ho, htr, hst]
  have hp : pollsCancelled rc { vis := { st := st } } = true := by
    unfold pollsCancelled specPoll
    simp [hc]
  obtain ⟨h1, h2, _, h4⟩ := C15_no_action_after_cancel (c := c) rc inst.entries rc.maxCycle 0 { vis := { st := st } } hp
  unfold specExecute
  dsimp only
  generalize specLoop rc c inst.entries (rc.maxCycle + 1) 0 { vis := { st := st } } = sl at h1 h2 h4
  obtain ⟨o, ss⟩ := sl
  simp only at h1 h2 h4 ⊢
  subst h1
  refine ⟨rfl, by rw [h4]; rfl, by rw [h2]⟩

end Grule.C15

#print axioms Grule.C15.C15_no_action_after_cancel
#print axioms Grule.C15.C15_precancelled

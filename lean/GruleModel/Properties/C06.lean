/-
  C06 — every run terminates within the cycle budget and reports itself faithfully.
  Termination: `runLoop` / `specLoop` are structurally recursive on the fuel `maxCycle + 1`; Lean's
  termination checker is the proof that the loop returns whenever every condition and action does.
-/
import GruleModel.Proofs.Side
namespace Grule.C06
open Grule

/-- the `exec` events of the listener trace -/
abbrev firings (tr : List TEv) : List (Nat × String) := execList tr

/-- **At most MaxCycle firings; the cycle-limit error exactly after MaxCycle firings** (engine with working
    memory, under `Side`; every MaxCycle ≥ 0, rule set, fact state, order, cancellation point). -/
theorem C06_fires_le_max {c : Cfg} (rc : RunCfg) (inst : Instance) (st : Store) (h : Side c inst.entries) :
    (firings (execute rc c inst st).trace).length ≤ rc.maxCycle ∧
    ((execute rc c inst st).outcome = .cycleLimit → (firings (execute rc c inst st).trace).length = rc.maxCycle) := by
  obtain ⟨ho, htr, _⟩ := execute_refines h.pure h.inj rc inst st h.wf h.frame
  rw [ho, htr]
  have hx := refRun_exec rc c inst st
  unfold refRun at hx
  unfold firings
  rw [hx]
  unfold specExecute firedNames
  dsimp only
  have := specLoop_count (c := c) rc inst.entries (rc.maxCycle + 1) 0 { vis := { st := st } } rfl (Nat.zero_le _)
  generalize specLoop rc c inst.entries (rc.maxCycle + 1) 0 { vis := { st := st } } = sl at this
  obtain ⟨o, ss⟩ := sl
  simp only [List.length_map, List.length_reverse] at this ⊢
  exact this

/-- the candidate status the listeners hear is the real one: the `eval` events of a pass carry exactly
    `Satisfied` (see `C02_pass_complete`), and the engine's events are the reference loop's
    (`execute_refines`). Restated here for the trace as a whole. -/
theorem C06_trace_is_reference_trace {c : Cfg} (rc : RunCfg) (inst : Instance) (st : Store) (h : Side c inst.entries) :
    (execute rc c inst st).trace = (refRun rc c inst st).trace ∧
    (execute rc c inst st).outcome = (refRun rc c inst st).outcome :=
  let r := execute_refines h.pure h.inj rc inst st h.wf h.frame
  ⟨r.2.1, r.1⟩

/-- the model of `notify*` hands the same arguments to every registered listener in turn: the run has one
    trace, whatever the number of listeners (0 included) — by construction of `LoopState.emit`. -/
theorem C06_one_trace (ls : LoopState) (e : TEv) : (ls.emit e).trace = e :: ls.trace := rfl

end Grule.C06

#print axioms Grule.C06.C06_fires_le_max
#print axioms Grule.C06.C06_trace_is_reference_trace
#print axioms Grule.C06.C06_one_trace

/-
  C10 — Retract and Complete have exactly their documented control effect.
-/
import GruleModel.Proofs.Side
namespace Grule.C10
open Grule

def retractStmt (n : String) : Action := .stmt (.call "Retract" (.cons (.atom (.const (.str n))) .nil))
def completeStmt : Action := .stmt (.call "Complete" .nil)

/-- `Retract("n")` marks exactly the name `n`, touches nothing else, never fails — known or unknown name -/
theorem C10_retract_effect (c : Cfg) (v : Vis) (n : String) :
    specAction c v (retractStmt n) = (.ok (), { v with retracted := n :: v.retracted }) := by
  simp [retractStmt, specAction, isEffectful, specArgs, specE, specA, constVal, specEffect]

/-- `Complete()` sets the flag and nothing else; the remaining actions of the list still run -/
theorem C10_complete_effect (c : Cfg) (v : Vis) (rest : List Action) :
    specActions c v (completeStmt :: rest) = specActions c { v with complete := true } rest := by
  simp [completeStmt, specActions, specAction, isEffectful, specArgs, specEffect]

/-- an entry whose name was retracted is skipped by every later pass: it is never a candidate -/
theorem C10_retracted_never_candidate {c : Cfg} (rc : RunCfg) (cyc : Nat) (es : List RuleEntry) (ss : SState)
    (x : RuleEntry) (hx : x ∈ (specPass rc c cyc es ss []).2.2) : visRetracted ss.vis x = false := by
  rcases (specPass_spec (c := c) rc cyc es ss []).2.2 x hx with h | h
  · cases h
  · exact h.2.1

/-- only the named rule is affected: for any other name the retracted status is unchanged -/
theorem C10_retract_only_named (v : Vis) (n : String) (x : RuleEntry) (hne : x.rule.name ≠ n) :
    visRetracted { v with retracted := n :: v.retracted } x = visRetracted v x := by
  simp only [visRetracted, List.contains_cons]
  have : (x.rule.name == n) = false := by simpa using hne
  simp [this]

/-- an unknown name changes no rule's status -/
theorem C10_retract_unknown_noop (v : Vis) (n : String) (entries : List RuleEntry)
    (hun : ∀ x ∈ entries, x.rule.name ≠ n) :
    ∀ x ∈ entries, visRetracted { v with retracted := n :: v.retracted } x = visRetracted v x :=
  fun x hx => C10_retract_only_named v n x (hun x hx)

/-- retracting is case sensitive and exact: the name is compared with `==` on strings -/
example : visRetracted { st := [], retracted := ["audit"] }
    { key := "Audit", rule := { name := "Audit", desc := "", salience := 0, cond := default, acts := [] } } = false := by
  decide

/-- after a firing whose actions called `Complete()` the loop returns nil at once: no further pass, no
    further firing (one unfolding of the reference loop) -/
theorem C10_complete_ends_run {c : Cfg} (rc : RunCfg) (entries : List RuleEntry) (fuel cycle : Nat) (ss : SState)
    (v' : Vis) (u : Unit) (hcomp : v'.complete = true) :
    (if v'.complete then (Outcome.ok, { ss with vis := v' }) else specLoop rc c entries fuel cycle { ss with vis := v' }) =
    (Outcome.ok, { ss with vis := v' }) := by
  simp only [hcomp, if_true]

end Grule.C10

#print axioms Grule.C10.C10_retract_effect
#print axioms Grule.C10.C10_complete_effect
#print axioms Grule.C10.C10_retracted_never_candidate
#print axioms Grule.C10.C10_retract_only_named
#print axioms Grule.C10.C10_retract_unknown_noop

/-
  C17 — a GRL document is accepted exactly when it is grammatical.

  Model: `Syntax/Lexer` (every lexer rule of antlr/grulev3.g4, maximal munch, first rule wins, the runtime's
  error recovery), `Syntax/Parser` (the parser rules as a recursive-descent recogniser building the listener's
  AST), `Syntax/Literal` (ParseInt base 0, ParseFloat, unquoteString), `Syntax/Front` (the verdict),
  `Syntax/Build` (`KB.buildText` = BuildRuleFromResource), `Library` (duplicate names).

  What is proved here is the second half of the chain: *given* the recogniser's verdict, what the builder does
  to the knowledge base. That the recogniser's verdict is the real lexer's + generated parser's + listener's
  verdict is the correspondence (`run/props.py: run_c17`, token- and character-level mutations); its ties to
  the current sources that can be regenerated are in `Properties/SyntaxTie.lean` (re-exported below).
-/
import GruleModel.Proofs.LexDoc
import GruleModel.Syntax.Build
import GruleModel.Properties.C16
import GruleModel.Properties.SyntaxTie
import GruleModel.Proofs.RealLiterals
import GruleModel.Proofs.LexFacts
import GruleModel.Proofs.ParseRangeDoc
namespace Grule.C17
open Grule Grule.Syntax Grule.C16

/-- the de-duplication of `Grl.ReceiveRuleEntry` -/
def dedupStep (acc : List Rule × Nat) (r : Rule) : List Rule × Nat :=
  if acc.1.any (·.name == r.name) then (acc.1, acc.2 + 1) else (acc.1 ++ [r], acc.2)

theorem dedup_nodup (rs : List Rule) : ∀ (pre : List Rule) (n : Nat), ((pre ++ rs).map (·.name)).Nodup →
    rs.foldl dedupStep (pre, n) = (pre ++ rs, n) := by
  induction rs with
  | nil => intro pre n _; simp
  | cons r rest ih =>
    intro pre n h
    simp only [List.foldl_cons]
    have hnot : (pre.any (·.name == r.name)) = false := by
      rw [Bool.eq_false_iff]
      intro hc
      simp only [List.any_eq_true, beq_iff_eq] at hc
      obtain ⟨x, hx, hxe⟩ := hc
      simp only [List.map_append, List.map_cons] at h
      rw [List.nodup_append] at h
      exact h.2.2 x.name (List.mem_map_of_mem hx) r.name (by simp) hxe
    have : dedupStep (pre, n) r = (pre ++ [r], n) := by simp [dedupStep, hnot]
    rw [this]
    have h' : (((pre ++ [r]) ++ rest).map (·.name)).Nodup := by simpa using h
    simpa using ih (pre ++ [r]) n h'

theorem addAll_fresh (rs : List Rule) : ∀ (acc : KB × Nat), (rs.map (·.name)).Nodup →
    (∀ r ∈ rs, acc.1.contains r.name = false) →
    (rs.foldl addStep acc).2 = acc.2 ∧
    (∀ r ∈ rs, ({ key := r.name, rule := r } : RuleEntry) ∈ (rs.foldl addStep acc).1.entries) ∧
    (rs.foldl addStep acc).1.entries = acc.1.entries ++ rs.map (fun r => { key := r.name, rule := r }) := by
  induction rs with
  | nil => intro acc _ _; simp
  | cons r rest ih =>
    intro acc hn hf
    simp only [List.foldl_cons]
    have hr : acc.1.contains r.name = false := hf r (by simp)
    have hstep : addStep acc r = ({ acc.1 with entries := acc.1.entries ++ [{ key := r.name, rule := r }] }, acc.2) := by
      simp [addStep, hr]
    rw [hstep]
    simp only [List.map_cons, List.nodup_cons] at hn
    have hf' : ∀ x ∈ rest, ({ acc.1 with entries := acc.1.entries ++ [{ key := r.name, rule := r }] } : KB).contains x.name = false := by
      intro x hx
      have h1 := hf x (by simp [hx])
      unfold KB.contains at h1 ⊢
      simp only [List.any_append, List.any_cons, List.any_nil, Bool.or_false, h1, Bool.false_or]
      rw [Bool.eq_false_iff]
      intro hc
      simp only [beq_iff_eq] at hc
      exact hn.1 (hc ▸ List.mem_map_of_mem hx)
    obtain ⟨h1, h2, h3⟩ := ih ({ acc.1 with entries := acc.1.entries ++ [{ key := r.name, rule := r }] }, acc.2) hn.2 hf'
    refine ⟨h1, ?_, ?_⟩
    · intro x hx
      simp only [List.mem_cons] at hx
      rcases hx with hx | hx
      · subst hx
        rw [h3]
        simp
      · exact h2 x hx
    · rw [h3]; simp

/-- **Sentence 1, second half** — when the text is accepted by the front end (lexes, parses, valid literals,
    saliences in range) and its rule names are distinct and not yet in the knowledge base, the builder reports
    no error and every rule of the text is in the knowledge base under its name, with the description,
    salience, condition and actions it has in the text; nothing else changes. -/
theorem C17_accepted_all_present (kb : KB) (text : List Char)
    (hacc : (front text).verdict = .accepted)
    (hdistinct : ((front text).rules.map (·.name)).Nodup)
    (hfresh : ∀ r ∈ (front text).rules, kb.contains r.name = false) :
    (kb.buildText text).2 = 0 ∧
    (∀ r ∈ (front text).rules, ({ key := r.name, rule := r } : RuleEntry) ∈ (kb.buildText text).1.entries) ∧
    (kb.buildText text).1.entries = kb.entries ++ (front text).rules.map (fun r => { key := r.name, rule := r }) := by
  unfold KB.buildText
  simp only [hacc, beq_self_eq_true, if_true]
  unfold KB.build KB.addRules
  simp only
  have hd := dedup_nodup (front text).rules [] 0 (by simpa using hdistinct)
  have hd' : List.foldl (fun (acc : List Rule × Nat) (r : Rule) =>
      if acc.1.any (·.name == r.name) then (acc.1, acc.2 + 1) else (acc.1 ++ [r], acc.2)) ([], 0) (front text).rules
      = ((front text).rules, 0) := hd
  rw [hd']
  simp only
  have := addAll_fresh (front text).rules
    ({ kb with wm := List.foldl (regRule (LitText.ofTable (constTexts (lex text).toks))) kb.wm (front text).rules }, 0) hdistinct
    (by intro r hr; simpa [KB.contains] using hfresh r hr)
  exact ⟨this.1, this.2.1, this.2.2⟩

/-- **Sentences 2 and 3** — a text the front end rejects yields an error and leaves the knowledge base exactly
    as it was: the same entries, the same working memory, hence the same instances, the same stored stream and
    the same runs as before. -/
theorem C17_rejected_harmless (kb : KB) (text : List Char) (hrej : (front text).verdict ≠ .accepted) :
    (kb.buildText text).2 ≥ 1 ∧ (kb.buildText text).1 = kb := by
  unfold KB.buildText
  have : ((front text).verdict == Verdict.accepted) = false := by
    rw [Bool.eq_false_iff]; intro h; exact hrej (by simpa using h)
  simp [this]

theorem C17_rejected_same_instances (kb : KB) (text : List Char) (hrej : (front text).verdict ≠ .accepted) :
    (kb.buildText text).1.instantiate = kb.instantiate ∧ (kb.buildText text).1.storeLoad = kb.storeLoad := by
  rw [(C17_rejected_harmless kb text hrej).2]; exact ⟨rfl, rfl⟩

/-- whatever the text, what was loaded before stays (duplicates included: the existing rule stays in force) -/
theorem C17_existing_rules_stay (kb : KB) (text : List Char) (h : MapInv kb.entries) :
    MapInv (kb.buildText text).1.entries ∧ ∀ e ∈ kb.entries, e ∈ (kb.buildText text).1.entries := by
  unfold KB.buildText
  dsimp only
  split
  · exact C16_build_preserves _ kb _ h
  · exact ⟨h, fun e he => he⟩

/-- the front end never hands over rules of a text it does not accept -/
theorem front_rules_eq (text : List Char) :
    (front text).rules = if (front text).verdict == .accepted then (parseDoc realDec (lex text).toks).1 else [] := rfl

theorem front_rules_only_when_accepted (text : List Char) (h : (front text).verdict ≠ .accepted) :
    (front text).rules = [] := by
  rw [front_rules_eq]
  have : ((front text).verdict == Verdict.accepted) = false := by
    rw [Bool.eq_false_iff]; intro hc; exact h (by simpa using hc)
  simp [this]

/-- an accepted text has no lexer error, is a sentence of the grammar, and every salience fits int32 -/
theorem accepted_means (text : List Char) (h : (front text).verdict = .accepted) :
    (lex text).errs = 0 ∧ (parseDoc anyDec (lex text).toks).2 = none ∧ (parseDoc realDec (lex text).toks).2 = none ∧
    ((parseDoc realDec (lex text).toks).1.all salienceOk) = true := by
  unfold front at h
  simp only at h
  generalize hg : (parseDoc anyDec (lex text).toks).2 = g at h
  generalize hr : parseDoc realDec (lex text).toks = r at h
  obtain ⟨rules, e⟩ := r
  cases g with
  | some ge => cases ge <;> simp at h <;> split at h <;> simp at h
  | none =>
    simp only at h
    by_cases hl : (lex text).errs > 0
    · simp [hl] at h
    · simp only [hl, if_false] at h
      have hl0 : (lex text).errs = 0 := by omega
      cases e with
      | some pe => cases pe <;> simp at h
      | none =>
        simp only at h
        by_cases hs : rules.all salienceOk = true
        · exact ⟨hl0, rfl, rfl, hs⟩
        · simp [hs] at h

-- non-vacuity: a concrete text that is accepted, and concrete texts rejected for each reason
def sampleText : List Char := "rule R \"d\" salience 3 { when F.I < 0x10 && !F.B then F.I = F.I + 1; }".toList

example : (front sampleText).verdict = .accepted ∧ ((front sampleText).rules.map (·.name)) = ["R"] := by
  decide +kernel
example : (front "rule R { when F.I # 1 then F.I = 2; }".toList).verdict = .lexical := by decide +kernel
example : (front "rule R { when F.I == 1 then F.I = 2 }".toList).verdict = .syntactic := by decide +kernel
example : (front "rule when { when true then F.I = 2; }".toList).verdict = .syntactic := by decide +kernel
example : (front "rule R { when F.I == 9223372036854775808 then F.I = 2; }".toList).verdict = .literal := by decide +kernel
example : (front "rule R salience 2147483648 { when true then F.I = 2; }".toList).verdict = .salience := by decide +kernel
example : (front "rule R { when F.S == \"a\\qb\" then F.I = 2; }".toList).verdict = .literal := by decide +kernel

/-- **every valid document is grammatical for the parser model** (token level): any sequence of well-formed rules —
    any number of rules, any nesting depth — is read back from its tokens as exactly these rules, with no error
    (`Proofs/ParseDoc.parse_doc`, the print/parse round trip R10). What is not proved: that the lexer turns a rendering of
    these tokens (spacing, comments, keyword case, literal notations) back into them, and the converse direction (a text
    the recogniser accepts derives from the grammar). -/
theorem C17_valid_documents_parse (d : Dec) (cT : Const → List Token) (ot : BinOp → List Char) (dT : String → Token) (P : Const → Prop)
    (hc : ParseAtoms.ConstOK d cT P) (rules : List Rule) (hw : ∀ r ∈ rules, ParseDoc.WFRule P r ∧ ParseDoc.DescOK dT r.desc) (f n : Nat)
    (hf : ∀ r ∈ rules, ParseDoc.nRule r ≤ f) (hn : rules.length + 1 ≤ n) :
    parseRules d (f + 1) n (ParseDoc.fDoc cT ot dT rules) [] = (rules, none) :=
  ParseDoc.parse_doc d cT ot dT P hc rules hw f n hf hn

/-- … and with the parser's own fuel: `parseDoc` on the tokens of any well-formed document returns exactly its rules -/
theorem C17_parseDoc_roundtrip (d : Dec) (cT : Const → List Token) (ot : BinOp → List Char) (dT : String → Token) (P : Const → Prop)
    (hc : ParseAtoms.ConstOK d cT P) (rules : List Rule) (hw : ∀ r ∈ rules, ParseDoc.WFRule P r ∧ ParseDoc.DescOK dT r.desc) :
    parseDoc d (ParseDoc.fDoc cT ot dT rules) = (rules, none) :=
  ParseFuel.parseDoc_roundtrip d cT ot dT P hc rules hw

/-- … and with the real literal decoder: every document whose constants are integers inside int64, quotable strings,
    booleans or nil is read back by `parseDoc realDec` from its canonical tokens as exactly its rules -/
theorem C17_parseDoc_real (ot : BinOp → List Char) (dT : String → Token) (rules : List Rule)
    (hw : ∀ r ∈ rules, ParseDoc.WFRule RealLiterals.Covered r ∧ ParseDoc.DescOK dT r.desc) :
    parseDoc realDec (ParseDoc.fDoc RealLiterals.canonTok ot dT rules) = (rules, none) :=
  RealLiterals.real_parseDoc ot dT rules hw

/-- **From characters to rules** (`Proofs/LexRender`, `LexFixed`, `LexTokens`, `LexDoc`). For every sequence of well-formed
    rules — any size and nesting — whose names are identifiers spelling no keyword, whose strings and descriptions
    `strconv.Quote` can write and whose integers fit int64: the lexer model reads the canonical text (every token in its
    canonical spelling followed by one space) without error into the document's tokens — maximal munch decided rule by rule:
    `=` before a space is not `==`, `rule` is the keyword and `rules` a name, `e12` is a name and not an exponent, `0` is
    decimal and opens no hex/octal literal, a quoted string ends at its first unescaped quote — and the parser with the real
    literal decoder reads those tokens back as exactly these rules. Non-vacuity: `LexDoc.sample_ok`, `sample_text`,
    `sample_roundtrip`; the real engine builds the same text into the same snapshot. -/
theorem C17_text_to_rules (rules : List Rule) (h : ∀ r ∈ rules, ParseDoc.WFRule RealLiterals.Covered r ∧ LexDoc.LRule r) :
    lex (LexDoc.docText rules) = { toks := ParseDoc.fDoc RealLiterals.canonTok LexDoc.canonOt LexDoc.canonDT rules, errs := 0 } ∧
    parseDoc realDec (lex (LexDoc.docText rules)).toks = (rules, none) :=
  LexDoc.lex_parse_doc rules h

/-- **The front end accepts the canonical text of every well-formed document and returns exactly its rules** (saliences
    inside int32): no lexer error, grammatical — the question `front` asks with the accept-all decoder does not depend on the
    decoder (`ParseSim.parseDoc_any`) — every literal decodes, verdict `accepted`. -/
theorem C17_front_accepts_canonical (rules : List Rule) (h : ∀ r ∈ rules, ParseDoc.WFRule RealLiterals.Covered r ∧ LexDoc.LRule r)
    (hs : rules.all salienceOk = true) :
    front (LexDoc.docText rules) = { verdict := .accepted, rules := rules, lexErrs := 0, grammatical := true } :=
  LexDoc.front_docText rules h hs

/-- **Characters to knowledge base**: building the canonical text of a well-formed document whose rule names are distinct
    and new reports no error and adds exactly its rules, each under its name with the description, salience, condition and
    actions of the document; the existing entries stay in front, unchanged. -/
theorem C17_canonical_text_builds (kb : KB) (rules : List Rule)
    (h : ∀ r ∈ rules, ParseDoc.WFRule RealLiterals.Covered r ∧ LexDoc.LRule r) (hs : rules.all salienceOk = true)
    (hdistinct : (rules.map (·.name)).Nodup) (hfresh : ∀ r ∈ rules, kb.contains r.name = false) :
    (kb.buildText (LexDoc.docText rules)).2 = 0 ∧
    (kb.buildText (LexDoc.docText rules)).1.entries = kb.entries ++ rules.map (fun r => { key := r.name, rule := r }) := by
  have hf := LexDoc.front_docText rules h hs
  have := C17_accepted_all_present kb (LexDoc.docText rules) (by rw [hf]) (by rw [hf]; exact hdistinct) (by rw [hf]; exact hfresh)
  rw [hf] at this
  exact ⟨this.1, this.2.2⟩

/-- what the lexer admits is what the engine theorems call valid: the conditions of a document that can be written as
    canonical text satisfy `validE` (names the snapshot theorems admit, no NaN constant), so the snapshot and
    refinement theorems (C01, C07, C13) speak about every rule the front end reads from such a text -/
theorem C17_lexable_is_valid (e : Expr) (h : LexDoc.LE e) : validE e = true := LexDoc.validE_of e h

/-- grammaticality does not depend on the literal decoder -/
theorem C17_grammatical_decoder_free (d : Dec) (ts : List Token) (rs : List Rule) (h : parseDoc d ts = (rs, none)) :
    (parseDoc anyDec ts).2 = none := ParseSim.parseDoc_any d ts rs h

/-- any layout of whitespace and comments between the canonical tokens gives the same tokens and the same rules -/
theorem C17_layout (rules : List Rule) (h : ∀ r ∈ rules, ParseDoc.WFRule RealLiterals.Covered r ∧ LexDoc.LRule r)
    (seps : List (List Char)) (hlen : seps.length = (ParseDoc.fDoc RealLiterals.canonTok LexDoc.canonOt LexDoc.canonDT rules).length)
    (hs : ∀ sep ∈ seps, LexRender.GoodSep sep) :
    parseDoc realDec (lex (LexRender.renderS ((ParseDoc.fDoc RealLiterals.canonTok LexDoc.canonOt LexDoc.canonDT rules).zip seps))).toks
      = (rules, none) :=
  (LexDoc.lex_parse_layout rules h seps hlen hs).2

/-- the lexer on any space-separated rendering of tokens that lex -/
theorem C17_lex_render (ts : List Token) (h : ∀ t ∈ ts, LexRender.Lexes t) : lex (LexRender.render ts) = { toks := ts, errs := 0 } :=
  LexRender.lex_render ts h

/-- **the converse: what is accepted is well formed.** Every rule of an accepted text has a condition and at least one
    action, its operators are grouped by `prec` and to the left, negations are outermost — in particular a text with an
    empty condition or an empty action list is never accepted (`Proofs/ParseRange`, `ParseRangeDoc`). With
    `C17_parseDoc_roundtrip`: the parser's range is exactly the well-formed documents, on whose tokens it is the identity. -/
theorem C17_accepted_rules_wellformed (text : List Char) (h : (front text).verdict = .accepted) :
    ∀ r ∈ (front text).rules, ParseDoc.WFRule ParseRange.Any r := by
  have hm := accepted_means text h
  rw [front_rules_eq]
  simp only [h, beq_self_eq_true, if_true]
  exact ParseRangeDoc.parseDoc_range realDec (lex text).toks _ (Prod.ext rfl hm.2.2.1)

theorem C17_parser_range (d : Dec) (f p : Nat) (ts : List Token) (e : Expr) (rest : List Token)
    (h : parseExpr d f p ts = .ok (e, rest)) (hp : p ≤ 6) :
    ParseAtoms.WFE ParseRange.Any e ∧ p ≤ ParseGroup.level e ∧ ParseRange.Post p rest :=
  ParseRange.parse_range d f p ts e rest h hp

/-- a text that starts with a character no lexer rule can begin with is rejected (`lexical`), whatever follows -/
theorem C17_illegal_start_rejected (c : Char) (cs : List Char) (h : c ∈ LexFacts.illegalStart) :
    (front (c :: cs)).verdict ≠ .accepted := by
  intro hacc
  have h0 := (accepted_means (c :: cs) hacc).1
  have h1 := LexFacts.illegal_char_error c cs h
  omega

/-- leading whitespace never changes the verdict or the rules -/
theorem C17_leading_whitespace (ws cs : List Char) (h : ∀ c ∈ ws, isWs c = true) (hcs : ∀ c, cs.head? = some c → isWs c = false) :
    front (ws ++ cs) = front cs := by
  unfold front
  rw [LexFacts.lex_leading_ws ws cs h hcs]

#print axioms C17_accepted_all_present
#print axioms C17_rejected_harmless
#print axioms C17_rejected_same_instances
#print axioms C17_existing_rules_stay
#print axioms front_rules_only_when_accepted
#print axioms accepted_means
#print axioms C17_valid_documents_parse
#print axioms C17_parseDoc_roundtrip
#print axioms C17_parseDoc_real
#print axioms C17_text_to_rules
#print axioms C17_front_accepts_canonical
#print axioms C17_canonical_text_builds
#print axioms C17_grammatical_decoder_free
#print axioms C17_lexable_is_valid
#print axioms C17_lex_render
#print axioms C17_layout
#print axioms Grule.LexDoc.sample_roundtrip
#print axioms Grule.LexFixed.lexes_tk
#print axioms C17_accepted_rules_wellformed
#print axioms C17_parser_range
#print axioms C17_illegal_start_rejected
#print axioms C17_leading_whitespace
#print axioms Grule.SyntaxTie.tie_lexer_order
#print axioms Grule.SyntaxTie.tie_lexer_fixed
#print axioms Grule.SyntaxTie.tie_isc
#print axioms Grule.SyntaxTie.tie_ic

end Grule.C17

/-
  C11 — FetchMatchingRules returns exactly the satisfied rules, ordered by salience.
-/
import GruleModel.Proofs.Fetch
import GruleModel.Proofs.Side
namespace Grule.C11
open Grule

/-- the facts as FetchMatchingRules sees them: nothing retracted (the call un-retracts first) -/
def fetchVis (st : Store) : Vis := { st := st, retracted := [] }

/-- **C11 (engine with working memory).** When the call succeeds, the returned list contains exactly the
    non-removed entries whose condition holds from scratch on the given facts; it is sorted by
    non-increasing salience; it is a permutation of the matching entries in visiting order (so each rule
    appears exactly as often as it is in the knowledge base: once); the facts are untouched. -/
theorem C11_exact {c : Cfg} (retErr : Bool) (o : Option (List String)) (inst : Instance) (st : Store)
    (hp : MethodsPure c) (hfl : FloatPF) (hw : WFEntries inst.entries) (hk : KeysNodup inst.entries)
    (hok : (fetch retErr o c inst st).outcome = .ok) :
    (∀ x, x ∈ (fetch retErr o c inst st).rules ↔
        (x ∈ inst.entries ∧ x.deleted = false ∧ holds c st x.rule = true)) ∧
    SortedDesc (fetch retErr o c inst st).rules ∧
    (fetch retErr o c inst st).store = st := by
  unfold fetch at hok ⊢
  dsimp only at hok ⊢
  have hcoh : Coh c (resetAll { st := st, memoE := inst.memoE, memoA := inst.memoA, retracted := [] }) :=
    coh_empty _ rfl rfl
  have hwo : WFEntries (orderEntries o inst.entries) := fun x hx => hw x (orderEntries_mem _ _ x hx)
  obtain ⟨h1, h2, _, h4⟩ := fetchPass_sound hp (snapInj_of hfl) retErr (orderEntries o inst.entries) _ [] hwo hcoh
  have hvis : (resetAll { st := st, memoE := inst.memoE, memoA := inst.memoA, retracted := [] }).vis = fetchVis st := rfl
  rw [hvis] at h1 h2 h4
  generalize fetchPass retErr c (orderEntries o inst.entries)
    (resetAll { st := st, memoE := inst.memoE, memoA := inst.memoA, retracted := [] }) [] = fp at hok h1 h2 h4 ⊢
  obtain ⟨out, es, acc⟩ := fp
  simp only at h1 h2 h4 hok ⊢
  cases out with
  | some oo =>
    simp only at hok
    -- an error outcome is never `ok`
    have := h1
    cases oo <;> first | cases hok | skip
    -- `some .ok` is impossible for the reference pass, but we do not need it: the statement is about `ok` outcomes only
    exact absurd h1 (by
      intro hh
      have hne : ∀ (es' acc' : List RuleEntry), (specFetchPass retErr c (fetchVis st) es' acc').1 ≠ some .ok := by
        intro es'
        induction es' with
        | nil => intro acc'; simp [specFetchPass]
        | cons e rest ih =>
          intro acc'
          simp only [specFetchPass]
          split
          · exact ih _
          · split
            · intro h; cases h
            · split
              · intro h; cases h
              · exact ih _
            · exact ih _
      exact hne _ _ hh.symm)
  | none =>
    simp only at hok ⊢
    have hmem := specFetchPass_mem (c := c) retErr (fetchVis st) (orderEntries o inst.entries) [] h1.symm
    refine ⟨?_, sortStable_sorted acc, ?_⟩
    · intro x
      rw [(sortStable_perm acc).mem_iff, h4, hmem x]
      constructor
      · rintro (h | ⟨hx1, hx2, hx3⟩)
        · cases h
        · refine ⟨orderEntries_mem _ _ x hx1, hx2, ?_⟩
          have : CandOn c (fetchVis st) x := ⟨rfl, hx2, hx3⟩
          exact holds_of_cand this
      · rintro ⟨hx1, hx2, hx3⟩
        refine Or.inr ⟨orderEntries_complete o inst.entries hk x hx1, hx2, ?_⟩
        unfold specCond
        simp only [visRetracted, fetchVis, List.contains_nil, Bool.false_eq_true, if_false]
        unfold holds at hx3
        split at hx3
        · rename_i hb; rw [hb]
        · cases hx3
    · have : es.vis = fetchVis st := h2
      show es.st = st
      have h5 : es.vis.st = (fetchVis st).st := by rw [this]
      exact h5

/-- error mode: with ReturnErrOnFailedRuleEvaluation the first failing condition in visiting order is
    returned as an error naming the rule; without it the rule is skipped (reference pass, by definition) -/
theorem C11_error_mode (c : Cfg) (v : Vis) (e : RuleEntry) (rest acc : List RuleEntry)
    (hd : e.deleted = false) (hf : specCond c v e = .failed) :
    specFetchPass true c v (e :: rest) acc = (some (.evalErr e.rule.name false), acc) ∧
    specFetchPass false c v (e :: rest) acc = specFetchPass false c v rest acc := by
  simp [specFetchPass, hd, hf]

end Grule.C11

#print axioms Grule.C11.C11_exact
#print axioms Grule.C11.C11_error_mode
#print axioms Grule.sortStable_sorted
#print axioms Grule.sortStable_perm

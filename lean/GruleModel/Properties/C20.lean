/-
  C20 — no loader crashes, hangs or over-allocates on arbitrary input  (proof, partial).

  What a model can carry: every data-dependent panic, unbounded loop and input-controlled allocation in the
  repository's own code on the four loader paths.
  * GRL text: `Syntax/Front` is a total function of the text; a salience outside int32 is a verdict (error), not
    a panic (tie: `Gen.salienceGuard`); the builder adds nothing for a rejected text (C17).
  * JSON rule text: `Json/Translate` is total; recursion is cut by the depth guard (theorem below; tie:
    `Gen.jsonDepthGuardSrc`); blank input is an error (tie: `Gen.jsonBlankGuard`).
  * binary stream: payload allocation is bounded by the stream length plus one block (`C20_grb_alloc_bounded`),
    decoding is total (`Wire.catalogDec`), unknown type numbers and truncation are errors (C12), and a panic of the
    catalog builder is recovered (tie: `Gen.loaderRecovers`). Tie of "every length-driven allocation goes through
    the bounded helpers": `tie_allocation_sites` over the regenerated list of `make` sites.
  * JSON fact text: delegated to encoding/json (not modelled).

  What the model cannot exhibit, validated in child processes only (run/props.py: run_c20): the cost of the ANTLR
  runtime's adaptive prediction and of the listener's snapshot computation on deeply nested or long expressions
  (super-linear; a known finding), encoding/json, the Go allocator and stack.
-/
import GruleModel.Loaders
import GruleModel.Json.Translate
import GruleModel.Syntax.Front
import GruleModel.Gen.LoaderFacts
import GruleModel.Proofs.SnapInj
namespace Grule.C20
open Grule Grule.Loaders

/-- every `make` of ast/Serializer.go with a data-dependent size goes through `preallocCount` (≤ 64 KiB), is a block
    of `readBytesFromReader` (≤ 64 KiB), or is the string constant that is checked against the value that holds it -/
theorem tie_allocation_sites :
    Gen.serializerMakes = [("BuildKnowledgeBase", "dLen"), ("ReadCatalogFromReader", "preallocCount(incount)"),
      ("ReadCatalogFromReader", "preallocCount(incount)"), ("ReadMetaFrom", "preallocCount(integer)"),
      ("ReadMetaFrom", "preallocCount(count)"), ("readBytesFromReader", "preallocCount(n)"), ("readBytesFromReader", "int(step)")] ∧
    Gen.maxPreallocSrc = "1 << 16" ∧ chunk = 1 <<< 16 := by decide

/-- the loader recovers panics; blank JSON input, JSON nesting and the salience range are guarded -/
theorem tie_guards :
    Gen.loaderRecovers = true ∧ Gen.jsonBlankGuard = true ∧ Gen.jsonDepthGuardSrc = "1024" ∧ Gen.salienceGuard = true ∧
    Gen.salienceGuardSrc = "_, isSalience := receiver.(*ast.Salience); isSalience && (lit.Integer < math.MinInt32 || lit.Integer > math.MaxInt32)" := by
  decide

/-- **JSON nesting is cut at 1024 levels**: beyond it the translator answers with an error whatever follows, so its
    recursion depth does not depend on the input -/
theorem C20_json_depth_guard (fuel depth : Nat) (j : Json.J) (h : depth > 1024) :
    Json.buildEx (fuel + 1) j depth = Json.bad "JSON nesting exceeded 1024 levels, aborting" := by
  simp [Json.buildEx, h]

/-- the front end answers every text with a verdict; the only verdict that lets rules through is `accepted`
    (in particular an out-of-range salience, which used to panic, is `salience`) -/
theorem C20_grl_verdict_total (text : List Char) :
    (Syntax.front text).verdict = .accepted ∨ (Syntax.front text).rules = [] := by
  by_cases h : (Syntax.front text).verdict = .accepted
  · exact Or.inl h
  · right
    have : ((Syntax.front text).verdict == Syntax.Verdict.accepted) = false := by
      rw [Bool.eq_false_iff]; intro hc; exact h (by simpa using hc)
    show (if (Syntax.front text).verdict == .accepted then _ else []) = []
    simp [this]

/-- the lexer always terminates with fewer tokens than characters plus one and never loops on a character it cannot
    start a token with (it skips it): its fuel, the text length plus one, is never exhausted before the text is -/
theorem C20_lex_fuel (fuel : Nat) (acc : Syntax.LexOut) : Syntax.lexLoop fuel [] acc = acc := by
  cases fuel <;> rfl

example : readMany 10 ([0,0,0,0,0,1,0,0] ++ List.replicate 10 7) ≤ 18 + chunk := C20_grb_alloc_bounded _ _
example : readAlloc 3 (2^40) 10 = 65536 := by decide +kernel

/-- **Snapshots grow additively** (F20): the snapshot of a selector atom is its receiver's snapshot, the selector's, and 12
    more characters — so a chain of `n` selectors on a receiver adds `O(n)` characters, not a factor `2^n` as it did while
    the receiver was written twice (`f()[0]…[0]` with 20 selectors: 7.9 GB). The same holds for every other node kind:
    each printer writes each child once. -/
theorem C20_selector_snapshot_additive (recv : Atom) (idx : Expr) :
    (snapA (.sel recv idx)).length = (snapA recv).length + (snapE idx).length + 12 := by
  simp only [snapA, tA, tSel, tMAS, tClose, List.length_append, List.length_cons, List.length_nil]
  omega

/-- a chain of `n` selectors with the same index on a receiver -/
def selChain (recv : Atom) (idx : Expr) : Nat → Atom
  | 0 => recv
  | n + 1 => .sel (selChain recv idx n) idx

/-- … has a snapshot that is linear in `n` -/
theorem C20_selector_chain_linear (recv : Atom) (idx : Expr) (n : Nat) :
    (snapA (selChain recv idx n)).length = (snapA recv).length + n * ((snapE idx).length + 12) := by
  induction n with
  | zero => simp [selChain]
  | succ n ih =>
    simp only [selChain, C20_selector_snapshot_additive, ih]
    rw [Nat.succ_mul]
    omega

#print axioms C20_selector_snapshot_additive
#print axioms C20_selector_chain_linear
#print axioms tie_allocation_sites
#print axioms tie_guards
#print axioms C20_json_depth_guard
#print axioms C20_grl_verdict_total
#print axioms C20_lex_fuel
#print axioms Grule.Loaders.C20_grb_alloc_bounded
#print axioms Grule.Loaders.C20_grb_short
#print axioms Grule.Loaders.readAlloc_le
#print axioms Grule.Loaders.readAlloc_success

end Grule.C20

/-
  C19 — comparison operators are mutually consistent across operand kinds.
  The theorems are about the canonical tables (`ArithExpected.lean`), which `Properties/TableTie.lean`
  proves equal to the tables regenerated from `pkg/reflectmath.go` on every run.
  Quantifiers: every ordered pair of concrete kinds inside a family, every pair of values; floats are
  IEEE bit patterns compared in integer arithmetic (`fltLt`, `fltEq`), NaN excluded where the property
  excludes it; unsigned operands below 2^63 when they meet a signed one (the property's int64 window).
-/
import GruleModel.Proofs.Compare
import GruleModel.Properties.TableTie
namespace Grule.C19
open Grule Grule.Expected

def LT (l r : Val) : R Val := evalTable tblLesserThan l r
def LE (l r : Val) : R Val := evalTable tblLesserThanEqual l r
def GT (l r : Val) : R Val := evalTable tblGreaterThan l r
def GE (l r : Val) : R Val := evalTable tblGreaterThanEqual l r
def EQ (l r : Val) : R Val := evalTable tblEqual l r
def NE (l r : Val) : R Val := evalTable tblNotEqual l r

/-- the domain the property quantifies over: no NaN -/
def Common.dom : Common → Prop
  | .f a b => f64IsNaN a = false ∧ f64IsNaN b = false
  | _ => True

/-- the six answers on a common view -/
structure Answers where
  lt : Bool
  le : Bool
  gt : Bool
  ge : Bool
  eq : Bool
  ne : Bool

/-- what "mutually consistent" means -/
structure Consistent (a : Answers) : Prop where
  one : (a.lt = true ∧ a.eq = false ∧ a.gt = false) ∨ (a.lt = false ∧ a.eq = true ∧ a.gt = false) ∨
        (a.lt = false ∧ a.eq = false ∧ a.gt = true)
  le_def : a.le = (a.lt || a.eq)
  ge_def : a.ge = (a.gt || a.eq)
  ne_def : a.ne = !a.eq

def answersI (a b : Int) : Answers :=
  ⟨decide (a < b), decide (a ≤ b), decide (a > b), decide (a ≥ b), decide (a = b), decide (a ≠ b)⟩
def answersU (a b : Nat) : Answers :=
  ⟨decide (a < b), decide (a ≤ b), decide (a > b), decide (a ≥ b), decide (a = b), decide (a ≠ b)⟩
def answersF (a b : UInt64) : Answers :=
  ⟨fltLt a b, fltLt a b || fltEq a b, fltLt b a, fltLt b a || fltEq a b, fltEq a b, !fltEq a b⟩
def answersS (a b : String) : Answers :=
  ⟨decide (a < b), !decide (b < a), decide (b < a), !decide (a < b), decide (a = b), decide (a ≠ b)⟩
def answersT (a b : TimeV) : Answers :=
  ⟨decide (a.inst < b.inst), decide (a.inst < b.inst) || decide (a.inst = b.inst), decide (a.inst > b.inst),
   decide (a.inst > b.inst) || decide (a.inst = b.inst), decide (a.inst = b.inst), !decide (a.inst = b.inst)⟩

def answers : Common → Answers
  | .i x y => answersI x y
  | .u x y => answersU x y
  | .f x y => answersF x y
  | .s x y => answersS x y
  | .t x y => answersT x y
  | .b x y => ⟨false, false, false, false, x == y, x != y⟩

/-- all six operators answer from the one common view of the operands -/
theorem C19_six_from_one_view (l r : Val) (c : Common) (h : common? l r = some c) (ho : c.ordered = true) :
    LT l r = .ok (.bool (answers c).lt) ∧ LE l r = .ok (.bool (answers c).le) ∧
    GT l r = .ok (.bool (answers c).gt) ∧ GE l r = .ok (.bool (answers c).ge) ∧
    EQ l r = .ok (.bool (answers c).eq) ∧ NE l r = .ok (.bool (answers c).ne) := by
  unfold LT LE GT GE EQ NE tblLesserThan tblLesserThanEqual tblGreaterThan tblGreaterThanEqual tblEqual tblNotEqual
  rw [ordered_eval _ _ l r c h ho, ordered_eval _ _ l r c h ho, ordered_eval _ _ l r c h ho, ordered_eval _ _ l r c h ho,
      equality_eval _ _ l r c h, equality_eval _ _ l r c h]
  cases c with
  | i x y => exact ⟨rfl, rfl, rfl, rfl, rfl, rfl⟩
  | u x y => exact ⟨rfl, rfl, rfl, rfl, rfl, rfl⟩
  | f x y => exact ⟨rfl, rfl, rfl, rfl, rfl, rfl⟩
  | s x y => exact ⟨rfl, rfl, rfl, rfl, rfl, rfl⟩
  | t x y => exact ⟨rfl, rfl, rfl, rfl, rfl, rfl⟩
  | b x y => simp [Common.ordered] at ho

theorem consistentI (a b : Int) : Consistent (answersI a b) := by
  refine ⟨?_, ?_, ?_, ?_⟩
  · simp only [answersI, decide_eq_true_eq, decide_eq_false_iff_not]
    rcases Int.lt_trichotomy a b with h | h | h
    · left; omega
    · right; left; omega
    · right; right; omega
  · simp only [answersI]; by_cases h1 : a < b <;> by_cases h2 : a = b <;> simp [h1, h2] <;> omega
  · simp only [answersI]; by_cases h1 : a > b <;> by_cases h2 : a = b <;> simp [h1, h2] <;> omega
  · simp only [answersI]; by_cases h2 : a = b <;> simp [h2]

theorem consistentU (a b : Nat) : Consistent (answersU a b) := by
  refine ⟨?_, ?_, ?_, ?_⟩
  · simp only [answersU, decide_eq_true_eq, decide_eq_false_iff_not]
    rcases Nat.lt_trichotomy a b with h | h | h
    · left; omega
    · right; left; omega
    · right; right; omega
  · simp only [answersU]; by_cases h1 : a < b <;> by_cases h2 : a = b <;> simp [h1, h2] <;> omega
  · simp only [answersU]; by_cases h1 : a > b <;> by_cases h2 : a = b <;> simp [h1, h2] <;> omega
  · simp only [answersU]; by_cases h2 : a = b <;> simp [h2]

theorem consistentF (a b : UInt64) (ha : f64IsNaN a = false) (hb : f64IsNaN b = false) : Consistent (answersF a b) := by
  refine ⟨?_, rfl, rfl, rfl⟩
  simp only [answersF, fltLt, fltEq, ha, hb, Bool.not_false, Bool.true_and, decide_eq_true_eq, decide_eq_false_iff_not]
  rcases Int.lt_trichotomy (f64Key a) (f64Key b) with h | h | h
  · left; omega
  · right; left; omega
  · right; right; omega

theorem consistentS (a b : String) : Consistent (answersS a b) := by
  refine ⟨?_, ?_, ?_, ?_⟩
  · simp only [answersS, decide_eq_true_eq, decide_eq_false_iff_not]
    rcases Std.lt_trichotomy a b with h | h | h
    · left; exact ⟨h, fun e => by subst e; exact String.lt_irrefl _ h, String.lt_asymm h⟩
    · right; left; subst h; exact ⟨String.lt_irrefl _, rfl, String.lt_irrefl _⟩
    · right; right; exact ⟨String.lt_asymm h, fun e => by subst e; exact String.lt_irrefl _ h, h⟩
  · simp only [answersS]
    rcases Std.lt_trichotomy a b with h | h | h
    · have : ¬ b < a := String.lt_asymm h
      simp [h, this]
    · subst h; simp [String.lt_irrefl]
    · have h' : ¬ a < b := String.lt_asymm h
      have hne : ¬ a = b := fun e => by subst e; exact String.lt_irrefl _ h
      simp [h, h', hne]
  · simp only [answersS]
    rcases Std.lt_trichotomy a b with h | h | h
    · have h' : ¬ b < a := String.lt_asymm h
      have hne : ¬ a = b := fun e => by subst e; exact String.lt_irrefl _ h
      simp [h, h', hne]
    · subst h; simp [String.lt_irrefl]
    · have : ¬ a < b := String.lt_asymm h
      simp [h, this]
  · simp only [answersS]; by_cases h2 : a = b <;> simp [h2]

theorem consistentT (a b : TimeV) : Consistent (answersT a b) := by
  refine ⟨?_, rfl, rfl, rfl⟩
  simp only [answersT, decide_eq_true_eq, decide_eq_false_iff_not]
  rcases Int.lt_trichotomy a.inst b.inst with h | h | h
  · left; omega
  · right; left; omega
  · right; right; omega

/-- **C19 consistency.** For two operands of one ordered family — numbers of any integer, unsigned or float
    width in any combination, strings, times — the six operators agree: exactly one of `<`, `==`, `>`;
    `<=` is `<` or `==`; `>=` is `>` or `==`; `!=` is the negation of `==`. Times compare by instant:
    location and monotonic reading play no role. -/
theorem C19_consistent (l r : Val) (c : Common) (h : common? l r = some c) (ho : c.ordered = true) (hd : Common.dom c) :
    ∃ a : Answers, Consistent a ∧
      LT l r = .ok (.bool a.lt) ∧ LE l r = .ok (.bool a.le) ∧ GT l r = .ok (.bool a.gt) ∧
      GE l r = .ok (.bool a.ge) ∧ EQ l r = .ok (.bool a.eq) ∧ NE l r = .ok (.bool a.ne) := by
  refine ⟨answers c, ?_, C19_six_from_one_view l r c h ho⟩
  cases c with
  | i x y => exact consistentI x y
  | u x y => exact consistentU x y
  | f x y => exact consistentF x y hd.1 hd.2
  | s x y => exact consistentS x y
  | t x y => exact consistentT x y
  | b x y => simp [Common.ordered] at ho

/-- booleans: `==` and `!=` are each other's negation and symmetric -/
theorem C19_bool (x y : Bool) :
    EQ (.bool x) (.bool y) = .ok (.bool (x == y)) ∧ NE (.bool x) (.bool y) = .ok (.bool (x != y)) ∧
    EQ (.bool y) (.bool x) = .ok (.bool (x == y)) ∧ NE (.bool y) (.bool x) = .ok (.bool (x != y)) := by
  cases x <;> cases y <;> exact ⟨rfl, rfl, rfl, rfl⟩

theorem fltEq_comm (x y : UInt64) : fltEq y x = fltEq x y := by
  unfold fltEq
  have : decide (f64Key y = f64Key x) = decide (f64Key x = f64Key y) := by
    by_cases h : f64Key x = f64Key y
    · simp [h]
    · have h' : ¬ f64Key y = f64Key x := fun e => h e.symm
      simp [h, h']
  rw [this]
  cases f64IsNaN x <;> cases f64IsNaN y <;> rfl

theorem decide_eq_comm {α} [DecidableEq α] (x y : α) : decide (y = x) = decide (x = y) := by
  by_cases h : x = y
  · simp [h]
  · have h' : ¬ y = x := fun e => h e.symm
    simp [h, h']

theorem answers_swap (c : Common) (ho : c.ordered = true) :
    (answers c.swap).lt = (answers c).gt ∧ (answers c.swap).gt = (answers c).lt ∧
    (answers c.swap).le = (answers c).ge ∧ (answers c.swap).ge = (answers c).le ∧
    (answers c.swap).eq = (answers c).eq ∧ (answers c.swap).ne = (answers c).ne := by
  cases c with
  | i x y =>
    refine ⟨rfl, rfl, rfl, rfl, ?_, ?_⟩
    · exact decide_eq_comm x y
    · show decide (y ≠ x) = decide (x ≠ y)
      by_cases h : x = y
      · subst h; rfl
      · have h' : ¬ y = x := fun e => h e.symm
        simp [h, h']
  | u x y =>
    refine ⟨rfl, rfl, rfl, rfl, ?_, ?_⟩
    · exact decide_eq_comm x y
    · show decide (y ≠ x) = decide (x ≠ y)
      by_cases h : x = y
      · subst h; rfl
      · have h' : ¬ y = x := fun e => h e.symm
        simp [h, h']
  | f x y =>
    refine ⟨rfl, rfl, ?_, ?_, ?_, ?_⟩
    · show (fltLt y x || fltEq y x) = (fltLt y x || fltEq x y)
      rw [fltEq_comm]
    · show (fltLt x y || fltEq y x) = (fltLt x y || fltEq x y)
      rw [fltEq_comm]
    · exact fltEq_comm x y
    · show (!fltEq y x) = (!fltEq x y)
      rw [fltEq_comm]
  | s x y =>
    refine ⟨rfl, rfl, rfl, rfl, ?_, ?_⟩
    · exact decide_eq_comm x y
    · show decide (y ≠ x) = decide (x ≠ y)
      by_cases h : x = y
      · subst h; rfl
      · have h' : ¬ y = x := fun e => h e.symm
        simp [h, h']
  | t x y =>
    have h := decide_eq_comm x.inst y.inst
    refine ⟨rfl, rfl, ?_, ?_, ?_, ?_⟩
    · show (decide (y.inst < x.inst) || decide (y.inst = x.inst)) = (decide (x.inst > y.inst) || decide (x.inst = y.inst))
      rw [h]
    · show (decide (y.inst > x.inst) || decide (y.inst = x.inst)) = (decide (x.inst < y.inst) || decide (x.inst = y.inst))
      rw [h]
    · exact h
    · show (!decide (y.inst = x.inst)) = (!decide (x.inst = y.inst))
      rw [h]
  | b x y => simp [Common.ordered] at ho

/-- **C19 mirror.** Swapping the operands mirrors the outcome: `a < b` is `b > a`, `a <= b` is `b >= a`,
    `==` and `!=` are symmetric — across two different cells of each table (e.g. int×float vs float×int). -/
theorem C19_mirror (l r : Val) (c : Common) (h : common? l r = some c) (ho : c.ordered = true) :
    LT r l = GT l r ∧ GT r l = LT l r ∧ LE r l = GE l r ∧ GE r l = LE l r ∧ EQ r l = EQ l r ∧ NE r l = NE l r := by
  have hs : common? r l = some c.swap := by rw [common_swap, h]; rfl
  have hos : c.swap.ordered = true := by cases c <;> first | rfl | (simp [Common.ordered] at ho)
  obtain ⟨a1, a2, a3, a4, a5, a6⟩ := C19_six_from_one_view l r c h ho
  obtain ⟨b1, b2, b3, b4, b5, b6⟩ := C19_six_from_one_view r l c.swap hs hos
  obtain ⟨s1, s2, s3, s4, s5, s6⟩ := answers_swap c ho
  rw [a1, a2, a3, a4, a5, a6, b1, b2, b3, b4, b5, b6, s1, s2, s3, s4, s5, s6]
  exact ⟨rfl, rfl, rfl, rfl, rfl, rfl⟩

/-- **C19 width independence.** The outcome does not depend on the width of an operand: `int8 5`, `int 5`
    and `int64 5` (likewise the unsigned and float widths) give the same answer against any operand of the
    family, on either side — the common view ignores the width. -/
theorem C19_width_independent (a : Int) (n : Nat) (x : UInt64) (k k' : IntK) (u u' : UIntK) (f f' : FloatK) (r : Val) :
    common? (.int k a) r = common? (.int k' a) r ∧ common? r (.int k a) = common? r (.int k' a) ∧
    common? (.uint u n) r = common? (.uint u' n) r ∧ common? r (.uint u n) = common? r (.uint u' n) ∧
    common? (.float f x) r = common? (.float f' x) r ∧ common? r (.float f x) = common? r (.float f' x) := by
  cases r <;> exact ⟨rfl, rfl, rfl, rfl, rfl, rfl⟩

/-- **C19 on integers: the outcome is the comparison of the denoted numbers**, whatever the signedness and
    the side: for signed `a` and unsigned `b < 2^63`, `a < b` in GRL iff `a < b` as integers, and so on. -/
theorem C19_int_uint_denotation (k : IntK) (k' : UIntK) (a : Int) (b : Nat) (hb : b < 2^63) :
    LT (.int k a) (.uint k' b) = .ok (.bool (decide (a < (b : Int)))) ∧
    GT (.uint k' b) (.int k a) = .ok (.bool (decide ((b : Int) > a))) ∧
    EQ (.int k a) (.uint k' b) = .ok (.bool (decide (a = (b : Int)))) ∧
    EQ (.uint k' b) (.int k a) = .ok (.bool (decide ((b : Int) = a))) := by
  have hw : wrapI64 (b : Int) = (b : Int) := by
    unfold wrapI64 wrapS
    simp only
    have h1 : ((b : Int) % ((2 ^ 64 : Nat) : Int)) = (b : Int) := by
      apply Int.emod_eq_of_lt <;> omega
    rw [h1]
    split <;> omega
  have h1 : common? (.int k a) (.uint k' b) = some (.i a (wrapI64 b)) := rfl
  have h2 : common? (.uint k' b) (.int k a) = some (.i (wrapI64 b) a) := rfl
  obtain ⟨a1, _, _, _, a5, _⟩ := C19_six_from_one_view _ _ _ h1 rfl
  obtain ⟨_, _, b3, _, b5, _⟩ := C19_six_from_one_view _ _ _ h2 rfl
  rw [a1, a5, b3, b5, hw]
  exact ⟨rfl, rfl, rfl, rfl⟩

/-- non-vacuity: the same instant in UTC and in another zone, with and without a monotonic reading -/
example :
    let t1 : Val := .time { inst := 1000, loc := 0, mono := none }
    let t2 : Val := .time { inst := 1000, loc := 2, mono := some 1000 }
    EQ t1 t2 = .ok (.bool true) ∧ LE t1 t2 = .ok (.bool true) ∧ GE t1 t2 = .ok (.bool true) ∧
    NE t1 t2 = .ok (.bool false) ∧ LT t1 t2 = .ok (.bool false) := ⟨rfl, rfl, rfl, rfl, rfl⟩

/-- non-vacuity: uint8 200 against int8 −56 and float 200.0 -/
example : LT (.int .int8 (-56)) (.uint .uint8 200) = .ok (.bool true) ∧ GT (.uint .uint8 200) (.int .int8 (-56)) = .ok (.bool true) :=
  ⟨rfl, rfl⟩

end Grule.C19

#print axioms Grule.C19.C19_consistent
#print axioms Grule.C19.C19_mirror
#print axioms Grule.C19.C19_bool
#print axioms Grule.C19.C19_width_independent
#print axioms Grule.C19.C19_int_uint_denotation
#print axioms Grule.C19.C19_six_from_one_view

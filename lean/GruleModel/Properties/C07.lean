/-
  C07 — a rule's meaning never depends on which other rules share its knowledge base.

  In the engine nodes of different rules are merged when their snapshots are equal, and remembered values
  are keyed by snapshot. The model does exactly that (memo tables keyed by `snapE`/`snapA`). That this is
  harmless is the conjunction of
   * `SnapInj`: equal snapshots only for equal nodes — **proved** (`C07_snapshots_determine_nodes`,
     `Proofs/SnapInj.lean`: the printers write a prefix code) from `FloatPF`, the injectivity of shortest float
     formatting, for all ASTs with lexer-admissible names and no NaN constant (all NaN bit patterns print `NaN`, so
     without that exclusion the statement is false in the model: `C07_nan_constants_collide`; no literal denotes a NaN);
   * the refinement theorem: with `SnapInj`, every rule of a knowledge base is evaluated as `specE` of its
     own tree on the current facts — a function of the rule and the facts alone.
-/
import GruleModel.Proofs.Side
namespace Grule.C07
open Grule

/-- **The candidate status of a rule in a pass does not depend on the other rules.** For any rules before
    and after it in the knowledge base (any build order, any iteration order), a pass that runs to its end
    reports `r` as candidate iff `r` is active and its own condition holds from scratch on the facts. -/
theorem C07_status_alone {c : Cfg} (rc : RunCfg) (cyc : Nat) (before after : List RuleEntry) (r : RuleEntry) (ss : SState)
    (hnone : (specPass rc c cyc (before ++ r :: after) ss []).1 = none)
    (hfin : pollsCancelled rc (specPass rc c cyc (before ++ r :: after) ss []).2.1 = false) :
    (r ∈ (specPass rc c cyc (before ++ r :: after) ss []).2.2) ↔ CandOn c ss.vis r := by
  constructor
  · intro hmem
    rcases (specPass_spec (c := c) rc cyc (before ++ r :: after) ss []).2.2 r hmem with h | h
    · cases h
    · exact h.2
  · intro hc
    exact (specPass_complete rc cyc (before ++ r :: after) ss [] hnone hfin).2 r (by simp) hc

/-- `CandOn` mentions the rule and the visible facts only -/
theorem C07_meaning_is_local (c : Cfg) (v : Vis) (r : RuleEntry) :
    CandOn c v r ↔ (visRetracted v r = false ∧ r.deleted = false ∧
      (match specE c v.st r.rule.cond with | .ok (.bool true) => True | _ => False)) := by
  unfold CandOn specCond
  constructor
  · rintro ⟨h1, h2, h3⟩
    refine ⟨h1, h2, ?_⟩
    simp only [h1, Bool.false_eq_true, if_false] at h3
    split at h3
    · rename_i b hb
      simp only [CondResult.cand.injEq] at h3
      subst h3
      simp [hb]
    · cases h3
    · cases h3
    · cases h3
  · rintro ⟨h1, h2, h3⟩
    refine ⟨h1, h2, ?_⟩
    simp only [h1, Bool.false_eq_true, if_false]
    split at h3
    · rename_i hb
      simp [hb]
    · cases h3

/-- **With the working memory** (under `Side`, whose `FloatPF` gives `SnapInj`): the engine's run over the joint
    knowledge base is the reference run, in which every firing is of a rule whose own condition holds
    (C01) and every pass reports exactly the locally satisfied rules (above). Sharing cannot be observed. -/
theorem C07_sharing_unobservable {c : Cfg} (rc : RunCfg) (inst : Instance) (st : Store) (h : Side c inst.entries) :
    (execute rc c inst st).trace = (refRun rc c inst st).trace ∧
    (execute rc c inst st).store = (refRun rc c inst st).store :=
  let r := execute_refines h.pure h.inj rc inst st h.wf h.frame
  ⟨r.2.1, r.2.2.1⟩

/-- **Equal snapshots only for equal nodes**: for all expressions and atoms (any depth, any names the lexer admits,
    any string/integer/boolean constants, float constants other than NaN), given only that shortest float formatting
    is injective. Selectors after their receiver, the unterminated argument lists and names next to
    punctuation are all covered: the printers write a prefix code. -/
theorem C07_snapshots_determine_nodes (hf : FloatPF) : SnapInj := snapInj_of hf

/-- why validity excludes NaN constants: two different ones have one snapshot -/
theorem C07_nan_constants_collide :
    snapA (.const (.float 0x7ff8000000000000)) = snapA (.const (.float 0x7ff8000000000001)) := by decide +kernel

/-- non-vacuity: ordinary float constants, nested selectors and calls are valid -/
example : validE (.bin .add (.atom (.const (.float 0x3ff8000000000000)))
    (.atom (.sel (.meth (.var (.field (.root "F") "M")) "Get" (.cons (.atom (.const (.str "k\"\n"))) .nil))
      (.atom (.const (.int (-3))))))) = true := by decide +kernel

end Grule.C07

#print axioms Grule.C07.C07_snapshots_determine_nodes
#print axioms Grule.C07.C07_nan_constants_collide
#print axioms Grule.C07.C07_status_alone
#print axioms Grule.C07.C07_meaning_is_local
#print axioms Grule.C07.C07_sharing_unobservable

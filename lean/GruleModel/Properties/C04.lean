/-
  C04 — rule actions write exactly the computed values to exactly the addressed facts.
  `specActions` (SpecEngine.lean) is the specification: a left fold over the action list; every
  right-hand side is computed from scratch on the facts as left by the preceding action, the result is
  stored by `writeRoot / writeField / writeIndex` into the addressed cell (with the `SetNumberValue`
  conversions regenerated from the Go source), and the first failure stops the list.
-/
import GruleModel.Proofs.Side
namespace Grule.C04
open Grule

/-- **C04 sequencing (under the side conditions).** Executing a `then` list with the working memory —
    memoised right-hand sides, memoised selector expressions, resets after every write — has exactly
    the result and the effect on the facts (and on Retract/Complete flags) of the memo-free fold. -/
theorem C04_actions_sequential {c : Cfg} {T : Var → Prop} (hp : MethodsPure c) (hfl : FloatPF) (hf : FrameHyp c T)
    (acts : List Action) (s : EState)
    (hw : ∀ a ∈ acts, wfAction a = true ∧ ∀ op t e, a = .assign op t e → T t) (hc : Coh c s) :
    (execActions c s 0 acts).1 = (specActions c s.vis acts).1 ∧
    (execActions c s 0 acts).2.vis = (specActions c s.vis acts).2 :=
  let h := execActions_sound hp (snapInj_of hfl) hf acts s 0 hw hc
  ⟨h.val, h.vis⟩

/-- the first failing action stops the list and keeps what the completed actions did -/
theorem C04_failure_keeps_prefix (c : Cfg) (v : Vis) (a : Action) (rest : List Action) (e : Err) (v1 : Vis)
    (h : specAction c v a = (.error e, v1)) : specActions c v (a :: rest) = (.error e, v1) := by
  simp only [specActions, h]

/-- a successful action hands its facts to the next one -/
theorem C04_success_continues (c : Cfg) (v : Vis) (a : Action) (rest : List Action) (u : Unit) (v1 : Vis)
    (h : specAction c v a = (.ok u, v1)) : specActions c v (a :: rest) = specActions c v1 rest := by
  simp only [specActions, h]

/-- a plain assignment stores the from-scratch value of its right-hand side -/
theorem C04_assign_value (c : Cfg) (v : Vis) (t : Var) (rhs : Expr) (rv : Val) (h : specE c v.st rhs = .ok rv) :
    specAction c v (.assign .set t rhs) = specAssign c v t rv := by
  simp only [specAction, h, AssignOp.binop]

/-- a compound assignment stores `current op rhs`, with `current` read after the right-hand side was computed -/
theorem C04_compound_value (c : Cfg) (v : Vis) (op : AssignOp) (bop : BinOp) (t : Var) (rhs : Expr) (rv cur nv : Val)
    (hop : op.binop = some bop) (h : specE c v.st rhs = .ok rv) (hc : specV c v.st t = .ok cur)
    (hb : evalBinOp c v.st bop cur rv = .ok nv) :
    specAction c v (.assign op t rhs) = specAssign c v t nv := by
  simp only [specAction, h, hop, hc, hb]

end Grule.C04

#print axioms Grule.C04.C04_actions_sequential
#print axioms Grule.C04.C04_failure_keeps_prefix
#print axioms Grule.C04.C04_success_continues
#print axioms Grule.C04.C04_assign_value
#print axioms Grule.C04.C04_compound_value

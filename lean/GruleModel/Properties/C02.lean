/-
  C02 — execution ends only at quiescence; no satisfied rule is overlooked.
-/
import GruleModel.Proofs.Side
namespace Grule.C02
open Grule

/-- a rule entry is a candidate on a visible state: active and its condition holds from scratch -/
abbrev Satisfied (c : Cfg) (v : Vis) (x : RuleEntry) : Prop := CandOn c v x

theorem holds_false_of_not_cand {c : Cfg} {v : Vis} {x : RuleEntry} (hr : visRetracted v x = false)
    (h : specCond c v x ≠ .cand true) : holds c v.st x.rule = false := by
  unfold specCond at h
  simp only [hr, Bool.false_eq_true, if_false] at h
  unfold holds
  split
  · rename_i hb
    rw [hb] at h
    exact absurd rfl h
  · rfl

/-- **C02 quiescence (under `Side`).** If Execute returns nil and `Complete()` was not called, no active
    rule's condition holds on the final facts — for the engine with its working memory. -/
theorem C02_quiescent {c : Cfg} (rc : RunCfg) (inst : Instance) (st : Store) (h : Side c inst.entries)
    (hok : (execute rc c inst st).outcome = .ok) (hnc : (refRun rc c inst st).complete = false) :
    ∀ x ∈ inst.entries, x.deleted = false → (execute rc c inst st).inst.retracted.contains x.rule.name = false →
      holds c (execute rc c inst st).store x.rule = false := by
  obtain ⟨ho, _, hst, _, hre⟩ := execute_refines h.pure h.inj rc inst st h.wf h.frame
  rw [hst, hre]
  rw [ho] at hok
  unfold refRun at hnc
  unfold specExecute at hok hnc ⊢
  dsimp only at hok hnc ⊢
  have hq := specLoop_quiescent (c := c) rc inst.entries h.keys (rc.maxCycle + 1) 0 { vis := { st := st } }
  generalize specLoop rc c inst.entries (rc.maxCycle + 1) 0 { vis := { st := st } } = sl at hq hok hnc ⊢
  obtain ⟨o, ss⟩ := sl
  simp only at hq hok hnc ⊢
  intro x hx hdel hret
  have hnot := hq hok hnc x hx
  have hr : visRetracted ss.vis x = false := hret
  apply holds_false_of_not_cand hr
  intro hc
  exact hnot ⟨hr, hdel, hc⟩

/-- **C02 per cycle.** A pass that was not cut short puts every active rule whose condition holds on the
    current facts into the candidate list (`specPass_complete`), and adds nothing else
    (`specPass_spec`); the engine's pass reports the same events (`evalPass_sound`). -/
theorem C02_pass_complete {c : Cfg} (rc : RunCfg) (cyc : Nat) (es : List RuleEntry) (ss : SState)
    (hnone : (specPass rc c cyc es ss []).1 = none)
    (hfin : pollsCancelled rc (specPass rc c cyc es ss []).2.1 = false) :
    ∀ x ∈ es, (Satisfied c ss.vis x ↔ x ∈ (specPass rc c cyc es ss []).2.2) := by
  intro x hx
  constructor
  · exact (specPass_complete rc cyc es ss [] hnone hfin).2 x hx
  · intro hmem
    rcases (specPass_spec (c := c) rc cyc es ss []).2.2 x hmem with h | h
    · cases h
    · exact h.2

end Grule.C02

#print axioms Grule.C02.C02_quiescent
#print axioms Grule.C02.C02_pass_complete

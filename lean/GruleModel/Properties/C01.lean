/-
  C01 — a rule fires only when its condition holds on the current facts.

  `execute` is the model of GruleEngine.ExecuteWithContext *with* the working memory (snapshot-keyed
  memo tables, the substring-built invalidation index, ResetVariable/Reset/ResetAll as in the code);
  `refRun` is the memo-free reference loop. `holds c st r` is the condition evaluated from scratch.
-/
import GruleModel.Proofs.Side
import GruleModel.Proofs.SideInstance
namespace Grule.C01
open Grule

/-- **C01 (under `Side`).** For every rule set, fact state, MaxCycle, iteration-order oracle,
    cancellation point and whatever the instance remembers from earlier calls: the `exec` events the
    listeners see are exactly the firings of the reference run, and each of those is a firing of an
    entry of the knowledge base that is neither removed nor retracted and whose `when` condition,
    evaluated from scratch on the facts of that moment, is true. -/
theorem C01_fire_sound {c : Cfg} (rc : RunCfg) (inst : Instance) (st : Store) (h : Side c inst.entries) :
    execList (execute rc c inst st).trace = firedNames (refRun rc c inst st).fired ∧
    ∀ f ∈ (refRun rc c inst st).fired,
      f.2.1 ∈ inst.entries ∧ f.2.1.deleted = false ∧ visRetracted f.2.2 f.2.1 = false ∧
      holds c f.2.2.st f.2.1.rule = true := by
  obtain ⟨_, htr, _⟩ := execute_refines h.pure h.inj rc inst st h.wf h.frame
  refine ⟨?_, refRun_fired_good rc c inst st⟩
  rw [htr]
  exact refRun_exec rc c inst st

/-- the same for the engine run without working memory (`memo := false`): no `FrameHyp` needed; this is
    the statement the property oracle evaluates on the real engine -/
theorem C01_fire_sound_memo_free {c : Cfg} (hm : c.memo = false) (rc : RunCfg) (inst : Instance) (st : Store)
    (hp : MethodsPure c) (hfl : FloatPF) (hw : WFEntries inst.entries) :
    execList (execute rc c inst st).trace = firedNames (refRun rc c inst st).fired := by
  obtain ⟨_, htr, _⟩ := execute_refines hp (snapInj_of hfl) rc inst st hw (frameHyp_memo_off hm _)
  rw [htr]
  exact refRun_exec rc c inst st

/-- **The side conditions are satisfiable with the working memory on** (`Proofs/SideInstance`): the knowledge base
    `rule R { when X > 1 then X = 0; }` with its real index meets `Side`, `FrameHyp` included — from every coherent
    state, whatever the facts and the remembered values, assigning `X` leaves the memo coherent. So the theorems above
    are not vacuous for memoising configurations: for this knowledge base, every store, `MaxCycle`, order and
    cancellation point, the memoising run fires exactly what the reference run fires. -/
theorem C01_side_satisfiable (hfl : FloatPF) (rc : RunCfg) (st : Store) (memoE memoA : Memo) :
    Side SideInstance.c0 SideInstance.entries0 ∧
    execList (execute rc SideInstance.c0 { entries := SideInstance.entries0, wm := SideInstance.wm0, memoE := memoE, memoA := memoA } st).trace
      = firedNames (refRun rc SideInstance.c0 { entries := SideInstance.entries0, wm := SideInstance.wm0, memoE := memoE, memoA := memoA } st).fired :=
  ⟨SideInstance.side0 hfl,
   (C01_fire_sound rc { entries := SideInstance.entries0, wm := SideInstance.wm0, memoE := memoE, memoA := memoA } st (SideInstance.side0 hfl)).1⟩

end Grule.C01

#print axioms Grule.C01.C01_side_satisfiable

#print axioms Grule.C01.C01_fire_sound
#print axioms Grule.C01.C01_fire_sound_memo_free
#print axioms Grule.execute_refines
#print axioms Grule.evalE_sound

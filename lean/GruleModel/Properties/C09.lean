/-
  C09 — instances are faithful copies, mutually isolated, and safe to run concurrently.  (proof, partial)

  What the model carries: an instance is a value (`Instance`): the rule entries of the blueprint and the
  reachable part of its working memory, with its own remembered values and retractions. Isolation in the
  model is value semantics; that the implementation really allocates fresh objects for every instance is
  validated, not proved: the harness walks the pointer graphs of blueprint and instances with `reflect`
  and requires them to be pairwise disjoint. Go data races cannot be exhibited by the model at all: the
  thorough tier runs the concurrent scenarios under the race detector.
-/
import GruleModel.Proofs.Side
import GruleModel.Library
namespace Grule.C09
open Grule

/-- **Instance creation succeeds for every knowledge base** — whatever history of accepted and rejected
    resources, removals and re-builds produced it — and the instance has exactly the blueprint's rule entries -/
theorem C09_instance_succeeds (kb : KB) : ∃ i, kb.instantiate = some i ∧ i.entries = kb.entries ∧
    i.memoE = [] ∧ i.memoA = [] ∧ i.retracted = [] :=
  ⟨_, rfl, rfl, rfl, rfl, rfl⟩

/-- **Faithful**: an instance behaves on every fact set like the reference semantics of the blueprint's rules
    (under `Side`): two instances of one knowledge base — or an instance of the knowledge base obtained by
    store and load of the same live rules — are indistinguishable by Execute. -/
theorem C09_faithful {c : Cfg} (rc : RunCfg) (kb : KB) (i : Instance) (st : Store) (hi : kb.instantiate = some i)
    (h : Side c kb.entries) :
    (execute rc c i st).outcome = (specExecute rc c kb.entries st).outcome ∧
    (execute rc c i st).trace = (specExecute rc c kb.entries st).trace ∧
    (execute rc c i st).store = (specExecute rc c kb.entries st).store := by
  have he : i.entries = kb.entries := by unfold KB.instantiate at hi; cases hi; rfl
  have h' : Side c i.entries := by rw [he]; exact h
  obtain ⟨a, b, d, _⟩ := execute_refines h'.pure h'.inj rc i st h'.wf h'.frame
  rw [he] at a b d
  exact ⟨a, b, d⟩

/-- the state of a system of instances: each goroutine owns one -/
abbrev Fleet := List Instance

def stepOn (rc : RunCfg) (c : Cfg) (fleet : Fleet) (k : Nat) (st : Store) : Fleet :=
  match fleet[k]? with
  | some i => fleet.set k (execute rc c i st).inst
  | none => fleet

/-- **Isolation**: executing (and thereby retracting, remembering) on instance `k` leaves every other instance
    exactly as it was -/
theorem C09_isolated (rc : RunCfg) (c : Cfg) (fleet : Fleet) (k j : Nat) (st : Store) (hne : j ≠ k) :
    (stepOn rc c fleet k st)[j]? = fleet[j]? := by
  unfold stepOn
  split
  · simp [List.getElem?_set, Ne.symm hne]
  · rfl

/-- **Interleaving**: steps on different instances commute, so every schedule of a set of per-instance call
    sequences gives each instance the result of its own sequential run -/
theorem C09_steps_commute (rc rc' : RunCfg) (c : Cfg) (fleet : Fleet) (k j : Nat) (st st' : Store) (hne : j ≠ k) :
    stepOn rc' c (stepOn rc c fleet k st) j st' = stepOn rc c (stepOn rc' c fleet j st') k st := by
  have h1 : (stepOn rc c fleet k st)[j]? = fleet[j]? := C09_isolated rc c fleet k j st hne
  have h2 : (stepOn rc' c fleet j st')[k]? = fleet[k]? := C09_isolated rc' c fleet j k st' (Ne.symm hne)
  unfold stepOn at *
  cases hk : fleet[k]? with
  | none =>
    cases hj : fleet[j]? with
    | none => simp [hk, hj]
    | some ij =>
      simp only [hk, hj]
      have : (fleet.set j (execute rc' c ij st').inst)[k]? = none := by
        rw [List.getElem?_set]; simp [hne, hk]
      simp [this]
  | some ik =>
    cases hj : fleet[j]? with
    | none =>
      simp only [hk, hj]
      have : (fleet.set k (execute rc c ik st).inst)[j]? = none := by
        rw [List.getElem?_set]; simp [Ne.symm hne, hj]
      simp [this]
    | some ij =>
      simp only [hk, hj]
      have a : (fleet.set k (execute rc c ik st).inst)[j]? = some ij := by
        rw [List.getElem?_set]; simp [Ne.symm hne, hj]
      have b : (fleet.set j (execute rc' c ij st').inst)[k]? = some ik := by
        rw [List.getElem?_set]; simp [hne, hk]
      simp only [a, b]
      exact List.set_comm _ _ (Ne.symm hne)

/-- the blueprint is not touched by instance creation: `instantiate` is a function of the knowledge base -/
theorem C09_blueprint_untouched (kb : KB) : ∀ i j, kb.instantiate = some i → kb.instantiate = some j → i = j := by
  intro i j h1 h2; rw [h1] at h2; cases h2; rfl

end Grule.C09

#print axioms Grule.C09.C09_instance_succeeds
#print axioms Grule.C09.C09_faithful
#print axioms Grule.C09.C09_isolated
#print axioms Grule.C09.C09_steps_commute
#print axioms Grule.C09.C09_blueprint_untouched

/-
  C14 — exactly one highest-salience satisfied rule fires per cycle.
  Decision logic of the salience scan (`pickRunner`, engine/GruleEngine.go) stated outright, for all
  integer saliences and every iteration order; trace-level statements are in `Proofs/Trace.lean`
  and re-exported here.
-/
import GruleModel.Engine
namespace Grule.C14

/-- the runner is one of the candidates -/
theorem C14_runner_is_candidate (r : RuleEntry) (rs : List RuleEntry) : pickRunner r rs ∈ r :: rs := by
  induction rs generalizing r with
  | nil => simp [pickRunner]
  | cons p rest ih =>
    unfold pickRunner
    split
    · have := ih p
      simp only [List.mem_cons] at this ⊢
      rcases this with h | h
      · right; left; exact h
      · right; right; exact h
    · have := ih r
      simp only [List.mem_cons] at this ⊢
      rcases this with h | h
      · left; exact h
      · right; right; exact h

/-- auxiliary: the scan never lowers the salience it holds -/
theorem pickRunner_ge_start (r : RuleEntry) (rs : List RuleEntry) :
    r.rule.salience ≤ (pickRunner r rs).rule.salience := by
  induction rs generalizing r with
  | nil => simp [pickRunner]
  | cons p rest ih =>
    unfold pickRunner
    split
    · rename_i h; exact Int.le_trans (Int.le_of_lt h) (ih p)
    · exact ih r

/-- the runner's salience is maximal among all candidates of the cycle (any `Int`, hence the whole
    int32 range, negative and equal values included) -/
theorem C14_max_salience (r : RuleEntry) (rs : List RuleEntry) :
    ∀ p ∈ r :: rs, p.rule.salience ≤ (pickRunner r rs).rule.salience := by
  induction rs generalizing r with
  | nil => intro p hp; simp at hp; subst hp; simp [pickRunner]
  | cons q rest ih =>
    intro p hp
    unfold pickRunner
    split
    · rename_i h
      simp only [List.mem_cons] at hp
      rcases hp with hp | hp | hp
      · subst hp; exact Int.le_trans (Int.le_of_lt h) (pickRunner_ge_start q rest)
      · subst hp; exact pickRunner_ge_start p rest
      · exact ih q p (by simp [hp])
    · rename_i h
      simp only [List.mem_cons] at hp
      rcases hp with hp | hp | hp
      · subst hp; exact pickRunner_ge_start p rest
      · subst hp; exact Int.le_trans (Int.not_lt.mp h) (pickRunner_ge_start r rest)
      · exact ih r p (by simp [hp])

/-- non-vacuity: three candidates with saliences 0, 5, 5 — the first maximal one (B) runs -/
example :
    let mk := fun (n : String) (s : Int) => ({ key := n, rule := { name := n, desc := "", salience := s, cond := default, acts := [] } } : RuleEntry)
    (pickRunner (mk "A" 0) [mk "B" 5, mk "C" 5]).key = "B" := by decide

end Grule.C14

#print axioms Grule.C14.C14_runner_is_candidate
#print axioms Grule.C14.C14_max_salience

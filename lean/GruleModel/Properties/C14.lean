/-
  C14 — failures inside a condition or an action are contained and reported.
  Primitive steps of the model return `ok v | error (eval _) | error (panic _)`; the boundaries
  RuleEntry.Evaluate / RuleEntry.Execute turn both kinds of failure into an error value (the deferred
  `recover`). `Outcome` has no constructor for an escaping panic: by construction nothing else can leave
  `execute`; the harness checks the real engine for escaping panics.
-/
import GruleModel.Proofs.Side
namespace Grule.C14
open Grule

/-- any failure of the condition — an error value or a panic, from a missing fact, nil pointer, index or
    key out of range, kind mismatch, integer division by zero, failing user method — makes the rule
    "failed", nothing more -/
theorem C14_cond_failure_contained (c : Cfg) (v : Vis) (e : RuleEntry) (err : Err)
    (hr : visRetracted v e = false) (hf : specE c v.st e.rule.cond = .error err) (hm : ∀ m, err ≠ .unmodelled m) :
    specCond c v e = .failed := by
  unfold specCond
  cases err with
  | eval m => simp only [hr, Bool.false_eq_true, if_false, hf]
  | panic m => simp only [hr, Bool.false_eq_true, if_false, hf]
  | unmodelled m => exact absurd rfl (hm m)

/-- by default the failing rule is reported as a non-candidate and the pass goes on with the next entry:
    the other rules of the cycle are evaluated exactly as if this one had simply been false -/
theorem C14_cond_failure_default {c : Cfg} (rc : RunCfg) (cyc : Nat) (e : RuleEntry) (rest acc : List RuleEntry) (ss : SState)
    (hre : rc.retErr = false) (h1 : (specPoll rc ss).1 = false)
    (h2 : (visRetracted (specPoll rc ss).2.vis e || e.deleted) = false)
    (h3 : (specPoll rc (specPoll rc ss).2).1 = false)
    (hf : specCond c (specPoll rc (specPoll rc ss).2).2.vis e = .failed) :
    specPass rc c cyc (e :: rest) ss acc =
      specPass rc c cyc rest ((specPoll rc (specPoll rc ss).2).2.emit (.eval cyc e.rule.name false)) acc := by
  simp only [specPass, h1, h2, h3, hf, hre, Bool.false_eq_true, if_false]

/-- with ReturnErrOnFailedRuleEvaluation the run ends with an error naming the rule -/
theorem C14_cond_failure_retErr {c : Cfg} (rc : RunCfg) (cyc : Nat) (e : RuleEntry) (rest acc : List RuleEntry) (ss : SState)
    (hre : rc.retErr = true) (h1 : (specPoll rc ss).1 = false)
    (h2 : (visRetracted (specPoll rc ss).2.vis e || e.deleted) = false)
    (h3 : (specPoll rc (specPoll rc ss).2).1 = false)
    (hf : specCond c (specPoll rc (specPoll rc ss).2).2.vis e = .failed) :
    (specPass rc c cyc (e :: rest) ss acc).1 = some (.evalErr e.rule.name false) := by
  simp only [specPass, h1, h2, h3, hf, hre, Bool.false_eq_true, if_false, if_true]

/-- a failing action stops the list, keeps the effects of the completed actions and is what the run
    reports: the reference loop returns `actionErr <rule>` with the facts as left by the completed actions,
    and starts no further pass (`specLoop`, branch `(.error _, v')`); here: the action-list part -/
theorem C14_action_failure (c : Cfg) (v : Vis) (pre : List Action) (a : Action) (post : List Action)
    (v1 v2 : Vis) (u : Unit) (err : Err)
    (hpre : specActions c v pre = (.ok u, v1)) (ha : specAction c v1 a = (.error err, v2)) :
    specActions c v (pre ++ a :: post) = (.error err, v2) := by
  induction pre generalizing v with
  | nil =>
    simp only [specActions] at hpre
    cases hpre
    simp only [List.nil_append, specActions, ha]
  | cons b rest ih =>
    simp only [specActions] at hpre
    simp only [List.cons_append, specActions]
    generalize specAction c v b = rb at hpre
    obtain ⟨r, vb⟩ := rb
    cases r with
    | error e => simp only at hpre; cases hpre
    | ok _ => simp only at hpre ⊢; exact ih vb hpre

/-- a node whose evaluation failed is not remembered: it is evaluated again the next time it is needed -/
theorem C14_failure_not_memoised (c : Cfg) (k : Snap) (e : Err) (s : EState) :
    finishA c k (.error e, s) = (.error e, s) ∧ finishE c k (.error e, s) = (.error e, s) := ⟨rfl, rfl⟩

end Grule.C14

#print axioms Grule.C14.C14_cond_failure_contained
#print axioms Grule.C14.C14_cond_failure_default
#print axioms Grule.C14.C14_cond_failure_retErr
#print axioms Grule.C14.C14_action_failure
#print axioms Grule.C14.C14_failure_not_memoised

/-
  C05 — GRL expressions evaluate per the documented operator and literal semantics.

  Three layers.
  1. Grouping: `Syntax/Parser` (precedence climbing over `prec`, left associative). Its levels are tied to the
     generated parser's precedence predicates, to the grammar's operator rules and to the published table by
     `Properties/SyntaxTie` (regenerated facts, `decide`). That the recogniser groups like the generated ANTLR
     parser on every text is the correspondence (exact snapshot strings, run/props.py: run_c05).
  2. Literals: `Syntax/Literal` (ParseInt base 0, ParseFloat, unquoteString); keyword / boolean case.
  3. Operators: the canonical tables `Expected.tab` — equal to the tables regenerated from pkg/reflectmath.go
     by `Properties/TableTie` — have the documented meaning, for every operand kind and every value
     (the statements below); evaluation order, short-circuit and negation are those of `Spec.specE`, which the
     engine refines (`evalE_sound`, C01).
-/
import GruleModel.Proofs.LexDoc
import GruleModel.Spec
import GruleModel.Snapshot
import GruleModel.Properties.TableTie
import GruleModel.Properties.SyntaxTie
import GruleModel.Proofs.RealLiterals
import GruleModel.Proofs.LexFacts
import GruleModel.Proofs.ParseRange
namespace Grule.C05
open Grule Grule.Expected Grule.Syntax

-- 3. operators ---------------------------------------------------------------------------------------------

/-- 64-bit wrap-around is the identity inside the int64 range -/
theorem wrapI64_id (n : Int) (h1 : -(2:Int)^63 ≤ n) (h2 : n < (2:Int)^63) : wrapI64 n = n := by
  have e63 : (2:Int)^63 = 9223372036854775808 := by decide
  have e64 : ((2 ^ 64 : Nat) : Int) = 18446744073709551616 := by decide
  rw [e63] at h1 h2
  unfold wrapI64 wrapS
  simp only [e64]
  split
  · rename_i h; omega
  · rename_i h; omega

/-- **integers follow 64-bit Go arithmetic**, whatever the declared widths of the two operands -/
theorem C05_int_arith (k1 k2 : IntK) (a b : Int) :
    evalTable (tab .add) (.int k1 a) (.int k2 b) = .ok (.int .int64 (wrapI64 (a + b))) ∧
    evalTable (tab .sub) (.int k1 a) (.int k2 b) = .ok (.int .int64 (wrapI64 (a - b))) ∧
    evalTable (tab .mul) (.int k1 a) (.int k2 b) = .ok (.int .int64 (wrapI64 (a * b))) := by
  cases k1 <;> cases k2 <;> exact ⟨rfl, rfl, rfl⟩

/-- … and are exact when the mathematical result fits (the property's "free of overflow") -/
theorem C05_int_add_exact (k1 k2 : IntK) (a b : Int) (h1 : -(2:Int)^63 ≤ a + b) (h2 : a + b < (2:Int)^63) :
    evalTable (tab .add) (.int k1 a) (.int k2 b) = .ok (.int .int64 (a + b)) := by
  rw [(C05_int_arith k1 k2 a b).1, wrapI64_id _ h1 h2]

theorem C05_int_mul_exact (k1 k2 : IntK) (a b : Int) (h1 : -(2:Int)^63 ≤ a * b) (h2 : a * b < (2:Int)^63) :
    evalTable (tab .mul) (.int k1 a) (.int k2 b) = .ok (.int .int64 (a * b)) := by
  rw [(C05_int_arith k1 k2 a b).2.2, wrapI64_id _ h1 h2]

/-- `%` is Go's truncated remainder on int64; a zero divisor is a (recovered) panic -/
theorem C05_int_mod (k1 k2 : IntK) (a b : Int) :
    evalTable (tab .mod) (.int k1 a) (.int k2 b) =
      if b == 0 then panicErr "integer divide by zero" else .ok (.int .int64 (Int.tmod a b)) := by
  cases k1 <;> cases k2 <;> rfl

/-- **`/` always yields the real quotient**: both integers are promoted to float64 first -/
theorem C05_div_real (k1 k2 : IntK) (a b : Int) :
    evalTable (tab .div) (.int k1 a) (.int k2 b) = .ok (.float .f64 (fbin (· / ·) (f64OfInt a) (f64OfInt b))) := by
  cases k1 <;> cases k2 <;> rfl

/-- **int-to-float promotion**: an integer meeting a float is converted (`float64(i)`), on either side -/
theorem C05_promotion (k : IntK) (a : Int) (x : UInt64) :
    evalTable (tab .add) (.int k a) (.float .f64 x) = .ok (.float .f64 (fbin (· + ·) (f64OfInt a) x)) ∧
    evalTable (tab .add) (.float .f64 x) (.int k a) = .ok (.float .f64 (fbin (· + ·) x (f64OfInt a))) ∧
    evalTable (tab .mul) (.int k a) (.float .f64 x) = .ok (.float .f64 (fbin (· * ·) (f64OfInt a) x)) ∧
    evalTable (tab .sub) (.float .f64 x) (.int k a) = .ok (.float .f64 (fbin (· - ·) x (f64OfInt a))) ∧
    evalTable (tab .div) (.float .f64 x) (.int k a) = .ok (.float .f64 (fbin (· / ·) x (f64OfInt a))) := by
  cases k <;> exact ⟨rfl, rfl, rfl, rfl, rfl⟩

/-- **`+` concatenates when a string is involved**: integers in decimal, floats as `%f`, booleans as `true`/`false` -/
theorem C05_concat (s t : String) (k : IntK) (a : Int) (x : UInt64) (b : Bool) :
    evalTable (tab .add) (.str s) (.str t) = .ok (.str (s ++ t)) ∧
    evalTable (tab .add) (.str s) (.int k a) = .ok (.str (s ++ String.ofList (intChars a))) ∧
    evalTable (tab .add) (.int k a) (.str s) = .ok (.str (String.ofList (intChars a) ++ s)) ∧
    evalTable (tab .add) (.str s) (.float .f64 x) = .ok (.str (s ++ fmtF6 x)) ∧
    evalTable (tab .add) (.float .f64 x) (.str s) = .ok (.str (fmtF6 x ++ s)) ∧
    evalTable (tab .add) (.str s) (.bool b) = .ok (.str (s ++ toString b)) := by
  cases k <;> exact ⟨rfl, rfl, rfl, rfl, rfl, rfl⟩

/-- `&` and `|` are the bitwise operations on the two's-complement 64-bit patterns -/
theorem C05_bitops (k1 k2 : IntK) (a b : Int) :
    evalTable (tab .band) (.int k1 a) (.int k2 b) = .ok (.int .int64 (wrapI64 (Nat.land (wrapU64 a) (wrapU64 b)))) ∧
    evalTable (tab .bor) (.int k1 a) (.int k2 b) = .ok (.int .int64 (wrapI64 (Nat.lor (wrapU64 a) (wrapU64 b)))) := by
  cases k1 <;> cases k2 <;> exact ⟨rfl, rfl⟩

/-- `&&` / `||` on two booleans -/
theorem C05_logic (a b : Bool) :
    evalTable (tab .and) (.bool a) (.bool b) = .ok (.bool (a && b)) ∧
    evalTable (tab .or) (.bool a) (.bool b) = .ok (.bool (a || b)) := by
  cases a <;> cases b <;> exact ⟨rfl, rfl⟩

/-- arithmetic on a boolean, or a string in `-`, `*`, `/`, is an error, never a value -/
theorem C05_ill_typed (b : Bool) (s : String) (k : IntK) (a : Int) :
    evalTable (tab .add) (.bool b) (.int k a) = evalErr "can not use data type" ∧
    evalTable (tab .sub) (.str s) (.int k a) = evalErr "can not use data type" ∧
    evalTable (tab .mul) (.int k a) (.str s) = evalErr "can not use data type" := by
  cases k <;> exact ⟨rfl, rfl, rfl⟩

-- evaluation order, short-circuit, negation (the from-scratch semantics the engine refines) ---------------------

/-- **`&&` short-circuits**: a false left operand decides; the right operand is not looked at (its value, even its
    failure, is irrelevant) -/
theorem C05_and_short_circuit (c : Cfg) (st : Store) (l r r' : Expr) (h : specE c st l = .ok (.bool false)) :
    specE c st (.bin .and l r) = .ok (.bool false) ∧ specE c st (.bin .and l r) = specE c st (.bin .and l r') := by
  have key : ∀ x, specE c st (.bin .and l x) = .ok (.bool false) := by
    intro x
    simp only [specE, h]
    simp [isPanic, shortCircuit, logicSingle, derefOperand]
  exact ⟨key r, by rw [key r, key r']⟩

/-- **`||` short-circuits**: a true left operand decides -/
theorem C05_or_short_circuit (c : Cfg) (st : Store) (l r r' : Expr) (h : specE c st l = .ok (.bool true)) :
    specE c st (.bin .or l r) = .ok (.bool true) ∧ specE c st (.bin .or l r) = specE c st (.bin .or l r') := by
  have key : ∀ x, specE c st (.bin .or l x) = .ok (.bool true) := by
    intro x
    simp only [specE, h]
    simp [isPanic, shortCircuit, logicSingle, derefOperand]
  exact ⟨key r, by rw [key r, key r']⟩

/-- **redundant parentheses never change the value; `!( … )` negates a boolean** -/
theorem C05_parens (c : Cfg) (st : Store) (e : Expr) :
    specE c st (.paren false e) = specE c st e ∧
    (∀ b, specE c st e = .ok (.bool b) → specE c st (.paren true e) = .ok (.bool (!b))) := by
  constructor
  · simp only [specE]
    cases specE c st e <;> simp [negResult, negate]
  · intro b h
    simp only [specE, h]
    simp [negResult, negate]

/-- `!` on an atom negates its boolean value -/
theorem C05_neg_atom (c : Cfg) (st : Store) (a : Atom) (b : Bool) (h : specA c st a = .ok (.bool b)) :
    specA c st (.neg a) = .ok (.bool (!b)) := by
  simp only [specA, h]
  simp [negResult, negate]

/-- **arguments are evaluated left to right and handed over in order**; the first failing argument decides -/
theorem C05_args_in_order (c : Cfg) (st : Store) (e : Expr) (rest : Args) :
    specArgs c st (.cons e rest) =
      (match specE c st e with
       | .error err => .error err
       | .ok v => match specArgs c st rest with
         | .error err => .error err
         | .ok vs => .ok (v :: vs)) := by
  rw [specArgs]
  cases specE c st e with
  | error err => rfl
  | ok v => cases specArgs c st rest <;> rfl

/-- a fact method receives exactly the evaluated receiver and the evaluated argument list (variadic tails are
    part of that list: `specMethodCall` passes `vs` on unchanged) -/
theorem C05_method_gets_args (c : Cfg) (st : Store) (recv : Atom) (f : String) (args : Args) (rv : Val) (vs : List Val)
    (h1 : specA c st recv = .ok rv) (h2 : specArgs c st args = .ok vs) :
    specA c st (.meth recv f args) = specMethodCall c st rv f vs := by
  simp only [specA, h1, h2]

-- 2. literals -----------------------------------------------------------------------------------------------

/-- keywords and boolean literals are recognised in any letter case -/
theorem toNat_ofNat_valid (n : Nat) (h : n < 0xD800) : (Char.ofNat n).toNat = n := by
  unfold Char.ofNat
  have hv : n.isValidChar := Or.inl h
  simp only [hv, dite_true]
  unfold Char.ofNatAux Char.toNat
  simp

theorem lowerC_idem (c : Char) : lowerC (lowerC c) = lowerC c := by
  unfold lowerC
  by_cases h : inR c 0x41 0x5A = true
  · simp only [h, if_true]
    have h' := h
    unfold inR at h'
    simp only [Bool.and_eq_true, decide_eq_true_eq] at h'
    have hv : (Char.ofNat (c.toNat + 32)).toNat = c.toNat + 32 := toNat_ofNat_valid _ (by omega)
    have : inR (Char.ofNat (c.toNat + 32)) 0x41 0x5A = false := by
      unfold inR
      rw [hv]
      simp only [Bool.and_eq_false_iff, decide_eq_false_iff_not]
      omega
    simp [this]
  · simp [h]

theorem C05_keyword_case (w cs : List Char) : kw w (cs.map lowerC) = kw w cs := by
  unfold kw
  have : ((cs.map lowerC).take w.length).map lowerC = (cs.take w.length).map lowerC := by
    rw [← List.map_take, List.map_map]
    congr 1
    funext c
    exact lowerC_idem c
  rw [this]

/-- every notation of the documentation for the same number: examples evaluated by the kernel (these are tests of
    the literal decoder, not the unbounded claim — that is the correspondence's job) -/
example : parseIntLit "0x1F".toList = some 31 ∧ parseIntLit "037".toList = some 31 ∧ parseIntLit "31".toList = some 31 ∧
    parseIntLit "-0X1f".toList = some (-31) ∧ parseIntLit "9223372036854775808".toList = none ∧
    parseIntLit "-9223372036854775808".toList = some (-9223372036854775808) := by decide +kernel

example : parseFloatLit "1.5".toList = some 0x3FF8000000000000 ∧ parseFloatLit "15e-1".toList = some 0x3FF8000000000000 ∧
    parseFloatLit "0x1.8p0".toList = some 0x3FF8000000000000 ∧ parseFloatLit ".15E+1".toList = some 0x3FF8000000000000 ∧
    parseFloatLit "0.1".toList = some 0x3FB999999999999A ∧ parseFloatLit "1e999".toList = none ∧
    parseFloatLit "-0.0".toList = some 0x8000000000000000 ∧ parseFloatLit "5e-324".toList = some 1 := by decide +kernel

example : unquote "\"a\\n\\x41\\u00e9\\\"\"".toList = .ok ['a', '\n', 'A', 'é', '"'] ∧
    unquote "'it\\'s'".toList = .ok "it's".toList ∧ unquote "\"a\\qb\"".toList = .syntaxErr ∧
    unquote "\"a\"\"b\"".toList = .syntaxErr := by decide +kernel

-- 1. grouping: regenerated ties, re-exported -----------------------------------------------------------------

/-- the levels of the generated parser, the grammar's operator rules and the published table all are `prec` -/
theorem C05_precedence_tied :
    Gen.exprLevels = [5, 4, 3, 2, 1].map (fun p => (SyntaxTie.ruleOfLevel p, p + 2, p + 3)) ∧
    SyntaxTie.allOps.all (fun o => (Gen.docPrec.filter (fun e => e.2 == o.sym)).map (·.1) == [prec o]) = true :=
  ⟨SyntaxTie.tie_levels, SyntaxTie.tie_doc_prec.1⟩

/-- grouping examples, evaluated by the kernel on token lists: `1 + 2 * 3`, `1 - 2 - 3`, `4 + 1 & 1` -/
def tk (k : TK) (s : String) : Token := ⟨k, s.toList⟩
def one : Expr := .atom (.const (.int 1))
def two : Expr := .atom (.const (.int 2))
def three : Expr := .atom (.const (.int 3))
def four : Expr := .atom (.const (.int 4))

def parsesTo (ts : List Token) (e : Expr) : Bool :=
  match parseExpr realDec 50 0 ts with
  | .ok (e', rest) => snapE e' == snapE e && rest.isEmpty
  | .error _ => false

example : parsesTo [tk .dec "1", tk .plus "+", tk .dec "2", tk .mul "*", tk .dec "3"] (.bin .add one (.bin .mul two three)) = true := by
  decide +kernel
example : parsesTo [tk .dec "1", tk .minus "-", tk .dec "2", tk .minus "-", tk .dec "3"] (.bin .sub (.bin .sub one two) three) = true := by
  decide +kernel
example : parsesTo [tk .dec "4", tk .plus "+", tk .dec "1", tk .bitand "&", tk .dec "1"] (.bin .band (.bin .add four one) one) = true := by
  decide +kernel

-- 1'. grouping: the print/parse round trip of the parser model (R10), token level -----------------------------------

/-- **operators group by `prec` and associate to the left; parentheses, negation, calls, members, selectors and argument
    lists are read back as written** — for every well-formed expression tree of any size and depth: the parser model
    returns exactly that tree from the tree's token sequence (`Proofs/ParseGroup`, `Proofs/ParseAtoms`). The literal
    decoder is a parameter (`ConstOK`: it inverts the notation the constants are printed in). Together with
    `C05_precedence_tied` (`prec` = generated parser = grammar = published table) this is the grouping sentence of the
    property for the model; the lexer (characters → tokens) and the literal notations are validated, not proved. -/
theorem C05_parse_print (d : Dec) (cT : Const → List Token) (ot : BinOp → List Char) (P : Const → Prop) (hc : ParseAtoms.ConstOK d cT P)
    (e : Expr) (hw : ParseAtoms.WFE P e) (p f : Nat) (ts : List Token) (hp : p ≤ ParseGroup.level e) (hf : ParseAtoms.nE e ≤ f)
    (hs : ParseGroup.stopAtom ts = true) (hfollow : ∀ op, ParseGroup.headOp ts = some op → prec op < p) :
    parseExpr d (f + 1) p (ParseAtoms.fE cT ot e ++ ts) = .ok (e, ts) :=
  ParseAtoms.parse_print d cT ot P hc e hw p f ts hp hf hs hfollow

/-- … and with the real literal decoder (`realDec`: ParseInt base 0, unquoteString) for every expression whose constants
    are integers inside int64 (decimal notation), strings `strconv.Quote` can write, booleans or nil
    (`Proofs/RealLiterals.lean`; float notations are validated, not proved) -/
theorem C05_parse_print_real (ot : BinOp → List Char) (e : Expr) (hw : ParseAtoms.WFE RealLiterals.Covered e) (p f : Nat) (ts : List Token)
    (hp : p ≤ ParseGroup.level e) (hf : ParseAtoms.nE e ≤ f) (hs : ParseGroup.stopAtom ts = true)
    (hfollow : ∀ op, ParseGroup.headOp ts = some op → prec op < p) :
    parseExpr realDec (f + 1) p (ParseAtoms.fE RealLiterals.canonTok ot e ++ ts) = .ok (e, ts) :=
  ParseAtoms.parse_print realDec RealLiterals.canonTok ot RealLiterals.Covered RealLiterals.real_ok e hw p f ts hp hf hs hfollow

/-- the converse: whatever the parser returns is well grouped — no text is read as a tree that violates the precedence
    table or left associativity (`Proofs/ParseRange.lean`) -/
theorem C05_parse_range (d : Dec) (f p : Nat) (ts : List Token) (e : Expr) (rest : List Token)
    (h : parseExpr d f p ts = .ok (e, rest)) (hp : p ≤ 6) : ParseGroup.WG e ∧ p ≤ ParseGroup.level e :=
  ⟨ParseAtoms.WG_of_WFE ParseRange.Any e (ParseRange.parse_range d f p ts e rest h hp).1, (ParseRange.parse_range d f p ts e rest h hp).2.1⟩

/-- `a ∘ b ∘' c` without parentheses: read as `(a ∘ b) ∘' c` exactly when `∘'` does not bind tighter than `∘` (left
    associativity at equal strength), as `a ∘ (b ∘' c)` when it does — the two trees have the same tokens, and only the one
    that is well grouped is what the parser returns -/
theorem C05_three_operands (o1 o2 : BinOp) (a b c : Atom) :
    (prec o2 ≤ prec o1 → ParseGroup.WG (.bin o2 (.bin o1 (.atom a) (.atom b)) (.atom c))) ∧
    (prec o1 < prec o2 → ParseGroup.WG (.bin o1 (.atom a) (.bin o2 (.atom b) (.atom c)))) :=
  ⟨ParseGroup.WG_left o1 o2 a b c, ParseGroup.WG_right o1 o2 a b c⟩

/-- whitespace in front of a text produces no token (`SPACE -> skip`, over whole runs; `Proofs/LexFacts`); whitespace and
    comments *between* tokens are validated by the correspondence on re-rendered texts -/
theorem C05_leading_whitespace (ws cs : List Char) (h : ∀ c ∈ ws, isWs c = true) (hcs : ∀ c, cs.head? = some c → isWs c = false) :
    lex (ws ++ cs) = lex cs := LexFacts.lex_leading_ws ws cs h hcs

/-- a block comment in front of a text produces no token, whatever it contains up to its first `*/`
    (`COMMENT : '/*' .*? '*/' -> skip`, the one non-greedy rule) -/
theorem C05_leading_comment (body cs : List Char) (h : LexFacts.hasClose body = false) :
    lex ('/' :: '*' :: (body ++ '*' :: '/' :: cs)) = lex cs := LexFacts.lex_leading_comment body cs h

/-- **Whitespace and comments never change the value**: whatever separators stand after the canonical tokens of a
    well-formed document — any mixture of spaces, tabs, newlines, block comments and line comments, each beginning with a
    whitespace character — the tokens and the parsed rules (hence every expression tree and its value) are the same
    (`Proofs/LexRender.lex_renderS`, `LexDoc.lex_parse_layout`; examples of separators: `LexDoc.goodSep_examples`). -/
theorem C05_layout_independent (rules : List Rule)
    (h : ∀ r ∈ rules, ParseDoc.WFRule RealLiterals.Covered r ∧ LexDoc.LRule r) (seps seps' : List (List Char))
    (hlen : seps.length = (ParseDoc.fDoc RealLiterals.canonTok LexDoc.canonOt LexDoc.canonDT rules).length)
    (hlen' : seps'.length = (ParseDoc.fDoc RealLiterals.canonTok LexDoc.canonOt LexDoc.canonDT rules).length)
    (hs : ∀ sep ∈ seps, LexRender.GoodSep sep) (hs' : ∀ sep ∈ seps', LexRender.GoodSep sep) :
    parseDoc realDec (lex (LexRender.renderS ((ParseDoc.fDoc RealLiterals.canonTok LexDoc.canonOt LexDoc.canonDT rules).zip seps))).toks =
    parseDoc realDec (lex (LexRender.renderS ((ParseDoc.fDoc RealLiterals.canonTok LexDoc.canonOt LexDoc.canonDT rules).zip seps'))).toks := by
  rw [(LexDoc.lex_parse_layout rules h seps hlen hs).2, (LexDoc.lex_parse_layout rules h seps' hlen' hs').2]

/-- **Keyword case, whitespace and comments never change the value**: any token list that differs from the canonical tokens
    of a well-formed document only in the spelling of keyword tokens — every capitalisation of a keyword lexes as that
    keyword (`C05_keyword_any_case`), and the parser never reads the text of a keyword, operator or punctuation token
    (`ParseNorm.parseDoc_norm`) — laid out with any separators of whitespace and comments, is parsed into exactly the
    document. Instance with `RULE … SaLiEnCe … When … tHEN`: `LexDoc.sample_anycase`. -/
theorem C05_case_and_layout_free (rules : List Rule)
    (h : ∀ r ∈ rules, ParseDoc.WFRule RealLiterals.Covered r ∧ LexDoc.LRule r) (ts' : List Token)
    (hnorm : ts'.map ParseNorm.norm = ParseDoc.fDoc RealLiterals.canonTok LexDoc.canonOt LexDoc.canonDT rules)
    (hlex : ∀ t ∈ ts', LexRender.Lexes t) (seps : List (List Char)) (hlen : seps.length = ts'.length)
    (hs : ∀ sep ∈ seps, LexRender.GoodSep sep) :
    (lex (LexRender.renderS (ts'.zip seps))).errs = 0 ∧
    parseDoc realDec (lex (LexRender.renderS (ts'.zip seps))).toks = (rules, none) :=
  LexDoc.lex_parse_anycase rules h ts' hnorm hlex seps hlen hs

/-- every capitalisation of a keyword lexes as that keyword, before any whitespace -/
theorem C05_keyword_any_case (k : TK) (wd : String) (hk : (k, true, wd) ∈ fixedTable) (tx : List Char)
    (hw : tx.map lowerC = wd.toList) : LexRender.Lexes ⟨k, tx⟩ := LexTokens.lexes_keyword k wd hk tx hw

#print axioms C05_case_and_layout_free
#print axioms C05_keyword_any_case
#print axioms Grule.ParseNorm.parseDoc_norm
#print axioms Grule.LexDoc.sample_anycase
#print axioms C05_layout_independent
#print axioms Grule.LexDoc.lex_parse_layout
#print axioms Grule.LexDoc.goodSep_examples
#print axioms C05_leading_comment
#print axioms C05_int_arith
#print axioms C05_int_add_exact
#print axioms C05_int_mul_exact
#print axioms C05_int_mod
#print axioms C05_div_real
#print axioms C05_promotion
#print axioms C05_concat
#print axioms C05_bitops
#print axioms C05_logic
#print axioms C05_ill_typed
#print axioms C05_and_short_circuit
#print axioms C05_or_short_circuit
#print axioms C05_parens
#print axioms C05_neg_atom
#print axioms C05_args_in_order
#print axioms C05_method_gets_args
#print axioms C05_keyword_case
#print axioms C05_precedence_tied
#print axioms C05_parse_print
#print axioms C05_parse_print_real
#print axioms C05_parse_range
#print axioms Grule.RealLiterals.real_ok
#print axioms C05_leading_whitespace
#print axioms C05_three_operands
#print axioms Grule.ParseGroup.parse_roundtrip
#print axioms Grule.ParseDoc.unary_ok
#print axioms Grule.TableTie.tie_add
#print axioms Grule.TableTie.tie_div
#print axioms Grule.TableTie.tie_mod
#print axioms Grule.SyntaxTie.tie_ops_in_rule
#print axioms Grule.SyntaxTie.tie_op_tokens

end Grule.C05

/-
  Ties of the front-end model (Syntax/*.lean) to facts regenerated from the current sources
  (Gen/SyntaxFacts.lean, translator T2): every obligation is a closed decidable statement.

  * the generated parser's precedence predicates and right-operand precedences are the model's `prec`,
    left-associative;
  * every binary operator sits in the operator rule of its level and nowhere else; assignment operators;
  * lexer rule order, fixed token texts (case-insensitive keywords), identifier ranges;
  * the published precedence table (docs/en/GRL_en.md) is the model's `prec`.
-/
import GruleModel.Syntax.Front
import GruleModel.Snapshot
import GruleModel.Gen.SyntaxFacts
namespace Grule.SyntaxTie
open Grule Grule.Syntax

def allOps : List BinOp := [.mul, .div, .mod, .add, .sub, .band, .bor, .gt, .lt, .gte, .lte, .eq, .neq, .and, .or]

theorem allOps_complete (o : BinOp) : o ∈ allOps := by cases o <;> decide

/-- operator rule of the generated parser for a binding strength -/
def ruleOfLevel : Nat → String
  | 5 => "MulDivOperators" | 4 => "AddMinusOperators" | 3 => "ComparisonOperator" | 2 => "AndLogicOperator" | _ => "OrLogicOperator"

def g4RuleOfLevel : Nat → String
  | 5 => "mulDivOperators" | 4 => "addMinusOperators" | 3 => "comparisonOperator" | 2 => "andLogicOperator" | _ => "orLogicOperator"

/-- the generated parser: level `p` is guarded by `Precpred(ctx, p + 2)` and parses its right operand at `p + 3`
    (one more: left associative); levels in descending order -/
theorem tie_levels :
    Gen.exprLevels = [5, 4, 3, 2, 1].map (fun p => (ruleOfLevel p, p + 2, p + 3)) := by decide

/-- suffixes of `expressionAtom` (method call, member, selector) all bind tighter than the prefix `!`
    (which recurses with precedence 1 — see the generated `expressionAtom(1)`) -/
theorem tie_atom_levels :
    Gen.atomLevels.map (·.1) = ["MethodCall", "MemberVariable", "ArrayMapSelector"] ∧
    Gen.atomLevels.all (fun l => l.2.1 ≥ 1) = true := by decide

/-- every operator is a token of the operator rule of its level -/
theorem tie_ops_in_rule :
    allOps.all (fun o => match Gen.opRules.find? (·.1 == g4RuleOfLevel (prec o)) with
      | some (_, syms) => syms.contains o.sym
      | none => false) = true := by decide

/-- and the operator rules hold nothing else -/
theorem tie_ops_only :
    Gen.opRules.all (fun (r, syms) => syms.all (fun s => allOps.any (fun o => o.sym == s && g4RuleOfLevel (prec o) == r))) = true := by
  decide

/-- the lexer's token for an operator is the one the parser model reads as that operator -/
theorem tie_op_tokens :
    allOps.all (fun o => match fixedTable.find? (fun e => e.2.2 == o.sym) with
      | some (k, ci, _) => !ci && binOpOf k == some o
      | none => false) = true := by decide

def AssignOp.all : List AssignOp := [.set, .add, .sub, .div, .mul]

theorem tie_assign : Gen.assignOps = AssignOp.all.map (·.sym) := by decide

theorem tie_assign_tokens :
    AssignOp.all.all (fun o => match fixedTable.find? (fun e => e.2.2 == o.sym) with
      | some (k, ci, _) => !ci && assignOpOf k == some o
      | none => false) = true := by decide

def g4name : TK → String
  | .comma => "','" | .plus => "PLUS" | .minus => "MINUS" | .div => "DIV" | .mul => "MUL" | .mod => "MOD" | .dot => "DOT"
  | .semi => "SEMICOLON" | .lbrace => "LR_BRACE" | .rbrace => "RR_BRACE" | .lparen => "LR_BRACKET" | .rparen => "RR_BRACKET"
  | .lsq => "LS_BRACKET" | .rsq => "RS_BRACKET" | .kRule => "RULE" | .kWhen => "WHEN" | .kThen => "THEN" | .and => "AND"
  | .or => "OR" | .kTrue => "TRUE" | .kFalse => "FALSE" | .kNil => "NIL_LITERAL" | .bang => "NEGATION" | .kSalience => "SALIENCE"
  | .eqeq => "EQUALS" | .assign => "ASSIGN" | .plusAs => "PLUS_ASIGN" | .minusAs => "MINUS_ASIGN" | .divAs => "DIV_ASIGN"
  | .mulAs => "MUL_ASIGN" | .gt => "GT" | .lt => "LT" | .gte => "GTE" | .lte => "LTE" | .neq => "NOTEQUALS" | .bitand => "BITAND"
  | .bitor => "BITOR" | .name => "SIMPLENAME" | .dq => "DQUOTA_STRING" | .sq => "SQUOTA_STRING"
  | .decFloat => "DECIMAL_FLOAT_LIT" | .decExp => "DECIMAL_EXPONENT" | .hexFloat => "HEX_FLOAT_LIT" | .hexExp => "HEX_EXPONENT"
  | .dec => "DEC_LIT" | .hex => "HEX_LIT" | .oct => "OCT_LIT" | .space => "SPACE" | .comment => "COMMENT"
  | .lineComment => "LINE_COMMENT"

/-- the model tries the rules in the order of the grammar file -/
theorem tie_lexer_order : Gen.lexerOrder = (rules.drop 1).map (fun r => g4name r.1) := by decide

/-- fixed texts and case-insensitivity of keywords -/
theorem tie_lexer_fixed : Gen.lexerFixed = fixedTable.map (fun (k, ci, w) => (g4name k, ci, w)) := by decide

theorem tie_isc : Gen.iscRanges = iscRanges := by decide
theorem tie_ic : Gen.icRanges = icRanges := by decide

/-- the published precedence table is the grammar's -/
theorem tie_doc_prec :
    allOps.all (fun o => (Gen.docPrec.filter (fun e => e.2 == o.sym)).map (·.1) == [prec o]) = true ∧
    Gen.docPrec.length = allOps.length := by decide

#print axioms tie_levels
#print axioms tie_atom_levels
#print axioms tie_ops_in_rule
#print axioms tie_ops_only
#print axioms tie_op_tokens
#print axioms tie_assign
#print axioms tie_assign_tokens
#print axioms tie_lexer_order
#print axioms tie_lexer_fixed
#print axioms tie_isc
#print axioms tie_ic
#print axioms tie_doc_prec

end Grule.SyntaxTie

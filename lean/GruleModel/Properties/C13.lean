/-
  C13 — shared sub-expressions are evaluated at most once between invalidations.
  Nodes with identical text have identical snapshots, hence one memo key: sharing between any number of
  rules is the same statement as remembering within one rule.
-/
import GruleModel.Proofs.Side
namespace Grule.C13
open Grule

/-- a remembered method call (or member read) is not evaluated again: no call, no log entry, state untouched -/
theorem C13_hit_skips_meth (c : Cfg) (s : EState) (recv : Atom) (f : String) (args : Args) (v : Val)
    (h : memoGetA c (snapA (.meth recv f args)) s = some v) : evalA c s (.meth recv f args) = (.ok v, s) := by
  simp only [evalA, h]

theorem C13_hit_skips_member (c : Cfg) (s : EState) (recv : Atom) (n : String) (v : Val)
    (h : memoGetA c (snapA (.member recv n)) s = some v) : evalA c s (.member recv n) = (.ok v, s) := by
  simp only [evalA, h]

theorem C13_hit_skips_var (c : Cfg) (s : EState) (x : Var) (v : Val)
    (h : memoGetA c (snapA (.var x)) s = some v) : evalA c s (.var x) = (.ok v, s) := by
  simp only [evalA, h]

theorem C13_hit_skips_expr (c : Cfg) (s : EState) (op : BinOp) (l r : Expr) (v : Val)
    (h : memoGetE c (snapE (.bin op l r)) s = some v) : evalE c s (.bin op l r) = (.ok v, s) := by
  simp only [evalE, h]

/-- a successful evaluation of a node the working memory holds is remembered under the node's snapshot -/
theorem C13_remembered (c : Cfg) (hm : c.memo = true) (k : Snap) (v : Val) (s : EState)
    (hr : (snapGet k c.wm.atoms).isSome = true) :
    memoGetA c k (finishA c k (.ok v, s)).2 = some v := by
  simp only [finishA, memoPutA, memoGetA, hm, hr, Bool.and_self, if_true]
  rw [snapGet_snapSet]
  simp

theorem snapGet_memoErase_of_not_mem (keys : List Snap) (m : Memo) (k : Snap) (h : keys.contains k = false) :
    snapGet k (memoErase keys m) = snapGet k m := by
  unfold memoErase
  induction m with
  | nil => rfl
  | cons x rest ih =>
    obtain ⟨k1, v1⟩ := x
    simp only [List.filter]
    by_cases hk : (k == k1) = true
    · have : k = k1 := by simpa using hk
      subst this
      simp only [h, Bool.not_false, snapGet, hk, if_true]
    · cases hp : (!keys.contains k1) with
      | true => simp only [snapGet, hk]; exact ih
      | false => simp only [snapGet, hk]; exact ih

/-- an assignment clears a remembered atom only if the index lists it under the reset variable … -/
theorem C13_cleared_only_when_indexed (c : Cfg) (w : WM) (v k : Snap) (s : EState)
    (h : ((snapGet v w.atomIdx).getD []).contains k = false) :
    memoGetA c k (resetVariable w v s) = memoGetA c k s := by
  unfold resetVariable memoGetA
  dsimp only
  split
  · exact snapGet_memoErase_of_not_mem _ _ _ h
  · rfl

/-- … and the index built by `IndexVariables` lists a node under a variable only if the variable's snapshot
    occurs in the node's snapshot (the variable "concerns" the node) -/
theorem C13_index_only_infix (w : WM) (v k : Snap) (h : ((snapGet v w.indexVariables.atomIdx).getD []).contains k = true) :
    isInfixB v k = true := by
  unfold WM.indexVariables at h
  dsimp only at h
  generalize w.vars = vars at h
  induction vars with
  | nil => simp [snapGet] at h
  | cons x rest ih =>
    obtain ⟨vs, t⟩ := x
    simp only [List.map_cons, snapGet] at h
    by_cases hv : (v == vs) = true
    · have : v = vs := by simpa using hv
      subst this
      simp only [hv, if_true, Option.getD_some, List.contains_eq_mem, List.mem_map, List.mem_filter, decide_eq_true_eq] at h
      obtain ⟨⟨k', t'⟩, ⟨_, hinf⟩, hk⟩ := h
      simp only at hk hinf
      subst hk
      exact hinf
    · simp only [hv] at h
      exact ih h

end Grule.C13

#print axioms Grule.C13.C13_hit_skips_meth
#print axioms Grule.C13.C13_remembered
#print axioms Grule.C13.C13_cleared_only_when_indexed
#print axioms Grule.C13.C13_index_only_infix

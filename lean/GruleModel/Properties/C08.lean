/-
  C08 — reusing a knowledge-base instance behaves like using a fresh one.
-/
import GruleModel.Proofs.Side
namespace Grule.C08
open Grule

/-- what a call leaves behind in an instance and what a later call may find there -/
def sameRules (a b : Instance) : Prop := a.entries = b.entries ∧ a.wm = b.wm

/-- **C08 (Execute, under `Side`).** Whatever an instance remembers — memoised values, retracted rules —
    from any earlier history of calls, `Execute` on given facts produces the outcome, listener trace,
    poll count and final facts of the same call on a freshly created instance of the same rules. -/
theorem C08_execute_fresh {c : Cfg} (rc : RunCfg) (used fresh : Instance) (st : Store)
    (hs : sameRules used fresh) (h : Side c fresh.entries) :
    (execute rc c used st).outcome = (execute rc c fresh st).outcome ∧
    (execute rc c used st).trace = (execute rc c fresh st).trace ∧
    (execute rc c used st).store = (execute rc c fresh st).store ∧
    (execute rc c used st).polls = (execute rc c fresh st).polls := by
  have h' : Side c used.entries := by rw [hs.1]; exact h
  obtain ⟨a1, a2, a3, a4, _⟩ := execute_refines h'.pure h'.inj rc used st h'.wf h'.frame
  obtain ⟨b1, b2, b3, b4, _⟩ := execute_refines h.pure h.inj rc fresh st h.wf h.frame
  rw [hs.1] at a1 a2 a3 a4
  exact ⟨a1.trans b1.symm, a2.trans b2.symm, a3.trans b3.symm, a4.trans b4.symm⟩

/-- the state a call leaves behind always has the same rules: histories of calls stay inside `sameRules` -/
theorem C08_execute_keeps_rules {c : Cfg} (rc : RunCfg) (inst : Instance) (st : Store) :
    sameRules (execute rc c inst st).inst inst := by
  unfold execute
  dsimp only
  generalize runLoop rc c inst.entries (rc.maxCycle + 1) 0 _ = rl
  obtain ⟨o, ls⟩ := rl
  exact ⟨rfl, rfl⟩

theorem C08_fetch_keeps_rules {c : Cfg} (retErr : Bool) (o : Option (List String)) (inst : Instance) (st : Store) :
    sameRules (fetch retErr o c inst st).inst inst := by
  unfold fetch
  dsimp only
  generalize fetchPass retErr c _ _ _ = fp
  obtain ⟨out, es, acc⟩ := fp
  cases out <;> exact ⟨rfl, rfl⟩

end Grule.C08

#print axioms Grule.C08.C08_execute_fresh
#print axioms Grule.C08.C08_execute_keeps_rules
#print axioms Grule.C08.C08_fetch_keeps_rules

/-
  The regenerated tables (from the current Go source) are the canonical ones. Every obligation is a
  closed decidable equation: a single edited cell, a dropped kind in a case list, a swapped conversion
  or operator, a missing GetValueElem, changes the generated file and one of these `decide`s fails.
-/
import GruleModel.ArithExpected
import GruleModel.Gen.ArithTables
namespace Grule.TableTie
open Grule

theorem tie_mul : Gen.tblMultiplication = Expected.tblMultiplication := by decide
theorem tie_div : Gen.tblDivision = Expected.tblDivision := by decide
theorem tie_mod : Gen.tblModulo = Expected.tblModulo := by decide
theorem tie_add : Gen.tblAddition = Expected.tblAddition := by decide
theorem tie_sub : Gen.tblSubtraction = Expected.tblSubtraction := by decide
theorem tie_band : Gen.tblBitAnd = Expected.tblBitAnd := by decide
theorem tie_bor : Gen.tblBitOr = Expected.tblBitOr := by decide
theorem tie_gt : Gen.tblGreaterThan = Expected.tblGreaterThan := by decide
theorem tie_lt : Gen.tblLesserThan = Expected.tblLesserThan := by decide
theorem tie_ge : Gen.tblGreaterThanEqual = Expected.tblGreaterThanEqual := by decide
theorem tie_le : Gen.tblLesserThanEqual = Expected.tblLesserThanEqual := by decide
theorem tie_eq : Gen.tblEqual = Expected.tblEqual := by decide
theorem tie_ne : Gen.tblNotEqual = Expected.tblNotEqual := by decide
theorem tie_and : Gen.tblLogicAnd = Expected.tblLogicAnd := by decide
theorem tie_or : Gen.tblLogicOr = Expected.tblLogicOr := by decide
theorem tie_setNumber : Gen.setNumberCells = Expected.setNumberCells := by decide

/-- every operator function dereferences pointers/interfaces first (`GetValueElem`), and `EvaluateLogicSingle` has its expected shape -/
theorem tie_deref :
    (Gen.tblMultiplication_deref && Gen.tblDivision_deref && Gen.tblModulo_deref && Gen.tblAddition_deref &&
     Gen.tblSubtraction_deref && Gen.tblBitAnd_deref && Gen.tblBitOr_deref && Gen.tblGreaterThan_deref &&
     Gen.tblLesserThan_deref && Gen.tblGreaterThanEqual_deref && Gen.tblLesserThanEqual_deref && Gen.tblEqual_deref &&
     Gen.tblNotEqual_deref && Gen.tblLogicAnd_deref && Gen.tblLogicOr_deref && Gen.logicSingle_asExpected) = true := by decide

end Grule.TableTie

#print axioms Grule.TableTie.tie_mul
#print axioms Grule.TableTie.tie_eq
#print axioms Grule.TableTie.tie_setNumber
#print axioms Grule.TableTie.tie_deref

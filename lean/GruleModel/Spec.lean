/-
  The from-scratch (denotational) value of an expression on a store: no working memory, no state.
  This is what the properties mean by "the condition evaluated from scratch on the fact values of
  that moment". It is defined for expressions free of state-changing built-ins and for user methods
  that are referentially transparent (`MethodsPure`), the documented contract.
-/
import GruleModel.Eval
namespace Grule

/-- result of a user method as a function of name, receiver and arguments only -/
def specMethodCall (c : Cfg) (st : Store) (recv : Val) (f : String) (args : List Val) : R Val :=
  match recv with
  | .int .. => evalErr "not supported for type"
  | .uint .. => evalErr "not supported for type"
  | .float .. => evalErr "not supported for type"
  | .bool _ => evalErr "not supported for type"
  | .str x => strMethod x f args
  | .time _ => unmodelled "methods of time.Time"
  | .invalid => panicErr "Kind/Type on zero Value"
  | .nilptr => unmodelled "method on nil pointer"
  | .ref p =>
    match st.get p with
    | none => unmodelled "dangling reference"
    | some n =>
      match n.cls with
      | .goSlice | .jArr =>
        if f == "Len" then
          if args.isEmpty then .ok (.int .int (nodeLen n).get!) else evalErr "function Len requires no argument"
        else if f == "Append" then unmodelled "Append"
        else evalErr "not supported for array"
      | .goMap =>
        if f == "Len" then
          if args.isEmpty then .ok (.int .int (nodeLen n).get!) else evalErr "function Len requires no argument"
        else evalErr "not supported for map"
      | .jObj => unmodelled "method on JSON object"
      | .goStruct =>
        match c.methods f 0 st recv args with
        | .noMethod => evalErr "have no function named"
        | .badArgs => panicErr "reflect: Call with wrong argument"
        | .ran r _ _ => r
      | _ => unmodelled "method receiver"

def specBuiltin (st : Store) (f : String) (args : List Val) : R Val :=
  if args.any (· == .invalid) then badCall else pureBuiltin st f args

mutual
  def specE (c : Cfg) (st : Store) : Expr → R Val
    | .atom a => specA c st a
    | .paren neg e => negResult neg (specE c st e)
    | .bin op l r =>
      let lr := specE c st l
      if isPanic lr then lr else
      match shortCircuit st op lr with
      | some res => res
      | none => combine c st op lr (specE c st r)

  def specA (c : Cfg) (st : Store) : Atom → R Val
    | .const k => constVal k
    | .var v => specV c st v
    | .call f args =>
      match specArgs c st args with
      | .ok vs => specBuiltin st f vs
      | .error e => .error e
    | .neg a => negResult true (specA c st a)
    | .meth recv f args =>
      match specA c st recv with
      | .error e => .error e
      | .ok rv =>
        match specArgs c st args with
        | .error e => .error e
        | .ok vs => specMethodCall c st rv f vs
    | .member recv n =>
      match specA c st recv with
      | .error e => .error e
      | .ok rv => readField st rv n
    | .sel recv idx =>
      match specA c st recv with
      | .error e => .error e
      | .ok rv =>
        match specE c st idx with
        | .error e => .error e
        | .ok iv => readSel st rv iv

  def specV (c : Cfg) (st : Store) : Var → R Val
    | .root n => readRoot st n
    | .field v n =>
      match specV c st v with
      | .error e => .error e
      | .ok pv => readField st pv n
    | .index v e =>
      match specV c st v with
      | .error e => .error e
      | .ok pv =>
        match specE c st e with
        | .error e => .error e
        | .ok iv => readIndex st pv iv

  def specArgs (c : Cfg) (st : Store) : Args → R (List Val)
    | .nil => .ok []
    | .cons e rest =>
      match specE c st e with
      | .error err => .error err
      | .ok v =>
        match specArgs c st rest with
        | .error err => .error err
        | .ok vs => .ok (v :: vs)
end

/-- does the condition hold from scratch? -/
def holds (c : Cfg) (st : Store) (r : Rule) : Bool :=
  match specE c st r.cond with
  | .ok (.bool true) => true
  | _ => false

-- side conditions -------------------------------------------------------------------------------

/-- user methods are referentially transparent: the outcome depends on name, receiver and arguments
    only, the store is left alone, no cancellation is raised, and no reference into the store is
    returned -/
structure MethodsPure (c : Cfg) : Prop where
  indep : ∀ f n n' st st' recv args, c.methods f n st recv args = .noMethod → c.methods f n' st' recv args = .noMethod
  indepBad : ∀ f n n' st st' recv args, c.methods f n st recv args = .badArgs → c.methods f n' st' recv args = .badArgs
  ran : ∀ f n st recv args r st1 cn, c.methods f n st recv args = .ran r st1 cn →
      st1 = st ∧ cn = false ∧ ∀ n' st', c.methods f n' st' recv args = .ran r st' false

-- no state-changing built-in occurs inside the expression
mutual
  def pureE : Expr → Bool
    | .atom a => pureA a
    | .paren _ e => pureE e
    | .bin _ l r => pureE l && pureE r
  def pureA : Atom → Bool
    | .const _ => true
    | .var v => pureV v
    | .call f args => !isEffectful f && pureArgs args
    | .neg a => pureA a
    | .meth recv _ args => pureA recv && pureArgs args
    | .member recv _ => pureA recv
    | .sel recv idx => pureA recv && pureE idx
  def pureV : Var → Bool
    | .root _ => true
    | .field v _ => pureV v
    | .index v e => pureV v && pureE e
  def pureArgs : Args → Bool
    | .nil => true
    | .cons e rest => pureE e && pureArgs rest
end

end Grule

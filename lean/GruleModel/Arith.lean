/-
  Operator tables of `pkg/reflectmath.go` as data (`OpTable`) and their interpreter `evalCellOp`.
  `Gen/ArithTables.lean` (regenerated from the Go source on every run) provides the tables the
  engine model uses; `ArithExpected.lean` holds the canonical tables the theorems are proved about,
  and `Properties/TableTie.lean` proves the two equal by `decide`.
-/
import GruleModel.Value
import GruleModel.FloatFmt
namespace Grule

inductive Kind
  | int | int8 | int16 | int32 | int64
  | uint | uint8 | uint16 | uint32 | uint64
  | float32 | float64 | string | bool | other
  deriving DecidableEq, Repr, Inhabited

def IntK.kind : IntK → Kind
  | .int => .int | .int8 => .int8 | .int16 => .int16 | .int32 => .int32 | .int64 => .int64
def UIntK.kind : UIntK → Kind
  | .uint => .uint | .uint8 => .uint8 | .uint16 => .uint16 | .uint32 => .uint32 | .uint64 => .uint64
def FloatK.kind : FloatK → Kind
  | .f32 => .float32 | .f64 => .float64

def Val.kind : Val → Kind
  | .int k _ => k.kind | .uint k _ => k.kind | .float k _ => k.kind
  | .str _ => .string | .bool _ => .bool | _ => .other

def intKinds : List Kind := [.int, .int8, .int16, .int32, .int64]
def uintKinds : List Kind := [.uint, .uint8, .uint16, .uint32, .uint64]
def floatKinds : List Kind := [.float32, .float64]

/-- conversions applied to an operand inside a leaf: `x`, `int64(x)`, `float64(x)`, `uint64(x)` -/
inductive Conv | id | i64 | f64 | u64
  deriving DecidableEq, Repr, Inhabited

/-- Go binary operators that occur in leaves -/
inductive Prim | mul | quo | rem | add | sub | band | bor | gt | lt | ge | le | eq | ne | land | lor
  deriving DecidableEq, Repr, Inhabited

/-- boolean expressions over two `time.Time` operands -/
inductive TExp
  | after | before | seq | sne | equal
  | or (a b : TExp) | not (a : TExp)
  deriving DecidableEq, Repr, Inhabited

inductive Leaf
  | prim (p : Prim) (cl cr : Conv)     -- reflect.ValueOf(cl(l) p cr(r))
  | sprintf (fmt : String)             -- fmt.Sprintf(fmt, l, r)
  | sprintfTimeR (fmt : String)        -- if right is time.Time: Sprintf(fmt, l, r.Format(RFC3339)) else error
  | timeE (e : TExp)                   -- if both are time.Time: e else error
  | constB (b : Bool)
  | err
  | unknown (src : String)
  deriving DecidableEq, Repr, Inhabited

inductive SrcBase | int64 | uint64 | float64
  deriving DecidableEq, Repr, Inhabited

/-- leaves of `SetNumberValue`: `target.SetInt(conv(newvalue.Acc()))` etc. -/
inductive SetLeaf
  | setInt (c : Conv) | setUint (c : Conv) | setFloat (c : Conv) | unknown (s : String)
  deriving DecidableEq, Repr, Inhabited

structure Row where
  kinds : List Kind
  cells : List (List Kind × Leaf)
  dflt  : Leaf
  deriving DecidableEq, Repr, Inhabited

structure OpTable where
  rows : List Row
  dflt : Leaf
  deriving DecidableEq, Repr, Inhabited

-- operand after accessor + conversion --------------------------------------------------

/-- a Go-typed scalar as seen inside a leaf -/
inductive Opd
  | i (v : Int)       -- int64
  | u (v : Nat)       -- uint64
  | f (bits : UInt64) -- float64
  | s (v : String)
  | b (v : Bool)
  deriving DecidableEq, Repr, Inhabited

def Val.opd? : Val → Option Opd
  | .int _ v => some (.i v) | .uint _ v => some (.u v) | .float _ x => some (.f x)
  | .str x => some (.s x) | .bool x => some (.b x) | _ => none

/-- `float64(n)` for a natural number: round to nearest, ties to even, in integer arithmetic -/
def f64OfNat (n : Nat) : UInt64 :=
  if n == 0 then 0 else
  let e := n.log2
  if e ≤ 52 then
    UInt64.ofNat ((e + 1023) * 2^52 + (n * 2^(52 - e) - 2^52))
  else
    let sh := e - 52
    let q := n / 2^sh
    let rem := n % 2^sh
    let half := 2^(sh - 1)
    let q' := if rem > half || (rem == half && q % 2 == 1) then q + 1 else q
    if q' == 2^53 then UInt64.ofNat ((e + 1 + 1023) * 2^52)
    else UInt64.ofNat ((e + 1023) * 2^52 + (q' - 2^52))

def f64OfInt (i : Int) : UInt64 :=
  if i < 0 then UInt64.ofNat (2^63 + (f64OfNat i.natAbs).toNat) else f64OfNat i.natAbs

/-- Go leaves float→integer conversion of NaN and out-of-range values implementation-defined:
    the model declines (`none` → `unmodelled`) -/
def f2i? (b : UInt64) : Option Int :=
  let x := Float.ofBits b
  if x.isNaN || x.isInf || x ≥ 9223372036854775808.0 || x < -9223372036854775808.0 then none
  else some x.toInt64.toInt

def f2u? (b : UInt64) : Option Nat :=
  let x := Float.ofBits b
  if x.isNaN || x.isInf || x ≥ 18446744073709551616.0 || x ≤ -1.0 then none
  else some x.toUInt64.toNat

def Opd.conv : Conv → Opd → Option Opd
  | .id, o => some o
  | .i64, .i v => some (.i v)
  | .i64, .u v => some (.i (wrapI64 v))
  | .i64, .f x => (f2i? x).map .i
  | .u64, .u v => some (.u v)
  | .u64, .i v => some (.u (wrapU64 v))
  | .u64, .f x => (f2u? x).map .u
  | .f64, .f x => some (.f x)
  | .f64, .i v => some (.f (f64OfInt v))
  | .f64, .u v => some (.f (f64OfNat v))
  | _, _ => none

/-- Go's truncated remainder -/
def goRem (a b : Int) : Int := Int.tmod a b

def fbin (f : Float → Float → Float) (a b : UInt64) : UInt64 := (f (Float.ofBits a) (Float.ofBits b)).toBits
def fcmp (f : Float → Float → Bool) (a b : UInt64) : Bool := f (Float.ofBits a) (Float.ofBits b)

def primI (p : Prim) (a b : Int) : R Val :=
  match p with
  | .mul => .ok (.int .int64 (wrapI64 (a * b)))
  | .add => .ok (.int .int64 (wrapI64 (a + b)))
  | .sub => .ok (.int .int64 (wrapI64 (a - b)))
  | .quo => if b == 0 then panicErr "integer divide by zero" else .ok (.int .int64 (wrapI64 (Int.tdiv a b)))
  | .rem => if b == 0 then panicErr "integer divide by zero" else .ok (.int .int64 (goRem a b))
  | .band => .ok (.int .int64 (wrapI64 (Nat.land (wrapU64 a) (wrapU64 b))))
  | .bor => .ok (.int .int64 (wrapI64 (Nat.lor (wrapU64 a) (wrapU64 b))))
  | .gt => .ok (.bool (decide (a > b)))
  | .lt => .ok (.bool (decide (a < b)))
  | .ge => .ok (.bool (decide (a ≥ b)))
  | .le => .ok (.bool (decide (a ≤ b)))
  | .eq => .ok (.bool (decide (a = b)))
  | .ne => .ok (.bool (decide (a ≠ b)))
  | _ => unmodelled "prim on int64"

def primU (p : Prim) (a b : Nat) : R Val :=
  match p with
  | .mul => .ok (.uint .uint64 (wrapU64 (a * b)))
  | .add => .ok (.uint .uint64 (wrapU64 (a + b)))
  | .sub => .ok (.uint .uint64 (wrapU64 ((a:Int) - (b:Int))))
  | .quo => if b == 0 then panicErr "integer divide by zero" else .ok (.uint .uint64 (a / b))
  | .rem => if b == 0 then panicErr "integer divide by zero" else .ok (.uint .uint64 (a % b))
  | .band => .ok (.uint .uint64 (Nat.land a b))
  | .bor => .ok (.uint .uint64 (Nat.lor a b))
  | .gt => .ok (.bool (decide (a > b)))
  | .lt => .ok (.bool (decide (a < b)))
  | .ge => .ok (.bool (decide (a ≥ b)))
  | .le => .ok (.bool (decide (a ≤ b)))
  | .eq => .ok (.bool (decide (a = b)))
  | .ne => .ok (.bool (decide (a ≠ b)))
  | _ => unmodelled "prim on uint64"

-- IEEE-754 binary64 comparison on bit patterns, in integer arithmetic (kernel-reducible) ----------

def f64IsNaN (b : UInt64) : Bool := (b.toNat / 2^52) % 2048 == 2047 && b.toNat % 2^52 != 0

/-- order key of a non-NaN double: sign-magnitude read as an integer (−0 and +0 both 0) -/
def f64Key (b : UInt64) : Int :=
  let m : Nat := b.toNat % 2^63
  if b.toNat ≥ 2^63 then -(m : Int) else (m : Int)

def fltLt (a b : UInt64) : Bool := !f64IsNaN a && !f64IsNaN b && decide (f64Key a < f64Key b)
def fltEq (a b : UInt64) : Bool := !f64IsNaN a && !f64IsNaN b && decide (f64Key a = f64Key b)

def primF (p : Prim) (a b : UInt64) : R Val :=
  match p with
  | .mul => .ok (.float .f64 (fbin (· * ·) a b))
  | .add => .ok (.float .f64 (fbin (· + ·) a b))
  | .sub => .ok (.float .f64 (fbin (· - ·) a b))
  | .quo => .ok (.float .f64 (fbin (· / ·) a b))
  | .gt => .ok (.bool (fltLt b a))
  | .lt => .ok (.bool (fltLt a b))
  | .ge => .ok (.bool (fltLt b a || fltEq a b))
  | .le => .ok (.bool (fltLt a b || fltEq a b))
  | .eq => .ok (.bool (fltEq a b))
  | .ne => .ok (.bool (!fltEq a b))
  | _ => unmodelled "prim on float64"

def primS (p : Prim) (a b : String) : R Val :=
  match p with
  | .add => .ok (.str (a ++ b))
  | .gt => .ok (.bool (decide (b < a)))
  | .lt => .ok (.bool (decide (a < b)))
  | .ge => .ok (.bool (!decide (a < b)))
  | .le => .ok (.bool (!decide (b < a)))
  | .eq => .ok (.bool (decide (a = b)))
  | .ne => .ok (.bool (decide (a ≠ b)))
  | _ => unmodelled "prim on string"

def primB (p : Prim) (a b : Bool) : R Val :=
  match p with
  | .eq => .ok (.bool (a == b))
  | .ne => .ok (.bool (a != b))
  | .land => .ok (.bool (a && b))
  | .lor => .ok (.bool (a || b))
  | _ => unmodelled "prim on bool"

def evalPrim (p : Prim) : Opd → Opd → R Val
  | .i a, .i b => primI p a b
  | .u a, .u b => primU p a b
  | .f a, .f b => primF p a b
  | .s a, .s b => primS p a b
  | .b a, .b b => primB p a b
  | _, _ => unmodelled "ill-typed leaf (would not compile in Go)"

def Opd.verb (c : Char) : Opd → Option String
  | .s v => if c == 's' then some v else none
  | .i v => if c == 'd' then some (String.ofList (intChars v)) else none
  | .u v => if c == 'd' then some (toString v) else none
  | .f x => if c == 'f' then some (fmtF6 x) else none
  | .b v => if c == 'v' then some (toString v) else none

/-- `fmt.Sprintf` for the two-verb formats that occur: `"%s%d"` etc. -/
def sprintf2 (fmt : String) (l r : Opd) : R Val :=
  match fmt.toList with
  | ['%', a, '%', b] =>
    match l.verb a, r.verb b with
    | some x, some y => .ok (.str (x ++ y))
    | _, _ => unmodelled "sprintf verb/operand mismatch"
  | _ => unmodelled "sprintf format"

def TExp.eval (l r : TimeV) : TExp → Bool
  | .after => decide (l.inst > r.inst)
  | .before => decide (l.inst < r.inst)
  | .seq => decide (l = r)
  | .sne => decide (l ≠ r)
  | .equal => decide (l.inst = r.inst)
  | .or a b => a.eval l r || b.eval l r
  | .not a => !(a.eval l r)

/-- `rightValue.Format(time.RFC3339)` is not modelled (needs the zone database). -/
def evalLeaf (lf : Leaf) (l r : Val) : R Val :=
  match lf with
  | .prim p cl cr =>
    match l.opd?, r.opd? with
    | some a, some b =>
      match a.conv cl, b.conv cr with
      | some a', some b' => evalPrim p a' b'
      | _, _ => unmodelled "conversion"
    | _, _ => unmodelled "prim leaf on non-scalar"
  | .sprintf fmt =>
    match l.opd?, r.opd? with
    | some a, some b => sprintf2 fmt a b
    | _, _ => unmodelled "sprintf leaf on non-scalar"
  | .sprintfTimeR _ =>
    match r with
    | .time _ => unmodelled "time formatting"
    | .invalid => panicErr "Type of zero Value"
    | _ => evalErr "can not use data type in addition"
  | .timeE e =>
    match l, r with
    | .time a, .time b => .ok (.bool (e.eval a b))
    | .invalid, _ => panicErr "Type of zero Value"
    | .time _, .invalid => panicErr "Type of zero Value"
    | _, _ => evalErr "can not use data type in comparison"
  | .constB b => .ok (.bool b)
  | .err =>
    -- the error message calls `right.Kind().String()` / `left.Kind().String()`: fine on a zero Value
    evalErr "can not use data type"
  | .unknown s => unmodelled s!"unknown leaf {s}"

def findCell (k : Kind) : List (List Kind × Leaf) → Option Leaf
  | [] => none
  | (ks, lf) :: rest => if ks.contains k then some lf else findCell k rest

def findRow (k : Kind) : List Row → Option Row
  | [] => none
  | r :: rest => if r.kinds.contains k then some r else findRow k rest

/-- `GetValueElem` has already been applied by the caller (`derefOperand`). A `ref` operand is a
    struct/slice/map: kind `other`. -/
def evalTable (t : OpTable) (l r : Val) : R Val :=
  match findRow l.kind t.rows with
  | some row =>
    match findCell r.kind row.cells with
    | some lf => evalLeaf lf l r
    | none => evalLeaf row.dflt l r
  | none => evalLeaf t.dflt l r

end Grule

/-
  Well-formed names (what the lexer's SIMPLENAME admits, ASCII part spelled out) and the universe
  of ASTs the snapshot theorems speak about.
-/
import GruleModel.Snapshot
namespace Grule

/-- identifier characters: letters, digits, underscore, and anything non-ASCII (the grammar's
    ISC/IC ranges are all above U+00B6) -/
def okChar (c : Char) : Bool := c.isAlphanum || c == '_' || decide (c.toNat ≥ 128)

def okName (s : String) : Bool := !s.toList.isEmpty && s.toList.all okChar

/-- a float constant is a value a literal can denote: not a NaN (all NaN bit patterns print alike, so two of them
    would be different constants with one snapshot; no GRL or JSON literal denotes a NaN) -/
def isNaNBits (b : UInt64) : Bool := (b.toNat / 2^52) % 2048 == 2047 && b.toNat % 2^52 != 0

def okConst : Const → Bool
  | .float b => !isNaNBits b
  | _ => true

mutual
  def validE : Expr → Bool
    | .atom a => validA a
    | .paren _ e => validE e
    | .bin _ l r => validE l && validE r
  def validA : Atom → Bool
    | .const c => okConst c
    | .var v => validV v
    | .call f args => okName f && validArgs args
    | .neg a => validA a
    | .meth recv f args => validA recv && okName f && validArgs args
    | .member recv n => validA recv && okName n
    | .sel recv idx => validA recv && validE idx
  def validV : Var → Bool
    | .root n => okName n
    | .field v n => validV v && okName n
    | .index v e => validV v && validE e
  def validArgs : Args → Bool
    | .nil => true
    | .cons e rest => validE e && validArgs rest
end

/-- snapshots determine nodes: proved in `Proofs/SnapInj.lean` (`snapInj_of`) from `FloatPF`, the one fact about
    `strconv`'s shortest float formatting the proof needs -/
structure SnapInj : Prop where
  expr : ∀ e e', validE e = true → validE e' = true → snapE e = snapE e' → e = e'
  atom : ∀ a a', validA a = true → validA a' = true → snapA a = snapA a' → a = a'

/-- the shortest formatting of floats is injective on non-NaN values (strconv's documented round-trip guarantee), stated
    with the closing parenthesis that follows a float in a snapshot so that it also says no float text contains one -/
def FloatPF : Prop :=
  ∀ (b b' : UInt64) (r r' : List Char), isNaNBits b = false → isNaNBits b' = false →
    fmtShortestChars b ++ (')' :: r) = fmtShortestChars b' ++ (')' :: r') → b = b' ∧ r = r'

end Grule

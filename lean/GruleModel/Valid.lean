/-
  Well-formed names (what the lexer's SIMPLENAME admits, ASCII part spelled out) and the universe
  of ASTs the snapshot theorems speak about.
-/
import GruleModel.Snapshot
namespace Grule

/-- identifier characters: letters, digits, underscore, and anything non-ASCII (the grammar's
    ISC/IC ranges are all above U+00B6) -/
def okChar (c : Char) : Bool := c.isAlphanum || c == '_' || decide (c.toNat ≥ 128)

def okName (s : String) : Bool := !s.toList.isEmpty && s.toList.all okChar

mutual
  def validE : Expr → Bool
    | .atom a => validA a
    | .paren _ e => validE e
    | .bin _ l r => validE l && validE r
  def validA : Atom → Bool
    | .const _ => true
    | .var v => validV v
    | .call f args => okName f && validArgs args
    | .neg a => validA a
    | .meth recv f args => validA recv && okName f && validArgs args
    | .member recv n => validA recv && okName n
    | .sel recv idx => validA recv && validE idx
  def validV : Var → Bool
    | .root n => okName n
    | .field v n => validV v && okName n
    | .index v e => validV v && validE e
  def validArgs : Args → Bool
    | .nil => true
    | .cons e rest => validE e && validArgs rest
end

/-- snapshots determine nodes (proved as `snapInj` in `Proofs/SnapInj.lean`) -/
structure SnapInj : Prop where
  expr : ∀ e e', validE e = true → validE e' = true → snapE e = snapE e' → e = e'
  atom : ∀ a a', validA a = true → validA a' = true → snapA a = snapA a' → a = a'

end Grule

/-
  R10 up to whole documents: actions, action lists, rules and rule sequences are read back from their tokens.
  `parse_doc`: for every list of well-formed rules, the parser model returns exactly these rules and no error.
-/
import GruleModel.Proofs.ParseAtoms
namespace Grule.ParseDoc
open Grule Grule.Syntax Grule.ParseGroup Grule.ParseAtoms

variable (d : Dec) (cT : Const → List Token) (ot : BinOp → List Char) (dT : String → Token) (P : Const → Prop)

def assignKind : AssignOp → TK
  | .set => .assign | .add => .plusAs | .sub => .minusAs | .mul => .mulAs | .div => .divAs

theorem assignOpOf_kind (op : AssignOp) : assignOpOf (assignKind op) = some op := by cases op <;> rfl

def fAction : Action → List Token
  | .assign op v e => fV cT ot v ++ (tk (assignKind op) :: (fE cT ot e ++ [tk .semi]))
  | .stmt a => fA cT ot a ++ [tk .semi]

def WFAct : Action → Prop
  | .assign _ v e => WFV P v ∧ WFE P e
  | .stmt a => WFA P a

def nAct : Action → Nat
  | .assign _ v e => nV v + nE e + 5
  | .stmt a => nA a + 2

def fActs : List Action → List Token
  | [] => []
  | a :: rest => fAction cT ot a ++ fActs rest

/-- one action, whatever follows its `;` -/
theorem action_ok (hc : ConstOK d cT P) (a : Action) (hw : WFAct P a) (f : Nat) (ts : List Token) (hf : nAct a ≤ f) :
    parseAction d f (fAction cT ot a ++ ts) = .ok (a, ts) := by
  cases a with
  | assign op v e =>
    simp only [WFAct] at hw
    simp only [nAct] at hf
    have hv := (atomThm d cT ot P hc (.var v) (by simp only [WFA]; exact hw.1)).2 f
      (tk (assignKind op) :: (fE cT ot e ++ (tk .semi :: ts))) (by simp only [nA]; omega) (by cases op <;> simp [stopAtom, tk, assignKind])
    obtain ⟨f', rfl⟩ : ∃ f', f = f' + 1 := ⟨f - 1, by omega⟩
    have he := parse_print d cT ot P hc e hw.2 0 f' (tk .semi :: ts) (Nat.zero_le _) (by omega) (by simp [stopAtom, tk])
      (by intro o h; simp [headOp, tk, binOpOf] at h)
    simp only [fA] at hv
    simp only [fAction, List.append_assoc, List.cons_append, List.nil_append, List.singleton_append]
    simp only [tk] at hv he ⊢
    simp [parseAction, hv, assignOpOf_kind, he, bind, Except.bind]
  | stmt a =>
    simp only [WFAct] at hw
    simp only [nAct] at hf
    have ha := (atomThm d cT ot P hc a hw).2 f (tk .semi :: ts) (by omega) (by simp [stopAtom, tk])
    simp only [fAction, List.append_assoc, List.cons_append, List.nil_append, List.singleton_append]
    have hk : assignOpOf TK.semi = none := rfl
    simp only [tk] at ha ⊢
    simp [parseAction, ha, hk, bind, Except.bind]

/-- the first token of an action is none of `}` -/
theorem action_head (hc : ConstOK d cT P) (a : Action) (hw : WFAct P a) : ∃ t rest, fAction cT ot a = t :: rest ∧ t.kind ≠ .rbrace := by
  cases a with
  | assign op v e =>
    obtain ⟨n, rest, h⟩ := fV_name cT ot v
    exact ⟨nameTok n, _, by simp only [fAction, h]; rfl, by simp [nameTok]⟩
  | stmt a =>
    simp only [WFAct] at hw
    obtain ⟨t, rest, h, hg, _⟩ := fA_head d cT ot P hc a hw
    exact ⟨t, _, by simp only [fAction, h]; rfl, hg.2.2.2.2.2.2.1⟩

/-- a non-empty action list up to the closing brace -/
theorem actions_ok (hc : ConstOK d cT P) : (acts : List Action) → acts ≠ [] → (∀ a ∈ acts, WFAct P a) → ∀ (f n : Nat) (ts : List Token),
    (∀ a ∈ acts, nAct a ≤ f) → acts.length ≤ n →
    parseActions d f n (fActs cT ot acts ++ (tk .rbrace :: ts)) = .ok (acts, tk .rbrace :: ts)
  | [], h, _, _, _, _, _, _ => absurd rfl h
  | [a], _, hw, f, n, ts, hf, hn => by
    obtain ⟨n', rfl⟩ : ∃ n', n = n' + 1 := ⟨n - 1, by simp at hn; omega⟩
    have := action_ok d cT ot P hc a (hw a (by simp)) f (tk .rbrace :: ts) (hf a (by simp))
    simp only [fActs, List.append_nil]
    simp only [tk] at this ⊢
    simp [parseActions, this, bind, Except.bind]
  | a :: b :: rest, _, hw, f, n, ts, hf, hn => by
    obtain ⟨n', rfl⟩ : ∃ n', n = n' + 1 := ⟨n - 1, by simp at hn; omega⟩
    have h1 := action_ok d cT ot P hc a (hw a (by simp)) f (fActs cT ot (b :: rest) ++ (tk .rbrace :: ts)) (hf a (by simp))
    have ih := actions_ok hc (b :: rest) (by simp) (fun x hx => hw x (by simp [hx])) f n' ts (fun x hx => hf x (by simp [hx]))
      (by simp at hn ⊢; omega)
    obtain ⟨t, r0, hh, hk⟩ := action_head d cT ot P hc b (hw b (by simp))
    have e1 : (t.kind == TK.rbrace) = false := by simpa using hk
    have hfl : fActs cT ot (a :: b :: rest) ++ (tk .rbrace :: ts) = fAction cT ot a ++ (fActs cT ot (b :: rest) ++ (tk .rbrace :: ts)) := by
      simp [fActs]
    rw [hfl]
    have hnext : fActs cT ot (b :: rest) ++ (tk .rbrace :: ts) = t :: (r0 ++ (fActs cT ot rest ++ (tk .rbrace :: ts))) := by
      simp [fActs, hh]
    rw [hnext] at h1 ih ⊢
    simp [parseActions, h1, e1, ih, bind, Except.bind]

/-- a description token: a quoted string whose meaning is the description -/
def DescOK (s : String) : Prop := ((dT s).kind = .dq ∨ (dT s).kind = .sq) ∧ descOf (dT s) = s

def WFRule (r : Rule) : Prop := WFE P r.cond ∧ r.acts ≠ [] ∧ (∀ a ∈ r.acts, WFAct P a) ∧ P (.int r.salience)

/-- `rule NAME "desc" salience N { when … then … }` -/
def fRule (r : Rule) : List Token :=
  tk .kRule :: nameTok r.name :: dT r.desc :: tk .kSalience :: (cT (.int r.salience) ++
    (tk .lbrace :: tk .kWhen :: (fE cT ot r.cond ++ (tk .kThen :: (fActs cT ot r.acts ++ [tk .rbrace])))))

def nRule (r : Rule) : Nat := nE r.cond + (r.acts.foldl (fun m a => m + nAct a) 0) + r.acts.length + 2

theorem foldl_ge (acts : List Action) : ∀ (m : Nat), m ≤ acts.foldl (fun m a => m + nAct a) m := by
  induction acts with
  | nil => intro m; exact Nat.le_refl _
  | cons a rest ih => intro m; simp only [List.foldl_cons]; exact Nat.le_trans (Nat.le_add_right _ _) (ih _)

theorem nAct_le_foldl (acts : List Action) : ∀ (m : Nat) (a : Action), a ∈ acts → nAct a ≤ acts.foldl (fun m a => m + nAct a) m := by
  induction acts with
  | nil => intro m a h; cases h
  | cons b rest ih =>
    intro m a h
    simp only [List.foldl_cons]
    simp only [List.mem_cons] at h
    rcases h with h | h
    · subst h; exact Nat.le_trans (Nat.le_add_left _ _) (foldl_ge rest _)
    · exact ih _ a h

theorem rule_ok (hc : ConstOK d cT P) (r : Rule) (hd : DescOK dT r.desc) (hw : WFRule P r) (f : Nat) (ts : List Token) (hf : nRule r ≤ f) :
    parseRule d (f + 1) (fRule cT ot dT r ++ ts) = .ok (r, ts) := by
  obtain ⟨hcond, hne, hacts, hpsal⟩ := hw
  unfold nRule at hf
  have hsal := hc (.int r.salience) hpsal (tk .lbrace :: tk .kWhen :: (fE cT ot r.cond ++ (tk .kThen :: (fActs cT ot r.acts ++ (tk .rbrace :: ts)))))
  have hcnd := parse_print d cT ot P hc r.cond hcond 0 f (tk .kThen :: (fActs cT ot r.acts ++ (tk .rbrace :: ts))) (Nat.zero_le _) (by omega)
    (by simp [stopAtom, tk]) (by intro o h; simp [headOp, tk, binOpOf] at h)
  have hact := actions_ok d cT ot P hc r.acts hne hacts (f + 1) (f + 1) ts
    (fun a ha => by have := nAct_le_foldl r.acts 0 a ha; omega) (by omega)
  have hdk := hd.1
  have hdd := hd.2
  have hdesc : ((dT r.desc).kind == TK.dq || (dT r.desc).kind == TK.sq) = true := by
    rcases hdk with h | h <;> simp [h]
  have hflat : fRule cT ot dT r ++ ts = tk .kRule :: nameTok r.name :: dT r.desc :: tk .kSalience :: (cT (.int r.salience) ++
      (tk .lbrace :: tk .kWhen :: (fE cT ot r.cond ++ (tk .kThen :: (fActs cT ot r.acts ++ (tk .rbrace :: ts)))))) := by
    simp [fRule]
  rw [hflat]
  simp only [parseRule, tk, nameTok, bne_self_eq_false, Bool.false_eq_true, if_false, hdesc, if_true, hdd]
  simp only [beq_self_eq_true, if_true]
  simp only [tk] at hsal hcnd hact
  rw [hsal]
  simp only [bind, Except.bind, bne_self_eq_false, Bool.false_eq_true, if_false]
  rw [hcnd]
  simp only [bne_self_eq_false, Bool.false_eq_true, if_false]
  rw [hact]
  simp [String.ofList_toList]

def fDoc : List Rule → List Token
  | [] => []
  | r :: rest => fRule cT ot dT r ++ fDoc rest

/-- the rule loop -/
theorem rules_ok (hc : ConstOK d cT P) : (rules : List Rule) → (∀ r ∈ rules, WFRule P r ∧ DescOK dT r.desc) → ∀ (f n : Nat) (acc : List Rule),
    (∀ r ∈ rules, nRule r ≤ f) → rules.length + 1 ≤ n →
    parseRules d (f + 1) n (fDoc cT ot dT rules) acc = (acc ++ rules, none)
  | [], _, f, n, acc, _, hn => by
    obtain ⟨n', rfl⟩ : ∃ n', n = n' + 1 := ⟨n - 1, by simp at hn; omega⟩
    simp [fDoc, parseRules]
  | r :: rest, hw, f, n, acc, hf, hn => by
    obtain ⟨n', rfl⟩ : ∃ n', n = n' + 1 := ⟨n - 1, by simp at hn; omega⟩
    have h1 := rule_ok d cT ot dT P hc r (hw r (by simp)).2 (hw r (by simp)).1 f (fDoc cT ot dT rest) (hf r (by simp))
    have ih := rules_ok hc rest (fun x hx => hw x (by simp [hx])) f n' (acc ++ [r]) (fun x hx => hf x (by simp [hx]))
      (by simp at hn ⊢; omega)
    have hne : fDoc cT ot dT (r :: rest) = fRule cT ot dT r ++ fDoc cT ot dT rest := rfl
    rw [hne]
    cases htl : fRule cT ot dT r ++ fDoc cT ot dT rest with
    | nil => simp [fRule] at htl
    | cons t tl =>
      rw [htl] at h1
      simp only [parseRules, h1]
      rw [ih]
      simp

/-- **R10 for documents**: every sequence of well-formed rules is read back from its tokens as exactly these rules,
    without error — for every number of rules, every nesting depth, every operator mix. -/
theorem parse_doc (hc : ConstOK d cT P) (rules : List Rule) (hw : ∀ r ∈ rules, WFRule P r ∧ DescOK dT r.desc) (f n : Nat)
    (hf : ∀ r ∈ rules, nRule r ≤ f) (hn : rules.length + 1 ≤ n) :
    parseRules d (f + 1) n (fDoc cT ot dT rules) [] = (rules, none) := by
  have := rules_ok d cT ot dT P hc rules hw f n [] hf hn
  simpa using this

-- non-vacuity: the hypotheses are satisfiable, and a concrete document meets them -----------------------------------

/-- a literal decoder with an obviously invertible notation (unary digits): the theorems hold for every decoder that
    inverts the printer's notation; `realDec` with the notations of GRL is validated by the correspondence -/
def unaryDec : Dec where
  int t := .ok (match t with | '-' :: r => -(r.length : Int) | r => (r.length : Int))
  float t := .ok (UInt64.ofNat t.length)
  str t := .ok (String.ofList t)

def unaryTok : Const → List Token
  | .str s => [⟨.dq, s.toList⟩]
  | .int i => if i < 0 then [⟨.minus, ['-']⟩, ⟨.dec, List.replicate i.natAbs '1'⟩] else [⟨.dec, List.replicate i.natAbs '1'⟩]
  | .float b => [⟨.decFloat, List.replicate b.toNat '1'⟩]
  | .bool true => [⟨.kTrue, []⟩]
  | .bool false => [⟨.kFalse, []⟩]
  | .nil => [⟨.kNil, []⟩]

theorem unary_ok : ConstOK unaryDec unaryTok (fun _ => True) := by
  intro c _ rest
  cases c with
  | str s => simp [unaryTok, parseConst, unaryDec, relocate, String.ofList_toList, bind, Except.bind, pure, Except.pure]
  | int i =>
    by_cases h : i < 0
    · have hv : -((List.replicate i.natAbs '1').length : Int) = i := by simp; omega
      simp only [unaryTok, h, if_true]
      simp only [List.cons_append, List.nil_append, parseConst, isNumTok, if_true, unaryDec, relocate, bind, Except.bind, pure, Except.pure, hv]
    · have hv : ((List.replicate i.natAbs '1').length : Int) = i := by simp; omega
      simp only [unaryTok, h, if_false]
      cases hr : List.replicate i.natAbs '1' with
      | nil =>
        rw [hr] at hv
        simp only [List.cons_append, List.nil_append, parseConst, isNumTok, if_true, unaryDec, relocate, bind, Except.bind, pure, Except.pure]
        simp at hv
        rw [← hv]; rfl
      | cons x xs =>
        have hx : x = '1' := by
          have : x ∈ List.replicate i.natAbs '1' := by rw [hr]; simp
          exact (List.mem_replicate.mp this).2
        subst hx
        rw [hr] at hv
        simp only [List.cons_append, List.nil_append, parseConst, isNumTok, if_true, unaryDec, relocate, bind, Except.bind, pure, Except.pure]
        have : (match ('1' :: xs : List Char) with | '-' :: r => -(r.length : Int) | r => (r.length : Int)) = (('1' :: xs).length : Int) := rfl
        rw [this, hv]
  | float b => simp [unaryTok, parseConst, isNumTok, unaryDec, relocate, bind, Except.bind, pure, Except.pure]
  | bool b => cases b <;> simp [unaryTok, parseConst]
  | nil => simp [unaryTok, parseConst]

def sampleRule : Rule :=
  { name := "R", desc := "d", salience := -2,
    cond := .bin .or (.bin .lt (.bin .add (.atom (.var (.field (.root "F") "I"))) (.bin .mul (.atom (.const (.int 2))) (.atom (.const (.int 3)))))
                       (.atom (.meth (.var (.root "F")) "Sum" (.cons (.atom (.const (.int 1))) (.cons (.paren false (.atom (.const (.int 2)))) .nil)))))
                (.paren true (.atom (.neg (.var (.index (.field (.root "F") "A") (.atom (.const (.int 0)))))))),
    acts := [.assign .add (.field (.root "F") "I") (.atom (.const (.int 1))), .stmt (.call "Retract" (.cons (.atom (.const (.str "R"))) .nil))] }

example : WFRule (fun _ => True) sampleRule ∧ DescOK (fun s => ⟨.dq, '"' :: (s.toList ++ ['"'])⟩) sampleRule.desc := by
  refine ⟨⟨?_, by simp [sampleRule], ?_, trivial⟩, ?_⟩
  · simp [sampleRule, WFE, WFA, WFV, WFArgs, isNeg, isVar, level, prec]
  · intro a ha
    simp [sampleRule] at ha
    rcases ha with h | h <;> subst h <;> simp [WFAct, WFV, WFE, WFA, WFArgs]
  · refine ⟨Or.inl rfl, ?_⟩
    decide +kernel

#print axioms action_ok
#print axioms actions_ok
#print axioms rule_ok
#print axioms parse_doc
#print axioms unary_ok

end Grule.ParseDoc

/-
  "String constants round-trip exactly whatever characters they contain" (C18): what the JSON translator writes with
  `strconv.Quote` (model: `Json.quoteGo`), the GRL listener's `unquoteString` (model: `Syntax.unquote`) reads back as
  the same string — for every string over the modelled `IsPrint` table, of any length.
-/
import GruleModel.Json.Translate
import GruleModel.Syntax.Literal
namespace Grule.QuoteRoundTrip
open Grule Grule.Json Grule.Syntax

-- hexadecimal digits ---------------------------------------------------------------------------------------------------

theorem hexVal_hexDigit : ∀ d : Fin 16, hexVal (hexDigit d.val) = d.val := by decide
theorem isHex_hexDigit : ∀ d : Fin 16, isHex (hexDigit d.val) = true := by decide

theorem hv (d : Nat) (h : d < 16) : hexVal (hexDigit d) = d := hexVal_hexDigit ⟨d, h⟩
theorem ih (d : Nat) (h : d < 16) : isHex (hexDigit d) = true := isHex_hexDigit ⟨d, h⟩

theorem hexPad2 (n : Nat) : hexPad 2 n = [hexDigit (n / 16 % 16), hexDigit (n % 16)] := by
  simp [hexPad, List.range, List.range.loop]

theorem hexPad4 (n : Nat) : hexPad 4 n = [hexDigit (n / 4096 % 16), hexDigit (n / 256 % 16), hexDigit (n / 16 % 16), hexDigit (n % 16)] := by
  simp [hexPad, List.range, List.range.loop]

theorem hexPad8 (n : Nat) : hexPad 8 n = [hexDigit (n / 268435456 % 16), hexDigit (n / 16777216 % 16), hexDigit (n / 1048576 % 16),
    hexDigit (n / 65536 % 16), hexDigit (n / 4096 % 16), hexDigit (n / 256 % 16), hexDigit (n / 16 % 16), hexDigit (n % 16)] := by
  simp [hexPad, List.range, List.range.loop]

theorem val2 (n : Nat) (h : n < 256) : digitsVal 16 (hexPad 2 n) = n := by
  rw [hexPad2]
  simp only [digitsVal, List.foldl]
  rw [hv _ (Nat.mod_lt _ (by decide)), hv _ (Nat.mod_lt _ (by decide))]
  omega

theorem val4 (n : Nat) (h : n < 65536) : digitsVal 16 (hexPad 4 n) = n := by
  rw [hexPad4]
  simp only [digitsVal, List.foldl]
  rw [hv _ (Nat.mod_lt _ (by decide)), hv _ (Nat.mod_lt _ (by decide)), hv _ (Nat.mod_lt _ (by decide)), hv _ (Nat.mod_lt _ (by decide))]
  omega

theorem val8 (n : Nat) (h : n < 4294967296) : digitsVal 16 (hexPad 8 n) = n := by
  rw [hexPad8]
  simp only [digitsVal, List.foldl]
  rw [hv _ (Nat.mod_lt _ (by decide)), hv _ (Nat.mod_lt _ (by decide)), hv _ (Nat.mod_lt _ (by decide)), hv _ (Nat.mod_lt _ (by decide)),
    hv _ (Nat.mod_lt _ (by decide)), hv _ (Nat.mod_lt _ (by decide)), hv _ (Nat.mod_lt _ (by decide)), hv _ (Nat.mod_lt _ (by decide))]
  omega

theorem allHex2 (n : Nat) : allHex (hexPad 2 n) = true := by
  rw [hexPad2]; simp [allHex, ih _ (Nat.mod_lt _ (by decide : 0 < 16))]

theorem allHex4 (n : Nat) : allHex (hexPad 4 n) = true := by
  rw [hexPad4]; simp [allHex, ih _ (Nat.mod_lt _ (by decide : 0 < 16))]

theorem allHex8 (n : Nat) : allHex (hexPad 8 n) = true := by
  rw [hexPad8]; simp [allHex, ih _ (Nat.mod_lt _ (by decide : 0 < 16))]

-- one step of the loop per rune ------------------------------------------------------------------------------------------

/-- the loop consumes the encoding of one rune and appends the rune -/
def Step (c : Char) (a : List Char) : Prop :=
  ∀ (f : Nat) (rest acc : List Char), unquoteLoop '"' (f + 1) (a ++ rest) acc = unquoteLoop '"' f rest (c :: acc)

theorem char_of_toNat (c : Char) (n : Nat) (h : c.toNat = n) : Char.ofNat n = c := by
  rw [← h]; exact Char.ofNat_toNat c

theorem step_plain (c : Char) (h1 : c ≠ '"') (h2 : c ≠ '\\') : Step c [c] := by
  intro f rest acc
  have e1 : (c == '"') = false := by simpa using h1
  have e2 : (c != '\\') = true := by simpa using h2
  simp [unquoteLoop, e1, e2]

theorem step_quote : Step '"' ['\\', '"'] := by
  intro f rest acc; simp [unquoteLoop]

theorem step_backslash : Step '\\' ['\\', '\\'] := by
  intro f rest acc; simp [unquoteLoop]

theorem step_simple (c : Char) :
    (c.toNat = 7 → Step c ['\\', 'a']) ∧ (c.toNat = 8 → Step c ['\\', 'b']) ∧ (c.toNat = 12 → Step c ['\\', 'f']) ∧
    (c.toNat = 10 → Step c ['\\', 'n']) ∧ (c.toNat = 13 → Step c ['\\', 'r']) ∧ (c.toNat = 9 → Step c ['\\', 't']) ∧
    (c.toNat = 11 → Step c ['\\', 'v']) := by
  refine ⟨?_, ?_, ?_, ?_, ?_, ?_, ?_⟩ <;> intro h f rest acc
  · have := char_of_toNat c 7 h; subst this; simp [unquoteLoop]
  · have := char_of_toNat c 8 h; subst this; simp [unquoteLoop]
  · have := char_of_toNat c 12 h; subst this; simp [unquoteLoop]
  · have := char_of_toNat c 10 h; subst this; simp [unquoteLoop]
  · have := char_of_toNat c 13 h; subst this; simp [unquoteLoop]
  · have := char_of_toNat c 9 h; subst this; simp [unquoteLoop]
  · have := char_of_toNat c 11 h; subst this; simp [unquoteLoop]

theorem take_app (l rest : List Char) : (l ++ rest).take l.length = l ∧ (l ++ rest).drop l.length = rest := by
  constructor
  · simp
  · simp

theorem len2 (n : Nat) : (hexPad 2 n).length = 2 := by rw [hexPad2]; rfl
theorem len4 (n : Nat) : (hexPad 4 n).length = 4 := by rw [hexPad4]; rfl
theorem len8 (n : Nat) : (hexPad 8 n).length = 8 := by rw [hexPad8]; rfl

theorem step_x (c : Char) (h : c.toNat < 0x80) : Step c (['\\', 'x'] ++ hexPad 2 c.toNat) := by
  intro f rest acc
  have htd := take_app (hexPad 2 c.toNat) rest
  rw [len2] at htd
  obtain ⟨ht, hd⟩ := htd
  have hv := val2 c.toNat (by omega)
  simp only [List.cons_append, List.nil_append, List.append_assoc]
  simp [unquoteLoop, ht, hd, len2, allHex2, hv, h, Char.ofNat_toNat]

theorem valid_range (c : Char) : ¬ (c.toNat > 0x10FFFF ∨ (0xD800 ≤ c.toNat ∧ c.toNat < 0xE000)) := by
  have := c.valid
  simp only [UInt32.isValidChar, Nat.isValidChar] at this
  have e : c.val.toNat = c.toNat := rfl
  rw [e] at this
  omega

theorem step_u (c : Char) (h : c.toNat < 0x10000) : Step c (['\\', 'u'] ++ hexPad 4 c.toNat) := by
  intro f rest acc
  have htd := take_app (hexPad 4 c.toNat) rest
  rw [len4] at htd
  obtain ⟨ht, hd⟩ := htd
  have hv := val4 c.toNat h
  have hr := valid_range c
  have h1 : ¬ (1114111 < c.toNat) := by omega
  have h2 : ¬ (55296 ≤ c.toNat ∧ c.toNat < 57344) := by omega
  simp only [List.cons_append, List.nil_append, List.append_assoc]
  simp [unquoteLoop, ht, hd, len4, allHex4, hv, h1, h2, Char.ofNat_toNat]

theorem step_U (c : Char) : Step c (['\\', 'U'] ++ hexPad 8 c.toNat) := by
  intro f rest acc
  have htd := take_app (hexPad 8 c.toNat) rest
  rw [len8] at htd
  obtain ⟨ht, hd⟩ := htd
  have hr := valid_range c
  have hlt : c.toNat < 4294967296 := by omega
  have hv := val8 c.toNat hlt
  have h1 : ¬ (1114111 < c.toNat) := by omega
  have h2 : ¬ (55296 ≤ c.toNat ∧ c.toNat < 57344) := by omega
  simp only [List.cons_append, List.nil_append, List.append_assoc]
  simp [unquoteLoop, ht, hd, len8, allHex8, hv, h1, h2, Char.ofNat_toNat]

/-- every encoding `strconv.Quote` produces for a rune is undone by one step of the loop; and it is the rune itself or
    starts with a backslash -/
theorem quoteRune_step (c : Char) (a : List Char) (h : quoteRune c = some a) :
    Step c a ∧ ((a = [c] ∧ c ≠ '"' ∧ c ≠ '\\') ∨ ∃ r, a = '\\' :: r) := by
  unfold quoteRune at h
  simp only at h
  by_cases hq : (c == '"') = true
  · simp only [hq, if_true, Option.some.injEq] at h
    have : c = '"' := by simpa using hq
    subst this; subst h
    exact ⟨step_quote, Or.inr ⟨_, rfl⟩⟩
  · simp only [hq, Bool.false_eq_true, if_false] at h
    by_cases hb : (c == '\\') = true
    · simp only [hb, if_true, Option.some.injEq] at h
      have : c = '\\' := by simpa using hb
      subst this; subst h
      exact ⟨step_backslash, Or.inr ⟨_, rfl⟩⟩
    · simp only [hb, Bool.false_eq_true, if_false] at h
      have hq' : c ≠ '"' := by simpa using hq
      have hb' : c ≠ '\\' := by simpa using hb
      cases hp : isPrintGo c with
      | yes =>
        simp only [hp, Option.some.injEq] at h
        subst h
        exact ⟨step_plain c hq' hb', Or.inl ⟨rfl, hq', hb'⟩⟩
      | unknown => simp [hp] at h
      | no =>
        simp only [hp] at h
        have hs := step_simple c
        by_cases h7 : c.toNat = 7
        · simp [h7] at h; subst h; exact ⟨hs.1 h7, Or.inr ⟨_, rfl⟩⟩
        by_cases h8 : c.toNat = 8
        · simp [h8] at h; subst h; exact ⟨hs.2.1 h8, Or.inr ⟨_, rfl⟩⟩
        by_cases h12 : c.toNat = 12
        · simp [h12] at h; subst h; exact ⟨hs.2.2.1 h12, Or.inr ⟨_, rfl⟩⟩
        by_cases h10 : c.toNat = 10
        · simp [h10] at h; subst h; exact ⟨hs.2.2.2.1 h10, Or.inr ⟨_, rfl⟩⟩
        by_cases h13 : c.toNat = 13
        · simp [h13] at h; subst h; exact ⟨hs.2.2.2.2.1 h13, Or.inr ⟨_, rfl⟩⟩
        by_cases h9 : c.toNat = 9
        · simp [h9] at h; subst h; exact ⟨hs.2.2.2.2.2.1 h9, Or.inr ⟨_, rfl⟩⟩
        by_cases h11 : c.toNat = 11
        · simp [h11] at h; subst h; exact ⟨hs.2.2.2.2.2.2 h11, Or.inr ⟨_, rfl⟩⟩
        simp only [h7, h8, h12, h10, h13, h9, h11, beq_iff_eq, if_false] at h
        by_cases hx : (decide (c.toNat < 0x20) || c.toNat == 0x7F) = true
        · simp only [hx, if_true, Option.some.injEq] at h
          subst h
          have : c.toNat < 0x80 := by
            simp only [Bool.or_eq_true, decide_eq_true_eq, beq_iff_eq] at hx
            omega
          exact ⟨step_x c this, Or.inr ⟨_, rfl⟩⟩
        · simp only [hx, Bool.false_eq_true, if_false] at h
          by_cases hu : c.toNat < 0x10000
          · simp only [hu, if_true, Option.some.injEq] at h
            subst h
            exact ⟨step_u c hu, Or.inr ⟨_, rfl⟩⟩
          · simp only [hu, if_false, Option.some.injEq] at h
            subst h
            exact ⟨step_U c, Or.inr ⟨_, rfl⟩⟩

-- the whole string ---------------------------------------------------------------------------------------------------------

theorem loop_body : ∀ (s b : List Char), quoteBody s = some b → ∀ (f : Nat) (acc : List Char), s.length + 1 ≤ f →
    unquoteLoop '"' f b acc = .ok (acc.reverse ++ s)
  | [], b, h, f, acc, hf => by
    simp only [quoteBody, Option.some.injEq] at h
    subst h
    obtain ⟨f', rfl⟩ : ∃ f', f = f' + 1 := ⟨f - 1, by simp at hf; omega⟩
    simp [unquoteLoop]
  | c :: s, b, h, f, acc, hf => by
    simp only [quoteBody] at h
    cases hr : quoteRune c with
    | none => simp [hr] at h
    | some a =>
      cases hb : quoteBody s with
      | none => simp [hr, hb] at h
      | some b' =>
        simp only [hr, hb, Option.some.injEq] at h
        subst h
        obtain ⟨f', rfl⟩ : ∃ f', f = f' + 1 := ⟨f - 1, by simp at hf; omega⟩
        rw [(quoteRune_step c a hr).1 f' b' acc]
        rw [loop_body s b' hb f' (c :: acc) (by simp at hf ⊢; omega)]
        simp

/-- without any escape the body is the string itself -/
theorem plain_body : ∀ (s b : List Char), quoteBody s = some b → b.contains '\\' = false → b = s
  | [], b, h, _ => by simp only [quoteBody, Option.some.injEq] at h; exact h.symm
  | c :: s, b, h, hn => by
    simp only [quoteBody] at h
    cases hr : quoteRune c with
    | none => simp [hr] at h
    | some a =>
      cases hb : quoteBody s with
      | none => simp [hr, hb] at h
      | some b' =>
        simp only [hr, hb, Option.some.injEq] at h
        subst h
        rcases (quoteRune_step c a hr).2 with ⟨ha, _, _⟩ | ⟨r, ha⟩
        · subst ha
          have hn' : b'.contains '\\' = false := by
            simp only [List.cons_append, List.nil_append, List.contains_cons, Bool.or_eq_false_iff] at hn
            exact hn.2
          rw [plain_body s b' hb hn']
          rfl
        · subst ha
          simp at hn

/-- **String constants round-trip exactly whatever characters they contain**: for every string `s` the translator can
    quote (every code point of the modelled `IsPrint` table: all of ASCII incl. quotes, backslashes and control characters,
    and the listed printable and unprintable non-ASCII code points), of any length, the GRL literal it writes is read back
    by the listener's `unquoteString` as exactly `s`. -/
theorem C18_const_string (s q : List Char) (h : quoteGo s = .ok q) : unquote q = .ok s := by
  unfold quoteGo at h
  cases hb : quoteBody s with
  | none => simp [hb] at h
  | some b =>
    simp only [hb, Except.ok.injEq] at h
    subst h
    have hrest : (['"'] ++ b ++ ['"']) = '"' :: (b ++ ['"']) := by simp
    rw [hrest]
    unfold unquote
    have h1 : (b ++ ['"']).isEmpty = false := by simp
    have h2 : (b ++ ['"']).dropLast = b := by simp
    have h3 : ((b ++ ['"']).getLast? != some '"') = false := by simp
    simp only [h1, Bool.false_eq_true, if_false, h2, h3]
    have h4 : (('"' : Char) != '"' && ('"' : Char) != '\'') = false := by decide
    simp only [h4, Bool.false_eq_true, if_false]
    by_cases hfast : (!b.contains '\\' && !b.contains '"') = true
    · simp only [hfast, if_true]
      simp only [Bool.and_eq_true, Bool.not_eq_true'] at hfast
      rw [plain_body s b hb hfast.1]
    · simp only [hfast, Bool.false_eq_true, if_false]
      have hlen : s.length ≤ b.length := by
        clear hfast h1 h2 h3 hrest
        induction s generalizing b with
        | nil => simp
        | cons c s ihs =>
          simp only [quoteBody] at hb
          cases hr : quoteRune c with
          | none => simp [hr] at hb
          | some a =>
            cases hb' : quoteBody s with
            | none => simp [hr, hb'] at hb
            | some b' =>
              simp only [hr, hb', Option.some.injEq] at hb
              subst hb
              have := ihs b' hb'
              have ha : 1 ≤ a.length := by
                rcases (quoteRune_step c a hr).2 with ⟨ha, _, _⟩ | ⟨r, ha⟩ <;> subst ha <;> simp
              simp only [List.length_cons, List.length_append]
              omega
      have := loop_body s b hb (b.length + 1) [] (by omega)
      simpa using this

#print axioms C18_const_string

end Grule.QuoteRoundTrip

/-
  The converse at document level: every rule the parser model returns is well formed — in particular it has a
  condition and at least one action ("empty condition or action list … yields an error").
-/
import GruleModel.Proofs.ParseRange
import GruleModel.Proofs.ParseDoc
namespace Grule.ParseRangeDoc
open Grule Grule.Syntax Grule.ParseGroup Grule.ParseAtoms Grule.ParseDoc Grule.ParseRange

variable (d : Dec)

theorem action_range (f : Nat) (ts : List Token) (a : Action) (rest : List Token) (h : parseAction d f ts = .ok (a, rest)) :
    WFAct Any a := by
  simp only [parseAction, bind, Except.bind] at h
  cases ha : parseAtom d f ts with
  | error er => simp [ha] at h
  | ok x =>
    obtain ⟨at_, r⟩ := x
    simp only [ha] at h
    have hwa := (range_all d f).atom ts at_ r ha
    cases r with
    | nil => simp [err] at h
    | cons t rest0 =>
      simp only at h
      split at h
      · rename_i op v hop hav
        cases he : parseExpr d f 0 rest0 with
        | error er => simp [he] at h
        | ok y =>
          obtain ⟨e, r2⟩ := y
          simp only [he] at h
          cases r2 with
          | nil => simp [err] at h
          | cons s r3 =>
            simp only at h
            split at h
            · simp only [Except.ok.injEq, Prod.mk.injEq] at h
              obtain ⟨rfl, _⟩ := h
              simp only [WFAct]
              refine ⟨?_, (parse_range d f 0 rest0 e _ he (by omega)).1⟩
              simpa only [WFA] using hwa
            · simp [err] at h
      · simp [err] at h
      · split at h
        · simp only [Except.ok.injEq, Prod.mk.injEq] at h
          obtain ⟨rfl, _⟩ := h
          simpa only [WFAct] using hwa
        · simp [err] at h

theorem actions_range (f : Nat) : ∀ (n : Nat) (ts : List Token) (acts : List Action) (rest : List Token),
    parseActions d f n ts = .ok (acts, rest) → acts ≠ [] ∧ ∀ a ∈ acts, WFAct Any a
  | 0, ts, acts, rest, h => by simp [parseActions] at h
  | n + 1, ts, acts, rest, h => by
    simp only [parseActions, bind, Except.bind] at h
    cases ha : parseAction d f ts with
    | error er => simp [ha] at h
    | ok x =>
      obtain ⟨a, r⟩ := x
      simp only [ha] at h
      have hwa := action_range d f ts a r ha
      cases r with
      | nil => simp [err] at h
      | cons t rest0 =>
        simp only at h
        split at h
        · simp only [Except.ok.injEq, Prod.mk.injEq] at h
          obtain ⟨rfl, _⟩ := h
          exact ⟨by simp, by intro x hx; simp at hx; subst hx; exact hwa⟩
        · cases hm : parseActions d f n (t :: rest0) with
          | error er => simp [hm] at h
          | ok y =>
            obtain ⟨more, r'⟩ := y
            simp only [hm, Except.ok.injEq, Prod.mk.injEq] at h
            obtain ⟨rfl, _⟩ := h
            have := actions_range f n (t :: rest0) more r' hm
            exact ⟨by simp, by
              intro x hx
              simp only [List.mem_cons] at hx
              rcases hx with hx | hx
              · subst hx; exact hwa
              · exact this.2 x hx⟩

/-- **every rule the parser returns has a well-formed condition and at least one well-formed action** -/
theorem rule_range (f : Nat) (ts : List Token) (r : Rule) (rest : List Token) (h : parseRule d f ts = .ok (r, rest)) :
    WFRule Any r := by
  unfold parseRule at h
  split at h
  · rename_i rk n rest0
    split at h
    · simp [err] at h
    · split at h
      · simp [err] at h
      · simp only [bind, Except.bind] at h
        split at h
        · simp at h
        · rename_i sal rest2 hsal
          split at h
          · rename_i lb w rest3 heq
            split at h
            · simp [err] at h
            · split at h
              · simp [err] at h
              · cases he : parseExpr d f 0 rest3 with
                | error er => simp [he] at h
                | ok y =>
                  obtain ⟨cond, rest4⟩ := y
                  simp only [he] at h
                  have hc := (parse_range d f 0 rest3 cond rest4 he (by omega)).1
                  cases rest4 with
                  | nil => simp [err] at h
                  | cons th rest5 =>
                    simp only at h
                    split at h
                    · simp [err] at h
                    · cases hacts : parseActions d f f rest5 with
                      | error er => simp [hacts] at h
                      | ok z =>
                        obtain ⟨acts, rest6⟩ := z
                        simp only [hacts] at h
                        have ha := actions_range d f f rest5 acts rest6 hacts
                        cases rest6 with
                        | nil => simp [err] at h
                        | cons rb rest7 =>
                          simp only at h
                          split at h
                          · simp only [Except.ok.injEq, Prod.mk.injEq] at h
                            obtain ⟨rfl, _⟩ := h
                            exact ⟨hc, ha.1, ha.2, trivial⟩
                          · simp [err] at h
          · simp [err] at h
  · simp [err] at h

/-- … hence every rule of an accepted document -/
theorem rules_range (f : Nat) : ∀ (n : Nat) (ts : List Token) (acc rules : List Rule), (∀ r ∈ acc, WFRule Any r) →
    parseRules d f n ts acc = (rules, none) → ∀ r ∈ rules, WFRule Any r
  | 0, ts, acc, rules, _, h => by simp [parseRules] at h
  | n + 1, [], acc, rules, hacc, h => by
    simp only [parseRules, Prod.mk.injEq, and_true] at h
    subst h; exact hacc
  | n + 1, t :: ts, acc, rules, hacc, h => by
    simp only [parseRules] at h
    cases hr : parseRule d f (t :: ts) with
    | error er => simp [hr] at h
    | ok x =>
      obtain ⟨r, rest⟩ := x
      simp only [hr] at h
      exact rules_range f n rest (acc ++ [r]) rules (by
        intro x hx
        simp only [List.mem_append, List.mem_singleton] at hx
        rcases hx with hx | hx
        · exact hacc x hx
        · subst hx; exact rule_range d f (t :: ts) x rest hr) h

/-- **the document parser returns only well-formed rules**: a condition, at least one action, operators grouped by
    `prec` — so a text with an empty condition or an empty action list is never accepted -/
theorem parseDoc_range (ts : List Token) (rules : List Rule) (h : parseDoc d ts = (rules, none)) : ∀ r ∈ rules, WFRule Any r := by
  unfold parseDoc at h
  exact rules_range d _ _ ts [] rules (by intro r hr; cases hr) h

#print axioms action_range
#print axioms actions_range
#print axioms rule_range
#print axioms parseDoc_range

end Grule.ParseRangeDoc

/-
  The converse of the round trip: whatever the parser model returns is a well-formed tree (`WFE`): operators grouped by
  `prec` and to the left, negation outermost, members/selectors of a plain variable inside the variable. Together with
  `parse_print` the parser's range is exactly the set of well-formed trees, on whose tokens it is the identity.
-/
import GruleModel.Proofs.ParseAtoms
namespace Grule.ParseRange
open Grule Grule.Syntax Grule.ParseGroup Grule.ParseAtoms

abbrev Any : Const → Prop := fun _ => True

/-- what follows an expression parsed at strength `p`: no operator it should have taken -/
def Post (p : Nat) (rest : List Token) : Prop := ∀ op, headOp rest = some op → prec op < p

variable (d : Dec)

/-- what follows a variable: nothing its tail loop would have taken (`[`, or `.name` not followed by `(`) -/
def varPost : List Token → Bool
  | [] => true
  | t :: rest => t.kind != .lsq && !(t.kind == .dot && (match rest with
      | n :: rest2 => n.kind == .name && noLParen rest2
      | [] => false))

/-- the statements about the eight mutually recursive functions at one fuel value -/
structure Range (f : Nat) : Prop where
  expr : ∀ p ts e rest, parseExpr d f p ts = .ok (e, rest) → p ≤ 6 → WFE Any e ∧ p ≤ level e ∧ Post p rest
  climb : ∀ p lhs ts e rest, climb d f p lhs ts = .ok (e, rest) → WFE Any lhs → p ≤ level lhs →
      (∀ op, headOp ts = some op → prec op ≤ level lhs) → WFE Any e ∧ p ≤ level e ∧ Post p rest
  primary : ∀ ts e rest, parsePrimary d f ts = .ok (e, rest) → WFE Any e ∧ level e = 6
  atom : ∀ ts a rest, parseAtom d f ts = .ok (a, rest) → WFA Any a
  vtail : ∀ v ts v' rest, varTail d f v ts = .ok (v', rest) → WFV Any v → WFV Any v' ∧ varPost rest = true
  suff : ∀ a ts a' rest, suffixes d f a ts = .ok (a', rest) → WFA Any a → isNeg a = false → (isVar a = true → varPost ts = true) →
      WFA Any a'
  args : ∀ ts as rest, parseArgs d f ts = .ok (as, rest) → WFArgs Any as
  more : ∀ ts as rest, moreArgs d f ts = .ok (as, rest) → WFArgs Any as

theorem range_zero : Range d 0 where
  expr := by intro p ts e rest h; simp [parseExpr] at h
  climb := by intro p lhs ts e rest h; simp [Syntax.climb] at h
  primary := by intro ts e rest h; simp [parsePrimary] at h
  atom := by intro ts a rest h; simp [parseAtom] at h
  vtail := by intro v ts v' rest h; simp [varTail] at h
  suff := by intro a ts a' rest h; simp [suffixes] at h
  args := by intro ts as rest h; simp [parseArgs] at h
  more := by intro ts as rest h; simp [moreArgs] at h

-- inversion lemmas --------------------------------------------------------------------------------------------------------

theorem expr_inv (f p : Nat) (ts : List Token) (e : Expr) (rest : List Token) (h : parseExpr d (f + 1) p ts = .ok (e, rest)) :
    ∃ lhs r1, parsePrimary d f ts = .ok (lhs, r1) ∧ Syntax.climb d f p lhs r1 = .ok (e, rest) := by
  simp only [parseExpr, bind, Except.bind] at h
  cases hp : parsePrimary d f ts with
  | error err => simp [hp] at h
  | ok x => obtain ⟨lhs, r1⟩ := x; simp only [hp] at h; exact ⟨lhs, r1, rfl, h⟩

theorem range_expr (f : Nat) (ih : Range d f) : ∀ p ts e rest, parseExpr d (f + 1) p ts = .ok (e, rest) → p ≤ 6 →
    WFE Any e ∧ p ≤ level e ∧ Post p rest := by
  intro p ts e rest h hp6
  obtain ⟨lhs, r1, h1, h2⟩ := expr_inv d f p ts e rest h
  obtain ⟨hw, hl⟩ := ih.primary ts lhs r1 h1
  exact ih.climb p lhs r1 e rest h2 hw (by omega) (by intro op _; have := prec_le_five op; omega)

theorem range_climb (f : Nat) (ih : Range d f) : ∀ p lhs ts e rest, Syntax.climb d (f + 1) p lhs ts = .ok (e, rest) → WFE Any lhs → p ≤ level lhs →
    (∀ op, headOp ts = some op → prec op ≤ level lhs) → WFE Any e ∧ p ≤ level e ∧ Post p rest := by
  intro p lhs ts e rest h hw hp hhead
  cases ts with
  | nil =>
    simp only [Syntax.climb, Except.ok.injEq, Prod.mk.injEq] at h
    obtain ⟨rfl, rfl⟩ := h
    exact ⟨hw, hp, by intro op ho; simp [headOp] at ho⟩
  | cons t r =>
    simp only [Syntax.climb] at h
    cases hop : binOpOf t.kind with
    | none =>
      simp only [hop, Except.ok.injEq, Prod.mk.injEq] at h
      obtain ⟨rfl, rfl⟩ := h
      exact ⟨hw, hp, by intro op ho; simp [headOp, hop] at ho⟩
    | some op =>
      simp only [hop] at h
      by_cases hge : prec op ≥ p
      · simp only [hge, if_true, bind, Except.bind] at h
        cases hr : parseExpr d f (prec op + 1) r with
        | error err => simp [hr] at h
        | ok x =>
          obtain ⟨rhs, r'⟩ := x
          simp only [hr] at h
          have hp5 := prec_le_five op
          obtain ⟨hwr, hlr, hpost⟩ := ih.expr (prec op + 1) r rhs r' hr (by omega)
          have hlhs : prec op ≤ level lhs := hhead op (by simp [headOp, hop])
          exact ih.climb p (.bin op lhs rhs) r' e rest h (by simp only [WFE]; exact ⟨hw, hwr, hlhs, by omega⟩)
            (by simp only [level]; omega) (by intro op' ho; have := hpost op' ho; simp only [level]; omega)
      · simp only [hge, if_false, Except.ok.injEq, Prod.mk.injEq] at h
        obtain ⟨rfl, rfl⟩ := h
        exact ⟨hw, hp, by intro op' ho; simp only [headOp, hop, Option.some.injEq] at ho; subst ho; omega⟩


theorem paren_inv (f : Nat) (neg : Bool) (inner : List Token) (e : Expr) (rest : List Token)
    (h : (do
        let (e', r1) ← parseExpr d f 0 inner
        match r1 with
        | t :: rest' => if t.kind == TK.rparen then (.ok (.paren neg e', rest') : Except PErr (Expr × List Token)) else err r1
        | [] => err r1) = .ok (e, rest)) :
    ∃ e' r1, parseExpr d f 0 inner = .ok (e', r1) ∧ e = .paren neg e' := by
  simp only [bind, Except.bind] at h
  cases hp : parseExpr d f 0 inner with
  | error er => simp [hp] at h
  | ok x =>
    obtain ⟨e', r1⟩ := x
    simp only [hp] at h
    refine ⟨e', r1, rfl, ?_⟩
    cases r1 with
    | nil => simp [err] at h
    | cons t rest' =>
      simp only at h
      split at h
      · simp only [Except.ok.injEq, Prod.mk.injEq] at h; exact h.1.symm
      · simp [err] at h

theorem range_primary (f : Nat) (ih : Range d f) : ∀ ts e rest, parsePrimary d (f + 1) ts = .ok (e, rest) → WFE Any e ∧ level e = 6 := by
  intro ts e rest h
  have atomCase : ∀ (h' : (do let (a, r) ← parseAtom d f ts; (.ok (.atom a, r) : Except PErr (Expr × List Token))) = .ok (e, rest)),
      WFE Any e ∧ level e = 6 := by
    intro h'
    simp only [bind, Except.bind] at h'
    cases ha : parseAtom d f ts with
    | error er => simp [ha] at h'
    | ok x =>
      obtain ⟨a, r⟩ := x
      simp only [ha, Except.ok.injEq, Prod.mk.injEq] at h'
      obtain ⟨rfl, _⟩ := h'
      exact ⟨by simp only [WFE]; exact ih.atom ts a r ha, rfl⟩
  cases ts with
  | nil => simp [parsePrimary, err] at h
  | cons t rest0 =>
    simp only [parsePrimary] at h
    by_cases hl : (t.kind == TK.lparen) = true
    · simp only [hl, if_true] at h
      obtain ⟨e', r1, hp, rfl⟩ := paren_inv d f false rest0 e rest h
      exact ⟨by simp only [WFE]; exact (ih.expr 0 rest0 e' r1 hp (by omega)).1, rfl⟩
    · simp only [hl, Bool.false_eq_true, if_false] at h
      by_cases hb : (t.kind == TK.bang) = true
      · simp only [hb, if_true] at h
        cases rest0 with
        | nil => simp [err] at h
        | cons t2 rest2 =>
          simp only at h
          by_cases hl2 : (t2.kind == TK.lparen) = true
          · simp only [hl2, if_true] at h
            obtain ⟨e', r1, hp, rfl⟩ := paren_inv d f true rest2 e rest h
            exact ⟨by simp only [WFE]; exact (ih.expr 0 rest2 e' r1 hp (by omega)).1, rfl⟩
          · simp only [hl2, Bool.false_eq_true, if_false] at h
            exact atomCase h
      · simp only [hb, Bool.false_eq_true, if_false] at h
        exact atomCase h

theorem range_atom (f : Nat) (ih : Range d f) : ∀ ts a rest, parseAtom d (f + 1) ts = .ok (a, rest) → WFA Any a := by
  intro ts a rest h
  cases ts with
  | nil => simp [parseAtom, err] at h
  | cons t rest0 =>
    simp only [parseAtom] at h
    by_cases hb : (t.kind == TK.bang) = true
    · simp only [hb, if_true, bind, Except.bind] at h
      cases ha : parseAtom d f rest0 with
      | error er => simp [ha] at h
      | ok x =>
        obtain ⟨a', r⟩ := x
        simp only [ha, Except.ok.injEq, Prod.mk.injEq] at h
        obtain ⟨rfl, _⟩ := h
        simp only [WFA]; exact ih.atom rest0 a' r ha
    · simp only [hb, Bool.false_eq_true, if_false] at h
      cases hc : parseConst d (t :: rest0) with
      | some rc =>
        simp only [hc, bind, Except.bind] at h
        cases rc with
        | error er => simp at h
        | ok x =>
          obtain ⟨c, rest'⟩ := x
          simp only at h
          exact ih.suff (.const c) rest' a rest h (by simp only [WFA]; trivial) rfl (by intro hv; simp [isVar] at hv)
      | none =>
        simp only [hc] at h
        by_cases hn : (t.kind == TK.name) = true
        · simp only [hn, if_true] at h
          cases rest0 with
          | nil =>
            simp only [Except.ok.injEq, Prod.mk.injEq] at h
            obtain ⟨rfl, _⟩ := h
            simp [WFA, WFV]
          | cons t2 rest2 =>
            simp only at h
            by_cases hl : (t2.kind == TK.lparen) = true
            · simp only [hl, if_true, bind, Except.bind] at h
              cases hg : parseArgs d f rest2 with
              | error er => simp [hg] at h
              | ok x =>
                obtain ⟨as, r⟩ := x
                simp only [hg] at h
                exact ih.suff _ r a rest h (by simp only [WFA]; exact ih.args rest2 as r hg) rfl (by intro hv; simp [isVar] at hv)
            · simp only [hl, Bool.false_eq_true, if_false, bind, Except.bind] at h
              cases hv : varTail d f (.root (String.ofList t.text)) (t2 :: rest2) with
              | error er => simp [hv] at h
              | ok x =>
                obtain ⟨v, r⟩ := x
                simp only [hv] at h
                obtain ⟨hwv, hpost⟩ := ih.vtail _ _ v r hv (by simp [WFV])
                exact ih.suff (.var v) r a rest h (by simp only [WFA]; exact hwv) rfl (fun _ => hpost)
        · simp only [hn, Bool.false_eq_true, if_false] at h
          simp [err] at h

theorem range_vtail (f : Nat) (ih : Range d f) : ∀ v ts v' rest, varTail d (f + 1) v ts = .ok (v', rest) → WFV Any v →
    WFV Any v' ∧ varPost rest = true := by
  intro v ts v' rest h hw
  cases ts with
  | nil =>
    simp only [varTail, Except.ok.injEq, Prod.mk.injEq] at h
    obtain ⟨rfl, rfl⟩ := h
    exact ⟨hw, rfl⟩
  | cons t rest0 =>
    simp only [varTail] at h
    by_cases hd : (t.kind == TK.dot) = true
    · simp only [hd, if_true] at h
      have hlsq : (t.kind != TK.lsq) = true := by
        have : t.kind = TK.dot := by simpa using hd
        simp [this]
      cases rest0 with
      | nil =>
        simp only [Except.ok.injEq, Prod.mk.injEq] at h
        obtain ⟨rfl, rfl⟩ := h
        exact ⟨hw, by simp [varPost, hlsq]⟩
      | cons n rest2 =>
        simp only at h
        by_cases hn : (n.kind == TK.name) = true
        · simp only [hn, if_true] at h
          cases rest2 with
          | nil =>
            simp only at h
            exact ih.vtail _ _ v' rest h (by simp only [WFV]; exact hw)
          | cons p r3 =>
            simp only at h
            by_cases hp : (p.kind == TK.lparen) = true
            · simp only [hp, if_true, Except.ok.injEq, Prod.mk.injEq] at h
              obtain ⟨rfl, rfl⟩ := h
              have hp' : p.kind = TK.lparen := by simpa using hp
              exact ⟨hw, by simp [varPost, hlsq, hd, hn, noLParen, hp']⟩
            · simp only [hp, Bool.false_eq_true, if_false] at h
              exact ih.vtail _ _ v' rest h (by simp only [WFV]; exact hw)
        · simp only [hn, Bool.false_eq_true, if_false, Except.ok.injEq, Prod.mk.injEq] at h
          obtain ⟨rfl, rfl⟩ := h
          exact ⟨hw, by simp [varPost, hlsq, hn]⟩
    · simp only [hd, Bool.false_eq_true, if_false] at h
      by_cases hq : (t.kind == TK.lsq) = true
      · simp only [hq, if_true, bind, Except.bind] at h
        cases he : parseExpr d f 0 rest0 with
        | error er => simp [he] at h
        | ok x =>
          obtain ⟨e, r⟩ := x
          simp only [he] at h
          cases r with
          | nil => simp [err] at h
          | cons c r' =>
            simp only at h
            split at h
            · exact ih.vtail _ _ v' rest h (by simp only [WFV]; exact ⟨hw, (ih.expr 0 rest0 e _ he (by omega)).1⟩)
            · simp [err] at h
      · simp only [hq, Bool.false_eq_true, if_false, Except.ok.injEq, Prod.mk.injEq] at h
        obtain ⟨rfl, rfl⟩ := h
        have hq' : (t.kind != TK.lsq) = true := by simpa using hq
        exact ⟨hw, by simp [varPost, hq', hd]⟩

theorem range_suff (f : Nat) (ih : Range d f) : ∀ a ts a' rest, suffixes d (f + 1) a ts = .ok (a', rest) → WFA Any a → isNeg a = false →
    (isVar a = true → varPost ts = true) → WFA Any a' := by
  intro a ts a' rest h hw hneg hvar
  have notVarOf : ∀ (hfalse : varPost ts = false), isVar a = false := by
    intro hfalse
    cases hv : isVar a with
    | false => rfl
    | true => have := hvar hv; rw [hfalse] at this; cases this
  cases ts with
  | nil =>
    simp only [suffixes, Except.ok.injEq, Prod.mk.injEq] at h
    obtain ⟨rfl, _⟩ := h
    exact hw
  | cons t rest0 =>
    simp only [suffixes] at h
    by_cases hd : (t.kind == TK.dot) = true
    · simp only [hd, if_true] at h
      have hdk : t.kind = TK.dot := by simpa using hd
      cases rest0 with
      | nil => simp [err] at h
      | cons n rest2 =>
        simp only at h
        by_cases hn : (n.kind == TK.name) = true
        · simp only [hn, if_true] at h
          have memberCase : suffixes d f (.member a (String.ofList n.text)) rest2 = .ok (a', rest) → noLParen rest2 = true → WFA Any a' := by
            intro h' hnl
            have hnv := notVarOf (by simp [varPost, hdk, hn, hnl])
            exact ih.suff _ rest2 a' rest h' (by simp only [WFA]; exact ⟨hw, hneg, hnv⟩) rfl (by intro hv; simp [isVar] at hv)
          cases rest2 with
          | nil => simp only at h; exact memberCase h rfl
          | cons p rest3 =>
            simp only at h
            by_cases hp : (p.kind == TK.lparen) = true
            · simp only [hp, if_true, bind, Except.bind] at h
              cases hg : parseArgs d f rest3 with
              | error er => simp [hg] at h
              | ok x =>
                obtain ⟨as, r⟩ := x
                simp only [hg] at h
                exact ih.suff _ r a' rest h (by simp only [WFA]; exact ⟨hw, hneg, ih.args rest3 as r hg⟩) rfl (by intro hv; simp [isVar] at hv)
            · simp only [hp, Bool.false_eq_true, if_false] at h
              exact memberCase h (by simp [noLParen]; simpa using hp)
        · simp only [hn, Bool.false_eq_true, if_false] at h
          simp [err] at h
    · simp only [hd, Bool.false_eq_true, if_false] at h
      by_cases hq : (t.kind == TK.lsq) = true
      · simp only [hq, if_true, bind, Except.bind] at h
        have hqk : t.kind = TK.lsq := by simpa using hq
        have hnv := notVarOf (by simp [varPost, hqk])
        cases he : parseExpr d f 0 rest0 with
        | error er => simp [he] at h
        | ok x =>
          obtain ⟨e, r⟩ := x
          simp only [he] at h
          cases r with
          | nil => simp [err] at h
          | cons c r' =>
            simp only at h
            split at h
            · exact ih.suff _ r' a' rest h (by simp only [WFA]; exact ⟨hw, hneg, hnv, (ih.expr 0 rest0 e _ he (by omega)).1⟩) rfl
                (by intro hv; simp [isVar] at hv)
            · simp [err] at h
      · simp only [hq, Bool.false_eq_true, if_false, Except.ok.injEq, Prod.mk.injEq] at h
        obtain ⟨rfl, _⟩ := h
        exact hw

theorem range_more (f : Nat) (ih : Range d f) : ∀ ts as rest, moreArgs d (f + 1) ts = .ok (as, rest) → WFArgs Any as := by
  intro ts as rest h
  cases ts with
  | nil => simp [moreArgs, err] at h
  | cons t rest0 =>
    simp only [moreArgs] at h
    by_cases hr : (t.kind == TK.rparen) = true
    · simp only [hr, if_true, Except.ok.injEq, Prod.mk.injEq] at h
      obtain ⟨rfl, _⟩ := h
      simp [WFArgs]
    · simp only [hr, Bool.false_eq_true, if_false] at h
      by_cases hc : (t.kind == TK.comma) = true
      · simp only [hc, if_true, bind, Except.bind] at h
        cases he : parseExpr d f 0 rest0 with
        | error er => simp [he] at h
        | ok x =>
          obtain ⟨e, r⟩ := x
          simp only [he] at h
          cases hm : moreArgs d f r with
          | error er => simp [hm] at h
          | ok y =>
            obtain ⟨more, r'⟩ := y
            simp only [hm, Except.ok.injEq, Prod.mk.injEq] at h
            obtain ⟨rfl, _⟩ := h
            simp only [WFArgs]
            exact ⟨(ih.expr 0 rest0 e r he (by omega)).1, ih.more r more r' hm⟩
      · simp only [hc, Bool.false_eq_true, if_false] at h
        simp [err] at h

theorem range_args (f : Nat) (ih : Range d f) : ∀ ts as rest, parseArgs d (f + 1) ts = .ok (as, rest) → WFArgs Any as := by
  intro ts as rest h
  cases ts with
  | nil => simp [parseArgs, err] at h
  | cons t rest0 =>
    simp only [parseArgs] at h
    by_cases hr : (t.kind == TK.rparen) = true
    · simp only [hr, if_true, Except.ok.injEq, Prod.mk.injEq] at h
      obtain ⟨rfl, _⟩ := h
      simp [WFArgs]
    · simp only [hr, Bool.false_eq_true, if_false, bind, Except.bind] at h
      cases he : parseExpr d f 0 (t :: rest0) with
      | error er => simp [he] at h
      | ok x =>
        obtain ⟨e, r⟩ := x
        simp only [he] at h
        cases hm : moreArgs d f r with
        | error er => simp [hm] at h
        | ok y =>
          obtain ⟨more, r'⟩ := y
          simp only [hm, Except.ok.injEq, Prod.mk.injEq] at h
          obtain ⟨rfl, _⟩ := h
          simp only [WFArgs]
          exact ⟨(ih.expr 0 _ e r he (by omega)).1, ih.more r more r' hm⟩

/-- the eight statements hold at every fuel -/
theorem range_all : ∀ f, Range d f
  | 0 => range_zero d
  | f + 1 =>
    have ih := range_all f
    { expr := range_expr d f ih, climb := range_climb d f ih, primary := range_primary d f ih, atom := range_atom d f ih,
      vtail := range_vtail d f ih, suff := range_suff d f ih, args := range_args d f ih, more := range_more d f ih }

/-- **whatever the parser returns is well formed** — operators grouped by `prec` and to the left, negation outermost,
    members and selectors of a plain variable inside the variable — its top operator is at least as strong as asked for,
    and no operator it should have taken follows. With `parse_print`: the parser's range is exactly the well-formed trees. -/
theorem parse_range (f p : Nat) (ts : List Token) (e : Expr) (rest : List Token) (h : parseExpr d f p ts = .ok (e, rest)) (hp : p ≤ 6) :
    WFE Any e ∧ p ≤ level e ∧ Post p rest :=
  (range_all d f).expr p ts e rest h hp

#print axioms parse_range

end Grule.ParseRange

/-
  From text to rules: the canonical text of a well-formed document — every token in its canonical spelling followed by one
  space — is lexed without error into the document's tokens and parsed (real literal decoder) into exactly the document.
-/
import GruleModel.Proofs.LexTokens
import GruleModel.Proofs.LexFixed
import GruleModel.Proofs.RealLiterals
import GruleModel.Proofs.ParseSim
import GruleModel.Proofs.ParseNorm
import GruleModel.Syntax.Front
import GruleModel.Valid
namespace Grule.LexDoc
open Grule Grule.Syntax Grule.LexRender Grule.LexTokens Grule.LexFixed Grule.ParseGroup Grule.ParseAtoms Grule.ParseDoc Grule.RealLiterals Grule.Json

/-- operators in their one spelling -/
def canonOt (op : BinOp) : List Char := fixedText (opKind op)

/-- descriptions as `strconv.Quote` writes them -/
def canonDT (s : String) : Token :=
  match quoteGo s.toList with
  | .ok q => ⟨.dq, q⟩
  | .error _ => ⟨.dq, []⟩

/-- a name the lexer reads as `SIMPLENAME`: starts like an identifier, continues like one, spells no keyword -/
def LexName (s : String) : Prop :=
  ∃ c w, s.toList = c :: w ∧ isISC c = true ∧ (∀ x ∈ w, isIC x = true) ∧ NotKeyword (c :: w)

def Quotable (s : String) : Prop := ∃ q, quoteGo s.toList = .ok q

mutual
  def LE : Expr → Prop
    | .bin _ l r => LE l ∧ LE r
    | .paren _ e => LE e
    | .atom a => LA a
  def LA : Atom → Prop
    | .const c => Covered c
    | .var v => LV v
    | .call f args => LexName f ∧ LArgs args
    | .meth recv f args => LA recv ∧ LexName f ∧ LArgs args
    | .member recv n => LA recv ∧ LexName n
    | .sel recv idx => LA recv ∧ LE idx
    | .neg a => LA a
  def LV : Var → Prop
    | .root n => LexName n
    | .field v n => LV v ∧ LexName n
    | .index v e => LV v ∧ LE e
  def LArgs : Args → Prop
    | .nil => True
    | .cons e rest => LE e ∧ LArgs rest
end

def LAct : Action → Prop
  | .assign _ v e => LV v ∧ LE e
  | .stmt a => LA a

/-- names, description and constants of a rule are writable -/
def LRule (r : Rule) : Prop :=
  LexName r.name ∧ Quotable r.desc ∧ Covered (.int r.salience) ∧ LE r.cond ∧ ∀ a ∈ r.acts, LAct a

theorem lexes_nameTok (s : String) (h : LexName s) : Lexes (nameTok s) := by
  obtain ⟨c, w, hs, hc, hw, hk⟩ := h
  unfold nameTok
  rw [hs]
  exact lexes_name c w hc hw hk

theorem dec_all (n : Nat) : ∀ x ∈ decDigits n, isDec x = true := by
  have key : ∀ k : Fin 10, isDec (digitChar k.val) = true := by decide
  induction n using Nat.strongRecOn with
  | _ n ih =>
    rw [decDigits]
    by_cases h : n < 10
    · simp only [h, if_true, List.mem_singleton]
      intro x hx; subst hx; exact key ⟨n, h⟩
    · simp only [h, if_false, List.mem_append, List.mem_singleton]
      intro x hx
      rcases hx with hx | hx
      · exact ih (n / 10) (by omega) x hx
      · subst hx; exact key ⟨n % 10, Nat.mod_lt _ (by decide)⟩

theorem lexes_dec (n : Nat) : Lexes ⟨.dec, decDigits n⟩ := by
  obtain ⟨c, rest, hd, _, hz⟩ := dec_head n
  have hall := dec_all n
  rw [hd] at hall ⊢
  exact lexes_digits c rest (hall c (by simp)) (fun x hx => hall x (by simp [hx])) (fun h => (hz h).2)

theorem tk_true : (⟨.kTrue, "true".toList⟩ : Token) = tk .kTrue := by decide +kernel
theorem tk_false : (⟨.kFalse, "false".toList⟩ : Token) = tk .kFalse := by decide +kernel
theorem tk_nil : (⟨.kNil, "nil".toList⟩ : Token) = tk .kNil := by decide +kernel

theorem tokC (c : Const) (h : Covered c) : ∀ t ∈ canonTok c, Lexes t := by
  intro t ht
  cases c with
  | int i =>
    simp only [canonTok] at ht
    split at ht
    · simp only [List.mem_cons, List.not_mem_nil, or_false] at ht
      rcases ht with ht | ht <;> subst ht
      · exact lexes_tk .minus (by decide)
      · exact lexes_dec _
    · simp only [List.mem_singleton] at ht
      subst ht; exact lexes_dec _
  | str s =>
    obtain ⟨q, hq⟩ := h
    simp only [canonTok, hq, List.mem_singleton] at ht
    subst ht
    exact lexes_quoted s.toList q hq
  | float b => exact absurd h (by simp [Covered])
  | bool b =>
    cases b <;> simp only [canonTok, List.mem_singleton] at ht <;> subst ht
    · rw [tk_false]; exact lexes_tk .kFalse (by decide)
    · rw [tk_true]; exact lexes_tk .kTrue (by decide)
  | nil =>
    simp only [canonTok, List.mem_singleton] at ht
    subst ht
    rw [tk_nil]; exact lexes_tk .kNil (by decide)

theorem lexes_op (op : BinOp) : Lexes (opTok op (canonOt op)) := by
  have : opTok op (canonOt op) = tk (opKind op) := rfl
  rw [this]
  cases op <;> exact lexes_tk _ (by decide)

mutual
  theorem tokE : (e : Expr) → LE e → ∀ t ∈ fE canonTok canonOt e, Lexes t
    | .bin op l r, h, t, ht => by
      simp only [LE] at h
      simp only [fE, List.mem_append, List.mem_cons] at ht
      rcases ht with ht | ht | ht
      · exact tokE l h.1 t ht
      · subst ht; exact lexes_op op
      · exact tokE r h.2 t ht
    | .paren neg e, h, t, ht => by
      simp only [LE] at h
      simp only [fE, List.mem_append, List.mem_cons, List.not_mem_nil, or_false] at ht
      rcases ht with ht | ht | ht | ht
      · cases neg
        · simp at ht
        · simp only [if_true, List.mem_singleton] at ht; subst ht; exact lexes_tk .bang (by decide)
      · subst ht; exact lexes_tk .lparen (by decide)
      · exact tokE e h t ht
      · subst ht; exact lexes_tk .rparen (by decide)
    | .atom a, h, t, ht => by
      simp only [LE] at h
      simp only [fE] at ht
      exact tokA a h t ht
  theorem tokA : (a : Atom) → LA a → ∀ t ∈ fA canonTok canonOt a, Lexes t
    | .const c, h, t, ht => by
      simp only [LA] at h
      simp only [fA] at ht
      exact tokC c h t ht
    | .var v, h, t, ht => by
      simp only [LA] at h
      simp only [fA] at ht
      exact tokV v h t ht
    | .call f args, h, t, ht => by
      simp only [LA] at h
      simp only [fA, List.mem_append, List.mem_cons, List.not_mem_nil, or_false] at ht
      rcases ht with ht | ht | ht | ht
      · subst ht; exact lexes_nameTok f h.1
      · subst ht; exact lexes_tk .lparen (by decide)
      · exact tokArgs args h.2 t ht
      · subst ht; exact lexes_tk .rparen (by decide)
    | .meth recv f args, h, t, ht => by
      simp only [LA] at h
      simp only [fA, List.mem_append, List.mem_cons, List.not_mem_nil, or_false] at ht
      rcases ht with ht | ht | ht | ht | ht | ht
      · exact tokA recv h.1 t ht
      · subst ht; exact lexes_tk .dot (by decide)
      · subst ht; exact lexes_nameTok f h.2.1
      · subst ht; exact lexes_tk .lparen (by decide)
      · exact tokArgs args h.2.2 t ht
      · subst ht; exact lexes_tk .rparen (by decide)
    | .member recv n, h, t, ht => by
      simp only [LA] at h
      simp only [fA, List.mem_append, List.mem_cons, List.not_mem_nil, or_false] at ht
      rcases ht with ht | ht | ht
      · exact tokA recv h.1 t ht
      · subst ht; exact lexes_tk .dot (by decide)
      · subst ht; exact lexes_nameTok n h.2
    | .sel recv idx, h, t, ht => by
      simp only [LA] at h
      simp only [fA, List.mem_append, List.mem_cons, List.not_mem_nil, or_false] at ht
      rcases ht with ht | ht | ht | ht
      · exact tokA recv h.1 t ht
      · subst ht; exact lexes_tk .lsq (by decide)
      · exact tokE idx h.2 t ht
      · subst ht; exact lexes_tk .rsq (by decide)
    | .neg a, h, t, ht => by
      simp only [LA] at h
      simp only [fA, List.mem_cons] at ht
      rcases ht with ht | ht
      · subst ht; exact lexes_tk .bang (by decide)
      · exact tokA a h t ht
  theorem tokV : (v : Var) → LV v → ∀ t ∈ fV canonTok canonOt v, Lexes t
    | .root n, h, t, ht => by
      simp only [LV] at h
      simp only [fV, List.mem_singleton] at ht
      subst ht; exact lexes_nameTok n h
    | .field v n, h, t, ht => by
      simp only [LV] at h
      simp only [fV, List.mem_append, List.mem_cons, List.not_mem_nil, or_false] at ht
      rcases ht with ht | ht | ht
      · exact tokV v h.1 t ht
      · subst ht; exact lexes_tk .dot (by decide)
      · subst ht; exact lexes_nameTok n h.2
    | .index v e, h, t, ht => by
      simp only [LV] at h
      simp only [fV, List.mem_append, List.mem_cons, List.not_mem_nil, or_false] at ht
      rcases ht with ht | ht | ht | ht
      · exact tokV v h.1 t ht
      · subst ht; exact lexes_tk .lsq (by decide)
      · exact tokE e h.2 t ht
      · subst ht; exact lexes_tk .rsq (by decide)
  theorem tokArgs : (as : Args) → LArgs as → ∀ t ∈ fArgs canonTok canonOt as, Lexes t
    | .nil, _, t, ht => by simp [fArgs] at ht
    | .cons e rest, h, t, ht => by
      simp only [LArgs] at h
      simp only [fArgs, List.mem_append] at ht
      rcases ht with ht | ht
      · exact tokE e h.1 t ht
      · exact tokMore rest h.2 t ht
  theorem tokMore : (as : Args) → LArgs as → ∀ t ∈ fMore canonTok canonOt as, Lexes t
    | .nil, _, t, ht => by simp [fMore] at ht
    | .cons e rest, h, t, ht => by
      simp only [LArgs] at h
      simp only [fMore, List.mem_append, List.mem_cons] at ht
      rcases ht with ht | ht | ht
      · subst ht; exact lexes_tk .comma (by decide)
      · exact tokE e h.1 t ht
      · exact tokMore rest h.2 t ht
end

theorem tokAction (a : Action) (h : LAct a) : ∀ t ∈ fAction canonTok canonOt a, Lexes t := by
  intro t ht
  cases a with
  | assign op v e =>
    simp only [LAct] at h
    simp only [fAction, List.mem_append, List.mem_cons, List.not_mem_nil, or_false] at ht
    rcases ht with ht | ht | ht | ht
    · exact tokV v h.1 t ht
    · subst ht; cases op <;> exact lexes_tk _ (by decide)
    · exact tokE e h.2 t ht
    · subst ht; exact lexes_tk .semi (by decide)
  | stmt a =>
    simp only [LAct] at h
    simp only [fAction, List.mem_append, List.mem_singleton] at ht
    rcases ht with ht | ht
    · exact tokA a h t ht
    · subst ht; exact lexes_tk .semi (by decide)

theorem tokActs : (acts : List Action) → (∀ a ∈ acts, LAct a) → ∀ t ∈ fActs canonTok canonOt acts, Lexes t
  | [], _, t, ht => by simp [fActs] at ht
  | a :: rest, h, t, ht => by
    simp only [fActs, List.mem_append] at ht
    rcases ht with ht | ht
    · exact tokAction a (h a (by simp)) t ht
    · exact tokActs rest (fun x hx => h x (by simp [hx])) t ht

theorem lexes_desc (s : String) (h : Quotable s) : Lexes (canonDT s) := by
  obtain ⟨q, hq⟩ := h
  simp only [canonDT, hq]
  exact lexes_quoted s.toList q hq

theorem descOK (s : String) (h : Quotable s) : DescOK canonDT s := by
  obtain ⟨q, hq⟩ := h
  refine ⟨Or.inl (by simp only [canonDT, hq]), ?_⟩
  simp only [canonDT, hq, descOf, QuoteRoundTrip.C18_const_string s.toList q hq]
  exact String.ofList_toList

theorem tokRule (r : Rule) (h : LRule r) : ∀ t ∈ fRule canonTok canonOt canonDT r, Lexes t := by
  intro t ht
  obtain ⟨hn, hd, hs, hc, ha⟩ := h
  simp only [fRule, List.mem_append, List.mem_cons, List.not_mem_nil, or_false] at ht
  rcases ht with ht | ht | ht | ht | ht | ht | ht | ht | ht | ht | ht
  · subst ht; exact lexes_tk .kRule (by decide)
  · subst ht; exact lexes_nameTok r.name hn
  · subst ht; exact lexes_desc r.desc hd
  · subst ht; exact lexes_tk .kSalience (by decide)
  · exact tokC _ hs t ht
  · subst ht; exact lexes_tk .lbrace (by decide)
  · subst ht; exact lexes_tk .kWhen (by decide)
  · exact tokE r.cond hc t ht
  · subst ht; exact lexes_tk .kThen (by decide)
  · exact tokActs r.acts ha t ht
  · subst ht; exact lexes_tk .rbrace (by decide)

theorem tokDoc : (rules : List Rule) → (∀ r ∈ rules, LRule r) → ∀ t ∈ fDoc canonTok canonOt canonDT rules, Lexes t
  | [], _, t, ht => by simp [fDoc] at ht
  | r :: rest, h, t, ht => by
    simp only [fDoc, List.mem_append] at ht
    rcases ht with ht | ht
    · exact tokRule r (h r (by simp)) t ht
    · exact tokDoc rest (fun x hx => h x (by simp [hx])) t ht

/-- the canonical text of a document -/
def docText (rules : List Rule) : List Char := render (fDoc canonTok canonOt canonDT rules)

/-- **From characters to rules.** For every sequence of well-formed rules (operators grouped by precedence, negation
    outermost, …: `WFRule`) whose names are identifiers that spell no keyword, whose strings and descriptions
    `strconv.Quote` can write and whose integers fit int64 (`LRule`), of any size and nesting: the lexer reads the canonical
    text without error into the document's tokens, and the parser with the real literal decoder reads those tokens back as
    exactly these rules. -/
theorem lex_parse_doc (rules : List Rule) (h : ∀ r ∈ rules, WFRule Covered r ∧ LRule r) :
    lex (docText rules) = { toks := fDoc canonTok canonOt canonDT rules, errs := 0 } ∧
    parseDoc realDec (lex (docText rules)).toks = (rules, none) := by
  have hl := lex_render (fDoc canonTok canonOt canonDT rules) (tokDoc rules (fun r hr => (h r hr).2))
  refine ⟨hl, ?_⟩
  unfold docText
  rw [hl]
  exact real_parseDoc canonOt canonDT rules (fun r hr => ⟨(h r hr).1, descOK r.desc (h r hr).2.2.1⟩)

/-- **Whitespace and comments never change what a document means**: whatever separators stand after the canonical tokens
    of a well-formed document — each any mixture of spaces, tabs, newlines, block comments (with any content up to the
    first `*/`) and line comments, beginning with a whitespace character — the lexer reads exactly the document's tokens,
    without error, and the parser reads exactly the document. -/
theorem lex_parse_layout (rules : List Rule) (h : ∀ r ∈ rules, WFRule Covered r ∧ LRule r) (seps : List (List Char))
    (hlen : seps.length = (fDoc canonTok canonOt canonDT rules).length) (hs : ∀ sep ∈ seps, GoodSep sep) :
    lex (renderS ((fDoc canonTok canonOt canonDT rules).zip seps)) = { toks := fDoc canonTok canonOt canonDT rules, errs := 0 } ∧
    parseDoc realDec (lex (renderS ((fDoc canonTok canonOt canonDT rules).zip seps))).toks = (rules, none) := by
  have htok := tokDoc rules (fun r hr => (h r hr).2)
  have hl := lex_renderS ((fDoc canonTok canonOt canonDT rules).zip seps) (by
    intro p hp
    obtain ⟨h1, h2⟩ := List.of_mem_zip hp
    exact ⟨htok p.1 h1, hs p.2 h2⟩)
  have hm : ((fDoc canonTok canonOt canonDT rules).zip seps).map (·.1) = fDoc canonTok canonOt canonDT rules :=
    List.map_fst_zip (by omega)
  rw [hm] at hl
  refine ⟨hl, ?_⟩
  rw [hl]
  exact real_parseDoc canonOt canonDT rules (fun r hr => ⟨(h r hr).1, descOK r.desc (h r hr).2.2.1⟩)

/-- **Keyword case, whitespace and comments never change what a document means**: any token list that differs from the
    canonical tokens of a well-formed document only in the spelling of keyword tokens (`norm` maps it to the canonical
    list; e.g. `RULE`, `When`, `tRuE` — each lexes as its keyword: `LexTokens.lexes_keyword`), laid out with any separators
    of whitespace and comments, is lexed without error and parsed into exactly the document. -/
theorem lex_parse_anycase (rules : List Rule) (h : ∀ r ∈ rules, WFRule Covered r ∧ LRule r) (ts' : List Token)
    (hnorm : ts'.map ParseNorm.norm = fDoc canonTok canonOt canonDT rules) (hlex : ∀ t ∈ ts', Lexes t)
    (seps : List (List Char)) (hlen : seps.length = ts'.length) (hs : ∀ sep ∈ seps, GoodSep sep) :
    (lex (renderS (ts'.zip seps))).errs = 0 ∧ parseDoc realDec (lex (renderS (ts'.zip seps))).toks = (rules, none) := by
  have hl := lex_renderS (ts'.zip seps) (by
    intro p hp
    obtain ⟨h1, h2⟩ := List.of_mem_zip hp
    exact ⟨hlex p.1 h1, hs p.2 h2⟩)
  have hm : (ts'.zip seps).map (·.1) = ts' := List.map_fst_zip (by omega)
  rw [hm] at hl
  rw [hl]
  refine ⟨rfl, ?_⟩
  simp only
  rw [← ParseNorm.parseDoc_norm, hnorm]
  exact real_parseDoc canonOt canonDT rules (fun r hr => ⟨(h r hr).1, descOK r.desc (h r hr).2.2.1⟩)

theorem goodSep_cons (c : Char) (more : List Char) (hc : isWs c = true) (hm : Skips more) : GoodSep (c :: more) :=
  ⟨c, more, rfl, hc, by
    have := skips_app [c] more (skips_ws c hc) hm
    simpa using this⟩

/-- separators built from whitespace and comments -/
theorem goodSep_examples :
    GoodSep ['\n', '\t', ' '] ∧ GoodSep (" /* c; } \" ' */ ".toList) ∧ GoodSep (" // rule when then {\n".toList) := by
  refine ⟨?_, ?_, ?_⟩
  · exact goodSep_cons '\n' ['\t', ' '] (by decide) (skips_app ['\t'] [' '] (skips_ws _ (by decide)) (skips_ws _ (by decide)))
  · have e : " /* c; } \" ' */ ".toList = ' ' :: (('/' :: '*' :: (" c; } \" ' ".toList ++ ['*', '/'])) ++ [' ']) := by decide +kernel
    rw [e]
    exact goodSep_cons ' ' _ (by decide) (skips_app _ _ (skips_block _ (by decide +kernel)) (skips_ws _ (by decide)))
  · have e : " // rule when then {\n".toList = ' ' :: ('/' :: '/' :: (" rule when then {".toList ++ ['\n'])) := by decide +kernel
    rw [e]
    exact goodSep_cons ' ' _ (by decide) (skips_line _ (by decide +kernel))

-- non-vacuity: the sample rule of `Proofs/ParseDoc` meets every hypothesis ----------------------------------------------------

theorem lexName_of (s : String) (c : Char) (w : List Char) (hs : s.toList = c :: w) (hc : isISC c = true)
    (hw : w.all isIC = true) (hk : (fixedTable.all (fun e => !e.2.1 || ((c :: w).map lowerC != e.2.2.toList))) = true) : LexName s := by
  refine ⟨c, w, hs, hc, ?_, ?_⟩
  · intro x hx; exact List.all_eq_true.mp hw x hx
  · intro e he hci
    have := List.all_eq_true.mp hk e he
    simp only [hci, Bool.not_true, Bool.false_or, bne_iff_ne, ne_eq] at this
    exact this

theorem sample_names : LexName "R" ∧ LexName "F" ∧ LexName "I" ∧ LexName "A" ∧ LexName "Sum" ∧ LexName "Retract" :=
  ⟨lexName_of "R" 'R' [] (by decide +kernel) (by decide +kernel) (by decide +kernel) (by decide +kernel),
   lexName_of "F" 'F' [] (by decide +kernel) (by decide +kernel) (by decide +kernel) (by decide +kernel),
   lexName_of "I" 'I' [] (by decide +kernel) (by decide +kernel) (by decide +kernel) (by decide +kernel),
   lexName_of "A" 'A' [] (by decide +kernel) (by decide +kernel) (by decide +kernel) (by decide +kernel),
   lexName_of "Sum" 'S' ['u','m'] (by decide +kernel) (by decide +kernel) (by decide +kernel) (by decide +kernel),
   lexName_of "Retract" 'R' ['e','t','r','a','c','t'] (by decide +kernel) (by decide +kernel) (by decide +kernel) (by decide +kernel)⟩

theorem sample_ok : WFRule Covered sampleRule ∧ LRule sampleRule := by
  obtain ⟨hR, hF, hI, hA, hSum, hRet⟩ := sample_names
  have hq : Quotable "R" ∧ Quotable "d" := by
    have h1 : quoteBody "R".toList = some ['R'] := by decide +kernel
    have h2 : quoteBody "d".toList = some ['d'] := by decide +kernel
    exact ⟨⟨_, by unfold quoteGo; rw [h1]⟩, ⟨_, by unfold quoteGo; rw [h2]⟩⟩
  have hint : ∀ i : Int, -10 ≤ i → i ≤ 10 → Covered (.int i) := by
    intro i h1 h2; simp only [Covered]; omega
  refine ⟨⟨?_, by simp [sampleRule], ?_, hint _ (by decide) (by decide)⟩, ?_⟩
  · simp [sampleRule, WFE, WFA, WFV, WFArgs, isNeg, isVar, level, prec, Covered]
  · intro a ha
    simp [sampleRule] at ha
    rcases ha with h | h <;> subst h <;> simp [WFAct, WFV, WFE, WFA, WFArgs, Covered]
    exact hq.1
  · refine ⟨hR, hq.2, hint _ (by decide) (by decide), ?_, ?_⟩
    · simp only [sampleRule, LE, LA, LV, LArgs, and_true]
      exact ⟨⟨⟨⟨hF, hI⟩, hint _ (by decide) (by decide), hint _ (by decide) (by decide)⟩, hF, hSum,
        hint _ (by decide) (by decide), hint _ (by decide) (by decide)⟩, ⟨hF, hA⟩, hint _ (by decide) (by decide)⟩
    · intro a ha
      simp [sampleRule] at ha
      rcases ha with h | h <;> subst h <;> simp only [LAct, LE, LA, LV, LArgs, and_true]
      · exact ⟨⟨hF, hI⟩, hint _ (by decide) (by decide)⟩
      · exact ⟨hRet, hq.1⟩

/-- what the canonical text looks like -/
theorem sample_text : String.ofList (docText [sampleRule]) =
    "rule R \"d\" salience - 2 { when F . I + 2 * 3 < F . Sum ( 1 , ( 2 ) ) || ! ( ! F . A [ 0 ] ) then F . I += 1 ; Retract ( \"R\" ) ; } " := by
  decide +kernel

/-- … and it is read back -/
theorem sample_roundtrip : parseDoc realDec (lex (docText [sampleRule])).toks = ([sampleRule], none) :=
  (lex_parse_doc [sampleRule] (by intro r hr; simp only [List.mem_singleton] at hr; subst hr; exact sample_ok)).2

/-- **The front end accepts the canonical text of every well-formed document and returns exactly its rules**: no lexer
    error, grammatical (the decoder-independent question `front` asks with `anyDec`: `ParseSim.parseDoc_any`), every literal
    decodes, and — saliences inside int32 — the verdict is `accepted`. -/
theorem front_docText (rules : List Rule) (h : ∀ r ∈ rules, WFRule Covered r ∧ LRule r) (hs : rules.all salienceOk = true) :
    front (docText rules) = { verdict := .accepted, rules := rules, lexErrs := 0, grammatical := true } := by
  obtain ⟨hl, hp⟩ := lex_parse_doc rules h
  have hg := ParseSim.parseDoc_any realDec _ rules hp
  unfold front
  rw [hl] at hp hg
  simp only [hl, hp, hg, hs]
  simp

theorem sample_front : front (docText [sampleRule]) = { verdict := .accepted, rules := [sampleRule], lexErrs := 0, grammatical := true } :=
  front_docText [sampleRule] (by intro r hr; simp only [List.mem_singleton] at hr; subst hr; exact sample_ok) (by decide +kernel)

-- what the lexer admits as a name is a name for the snapshot theorems --------------------------------------------------------

theorem ascii_ok : ∀ n : Fin 128, isIC (Char.ofNat n.val) = true → okChar (Char.ofNat n.val) = true := by decide +kernel

theorem ic_ok (c : Char) (h : isIC c = true) : okChar c = true := by
  by_cases hlt : c.toNat < 128
  · have := ascii_ok ⟨c.toNat, hlt⟩
    simp only [Char.ofNat_toNat] at this
    exact this h
  · simp only [okChar, Bool.or_eq_true, decide_eq_true_eq]
    exact Or.inr (by omega)

theorem isc_ok (c : Char) (h : isISC c = true) : okChar c = true :=
  ic_ok c (by simp [isIC, h])

theorem okName_of (s : String) (h : LexName s) : okName s = true := by
  obtain ⟨c, w, hs, hc, hw, _⟩ := h
  simp only [okName, hs, List.isEmpty_cons, Bool.not_false, Bool.true_and, List.all_cons, Bool.and_eq_true, List.all_eq_true]
  exact ⟨isc_ok c hc, fun x hx => ic_ok x (hw x hx)⟩

theorem okConst_of (c : Const) (h : Covered c) : okConst c = true := by
  cases c <;> first | rfl | exact absurd h (by simp [Covered])

mutual
  theorem validE_of : (e : Expr) → LE e → validE e = true
    | .bin _ l r, h => by simp only [LE] at h; simp only [validE, validE_of l h.1, validE_of r h.2, Bool.and_self]
    | .paren _ e, h => by simp only [LE] at h; simp only [validE, validE_of e h]
    | .atom a, h => by simp only [LE] at h; simp only [validE, validA_of a h]
  theorem validA_of : (a : Atom) → LA a → validA a = true
    | .const c, h => by simp only [LA] at h; simp only [validA, okConst_of c h]
    | .var v, h => by simp only [LA] at h; simp only [validA, validV_of v h]
    | .call f args, h => by simp only [LA] at h; simp only [validA, okName_of f h.1, validArgs_of args h.2, Bool.and_self]
    | .meth recv f args, h => by
      simp only [LA] at h; simp only [validA, validA_of recv h.1, okName_of f h.2.1, validArgs_of args h.2.2, Bool.and_self]
    | .member recv n, h => by simp only [LA] at h; simp only [validA, validA_of recv h.1, okName_of n h.2, Bool.and_self]
    | .sel recv idx, h => by simp only [LA] at h; simp only [validA, validA_of recv h.1, validE_of idx h.2, Bool.and_self]
    | .neg a, h => by simp only [LA] at h; simp only [validA, validA_of a h]
  theorem validV_of : (v : Var) → LV v → validV v = true
    | .root n, h => by simp only [LV] at h; simp only [validV, okName_of n h]
    | .field v n, h => by simp only [LV] at h; simp only [validV, validV_of v h.1, okName_of n h.2, Bool.and_self]
    | .index v e, h => by simp only [LV] at h; simp only [validV, validV_of v h.1, validE_of e h.2, Bool.and_self]
  theorem validArgs_of : (as : Args) → LArgs as → validArgs as = true
    | .nil, _ => by simp only [validArgs]
    | .cons e rest, h => by simp only [LArgs] at h; simp only [validArgs, validE_of e h.1, validArgs_of rest h.2, Bool.and_self]
end

/-- the sample rule with its keywords in other capitalisations -/
def shout (t : Token) : Token :=
  match t.kind with
  | .kRule => ⟨.kRule, "RULE".toList⟩
  | .kWhen => ⟨.kWhen, "When".toList⟩
  | .kThen => ⟨.kThen, "tHEN".toList⟩
  | .kSalience => ⟨.kSalience, "SaLiEnCe".toList⟩
  | _ => t

theorem shout_lexes (t : Token) (h : Lexes t) : Lexes (shout t) := by
  unfold shout
  split
  · exact lexes_keyword .kRule "rule" (by decide +kernel) _ (by decide +kernel)
  · exact lexes_keyword .kWhen "when" (by decide +kernel) _ (by decide +kernel)
  · exact lexes_keyword .kThen "then" (by decide +kernel) _ (by decide +kernel)
  · exact lexes_keyword .kSalience "salience" (by decide +kernel) _ (by decide +kernel)
  · exact h

theorem sample_anycase (seps : List (List Char))
    (hlen : seps.length = ((fDoc canonTok canonOt canonDT [sampleRule]).map shout).length) (hs : ∀ sep ∈ seps, GoodSep sep) :
    parseDoc realDec (lex (renderS (((fDoc canonTok canonOt canonDT [sampleRule]).map shout).zip seps))).toks = ([sampleRule], none) :=
  (lex_parse_anycase [sampleRule] (by intro r hr; simp only [List.mem_singleton] at hr; subst hr; exact sample_ok) _
    (by decide +kernel)
    (by
      intro t ht
      simp only [List.mem_map] at ht
      obtain ⟨t0, ht0, rfl⟩ := ht
      exact shout_lexes t0 (tokDoc [sampleRule] (by intro r hr; simp only [List.mem_singleton] at hr; subst hr; exact sample_ok.2) t0 ht0))
    seps hlen hs).2

#print axioms lex_parse_anycase
#print axioms sample_anycase
#print axioms lex_parse_doc
#print axioms lex_parse_layout
#print axioms goodSep_examples
#print axioms validE_of
#print axioms front_docText
#print axioms sample_roundtrip

end Grule.LexDoc

/-
  The round-trip theorems with the *real* literal decoder (`realDec`: ParseInt base 0, unquoteString) for integer, string,
  boolean and nil constants in a canonical notation: decimal integers, `strconv.Quote`d strings. Floats are left out
  (the shortest-digits printer and `ParseFloat` are validated, not proved inverse).
-/
import GruleModel.Proofs.ParseFuel
import GruleModel.Proofs.QuoteRoundTrip
namespace Grule.RealLiterals
open Grule Grule.Syntax Grule.ParseAtoms Grule.ParseDoc

-- decimal digits -----------------------------------------------------------------------------------------------------------

def digitChar (k : Nat) : Char := Char.ofNat (48 + k)

def decDigits (n : Nat) : List Char :=
  if n < 10 then [digitChar n] else decDigits (n / 10) ++ [digitChar (n % 10)]
termination_by n
decreasing_by omega

theorem hexVal_digit : ∀ k : Fin 10, hexVal (digitChar k.val) = k.val := by decide
theorem digit_not_minus : ∀ k : Fin 10, digitChar k.val ≠ '-' := by decide
theorem digit_zero_iff : ∀ k : Fin 10, (digitChar k.val = '0') = (k.val = 0) := by decide

theorem digitsVal_snoc (b : Nat) (xs : List Char) (c : Char) : digitsVal b (xs ++ [c]) = digitsVal b xs * b + hexVal c := by
  simp [digitsVal, List.foldl_append]

theorem digitsVal_dec (n : Nat) : digitsVal 10 (decDigits n) = n := by
  induction n using Nat.strongRecOn with
  | _ n ih =>
    rw [decDigits]
    by_cases h : n < 10
    · simp only [h, if_true]
      have := hexVal_digit ⟨n, h⟩
      simp [digitsVal, this]
    · simp only [h, if_false]
      rw [digitsVal_snoc, ih (n / 10) (by omega)]
      have := hexVal_digit ⟨n % 10, Nat.mod_lt _ (by decide)⟩
      simp only at this
      rw [this]; omega

/-- the first digit: never `-`, and `0` only for the number zero -/
theorem dec_head (n : Nat) : ∃ c rest, decDigits n = c :: rest ∧ c ≠ '-' ∧ (c = '0' → n = 0 ∧ rest = []) := by
  induction n using Nat.strongRecOn with
  | _ n ih =>
    rw [decDigits]
    by_cases h : n < 10
    · simp only [h, if_true]
      refine ⟨digitChar n, [], rfl, digit_not_minus ⟨n, h⟩, ?_⟩
      intro hz
      have := digit_zero_iff ⟨n, h⟩
      simp only at this
      rw [this] at hz
      exact ⟨hz, rfl⟩
    · simp only [h, if_false]
      obtain ⟨c, rest, hd, hm, hz⟩ := ih (n / 10) (by omega)
      refine ⟨c, rest ++ [digitChar (n % 10)], by rw [hd]; rfl, hm, ?_⟩
      intro hc
      have := (hz hc).1
      omega

/-- the magnitude `ParseInt(…, 0, 64)` reads: `0x…` hexadecimal, a leading `0` octal, else decimal -/
def magOf (body : List Char) : Nat := match body with
    | '0' :: x :: r => if lowerC x == 'x' then digitsVal 16 r else digitsVal 8 (x :: r)
    | r => digitsVal 10 r

theorem pil_pos (c : Char) (rest : List Char) (h : c ≠ '-') :
    parseIntLit (c :: rest) = if magOf (c :: rest) < 2^63 then some (magOf (c :: rest) : Int) else none := by
  unfold parseIntLit magOf
  split
  rename_i a b r heq
  split at heq
  · rename_i r' heq2
    simp only [List.cons.injEq] at heq2
    exact absurd heq2.1 h
  · simp only [Prod.mk.injEq] at heq
    obtain ⟨hb, hr⟩ := heq
    subst hb; subst hr
    simp only [Bool.false_eq_true, if_false]
    rfl

theorem pil_neg (body : List Char) :
    parseIntLit ('-' :: body) = if magOf body ≤ 2^63 then some (-(magOf body : Int)) else none := by
  unfold parseIntLit magOf
  rfl

theorem magOf_dec (c : Char) (rest : List Char) (h : c ≠ '0') : magOf (c :: rest) = digitsVal 10 (c :: rest) := by
  unfold magOf
  split
  · rename_i x r heq
    simp only [List.cons.injEq] at heq
    exact absurd heq.1 h
  · rfl

theorem magOf_zero : magOf ['0'] = 0 := by decide

theorem magOf_decDigits (n : Nat) : magOf (decDigits n) = n := by
  obtain ⟨c, rest, hd, _, hz⟩ := dec_head n
  have hv := digitsVal_dec n
  rw [hd] at hv ⊢
  by_cases hc : c = '0'
  · obtain ⟨hn, hr⟩ := hz hc
    subst hc; subst hr
    rw [magOf_zero]; exact hn.symm
  · rw [magOf_dec c rest hc, hv]

theorem parseInt_dec (n : Nat) (h : n < 2^63) : parseIntLit (decDigits n) = some (n : Int) := by
  have hm := magOf_decDigits n
  obtain ⟨c, rest, hd, hne, _⟩ := dec_head n
  rw [hd] at hm ⊢
  rw [pil_pos c rest hne, hm]
  simp [h]

theorem parseInt_neg (n : Nat) (h : n ≤ 2^63) : parseIntLit ('-' :: decDigits n) = some (-(n : Int)) := by
  rw [pil_neg, magOf_decDigits]
  simp [h]

-- the canonical notation and the constants it covers --------------------------------------------------------------------

/-- integers inside int64, strings `strconv.Quote` can write (modelled `IsPrint` table), booleans, nil — no floats -/
def Covered : Const → Prop
  | .int i => -(2:Int)^63 ≤ i ∧ i < (2:Int)^63
  | .str s => ∃ q, Json.quoteGo s.toList = .ok q
  | .float _ => False
  | _ => True

def canonTok : Const → List Token
  | .int i => if i < 0 then [⟨.minus, ['-']⟩, ⟨.dec, decDigits i.natAbs⟩] else [⟨.dec, decDigits i.natAbs⟩]
  | .str s => match Json.quoteGo s.toList with
    | .ok q => [⟨.dq, q⟩]
    | .error _ => [⟨.dq, []⟩]
  | .float _ => [⟨.decFloat, []⟩]
  | .bool true => [⟨.kTrue, "true".toList⟩]
  | .bool false => [⟨.kFalse, "false".toList⟩]
  | .nil => [⟨.kNil, "nil".toList⟩]

/-- **the real literal decoder inverts the canonical notation** on every covered constant -/
theorem real_ok : ConstOK realDec canonTok Covered := by
  intro c hp rest
  cases c with
  | float b => exact absurd hp (by simp [Covered])
  | bool b => cases b <;> simp [canonTok, parseConst]
  | nil => simp [canonTok, parseConst]
  | str s =>
    obtain ⟨q, hq⟩ := hp
    have hu := QuoteRoundTrip.C18_const_string s.toList q hq
    simp [canonTok, hq, parseConst, realDec, hu, relocate, String.ofList_toList, bind, Except.bind, pure, Except.pure]
  | int i =>
    obtain ⟨h1, h2⟩ := hp
    have e63 : (2:Int)^63 = 9223372036854775808 := by decide
    rw [e63] at h1 h2
    by_cases hneg : i < 0
    · have hn : i.natAbs ≤ 2^63 := by omega
      have hp' := parseInt_neg i.natAbs hn
      have hi : -(i.natAbs : Int) = i := by omega
      simp only [canonTok, hneg, if_true]
      simp only [List.cons_append, List.nil_append, parseConst, isNumTok, if_true, realDec, hp', relocate, bind, Except.bind, pure, Except.pure, hi]
    · have hn : i.natAbs < 2^63 := by omega
      have hp' := parseInt_dec i.natAbs hn
      have hi : (i.natAbs : Int) = i := by omega
      simp only [canonTok, hneg, if_false]
      simp only [List.cons_append, List.nil_append, parseConst, isNumTok, if_true, List.nil_append, realDec, hp', relocate, bind, Except.bind, pure,
        Except.pure, hi]

/-- **documents with the real decoder**: every sequence of well-formed rules whose constants are covered is read back by
    `parseDoc realDec` from its canonical tokens as exactly these rules -/
theorem real_parseDoc (ot : BinOp → List Char) (dT : String → Token) (rules : List Rule)
    (hw : ∀ r ∈ rules, WFRule Covered r ∧ DescOK dT r.desc) :
    parseDoc realDec (fDoc canonTok ot dT rules) = (rules, none) :=
  ParseFuel.parseDoc_roundtrip realDec canonTok ot dT Covered real_ok rules hw

#print axioms real_ok
#print axioms real_parseDoc

end Grule.RealLiterals

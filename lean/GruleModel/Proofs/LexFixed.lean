/-
  Which tokens lex (`LexRender.Lexes`): the rules with a fixed text, names that are not keywords, decimal integers,
  strings as `strconv.Quote` writes them.
-/
import GruleModel.Proofs.LexRender
import GruleModel.Proofs.ParseGroup
namespace Grule.LexFixed
open Grule.Syntax Grule.LexFacts Grule.LexRender Grule.ParseGroup

set_option maxRecDepth 4000

macro "lexsimp" : tactic => `(tactic|
  simp [nextToken, rules, fixedTable, patternRules, pick, lit, kw, mName, mStr, mDecFloat, mExp, mHexFloat, mDecLit, mHexLit, mOctLit,
    mSpace, mComment, mLineComment, decLitExact, mFrac, omax, isISC, isIC, iscRanges, icRanges, inR, isDec, lowerC, span, isWs, List.isPrefixOf])

theorem ws_cases (s : Char) (h : isWs s = true) : s = ' ' ∨ s = '\t' ∨ s = '\r' ∨ s = '\n' := by
  simp only [isWs, Bool.or_eq_true, beq_iff_eq] at h
  rcases h with ((h | h) | h) | h <;> simp [h]

theorem lx_comma : Lexes (tk .comma) := ⟨rfl, fun s rest hs => by
  rcases ws_cases s hs with rfl | rfl | rfl | rfl <;>
    (simp only [tk, fixedText, List.cons_append, List.nil_append]; lexsimp)⟩
theorem lx_plus : Lexes (tk .plus) := ⟨rfl, fun s rest hs => by
  rcases ws_cases s hs with rfl | rfl | rfl | rfl <;>
    (simp only [tk, fixedText, List.cons_append, List.nil_append]; lexsimp)⟩
theorem lx_minus : Lexes (tk .minus) := ⟨rfl, fun s rest hs => by
  rcases ws_cases s hs with rfl | rfl | rfl | rfl <;>
    (simp only [tk, fixedText, List.cons_append, List.nil_append]; lexsimp)⟩
theorem lx_div : Lexes (tk .div) := ⟨rfl, fun s rest hs => by
  rcases ws_cases s hs with rfl | rfl | rfl | rfl <;>
    (simp only [tk, fixedText, List.cons_append, List.nil_append]; lexsimp)⟩
theorem lx_mul : Lexes (tk .mul) := ⟨rfl, fun s rest hs => by
  rcases ws_cases s hs with rfl | rfl | rfl | rfl <;>
    (simp only [tk, fixedText, List.cons_append, List.nil_append]; lexsimp)⟩
theorem lx_mod : Lexes (tk .mod) := ⟨rfl, fun s rest hs => by
  rcases ws_cases s hs with rfl | rfl | rfl | rfl <;>
    (simp only [tk, fixedText, List.cons_append, List.nil_append]; lexsimp)⟩
theorem lx_dot : Lexes (tk .dot) := ⟨rfl, fun s rest hs => by
  rcases ws_cases s hs with rfl | rfl | rfl | rfl <;>
    (simp only [tk, fixedText, List.cons_append, List.nil_append]; lexsimp)⟩
theorem lx_semi : Lexes (tk .semi) := ⟨rfl, fun s rest hs => by
  rcases ws_cases s hs with rfl | rfl | rfl | rfl <;>
    (simp only [tk, fixedText, List.cons_append, List.nil_append]; lexsimp)⟩
theorem lx_lbrace : Lexes (tk .lbrace) := ⟨rfl, fun s rest hs => by
  rcases ws_cases s hs with rfl | rfl | rfl | rfl <;>
    (simp only [tk, fixedText, List.cons_append, List.nil_append]; lexsimp)⟩
theorem lx_rbrace : Lexes (tk .rbrace) := ⟨rfl, fun s rest hs => by
  rcases ws_cases s hs with rfl | rfl | rfl | rfl <;>
    (simp only [tk, fixedText, List.cons_append, List.nil_append]; lexsimp)⟩
theorem lx_lparen : Lexes (tk .lparen) := ⟨rfl, fun s rest hs => by
  rcases ws_cases s hs with rfl | rfl | rfl | rfl <;>
    (simp only [tk, fixedText, List.cons_append, List.nil_append]; lexsimp)⟩
theorem lx_rparen : Lexes (tk .rparen) := ⟨rfl, fun s rest hs => by
  rcases ws_cases s hs with rfl | rfl | rfl | rfl <;>
    (simp only [tk, fixedText, List.cons_append, List.nil_append]; lexsimp)⟩
theorem lx_lsq : Lexes (tk .lsq) := ⟨rfl, fun s rest hs => by
  rcases ws_cases s hs with rfl | rfl | rfl | rfl <;>
    (simp only [tk, fixedText, List.cons_append, List.nil_append]; lexsimp)⟩
theorem lx_rsq : Lexes (tk .rsq) := ⟨rfl, fun s rest hs => by
  rcases ws_cases s hs with rfl | rfl | rfl | rfl <;>
    (simp only [tk, fixedText, List.cons_append, List.nil_append]; lexsimp)⟩
theorem lx_kRule : Lexes (tk .kRule) := ⟨rfl, fun s rest hs => by
  rcases ws_cases s hs with rfl | rfl | rfl | rfl <;>
    (simp only [tk, fixedText, List.cons_append, List.nil_append]; lexsimp)⟩
theorem lx_kWhen : Lexes (tk .kWhen) := ⟨rfl, fun s rest hs => by
  rcases ws_cases s hs with rfl | rfl | rfl | rfl <;>
    (simp only [tk, fixedText, List.cons_append, List.nil_append]; lexsimp)⟩
theorem lx_kThen : Lexes (tk .kThen) := ⟨rfl, fun s rest hs => by
  rcases ws_cases s hs with rfl | rfl | rfl | rfl <;>
    (simp only [tk, fixedText, List.cons_append, List.nil_append]; lexsimp)⟩
theorem lx_and : Lexes (tk .and) := ⟨rfl, fun s rest hs => by
  rcases ws_cases s hs with rfl | rfl | rfl | rfl <;>
    (simp only [tk, fixedText, List.cons_append, List.nil_append]; lexsimp)⟩
theorem lx_or : Lexes (tk .or) := ⟨rfl, fun s rest hs => by
  rcases ws_cases s hs with rfl | rfl | rfl | rfl <;>
    (simp only [tk, fixedText, List.cons_append, List.nil_append]; lexsimp)⟩
theorem lx_kTrue : Lexes (tk .kTrue) := ⟨rfl, fun s rest hs => by
  rcases ws_cases s hs with rfl | rfl | rfl | rfl <;>
    (simp only [tk, fixedText, List.cons_append, List.nil_append]; lexsimp)⟩
theorem lx_kFalse : Lexes (tk .kFalse) := ⟨rfl, fun s rest hs => by
  rcases ws_cases s hs with rfl | rfl | rfl | rfl <;>
    (simp only [tk, fixedText, List.cons_append, List.nil_append]; lexsimp)⟩
theorem lx_kNil : Lexes (tk .kNil) := ⟨rfl, fun s rest hs => by
  rcases ws_cases s hs with rfl | rfl | rfl | rfl <;>
    (simp only [tk, fixedText, List.cons_append, List.nil_append]; lexsimp)⟩
theorem lx_bang : Lexes (tk .bang) := ⟨rfl, fun s rest hs => by
  rcases ws_cases s hs with rfl | rfl | rfl | rfl <;>
    (simp only [tk, fixedText, List.cons_append, List.nil_append]; lexsimp)⟩
theorem lx_kSalience : Lexes (tk .kSalience) := ⟨rfl, fun s rest hs => by
  rcases ws_cases s hs with rfl | rfl | rfl | rfl <;>
    (simp only [tk, fixedText, List.cons_append, List.nil_append]; lexsimp)⟩
theorem lx_eqeq : Lexes (tk .eqeq) := ⟨rfl, fun s rest hs => by
  rcases ws_cases s hs with rfl | rfl | rfl | rfl <;>
    (simp only [tk, fixedText, List.cons_append, List.nil_append]; lexsimp)⟩
theorem lx_assign : Lexes (tk .assign) := ⟨rfl, fun s rest hs => by
  rcases ws_cases s hs with rfl | rfl | rfl | rfl <;>
    (simp only [tk, fixedText, List.cons_append, List.nil_append]; lexsimp)⟩
theorem lx_plusAs : Lexes (tk .plusAs) := ⟨rfl, fun s rest hs => by
  rcases ws_cases s hs with rfl | rfl | rfl | rfl <;>
    (simp only [tk, fixedText, List.cons_append, List.nil_append]; lexsimp)⟩
theorem lx_minusAs : Lexes (tk .minusAs) := ⟨rfl, fun s rest hs => by
  rcases ws_cases s hs with rfl | rfl | rfl | rfl <;>
    (simp only [tk, fixedText, List.cons_append, List.nil_append]; lexsimp)⟩
theorem lx_divAs : Lexes (tk .divAs) := ⟨rfl, fun s rest hs => by
  rcases ws_cases s hs with rfl | rfl | rfl | rfl <;>
    (simp only [tk, fixedText, List.cons_append, List.nil_append]; lexsimp)⟩
theorem lx_mulAs : Lexes (tk .mulAs) := ⟨rfl, fun s rest hs => by
  rcases ws_cases s hs with rfl | rfl | rfl | rfl <;>
    (simp only [tk, fixedText, List.cons_append, List.nil_append]; lexsimp)⟩
theorem lx_gt : Lexes (tk .gt) := ⟨rfl, fun s rest hs => by
  rcases ws_cases s hs with rfl | rfl | rfl | rfl <;>
    (simp only [tk, fixedText, List.cons_append, List.nil_append]; lexsimp)⟩
theorem lx_lt : Lexes (tk .lt) := ⟨rfl, fun s rest hs => by
  rcases ws_cases s hs with rfl | rfl | rfl | rfl <;>
    (simp only [tk, fixedText, List.cons_append, List.nil_append]; lexsimp)⟩
theorem lx_gte : Lexes (tk .gte) := ⟨rfl, fun s rest hs => by
  rcases ws_cases s hs with rfl | rfl | rfl | rfl <;>
    (simp only [tk, fixedText, List.cons_append, List.nil_append]; lexsimp)⟩
theorem lx_lte : Lexes (tk .lte) := ⟨rfl, fun s rest hs => by
  rcases ws_cases s hs with rfl | rfl | rfl | rfl <;>
    (simp only [tk, fixedText, List.cons_append, List.nil_append]; lexsimp)⟩
theorem lx_neq : Lexes (tk .neq) := ⟨rfl, fun s rest hs => by
  rcases ws_cases s hs with rfl | rfl | rfl | rfl <;>
    (simp only [tk, fixedText, List.cons_append, List.nil_append]; lexsimp)⟩
theorem lx_bitand : Lexes (tk .bitand) := ⟨rfl, fun s rest hs => by
  rcases ws_cases s hs with rfl | rfl | rfl | rfl <;>
    (simp only [tk, fixedText, List.cons_append, List.nil_append]; lexsimp)⟩
theorem lx_bitor : Lexes (tk .bitor) := ⟨rfl, fun s rest hs => by
  rcases ws_cases s hs with rfl | rfl | rfl | rfl <;>
    (simp only [tk, fixedText, List.cons_append, List.nil_append]; lexsimp)⟩

/-- every rule with a fixed text lexes in its canonical spelling before any whitespace character: `=` is not `==`, `rule` is
    the keyword and not a name (the earlier rule wins the tie), `/` opens no comment, … -/
theorem lexes_tk : (k : TK) → fixedText k ≠ [] → Lexes (tk k)
  | .comma, _ => lx_comma
  | .plus, _ => lx_plus
  | .minus, _ => lx_minus
  | .div, _ => lx_div
  | .mul, _ => lx_mul
  | .mod, _ => lx_mod
  | .dot, _ => lx_dot
  | .semi, _ => lx_semi
  | .lbrace, _ => lx_lbrace
  | .rbrace, _ => lx_rbrace
  | .lparen, _ => lx_lparen
  | .rparen, _ => lx_rparen
  | .lsq, _ => lx_lsq
  | .rsq, _ => lx_rsq
  | .kRule, _ => lx_kRule
  | .kWhen, _ => lx_kWhen
  | .kThen, _ => lx_kThen
  | .and, _ => lx_and
  | .or, _ => lx_or
  | .kTrue, _ => lx_kTrue
  | .kFalse, _ => lx_kFalse
  | .kNil, _ => lx_kNil
  | .bang, _ => lx_bang
  | .kSalience, _ => lx_kSalience
  | .eqeq, _ => lx_eqeq
  | .assign, _ => lx_assign
  | .plusAs, _ => lx_plusAs
  | .minusAs, _ => lx_minusAs
  | .divAs, _ => lx_divAs
  | .mulAs, _ => lx_mulAs
  | .gt, _ => lx_gt
  | .lt, _ => lx_lt
  | .gte, _ => lx_gte
  | .lte, _ => lx_lte
  | .neq, _ => lx_neq
  | .bitand, _ => lx_bitand
  | .bitor, _ => lx_bitor
  | .name, h => absurd rfl h
  | .dq, h => absurd rfl h
  | .sq, h => absurd rfl h
  | .decFloat, h => absurd rfl h
  | .decExp, h => absurd rfl h
  | .hexFloat, h => absurd rfl h
  | .hexExp, h => absurd rfl h
  | .dec, h => absurd rfl h
  | .hex, h => absurd rfl h
  | .oct, h => absurd rfl h
  | .space, h => absurd rfl h
  | .comment, h => absurd rfl h
  | .lineComment, h => absurd rfl h

end Grule.LexFixed

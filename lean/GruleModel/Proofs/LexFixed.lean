/-
  Which tokens lex (`LexRender.Lexes`): the rules with a fixed text, names that are not keywords, decimal integers,
  strings as `strconv.Quote` writes them.
-/
import GruleModel.Proofs.LexRender
import GruleModel.Proofs.ParseGroup
namespace Grule.LexFixed
open Grule.Syntax Grule.LexFacts Grule.LexRender Grule.ParseGroup

set_option maxRecDepth 4000

macro "lexsimp" : tactic => `(tactic|
  simp [nextToken, rules, fixedTable, patternRules, pick, lit, kw, mName, mStr, mDecFloat, mExp, mHexFloat, mDecLit, mHexLit, mOctLit,
    mSpace, mComment, mLineComment, decLitExact, mFrac, omax, isISC, isIC, iscRanges, icRanges, inR, isDec, lowerC, span, isWs, List.isPrefixOf])

/-- every rule with a fixed text lexes in its canonical spelling: `=` before a space is not `==`, `rule` is the keyword
    and not a name (the earlier rule wins the tie), `/` before a space opens no comment, … -/
theorem lexes_tk (k : TK) (h : fixedText k ≠ []) : Lexes (tk k) := by
  cases k <;> first
    | exact absurd rfl h
    | exact ⟨rfl, fun rest => by simp only [tk, fixedText, List.cons_append, List.nil_append]; lexsimp⟩


end Grule.LexFixed

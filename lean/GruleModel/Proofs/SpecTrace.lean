/-
  Facts about the memo-free reference loop (`SpecEngine.lean`): what a pass over the rule entries
  establishes, and what every firing recorded in the ghost history satisfies.
-/
import GruleModel.SpecEngine
namespace Grule

variable {c : Cfg}

@[simp] theorem specPoll_vis (rc : RunCfg) (ss : SState) : (specPoll rc ss).2.vis = ss.vis := rfl
@[simp] theorem specPoll_fired (rc : RunCfg) (ss : SState) : (specPoll rc ss).2.fired = ss.fired := rfl
@[simp] theorem specPoll_trace (rc : RunCfg) (ss : SState) : (specPoll rc ss).2.trace = ss.trace := rfl
@[simp] theorem emit_vis (ss : SState) (e : TEv) : (ss.emit e).vis = ss.vis := rfl
@[simp] theorem emit_fired (ss : SState) (e : TEv) : (ss.emit e).fired = ss.fired := rfl

/-- a candidate of the pass: active and satisfied on the facts the pass saw -/
def CandOn (c : Cfg) (v : Vis) (x : RuleEntry) : Prop :=
  visRetracted v x = false ∧ x.deleted = false ∧ specCond c v x = .cand true

/-- a pass evaluates conditions only: the visible state and the ghost history are untouched, and every
    entry it adds to the candidate list is a candidate on that state -/
theorem specPass_spec (rc : RunCfg) (cyc : Nat) :
    ∀ (es : List RuleEntry) (ss : SState) (acc : List RuleEntry),
      (specPass rc c cyc es ss acc).2.1.vis = ss.vis ∧
      (specPass rc c cyc es ss acc).2.1.fired = ss.fired ∧
      ∀ x ∈ (specPass rc c cyc es ss acc).2.2, x ∈ acc ∨ (x ∈ es ∧ CandOn c ss.vis x)
  | [], ss, acc => by
    simp only [specPass]
    exact ⟨trivial, trivial, fun x hx => Or.inl hx⟩
  | e :: rest, ss, acc => by
    simp only [specPass]
    have lift : ∀ (ss' : SState) (acc' : List RuleEntry), ss'.vis = ss.vis → ss'.fired = ss.fired →
        (∀ y ∈ acc', y ∈ acc ∨ (y = e ∧ CandOn c ss.vis e)) →
        (specPass rc c cyc rest ss' acc').2.1.vis = ss.vis ∧
        (specPass rc c cyc rest ss' acc').2.1.fired = ss.fired ∧
        ∀ x ∈ (specPass rc c cyc rest ss' acc').2.2, x ∈ acc ∨ (x ∈ e :: rest ∧ CandOn c ss.vis x) := by
      intro ss' acc' hv hfi hacc
      obtain ⟨h1, h2, h3⟩ := specPass_spec rc cyc rest ss' acc'
      refine ⟨h1.trans hv, h2.trans hfi, ?_⟩
      intro x hx
      rcases h3 x hx with h4 | ⟨h4, h5⟩
      · rcases hacc x h4 with h6 | ⟨h6, h7⟩
        · exact Or.inl h6
        · exact Or.inr ⟨by simp [h6], by rw [h6]; exact h7⟩
      · exact Or.inr ⟨by simp [h4], by rw [← hv]; exact h5⟩
    have hid : ∀ y ∈ acc, y ∈ acc ∨ (y = e ∧ CandOn c ss.vis e) := fun y hy => Or.inl hy
    have stop : ∀ (ss' : SState), ss'.vis = ss.vis → ss'.fired = ss.fired →
        ss'.vis = ss.vis ∧ ss'.fired = ss.fired ∧ ∀ x ∈ acc, x ∈ acc ∨ (x ∈ e :: rest ∧ CandOn c ss.vis x) :=
      fun ss' h1 h2 => ⟨h1, h2, fun x hx => Or.inl hx⟩
    split
    · exact stop _ rfl rfl
    · split
      · exact lift _ _ rfl rfl hid
      · rename_i hact
        split
        · split
          · exact stop _ rfl rfl
          · exact lift _ _ rfl rfl hid
        · split
          · exact stop _ rfl rfl
          · split
            · exact stop _ rfl rfl
            · exact lift _ _ rfl rfl hid
          · rename_i b hcond
            refine lift ((specPoll rc (specPoll rc ss).2).2.emit (TEv.eval cyc e.rule.name b))
              (if b = true then acc ++ [e] else acc) rfl rfl ?_
            intro y hy
            cases b with
            | false => exact Or.inl (by simpa using hy)
            | true =>
              simp only [if_true, List.mem_append, List.mem_singleton] at hy
              rcases hy with hy | hy
              · exact Or.inl hy
              · refine Or.inr ⟨hy, ?_⟩
                simp only [Bool.or_eq_true, not_or, Bool.not_eq_true] at hact
                exact ⟨by simpa using hact.1, hact.2, by simpa using hcond⟩

/-- what holds of a firing: the rule is one of the knowledge base's entries, it is neither removed nor
    retracted, and its condition — evaluated from scratch on the facts of that moment — is true -/
def GoodFiring (c : Cfg) (entries : List RuleEntry) (f : Nat × RuleEntry × Vis) : Prop :=
  f.2.1 ∈ entries ∧ f.2.1.deleted = false ∧ visRetracted f.2.2 f.2.1 = false ∧ holds c f.2.2.st f.2.1.rule = true

theorem holds_of_cand {v : Vis} {x : RuleEntry} (h : CandOn c v x) : holds c v.st x.rule = true := by
  obtain ⟨h1, _, h3⟩ := h
  unfold specCond at h3
  simp only [h1, Bool.false_eq_true, if_false] at h3
  unfold holds
  split at h3
  · rename_i b hb
    simp only [CondResult.cand.injEq] at h3
    subst h3
    simp only [hb]
  · cases h3
  · cases h3
  · cases h3

theorem orderEntries_mem' (o : Option (List String)) (entries : List RuleEntry) (x : RuleEntry)
    (h : x ∈ orderEntries o entries) : x ∈ entries := by
  unfold orderEntries at h
  cases o with
  | none => exact h
  | some ks =>
    simp only [List.mem_append, List.mem_filterMap, List.mem_filter] at h
    rcases h with ⟨k, _, hk⟩ | ⟨h1, _⟩
    · exact List.mem_of_find?_eq_some hk
    · exact h1

theorem pickRunner_mem' (r : RuleEntry) (rs : List RuleEntry) : pickRunner r rs ∈ r :: rs := by
  induction rs generalizing r with
  | nil => simp [pickRunner]
  | cons p rest ih =>
    unfold pickRunner
    split
    · have := ih p
      simp only [List.mem_cons] at this ⊢
      rcases this with h | h
      · right; left; exact h
      · right; right; exact h
    · have := ih r
      simp only [List.mem_cons] at this ⊢
      rcases this with h | h
      · left; exact h
      · right; right; exact h

/-- every firing of the reference loop is a good firing -/
theorem specLoop_fired (rc : RunCfg) (entries : List RuleEntry) :
    ∀ (fuel cycle : Nat) (ss : SState), (∀ f ∈ ss.fired, GoodFiring c entries f) →
      ∀ f ∈ (specLoop rc c entries fuel cycle ss).2.fired, GoodFiring c entries f
  | 0, cycle, ss, h => by simp only [specLoop]; exact h
  | fuel + 1, cycle, ss, h => by
    simp only [specLoop]
    split
    · exact h
    · generalize hS : ({ (specPoll rc ss).2.emit (TEv.begin (cycle + 1)) with
          passes := ((specPoll rc ss).2.emit (TEv.begin (cycle + 1))).passes + 1 } : SState) = S
      have hSf : S.fired = ss.fired := by rw [← hS]; rfl
      obtain ⟨hv, hfi, hacc⟩ := specPass_spec (c := c) rc (cycle + 1)
        (orderEntries (rc.order ((specPoll rc ss).2.emit (TEv.begin (cycle + 1))).passes) entries) S []
      generalize specPass rc c (cycle + 1)
        (orderEntries (rc.order ((specPoll rc ss).2.emit (TEv.begin (cycle + 1))).passes) entries) S [] = sp at hv hfi hacc
      obtain ⟨o, ss3, acc⟩ := sp
      simp only at hv hfi hacc
      have h3 : ∀ f ∈ ss3.fired, GoodFiring c entries f := by rw [hfi, hSf]; exact h
      cases o with
      | some out => exact h3
      | none =>
        simp only
        split
        · exact h3
        · have hv' : (specPoll rc ss3).2.vis = S.vis := hv
          have h3' : ∀ f ∈ (specPoll rc ss3).2.fired, GoodFiring c entries f := h3
          generalize (specPoll rc ss3).2 = ss3 at hv' h3'
          have hv := hv'
          have h3 := h3'
          cases acc with
          | nil => exact h3
          | cons r0 rs =>
          simp only
          split
          · exact h3
          · have hrun := hacc _ (pickRunner_mem' r0 rs)
            rcases hrun with hrun | ⟨hmem, hcand⟩
            · cases hrun
            · have hgood : GoodFiring c entries (cycle + 1, pickRunner r0 rs, ss3.vis) := by
                rw [hv]
                exact ⟨orderEntries_mem' _ _ _ hmem, hcand.2.1, hcand.1, holds_of_cand hcand⟩
              have h4 : ∀ f ∈ ((cycle + 1, pickRunner r0 rs, ss3.vis) :: ss3.fired), GoodFiring c entries f := by
                intro f hf
                simp only [List.mem_cons] at hf
                rcases hf with hf | hf
                · rw [hf]; exact hgood
                · exact h3 f hf
              split
              · exact h4
              · split
                · exact h4
                · exact h4
                · split
                  · exact h4
                  · exact specLoop_fired rc entries fuel (cycle + 1) _ h4

/-- would a `ctx.Err()` call on this state report cancellation? -/
def pollsCancelled (rc : RunCfg) (ss : SState) : Bool := (specPoll rc ss).1

theorem pollsCancelled_mono (rc : RunCfg) {ss ss' : SState} (hv : ss'.vis = ss.vis) (hp : ss.polls ≤ ss'.polls)
    (ht : ss.trace.length ≤ ss'.trace.length)
    (h : pollsCancelled rc ss = true) : pollsCancelled rc ss' = true := by
  unfold pollsCancelled specPoll at h ⊢
  simp only [hv, Bool.or_eq_true] at h ⊢
  rcases h with (h | h) | h
  · exact Or.inl (Or.inl h)
  · left; right
    cases hk : rc.cancelAt with
    | none => simp [hk] at h
    | some k =>
      simp only [hk, decide_eq_true_eq] at h ⊢
      omega
  · right
    cases hk : rc.cancelAtEvent with
    | none => simp [hk] at h
    | some k =>
      simp only [hk, decide_eq_true_eq] at h ⊢
      omega

theorem specPoll_polls_le (rc : RunCfg) (ss : SState) : ss.polls ≤ (specPoll rc ss).2.polls := by
  unfold specPoll; simp only; split <;> omega

/-- polls and trace only grow during a pass -/
theorem specPass_polls (rc : RunCfg) (cyc : Nat) :
    ∀ (es : List RuleEntry) (ss : SState) (acc : List RuleEntry),
      ss.polls ≤ (specPass rc c cyc es ss acc).2.1.polls ∧
      ss.trace.length ≤ (specPass rc c cyc es ss acc).2.1.trace.length
  | [], ss, acc => by simp only [specPass]; exact ⟨Nat.le_refl _, Nat.le_refl _⟩
  | e :: rest, ss, acc => by
    simp only [specPass]
    have p1 := specPoll_polls_le rc ss
    have p2 := specPoll_polls_le rc (specPoll rc ss).2
    have lift : ∀ (ss' : SState) (acc' : List RuleEntry), ss.polls ≤ ss'.polls → ss.trace.length ≤ ss'.trace.length →
        ss.polls ≤ (specPass rc c cyc rest ss' acc').2.1.polls ∧
        ss.trace.length ≤ (specPass rc c cyc rest ss' acc').2.1.trace.length :=
      fun ss' acc' h h' => ⟨Nat.le_trans h (specPass_polls rc cyc rest ss' acc').1,
        Nat.le_trans h' (specPass_polls rc cyc rest ss' acc').2⟩
    have hem : ∀ (ss' : SState) (ev : TEv), ss.trace.length ≤ ss'.trace.length →
        ss.trace.length ≤ (ss'.emit ev).trace.length := by
      intro ss' ev h
      simp only [SState.emit, List.length_cons]; omega
    have t0 : ss.trace.length ≤ (specPoll rc ss).2.trace.length := Nat.le_refl _
    have t1 : ss.trace.length ≤ (specPoll rc (specPoll rc ss).2).2.trace.length := Nat.le_refl _
    split
    · exact ⟨p1, t0⟩
    · split
      · exact lift _ _ p1 t0
      · split
        · split
          · exact ⟨Nat.le_trans p1 p2, t1⟩
          · exact lift _ _ (Nat.le_trans p1 p2) (hem _ _ t1)
        · split
          · exact ⟨Nat.le_trans p1 p2, t1⟩
          · split
            · exact ⟨Nat.le_trans p1 p2, t1⟩
            · exact lift _ _ (Nat.le_trans p1 p2) (hem _ _ t1)
          · exact lift _ _ (Nat.le_trans p1 p2) (hem _ _ t1)

/-- a pass that runs to its end (`none`: no returned error) and after which the context still is not
    cancelled overlooks nothing: every entry that is a candidate on the facts of the pass is in the
    candidate list -/
theorem specPass_complete (rc : RunCfg) (cyc : Nat) :
    ∀ (es : List RuleEntry) (ss : SState) (acc : List RuleEntry),
      (specPass rc c cyc es ss acc).1 = none →
      pollsCancelled rc (specPass rc c cyc es ss acc).2.1 = false →
      (∀ x ∈ acc, x ∈ (specPass rc c cyc es ss acc).2.2) ∧
      ∀ x ∈ es, CandOn c ss.vis x → x ∈ (specPass rc c cyc es ss acc).2.2
  | [], ss, acc, _, _ => by
    simp only [specPass]
    exact ⟨fun x hx => hx, fun x hx => by cases hx⟩
  | e :: rest, ss, acc, hnone, hfin => by
    simp only [specPass] at hnone hfin ⊢
    have lift : ∀ (ss' : SState) (acc' : List RuleEntry),
        (specPass rc c cyc rest ss' acc').1 = none →
        pollsCancelled rc (specPass rc c cyc rest ss' acc').2.1 = false → ss'.vis = ss.vis →
        (∀ x ∈ acc, x ∈ acc') → (CandOn c ss.vis e → e ∈ acc') →
        (∀ x ∈ acc, x ∈ (specPass rc c cyc rest ss' acc').2.2) ∧
        ∀ x ∈ e :: rest, CandOn c ss.vis x → x ∈ (specPass rc c cyc rest ss' acc').2.2 := by
      intro ss' acc' hn hf hv hsub he
      obtain ⟨h1, h2⟩ := specPass_complete rc cyc rest ss' acc' hn hf
      refine ⟨fun x hx => h1 x (hsub x hx), ?_⟩
      intro x hx hc
      simp only [List.mem_cons] at hx
      rcases hx with hx | hx
      · subst hx; exact h1 _ (he hc)
      · exact h2 x hx (by rw [hv]; exact hc)
    by_cases h1 : (specPoll rc ss).1 = true
    · simp only [h1, if_true] at hnone; cases hnone
    · simp only [h1, Bool.false_eq_true, if_false] at hnone hfin ⊢
      by_cases h2 : (visRetracted (specPoll rc ss).2.vis e || e.deleted) = true
      · simp only [h2, if_true] at hnone hfin ⊢
        refine lift _ _ hnone hfin rfl (fun x hx => hx) ?_
        intro hc
        obtain ⟨hc1, hc2, _⟩ := hc
        simp only [specPoll_vis, hc1, hc2, Bool.or_self, Bool.false_eq_true] at h2
      · simp only [h2, Bool.false_eq_true, if_false] at hnone hfin ⊢
        by_cases h3 : (specPoll rc (specPoll rc ss).2).1 = true
        · simp only [h3, if_true] at hnone hfin ⊢
          by_cases h4 : rc.retErr = true
          · simp only [h4, if_true] at hnone; cases hnone
          · simp only [h4, Bool.false_eq_true, if_false] at hnone hfin ⊢
            -- cancelled inside RuleEntry.Evaluate: the context stays cancelled, contradiction with `hfin`
            exfalso
            have hvis := (specPass_spec (c := c) rc cyc rest
              ((specPoll rc (specPoll rc ss).2).2.emit (TEv.eval cyc e.rule.name false)) acc).1
            have hpol := specPass_polls (c := c) rc cyc rest
              ((specPoll rc (specPoll rc ss).2).2.emit (TEv.eval cyc e.rule.name false)) acc
            have hmono := pollsCancelled_mono rc (ss := (specPoll rc ss).2)
              (ss' := (specPass rc c cyc rest ((specPoll rc (specPoll rc ss).2).2.emit (TEv.eval cyc e.rule.name false)) acc).2.1)
              (by rw [hvis]; rfl)
              (Nat.le_trans (specPoll_polls_le rc (specPoll rc ss).2) hpol.1)
              (Nat.le_trans (by simp only [SState.emit, List.length_cons]; exact Nat.le_succ _) hpol.2) h3
            rw [hfin] at hmono
            cases hmono
        · simp only [h3, Bool.false_eq_true, if_false] at hnone hfin ⊢
          cases hcond : specCond c (specPoll rc (specPoll rc ss).2).2.vis e with
          | unmodelled m => simp only [hcond] at hnone; cases hnone
          | failed =>
            simp only [hcond] at hnone hfin ⊢
            by_cases h4 : rc.retErr = true
            · simp only [h4, if_true] at hnone; cases hnone
            · simp only [h4, Bool.false_eq_true, if_false] at hnone hfin ⊢
              refine lift _ _ hnone hfin rfl (fun x hx => hx) ?_
              intro hc
              obtain ⟨_, _, hc3⟩ := hc
              simp only [specPoll_vis] at hcond
              rw [hc3] at hcond; cases hcond
          | cand b =>
            simp only [hcond] at hnone hfin ⊢
            refine lift _ _ hnone hfin rfl ?_ ?_
            · intro x hx
              cases b with
              | true => simp [hx]
              | false => simpa using hx
            · intro hc
              obtain ⟨_, _, hc3⟩ := hc
              simp only [specPoll_vis] at hcond
              rw [hc3] at hcond
              simp only [CondResult.cand.injEq] at hcond
              subst hcond
              simp

/-- the keys of a knowledge base's entry map are unique -/
def KeysNodup (entries : List RuleEntry) : Prop := ∀ a ∈ entries, ∀ b ∈ entries, a.key = b.key → a = b

/-- whatever the iteration order, a pass visits every entry -/
theorem orderEntries_complete (o : Option (List String)) (entries : List RuleEntry) (hk : KeysNodup entries)
    (x : RuleEntry) (h : x ∈ entries) : x ∈ orderEntries o entries := by
  unfold orderEntries
  cases o with
  | none => exact h
  | some ks =>
    simp only [List.mem_append, List.mem_filterMap, List.mem_filter]
    by_cases hx : x.key ∈ ks
    · left
      refine ⟨x.key, hx, ?_⟩
      cases hf : entries.find? (fun e => e.key == x.key) with
      | none =>
        have := List.find?_eq_none.mp hf x h
        simp at this
      | some y =>
        have hy := List.mem_of_find?_eq_some hf
        have hyk := List.find?_some hf
        have : y = x := hk y hy x h (by simpa using hyk)
        rw [this]
    · right
      exact ⟨h, by simpa using hx⟩

theorem specPass_out_ne_ok (rc : RunCfg) (cyc : Nat) :
    ∀ (es : List RuleEntry) (ss : SState) (acc : List RuleEntry), (specPass rc c cyc es ss acc).1 ≠ some .ok
  | [], ss, acc => by simp only [specPass]; intro h; cases h
  | e :: rest, ss, acc => by
    simp only [specPass]
    split
    · intro h; cases h
    · split
      · exact specPass_out_ne_ok rc cyc rest _ _
      · split
        · split
          · intro h; cases h
          · exact specPass_out_ne_ok rc cyc rest _ _
        · split
          · intro h; cases h
          · split
            · intro h; cases h
            · exact specPass_out_ne_ok rc cyc rest _ _
          · exact specPass_out_ne_ok rc cyc rest _ _

theorem specPass_out_ne_limit (rc : RunCfg) (cyc : Nat) :
    ∀ (es : List RuleEntry) (ss : SState) (acc : List RuleEntry), (specPass rc c cyc es ss acc).1 ≠ some .cycleLimit
  | [], ss, acc => by simp only [specPass]; intro h; cases h
  | e :: rest, ss, acc => by
    simp only [specPass]
    split
    · intro h; cases h
    · split
      · exact specPass_out_ne_limit rc cyc rest _ _
      · split
        · split
          · intro h; cases h
          · exact specPass_out_ne_limit rc cyc rest _ _
        · split
          · intro h; cases h
          · split
            · intro h; cases h
            · exact specPass_out_ne_limit rc cyc rest _ _
          · exact specPass_out_ne_limit rc cyc rest _ _

/-- **Quiescence.** When the reference loop ends with `ok` and `Complete()` was not called, no active rule
    is satisfied on the final facts. -/
theorem specLoop_quiescent (rc : RunCfg) (entries : List RuleEntry) (hk : KeysNodup entries) :
    ∀ (fuel cycle : Nat) (ss : SState),
      (specLoop rc c entries fuel cycle ss).1 = .ok → (specLoop rc c entries fuel cycle ss).2.vis.complete = false →
      ∀ x ∈ entries, ¬ CandOn c (specLoop rc c entries fuel cycle ss).2.vis x
  | 0, cycle, ss, hok, _ => by simp only [specLoop] at hok; cases hok
  | fuel + 1, cycle, ss, hok, hcomp => by
    simp only [specLoop] at hok hcomp ⊢
    by_cases h1 : (specPoll rc ss).1 = true
    · simp only [h1, if_true] at hok; cases hok
    · simp only [h1, Bool.false_eq_true, if_false] at hok hcomp ⊢
      generalize hS : ({ (specPoll rc ss).2.emit (TEv.begin (cycle + 1)) with
          passes := ((specPoll rc ss).2.emit (TEv.begin (cycle + 1))).passes + 1 } : SState) = S at hok hcomp ⊢
      generalize hord : orderEntries (rc.order ((specPoll rc ss).2.emit (TEv.begin (cycle + 1))).passes) entries = ord at hok hcomp ⊢
      obtain ⟨hv, _, _⟩ := specPass_spec (c := c) rc (cycle + 1) ord S []
      have hcmp := specPass_complete (c := c) rc (cycle + 1) ord S []
      have hne := specPass_out_ne_ok (c := c) rc (cycle + 1) ord S []
      generalize specPass rc c (cycle + 1) ord S [] = sp at hok hcomp hv hcmp hne ⊢
      obtain ⟨o, ss3, acc⟩ := sp
      simp only at hv hcmp
      cases o with
      | some out =>
        simp only at hok hne
        subst hok
        exact absurd rfl hne
      | none =>
        simp only at hok hcomp ⊢
        by_cases h2 : (specPoll rc ss3).1 = true
        · simp only [h2, if_true] at hok; cases hok
        · simp only [h2, Bool.false_eq_true, if_false] at hok hcomp ⊢
          have hfin : pollsCancelled rc ss3 = false := by
            unfold pollsCancelled; simpa using h2
          obtain ⟨_, hall⟩ := hcmp rfl hfin
          cases acc with
          | nil =>
            simp only at hok hcomp ⊢
            intro x hx hc
            have hxo : x ∈ ord := by rw [← hord]; exact orderEntries_complete _ entries hk x hx
            have hc' : CandOn c S.vis x := by
              have : (specPoll rc ss3).2.vis = S.vis := hv
              rw [← this]; exact hc
            exact absurd (hall x hxo hc') (by simp)
          | cons r0 rs =>
            simp only at hok hcomp ⊢
            by_cases h3 : cycle + 1 > rc.maxCycle
            · simp only [h3, if_true] at hok; cases hok
            · simp only [h3, if_false] at hok hcomp ⊢
              generalize hS5 : ({ (specPoll rc ss3).2.emit (TEv.exec (cycle + 1) (pickRunner r0 rs).rule.name) with
                fired := (cycle + 1, pickRunner r0 rs, (specPoll rc ss3).2.vis) :: (specPoll rc ss3).2.fired } : SState) = S5
                at hok hcomp ⊢
              by_cases h4 : (specPoll rc S5).1 = true
              · simp only [h4, if_true] at hok; cases hok
              · simp only [h4, Bool.false_eq_true, if_false] at hok hcomp ⊢
                generalize specActions c (specPoll rc S5).2.vis (pickRunner r0 rs).rule.acts = sa at hok hcomp ⊢
                obtain ⟨ra, va⟩ := sa
                cases ra with
                | error err => cases err <;> (simp only at hok; cases hok)
                | ok u =>
                  simp only at hok hcomp ⊢
                  by_cases h5 : va.complete = true
                  · simp only [h5, if_true] at hcomp
                    cases hcomp
                  · simp only [h5, Bool.false_eq_true, if_false] at hok hcomp ⊢
                    exact specLoop_quiescent rc entries hk fuel (cycle + 1) _ hok hcomp

-- the ghost history and the listener trace tell the same story -------------------------------------

def execOf : TEv → Option (Nat × String)
  | .exec cy r => some (cy, r)
  | _ => none

/-- the `exec` events of a trace (newest first, like the trace) -/
def execEvents (tr : List TEv) : List (Nat × String) := tr.filterMap execOf

def firedNames (fs : List (Nat × RuleEntry × Vis)) : List (Nat × String) := fs.map (fun f => (f.1, f.2.1.rule.name))

theorem specPass_exec (rc : RunCfg) (cyc : Nat) :
    ∀ (es : List RuleEntry) (ss : SState) (acc : List RuleEntry),
      execEvents (specPass rc c cyc es ss acc).2.1.trace = execEvents ss.trace
  | [], ss, acc => by simp only [specPass]
  | e :: rest, ss, acc => by
    simp only [specPass]
    have lift : ∀ (ss' : SState) (acc' : List RuleEntry), execEvents ss'.trace = execEvents ss.trace →
        execEvents (specPass rc c cyc rest ss' acc').2.1.trace = execEvents ss.trace :=
      fun ss' acc' h => (specPass_exec rc cyc rest ss' acc').trans h
    have hem : ∀ (ss' : SState) (b : Bool), execEvents ss'.trace = execEvents ss.trace →
        execEvents (ss'.emit (TEv.eval cyc e.rule.name b)).trace = execEvents ss.trace := by
      intro ss' b h
      simp only [SState.emit, execEvents, List.filterMap_cons, execOf]
      exact h
    split
    · rfl
    · split
      · exact lift _ _ rfl
      · split
        · split
          · rfl
          · exact lift _ _ (hem _ _ rfl)
        · split
          · rfl
          · split
            · rfl
            · exact lift _ _ (hem _ _ rfl)
          · exact lift _ _ (hem _ _ rfl)

/-- the `exec` events of the trace are exactly the firings of the ghost history, in order -/
theorem specLoop_exec (rc : RunCfg) (entries : List RuleEntry) :
    ∀ (fuel cycle : Nat) (ss : SState), execEvents ss.trace = firedNames ss.fired →
      execEvents (specLoop rc c entries fuel cycle ss).2.trace = firedNames (specLoop rc c entries fuel cycle ss).2.fired
  | 0, cycle, ss, h => by simp only [specLoop]; exact h
  | fuel + 1, cycle, ss, h => by
    simp only [specLoop]
    split
    · exact h
    · generalize hS : ({ (specPoll rc ss).2.emit (TEv.begin (cycle + 1)) with
          passes := ((specPoll rc ss).2.emit (TEv.begin (cycle + 1))).passes + 1 } : SState) = S
      have hSf : S.fired = ss.fired := by rw [← hS]; rfl
      have hSt : execEvents S.trace = execEvents ss.trace := by
        rw [← hS]; simp only [SState.emit, execEvents, List.filterMap_cons, execOf]; rfl
      obtain ⟨_, hfi, _⟩ := specPass_spec (c := c) rc (cycle + 1)
        (orderEntries (rc.order ((specPoll rc ss).2.emit (TEv.begin (cycle + 1))).passes) entries) S []
      have htr := specPass_exec (c := c) rc (cycle + 1)
        (orderEntries (rc.order ((specPoll rc ss).2.emit (TEv.begin (cycle + 1))).passes) entries) S []
      generalize specPass rc c (cycle + 1)
        (orderEntries (rc.order ((specPoll rc ss).2.emit (TEv.begin (cycle + 1))).passes) entries) S [] = sp at hfi htr
      obtain ⟨o, ss3, acc⟩ := sp
      simp only at hfi htr
      have h3 : execEvents ss3.trace = firedNames ss3.fired := by rw [htr, hSt, hfi, hSf]; exact h
      cases o with
      | some out => exact h3
      | none =>
        simp only
        split
        · exact h3
        · have h3' : execEvents (specPoll rc ss3).2.trace = firedNames (specPoll rc ss3).2.fired := h3
          generalize (specPoll rc ss3).2 = ss3 at h3'
          have h3 := h3'
          cases acc with
          | nil => exact h3
          | cons r0 rs =>
          simp only
          split
          · exact h3
          · have h4 : execEvents (ss3.emit (TEv.exec (cycle + 1) (pickRunner r0 rs).rule.name)).trace =
                firedNames ((cycle + 1, pickRunner r0 rs, ss3.vis) :: ss3.fired) := by
              simp only [SState.emit, execEvents, List.filterMap_cons, execOf, firedNames, List.map_cons]
              simp only [execEvents, firedNames] at h3
              rw [h3]
            split
            · exact h4
            · split
              · exact h4
              · exact h4
              · split
                · exact h4
                · exact specLoop_exec rc entries fuel (cycle + 1) _ h4

-- counting firings --------------------------------------------------------------------------------------

/-- the loop counter is the number of firings, and it never exceeds MaxCycle; when the cycle-limit error
    is returned exactly MaxCycle rules have fired -/
theorem specLoop_count (rc : RunCfg) (entries : List RuleEntry) :
    ∀ (fuel cycle : Nat) (ss : SState), ss.fired.length = cycle → cycle ≤ rc.maxCycle →
      (specLoop rc c entries fuel cycle ss).2.fired.length ≤ rc.maxCycle ∧
      ((specLoop rc c entries fuel cycle ss).1 = .cycleLimit →
        (specLoop rc c entries fuel cycle ss).2.fired.length = rc.maxCycle)
  | 0, cycle, ss, h, hle => by
    simp only [specLoop]
    exact ⟨by omega, fun hh => by cases hh⟩
  | fuel + 1, cycle, ss, h, hle => by
    simp only [specLoop]
    split
    · exact ⟨by simp only [specPoll_fired]; omega, fun hh => by cases hh⟩
    · generalize hS : ({ (specPoll rc ss).2.emit (TEv.begin (cycle + 1)) with
          passes := ((specPoll rc ss).2.emit (TEv.begin (cycle + 1))).passes + 1 } : SState) = S
      have hSf : S.fired = ss.fired := by rw [← hS]; rfl
      obtain ⟨_, hfi, _⟩ := specPass_spec (c := c) rc (cycle + 1)
        (orderEntries (rc.order ((specPoll rc ss).2.emit (TEv.begin (cycle + 1))).passes) entries) S []
      have hne := specPass_out_ne_ok (c := c) rc (cycle + 1)
        (orderEntries (rc.order ((specPoll rc ss).2.emit (TEv.begin (cycle + 1))).passes) entries) S []
      have hnl : (specPass rc c (cycle + 1)
        (orderEntries (rc.order ((specPoll rc ss).2.emit (TEv.begin (cycle + 1))).passes) entries) S []).1 ≠ some .cycleLimit :=
        specPass_out_ne_limit rc (cycle + 1) _ S []
      generalize specPass rc c (cycle + 1)
        (orderEntries (rc.order ((specPoll rc ss).2.emit (TEv.begin (cycle + 1))).passes) entries) S [] = sp at hfi hne hnl
      obtain ⟨o, ss3, acc⟩ := sp
      simp only at hfi hne hnl
      have h3 : ss3.fired.length = cycle := by rw [hfi, hSf]; exact h
      cases o with
      | some out =>
        simp only
        exact ⟨by omega, fun hh => by subst hh; exact absurd rfl hnl⟩
      | none =>
        simp only
        split
        · exact ⟨by simp only [specPoll_fired]; omega, fun hh => by cases hh⟩
        · have h3' : (specPoll rc ss3).2.fired.length = cycle := h3
          generalize (specPoll rc ss3).2 = ss4 at h3'
          cases acc with
          | nil => simp only; exact ⟨by omega, fun hh => by cases hh⟩
          | cons r0 rs =>
            simp only
            split
            · rename_i hlim
              simp only
              exact ⟨by omega, fun _ => by omega⟩
            · rename_i hlim
              have h4 : ((cycle + 1, pickRunner r0 rs, ss4.vis) :: ss4.fired).length = cycle + 1 := by
                simp only [List.length_cons, h3']
              have hle' : cycle + 1 ≤ rc.maxCycle := by omega
              split
              · exact ⟨by simp only [specPoll_fired, h4]; omega, fun hh => by cases hh⟩
              · split
                · exact ⟨by simp only [specPoll_fired, h4]; omega, fun hh => by cases hh⟩
                · exact ⟨by simp only [specPoll_fired, h4]; omega, fun hh => by cases hh⟩
                · split
                  · exact ⟨by simp only [specPoll_fired, h4]; omega, fun hh => by cases hh⟩
                  · exact specLoop_count rc entries fuel (cycle + 1) _ (by simp only [specPoll_fired, h4]) hle'

end Grule

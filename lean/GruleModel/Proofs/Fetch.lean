/-
  FetchMatchingRules: refinement to a memo-free filter, and the stable salience sort.
-/
import GruleModel.Proofs.Refine
namespace Grule

variable {c : Cfg}

/-- the reference: evaluate every non-removed entry from scratch on the given facts -/
def specFetchPass (retErr : Bool) (c : Cfg) (v : Vis) : List RuleEntry → List RuleEntry → Option Outcome × List RuleEntry
  | [], acc => (none, acc)
  | e :: rest, acc =>
    if e.deleted then specFetchPass retErr c v rest acc else
    match specCond c v e with
    | .unmodelled m => (some (.unmodelled m), acc)
    | .failed => if retErr then (some (.evalErr e.rule.name false), acc) else specFetchPass retErr c v rest acc
    | .cand b => specFetchPass retErr c v rest (if b then acc ++ [e] else acc)

theorem fetchPass_sound (hp : MethodsPure c) (hi : SnapInj) (retErr : Bool) :
    ∀ (es : List RuleEntry) (s : EState) (acc : List RuleEntry), WFEntries es → Coh c s →
      (fetchPass retErr c es s acc).1 = (specFetchPass retErr c s.vis es acc).1 ∧
      (fetchPass retErr c es s acc).2.1.vis = s.vis ∧ Coh c (fetchPass retErr c es s acc).2.1 ∧
      (fetchPass retErr c es s acc).2.2 = (specFetchPass retErr c s.vis es acc).2
  | [], s, acc, _, hc => by
    simp only [fetchPass, specFetchPass]
    exact ⟨trivial, trivial, hc, trivial⟩
  | e :: rest, s, acc, hw, hc => by
    have hwr : WFEntries rest := fun x hx => hw x (by simp [hx])
    have hwe : pureE e.rule.cond = true ∧ validE e.rule.cond = true := by
      have := hw e (by simp)
      simp only [wfRule, Bool.and_eq_true] at this
      exact ⟨this.1.1, this.1.2⟩
    simp only [fetchPass, specFetchPass]
    cases hd : e.deleted with
    | true => simp only [if_true]; exact fetchPass_sound hp hi retErr rest s acc hwr hc
    | false =>
      simp only [Bool.false_eq_true, if_false]
      obtain ⟨h1, h2, h3⟩ := evalCond_sound hp hi s e hwe hc
      generalize evalCond c s e = cr at h1 h2 h3
      obtain ⟨r, s'⟩ := cr
      simp only at h1 h2 h3
      subst h1
      have lift : ∀ acc', (fetchPass retErr c rest s' acc').1 = (specFetchPass retErr c s.vis rest acc').1 ∧
          (fetchPass retErr c rest s' acc').2.1.vis = s.vis ∧ Coh c (fetchPass retErr c rest s' acc').2.1 ∧
          (fetchPass retErr c rest s' acc').2.2 = (specFetchPass retErr c s.vis rest acc').2 := by
        intro acc'
        have := fetchPass_sound hp hi retErr rest s' acc' hwr h3
        rw [h2] at this
        exact this
      cases hsc : specCond c s.vis e with
      | unmodelled m => exact ⟨rfl, h2, h3, rfl⟩
      | failed =>
        simp only
        cases retErr with
        | true => simp only [if_true]; exact ⟨trivial, h2, h3, trivial⟩
        | false => simp only [Bool.false_eq_true, if_false]; exact lift acc
      | cand b => simp only; exact lift _

-- the stable sort ---------------------------------------------------------------------------------------

/-- non-increasing salience -/
def SortedDesc : List RuleEntry → Prop
  | [] => True
  | [_] => True
  | a :: b :: rest => b.rule.salience ≤ a.rule.salience ∧ SortedDesc (b :: rest)

theorem sortedDesc_tail {a : RuleEntry} {l : List RuleEntry} (h : SortedDesc (a :: l)) : SortedDesc l := by
  cases l with
  | nil => trivial
  | cons b rest => exact h.2

theorem insertStable_sorted (e : RuleEntry) : ∀ (l : List RuleEntry), SortedDesc l → SortedDesc (insertStable e l)
  | [], _ => by simp [insertStable, SortedDesc]
  | x :: rest, h => by
    unfold insertStable
    split
    · rename_i hge
      exact ⟨hge, h⟩
    · rename_i hlt
      have hlt' : e.rule.salience ≤ x.rule.salience := Int.le_of_lt (Int.not_le.mp hlt)
      have ih := insertStable_sorted e rest (sortedDesc_tail h)
      cases rest with
      | nil =>
        simp only [insertStable] at ih ⊢
        exact ⟨hlt', trivial⟩
      | cons y r2 =>
        unfold insertStable at ih ⊢
        split
        · rename_i hge2
          rw [if_pos hge2] at ih
          exact ⟨hlt', ih⟩
        · rename_i hlt2
          rw [if_neg hlt2] at ih
          exact ⟨h.1, ih⟩

theorem sortStable_sorted : ∀ (l : List RuleEntry), SortedDesc (sortStable l)
  | [] => by simp [sortStable, SortedDesc]
  | e :: rest => by
    have ih := sortStable_sorted rest
    simp only [sortStable, List.foldr_cons] at ih ⊢
    exact insertStable_sorted e _ ih

theorem insertStable_perm (e : RuleEntry) : ∀ (l : List RuleEntry), (insertStable e l).Perm (e :: l)
  | [] => by simp [insertStable]
  | x :: rest => by
    unfold insertStable
    split
    · exact List.Perm.refl _
    · exact (List.Perm.cons x (insertStable_perm e rest)).trans (List.Perm.swap e x rest)

/-- the sort returns each rule exactly as often as it was given (no loss, no duplication) -/
theorem sortStable_perm : ∀ (l : List RuleEntry), (sortStable l).Perm l
  | [] => by simp [sortStable]
  | e :: rest => by
    have ih := sortStable_perm rest
    simp only [sortStable, List.foldr_cons] at ih ⊢
    exact (insertStable_perm e _).trans (List.Perm.cons e ih)

/-- membership in the reference pass: exactly the non-removed entries satisfied on the facts -/
theorem specFetchPass_mem (retErr : Bool) (v : Vis) :
    ∀ (es acc : List RuleEntry), (specFetchPass retErr c v es acc).1 = none →
      ∀ x, x ∈ (specFetchPass retErr c v es acc).2 ↔
        (x ∈ acc ∨ (x ∈ es ∧ x.deleted = false ∧ specCond c v x = .cand true))
  | [], acc, _, x => by simp [specFetchPass]
  | e :: rest, acc, hnone, x => by
    simp only [specFetchPass] at hnone ⊢
    cases hd : e.deleted with
    | true =>
      simp only [hd, if_true] at hnone ⊢
      rw [specFetchPass_mem retErr v rest acc hnone x]
      constructor
      · rintro (h | ⟨h1, h2, h3⟩)
        · exact Or.inl h
        · exact Or.inr ⟨by simp [h1], h2, h3⟩
      · rintro (h | ⟨h1, h2, h3⟩)
        · exact Or.inl h
        · simp only [List.mem_cons] at h1
          rcases h1 with h1 | h1
          · subst h1; rw [hd] at h2; cases h2
          · exact Or.inr ⟨h1, h2, h3⟩
    | false =>
      simp only [hd, Bool.false_eq_true, if_false] at hnone ⊢
      cases hsc : specCond c v e with
      | unmodelled m => simp only [hsc] at hnone; cases hnone
      | failed =>
        simp only [hsc] at hnone ⊢
        cases retErr with
        | true => simp only [if_true] at hnone; cases hnone
        | false =>
          simp only [Bool.false_eq_true, if_false] at hnone ⊢
          rw [specFetchPass_mem false v rest acc hnone x]
          constructor
          · rintro (h | ⟨h1, h2, h3⟩)
            · exact Or.inl h
            · exact Or.inr ⟨by simp [h1], h2, h3⟩
          · rintro (h | ⟨h1, h2, h3⟩)
            · exact Or.inl h
            · simp only [List.mem_cons] at h1
              rcases h1 with h1 | h1
              · subst h1; rw [hsc] at h3; cases h3
              · exact Or.inr ⟨h1, h2, h3⟩
      | cand b =>
        simp only [hsc] at hnone ⊢
        rw [specFetchPass_mem retErr v rest _ hnone x]
        cases b with
        | true =>
          simp only [if_true, List.mem_append, List.mem_singleton]
          constructor
          · rintro ((h | h) | ⟨h1, h2, h3⟩)
            · exact Or.inl h
            · subst h; exact Or.inr ⟨by simp, hd, hsc⟩
            · exact Or.inr ⟨by simp [h1], h2, h3⟩
          · rintro (h | ⟨h1, h2, h3⟩)
            · exact Or.inl (Or.inl h)
            · simp only [List.mem_cons] at h1
              rcases h1 with h1 | h1
              · exact Or.inl (Or.inr h1)
              · exact Or.inr ⟨h1, h2, h3⟩
        | false =>
          simp only [Bool.false_eq_true, if_false]
          constructor
          · rintro (h | ⟨h1, h2, h3⟩)
            · exact Or.inl h
            · exact Or.inr ⟨by simp [h1], h2, h3⟩
          · rintro (h | ⟨h1, h2, h3⟩)
            · exact Or.inl h
            · simp only [List.mem_cons] at h1
              rcases h1 with h1 | h1
              · subst h1; rw [hsc] at h3; cases h3
              · exact Or.inr ⟨h1, h2, h3⟩

end Grule

/-
  Whether a token list is a sentence of the grammar does not depend on the literal decoder: if the parser succeeds with one
  decoder it succeeds with any decoder that accepts at least the same literals, on the same tokens, with the same rest, and
  the result is the same tree up to the constants (`mE g`). Instance: the real decoder and `anyDec` (which `front` uses to
  ask for grammaticality).
-/
import GruleModel.Syntax.Parser
namespace Grule.ParseSim
open Grule Grule.Syntax

variable (g : Const → Const)

mutual
  def mE : Expr → Expr
    | .bin op l r => .bin op (mE l) (mE r)
    | .paren n e => .paren n (mE e)
    | .atom a => .atom (mA a)
  def mA : Atom → Atom
    | .const c => .const (g c)
    | .var v => .var (mV v)
    | .call f args => .call f (mArgs args)
    | .meth recv f args => .meth (mA recv) f (mArgs args)
    | .member recv n => .member (mA recv) n
    | .sel recv idx => .sel (mA recv) (mE idx)
    | .neg a => .neg (mA a)
  def mV : Var → Var
    | .root n => .root n
    | .field v n => .field (mV v) n
    | .index v e => .index (mV v) (mE e)
  def mArgs : Args → Args
    | .nil => .nil
    | .cons e rest => .cons (mE e) (mArgs rest)
end

variable (d1 d2 : Dec)

/-- the second decoder accepts what the first accepts -/
structure HC : Prop where
  some : ∀ ts c r, parseConst d1 ts = some (.ok (c, r)) → parseConst d2 ts = some (.ok (g c, r))
  none : ∀ ts, parseConst d1 ts = none → parseConst d2 ts = none

structure Sim (f : Nat) : Prop where
  expr : ∀ p ts e r, parseExpr d1 f p ts = .ok (e, r) → parseExpr d2 f p ts = .ok (mE g e, r)
  climb : ∀ p lhs ts e r, climb d1 f p lhs ts = .ok (e, r) → climb d2 f p (mE g lhs) ts = .ok (mE g e, r)
  primary : ∀ ts e r, parsePrimary d1 f ts = .ok (e, r) → parsePrimary d2 f ts = .ok (mE g e, r)
  atom : ∀ ts a r, parseAtom d1 f ts = .ok (a, r) → parseAtom d2 f ts = .ok (mA g a, r)
  vtail : ∀ v ts v' r, varTail d1 f v ts = .ok (v', r) → varTail d2 f (mV g v) ts = .ok (mV g v', r)
  suff : ∀ a ts a' r, suffixes d1 f a ts = .ok (a', r) → suffixes d2 f (mA g a) ts = .ok (mA g a', r)
  args : ∀ ts as r, parseArgs d1 f ts = .ok (as, r) → parseArgs d2 f ts = .ok (mArgs g as, r)
  more : ∀ ts as r, moreArgs d1 f ts = .ok (as, r) → moreArgs d2 f ts = .ok (mArgs g as, r)

theorem sim_zero : Sim g d1 d2 0 where
  expr := by intro p ts e r h; simp [parseExpr] at h
  climb := by intro p lhs ts e r h; simp [Syntax.climb] at h
  primary := by intro ts e r h; simp [parsePrimary] at h
  atom := by intro ts a r h; simp [parseAtom] at h
  vtail := by intro v ts v' r h; simp [varTail] at h
  suff := by intro a ts a' r h; simp [suffixes] at h
  args := by intro ts as r h; simp [parseArgs] at h
  more := by intro ts as r h; simp [moreArgs] at h

variable {g d1 d2}

theorem sim_expr (f : Nat) (ih : Sim g d1 d2 f) : ∀ p ts e r, parseExpr d1 (f + 1) p ts = .ok (e, r) →
    parseExpr d2 (f + 1) p ts = .ok (mE g e, r) := by
  intro p ts e r h
  simp only [parseExpr, bind, Except.bind] at h ⊢
  cases hp : parsePrimary d1 f ts with
  | error er => simp [hp] at h
  | ok x =>
    obtain ⟨lhs, r1⟩ := x
    simp only [hp] at h
    rw [ih.primary ts lhs r1 hp]
    exact ih.climb p lhs r1 e r h

theorem sim_climb (f : Nat) (ih : Sim g d1 d2 f) : ∀ p lhs ts e r, Syntax.climb d1 (f + 1) p lhs ts = .ok (e, r) →
    Syntax.climb d2 (f + 1) p (mE g lhs) ts = .ok (mE g e, r) := by
  intro p lhs ts e r h
  cases ts with
  | nil =>
    simp only [Syntax.climb, Except.ok.injEq, Prod.mk.injEq] at h ⊢
    obtain ⟨rfl, rfl⟩ := h
    exact ⟨rfl, rfl⟩
  | cons t r0 =>
    simp only [Syntax.climb] at h ⊢
    cases hop : binOpOf t.kind with
    | none =>
      simp only [hop, Except.ok.injEq, Prod.mk.injEq] at h ⊢
      obtain ⟨rfl, rfl⟩ := h
      exact ⟨rfl, rfl⟩
    | some op =>
      simp only [hop] at h ⊢
      by_cases hge : prec op ≥ p
      · simp only [hge, if_true, bind, Except.bind] at h ⊢
        cases hr : parseExpr d1 f (prec op + 1) r0 with
        | error er => simp [hr] at h
        | ok x =>
          obtain ⟨rhs, r'⟩ := x
          simp only [hr] at h
          rw [ih.expr _ _ _ _ hr]
          have := ih.climb p (.bin op lhs rhs) r' e r h
          simpa only [mE] using this
      · simp only [hge, if_false, Except.ok.injEq, Prod.mk.injEq] at h ⊢
        obtain ⟨rfl, rfl⟩ := h
        exact ⟨rfl, rfl⟩

/-- the parenthesised alternative -/
theorem sim_paren (f : Nat) (ih : Sim g d1 d2 f) (neg : Bool) (inner : List Token) (e : Expr) (r : List Token)
    (h : (do
        let (e', r1) ← parseExpr d1 f 0 inner
        match r1 with
        | t :: rest' => if t.kind == TK.rparen then (.ok (.paren neg e', rest') : Except PErr (Expr × List Token)) else err r1
        | [] => err r1) = .ok (e, r)) :
    (do
        let (e', r1) ← parseExpr d2 f 0 inner
        match r1 with
        | t :: rest' => if t.kind == TK.rparen then (.ok (.paren neg e', rest') : Except PErr (Expr × List Token)) else err r1
        | [] => err r1) = .ok (mE g e, r) := by
  simp only [bind, Except.bind] at h ⊢
  cases hp : parseExpr d1 f 0 inner with
  | error er => simp [hp] at h
  | ok x =>
    obtain ⟨e', r1⟩ := x
    simp only [hp] at h
    rw [ih.expr _ _ _ _ hp]
    simp only
    cases r1 with
    | nil => simp [err] at h
    | cons t rest' =>
      simp only at h ⊢
      split at h
      · rename_i hk
        simp only [Except.ok.injEq, Prod.mk.injEq] at h
        obtain ⟨rfl, rfl⟩ := h
        simp only [hk, if_true, mE]
      · simp [err] at h

theorem sim_atomCase (f : Nat) (ih : Sim g d1 d2 f) (ts : List Token) (e : Expr) (r : List Token)
    (h : (do let (a, r) ← parseAtom d1 f ts; (.ok (.atom a, r) : Except PErr (Expr × List Token))) = .ok (e, r)) :
    (do let (a, r) ← parseAtom d2 f ts; (.ok (.atom a, r) : Except PErr (Expr × List Token))) = .ok (mE g e, r) := by
  simp only [bind, Except.bind] at h ⊢
  cases ha : parseAtom d1 f ts with
  | error er => simp [ha] at h
  | ok x =>
    obtain ⟨a, r'⟩ := x
    simp only [ha, Except.ok.injEq, Prod.mk.injEq] at h
    obtain ⟨rfl, rfl⟩ := h
    rw [ih.atom _ _ _ ha]
    simp only [mE]

theorem sim_primary (f : Nat) (ih : Sim g d1 d2 f) : ∀ ts e r, parsePrimary d1 (f + 1) ts = .ok (e, r) →
    parsePrimary d2 (f + 1) ts = .ok (mE g e, r) := by
  intro ts e r h
  cases ts with
  | nil => simp [parsePrimary, err] at h
  | cons t rest0 =>
    simp only [parsePrimary] at h ⊢
    by_cases hl : (t.kind == TK.lparen) = true
    · simp only [hl, if_true] at h ⊢
      exact sim_paren f ih false rest0 e r h
    · simp only [hl, Bool.false_eq_true, if_false] at h ⊢
      by_cases hb : (t.kind == TK.bang) = true
      · simp only [hb, if_true] at h ⊢
        cases rest0 with
        | nil => simp [err] at h
        | cons t2 rest2 =>
          simp only at h ⊢
          by_cases hl2 : (t2.kind == TK.lparen) = true
          · simp only [hl2, if_true] at h ⊢
            exact sim_paren f ih true rest2 e r h
          · simp only [hl2, Bool.false_eq_true, if_false] at h ⊢
            exact sim_atomCase f ih _ e r h
      · simp only [hb, Bool.false_eq_true, if_false] at h ⊢
        exact sim_atomCase f ih _ e r h


theorem sim_atom (hc : HC g d1 d2) (f : Nat) (ih : Sim g d1 d2 f) : ∀ ts a r, parseAtom d1 (f + 1) ts = .ok (a, r) →
    parseAtom d2 (f + 1) ts = .ok (mA g a, r) := by
  intro ts a r h
  cases ts with
  | nil => simp [parseAtom, err] at h
  | cons t rest =>
    simp only [parseAtom] at h ⊢
    by_cases hb : (t.kind == TK.bang) = true
    · simp only [hb, if_true, bind, Except.bind] at h ⊢
      cases ha : parseAtom d1 f rest with
      | error er => simp [ha] at h
      | ok x =>
        obtain ⟨a0, r0⟩ := x
        simp only [ha, Except.ok.injEq, Prod.mk.injEq] at h
        obtain ⟨rfl, rfl⟩ := h
        rw [ih.atom _ _ _ ha]
        simp only [mA]
    · simp only [hb, Bool.false_eq_true, if_false] at h ⊢
      cases hpc : parseConst d1 (t :: rest) with
      | some rc =>
        simp only [hpc, bind, Except.bind] at h
        cases rc with
        | error er => simp at h
        | ok x =>
          obtain ⟨c, rest'⟩ := x
          simp only at h
          rw [hc.some _ _ _ hpc]
          simp only [bind, Except.bind]
          have := ih.suff (.const c) rest' a r h
          simpa only [mA] using this
      | none =>
        simp only [hpc] at h
        rw [hc.none _ hpc]
        simp only
        by_cases hn : (t.kind == TK.name) = true
        · simp only [hn, if_true] at h ⊢
          cases rest with
          | nil =>
            simp only [Except.ok.injEq, Prod.mk.injEq] at h ⊢
            obtain ⟨rfl, rfl⟩ := h
            simp only [mA, mV, and_self]
          | cons t2 rest2 =>
            simp only at h ⊢
            by_cases hl : (t2.kind == TK.lparen) = true
            · simp only [hl, if_true, bind, Except.bind] at h ⊢
              cases hargs : parseArgs d1 f rest2 with
              | error er => simp [hargs] at h
              | ok x =>
                obtain ⟨args, r0⟩ := x
                simp only [hargs] at h
                rw [ih.args _ _ _ hargs]
                have := ih.suff _ r0 a r h
                simpa only [mA] using this
            · simp only [hl, Bool.false_eq_true, if_false, bind, Except.bind] at h ⊢
              cases hv : varTail d1 f (.root (String.ofList t.text)) (t2 :: rest2) with
              | error er => simp [hv] at h
              | ok x =>
                obtain ⟨v, r0⟩ := x
                simp only [hv] at h
                have hv2 := ih.vtail _ _ _ _ hv
                simp only [mV] at hv2
                rw [hv2]
                have := ih.suff _ r0 a r h
                simpa only [mA] using this
        · simp only [hn, Bool.false_eq_true, if_false, err] at h
          cases h

theorem sim_vtail (f : Nat) (ih : Sim g d1 d2 f) : ∀ v ts v' r, varTail d1 (f + 1) v ts = .ok (v', r) →
    varTail d2 (f + 1) (mV g v) ts = .ok (mV g v', r) := by
  intro v ts v' r h
  cases ts with
  | nil =>
    simp only [varTail, Except.ok.injEq, Prod.mk.injEq] at h ⊢
    obtain ⟨rfl, rfl⟩ := h
    exact ⟨rfl, rfl⟩
  | cons t rest =>
    simp only [varTail] at h ⊢
    by_cases hd : (t.kind == TK.dot) = true
    · simp only [hd, if_true] at h ⊢
      cases rest with
      | nil =>
        simp only [Except.ok.injEq, Prod.mk.injEq] at h ⊢
        obtain ⟨rfl, rfl⟩ := h
        exact ⟨rfl, rfl⟩
      | cons n rest2 =>
        simp only at h ⊢
        by_cases hn : (n.kind == TK.name) = true
        · simp only [hn, if_true] at h ⊢
          cases rest2 with
          | nil =>
            simp only at h ⊢
            have := ih.vtail _ _ _ _ h
            simpa only [mV] using this
          | cons p rest3 =>
            simp only at h ⊢
            by_cases hl : (p.kind == TK.lparen) = true
            · simp only [hl, if_true, Except.ok.injEq, Prod.mk.injEq] at h ⊢
              obtain ⟨rfl, rfl⟩ := h
              exact ⟨rfl, rfl⟩
            · simp only [hl, Bool.false_eq_true, if_false] at h ⊢
              have := ih.vtail _ _ _ _ h
              simpa only [mV] using this
        · simp only [hn, Bool.false_eq_true, if_false, Except.ok.injEq, Prod.mk.injEq] at h ⊢
          obtain ⟨rfl, rfl⟩ := h
          exact ⟨rfl, rfl⟩
    · simp only [hd, Bool.false_eq_true, if_false] at h ⊢
      by_cases hs : (t.kind == TK.lsq) = true
      · simp only [hs, if_true, bind, Except.bind] at h ⊢
        cases he : parseExpr d1 f 0 rest with
        | error er => simp [he] at h
        | ok x =>
          obtain ⟨e, r0⟩ := x
          simp only [he] at h
          rw [ih.expr _ _ _ _ he]
          simp only
          cases r0 with
          | nil => simp [err] at h
          | cons c r' =>
            simp only at h ⊢
            by_cases hr : (c.kind == TK.rsq) = true
            · simp only [hr, if_true] at h ⊢
              have := ih.vtail _ _ _ _ h
              simpa only [mV] using this
            · simp only [hr, Bool.false_eq_true, if_false, err] at h
              cases h
      · simp only [hs, Bool.false_eq_true, if_false, Except.ok.injEq, Prod.mk.injEq] at h ⊢
        obtain ⟨rfl, rfl⟩ := h
        exact ⟨rfl, rfl⟩

theorem sim_suff (f : Nat) (ih : Sim g d1 d2 f) : ∀ a ts a' r, suffixes d1 (f + 1) a ts = .ok (a', r) →
    suffixes d2 (f + 1) (mA g a) ts = .ok (mA g a', r) := by
  intro a ts a' r h
  cases ts with
  | nil =>
    simp only [suffixes, Except.ok.injEq, Prod.mk.injEq] at h ⊢
    obtain ⟨rfl, rfl⟩ := h
    exact ⟨rfl, rfl⟩
  | cons t rest =>
    simp only [suffixes] at h ⊢
    by_cases hd : (t.kind == TK.dot) = true
    · simp only [hd, if_true] at h ⊢
      cases rest with
      | nil => simp [err] at h
      | cons n rest2 =>
        simp only at h ⊢
        by_cases hn : (n.kind == TK.name) = true
        · simp only [hn, if_true] at h ⊢
          cases rest2 with
          | nil =>
            simp only at h ⊢
            have := ih.suff _ _ _ _ h
            simpa only [mA] using this
          | cons p rest3 =>
            simp only at h ⊢
            by_cases hl : (p.kind == TK.lparen) = true
            · simp only [hl, if_true, bind, Except.bind] at h ⊢
              cases hargs : parseArgs d1 f rest3 with
              | error er => simp [hargs] at h
              | ok x =>
                obtain ⟨args, r0⟩ := x
                simp only [hargs] at h
                rw [ih.args _ _ _ hargs]
                have := ih.suff _ r0 a' r h
                simpa only [mA] using this
            · simp only [hl, Bool.false_eq_true, if_false] at h ⊢
              have := ih.suff _ _ _ _ h
              simpa only [mA] using this
        · simp only [hn, Bool.false_eq_true, if_false, err] at h
          cases h
    · simp only [hd, Bool.false_eq_true, if_false] at h ⊢
      by_cases hs : (t.kind == TK.lsq) = true
      · simp only [hs, if_true, bind, Except.bind] at h ⊢
        cases he : parseExpr d1 f 0 rest with
        | error er => simp [he] at h
        | ok x =>
          obtain ⟨e, r0⟩ := x
          simp only [he] at h
          rw [ih.expr _ _ _ _ he]
          simp only
          cases r0 with
          | nil => simp [err] at h
          | cons c r' =>
            simp only at h ⊢
            by_cases hr : (c.kind == TK.rsq) = true
            · simp only [hr, if_true] at h ⊢
              have := ih.suff _ _ _ _ h
              simpa only [mA] using this
            · simp only [hr, Bool.false_eq_true, if_false, err] at h
              cases h
      · simp only [hs, Bool.false_eq_true, if_false, Except.ok.injEq, Prod.mk.injEq] at h ⊢
        obtain ⟨rfl, rfl⟩ := h
        exact ⟨rfl, rfl⟩

theorem sim_more (f : Nat) (ih : Sim g d1 d2 f) : ∀ ts as r, moreArgs d1 (f + 1) ts = .ok (as, r) →
    moreArgs d2 (f + 1) ts = .ok (mArgs g as, r) := by
  intro ts as r h
  cases ts with
  | nil => simp [moreArgs, err] at h
  | cons t rest =>
    simp only [moreArgs] at h ⊢
    by_cases hr : (t.kind == TK.rparen) = true
    · simp only [hr, if_true, Except.ok.injEq, Prod.mk.injEq] at h ⊢
      obtain ⟨rfl, rfl⟩ := h
      exact ⟨rfl, rfl⟩
    · simp only [hr, Bool.false_eq_true, if_false] at h ⊢
      by_cases hcm : (t.kind == TK.comma) = true
      · simp only [hcm, if_true, bind, Except.bind] at h ⊢
        cases he : parseExpr d1 f 0 rest with
        | error er => simp [he] at h
        | ok x =>
          obtain ⟨e, r0⟩ := x
          simp only [he] at h
          rw [ih.expr _ _ _ _ he]
          simp only
          cases hm : moreArgs d1 f r0 with
          | error er => simp [hm] at h
          | ok y =>
            obtain ⟨more, r1⟩ := y
            simp only [hm, Except.ok.injEq, Prod.mk.injEq] at h
            obtain ⟨rfl, rfl⟩ := h
            rw [ih.more _ _ _ hm]
            simp only [mArgs]
      · simp only [hcm, Bool.false_eq_true, if_false, err] at h
        cases h

theorem sim_args (f : Nat) (ih : Sim g d1 d2 f) : ∀ ts as r, parseArgs d1 (f + 1) ts = .ok (as, r) →
    parseArgs d2 (f + 1) ts = .ok (mArgs g as, r) := by
  intro ts as r h
  cases ts with
  | nil => simp [parseArgs, err] at h
  | cons t rest =>
    simp only [parseArgs] at h ⊢
    by_cases hr : (t.kind == TK.rparen) = true
    · simp only [hr, if_true, Except.ok.injEq, Prod.mk.injEq] at h ⊢
      obtain ⟨rfl, rfl⟩ := h
      exact ⟨rfl, rfl⟩
    · simp only [hr, Bool.false_eq_true, if_false, bind, Except.bind] at h ⊢
      cases he : parseExpr d1 f 0 (t :: rest) with
      | error er => simp [he] at h
      | ok x =>
        obtain ⟨e, r0⟩ := x
        simp only [he] at h
        rw [ih.expr _ _ _ _ he]
        simp only
        cases hm : moreArgs d1 f r0 with
        | error er => simp [hm] at h
        | ok y =>
          obtain ⟨more, r1⟩ := y
          simp only [hm, Except.ok.injEq, Prod.mk.injEq] at h
          obtain ⟨rfl, rfl⟩ := h
          rw [ih.more _ _ _ hm]
          simp only [mArgs]

theorem sim_all (hc : HC g d1 d2) : ∀ f, Sim g d1 d2 f
  | 0 => sim_zero g d1 d2
  | f + 1 =>
    have ih := sim_all hc f
    { expr := sim_expr f ih, climb := sim_climb f ih, primary := sim_primary f ih, atom := sim_atom hc f ih,
      vtail := sim_vtail f ih, suff := sim_suff f ih, args := sim_args f ih, more := sim_more f ih }

-- towards `anyDec` ------------------------------------------------------------------------------------------------------------

def eC : Const → Const
  | .str _ => .str ""
  | .int _ => .int 0
  | .float _ => .float 0
  | c => c

set_option hygiene false in
macro "dec_case " d:term : tactic => `(tactic| (cases hx : $d with
   | error e => cases e <;> simp [hx] at h
   | ok v => simp [hx] at h; obtain ⟨rfl, rfl⟩ := h; simp [eC]))

theorem hc_some (d1 : Dec) : ∀ ts c r, parseConst d1 ts = some (.ok (c, r)) → parseConst anyDec ts = some (.ok (eC c, r)) := by
  intro ts c r h
  cases ts with
  | nil => simp [parseConst] at h
  | cons t rest =>
    cases hk : t.kind <;> simp [parseConst, hk, isNumTok, anyDec, relocate, bind, Except.bind, pure, Except.pure] at h ⊢
    case minus =>
      cases rest with
      | nil => simp at h
      | cons t2 rest2 =>
        cases hk2 : t2.kind <;> simp [hk2] at h ⊢
        case dec => dec_case (d1.int ('-' :: t2.text))
        case hex => dec_case (d1.int ('-' :: t2.text))
        case oct => dec_case (d1.int ('-' :: t2.text))
        case decFloat => dec_case (d1.float ('-' :: t2.text))
        case hexFloat => dec_case (d1.float ('-' :: t2.text))
    case kTrue => obtain ⟨rfl, rfl⟩ := h; exact ⟨rfl, rfl⟩
    case kFalse => obtain ⟨rfl, rfl⟩ := h; exact ⟨rfl, rfl⟩
    case kNil => obtain ⟨rfl, rfl⟩ := h; exact ⟨rfl, rfl⟩
    case dq => dec_case (d1.str t.text)
    case sq => dec_case (d1.str t.text)
    case decFloat => dec_case (d1.float t.text)
    case hexFloat => dec_case (d1.float t.text)
    case dec => dec_case (d1.int t.text)
    case hex => dec_case (d1.int t.text)
    case oct => dec_case (d1.int t.text)

theorem hc_none (d1 : Dec) : ∀ ts, parseConst d1 ts = none → parseConst anyDec ts = none := by
  intro ts h
  cases ts with
  | nil => simp [parseConst]
  | cons t rest =>
    cases hk : t.kind <;> simp [parseConst, hk, isNumTok, anyDec, relocate, bind, Except.bind, pure, Except.pure] at h ⊢
    case minus =>
      cases rest with
      | nil => simp
      | cons t2 rest2 =>
        cases hk2 : t2.kind <;> simp [hk2] at h ⊢

theorem hc_any (d1 : Dec) : HC eC d1 anyDec := ⟨hc_some d1, hc_none d1⟩

theorem simAny (d1 : Dec) (f : Nat) : Sim eC d1 anyDec f := sim_all (hc_any d1) f

theorem sim_action (d1 : Dec) (f : Nat) (ts : List Token) (a : Action) (r : List Token)
    (h : parseAction d1 f ts = .ok (a, r)) : ∃ a', parseAction anyDec f ts = .ok (a', r) := by
  simp only [parseAction, bind, Except.bind] at h ⊢
  cases ha : parseAtom d1 f ts with
  | error er => simp [ha] at h
  | ok x =>
    obtain ⟨a0, r0⟩ := x
    simp only [ha] at h
    rw [(simAny d1 f).atom _ _ _ ha]
    simp only
    cases r0 with
    | nil => simp [err] at h
    | cons t rest =>
      simp only at h ⊢
      cases hop : assignOpOf t.kind with
      | none =>
        simp only [hop] at h ⊢
        by_cases hs : (t.kind == TK.semi) = true
        · simp only [hs, if_true, Except.ok.injEq, Prod.mk.injEq] at h ⊢
          exact ⟨_, rfl, h.2⟩
        · simp only [hs, Bool.false_eq_true, if_false, err] at h
          cases h
      | some op =>
        cases a0 <;> simp only [hop, err] at h <;> try cases h
        rename_i v
        simp only [mA, hop]
        cases he : parseExpr d1 f 0 rest with
        | error er => simp [he] at h
        | ok y =>
          obtain ⟨e, r2⟩ := y
          simp only [he] at h
          rw [(simAny d1 f).expr _ _ _ _ he]
          simp only
          cases r2 with
          | nil => simp [err] at h
          | cons s r3 =>
            simp only at h ⊢
            by_cases hs : (s.kind == TK.semi) = true
            · simp only [hs, if_true, Except.ok.injEq, Prod.mk.injEq] at h ⊢
              exact ⟨_, rfl, h.2⟩
            · simp only [hs, Bool.false_eq_true, if_false, err] at h
              cases h

theorem sim_actions (d1 : Dec) (f : Nat) : ∀ (n : Nat) (ts : List Token) (as : List Action) (r : List Token),
    parseActions d1 f n ts = .ok (as, r) → ∃ as', parseActions anyDec f n ts = .ok (as', r)
  | 0, ts, as, r, h => by simp [parseActions] at h
  | n + 1, ts, as, r, h => by
    simp only [parseActions, bind, Except.bind] at h ⊢
    cases ha : parseAction d1 f ts with
    | error er => simp [ha] at h
    | ok x =>
      obtain ⟨a, r0⟩ := x
      simp only [ha] at h
      obtain ⟨a', ha'⟩ := sim_action d1 f ts a r0 ha
      rw [ha']
      simp only
      cases r0 with
      | nil => simp [err] at h
      | cons t rest =>
        simp only at h ⊢
        by_cases hb : (t.kind == TK.rbrace) = true
        · simp only [hb, if_true, Except.ok.injEq, Prod.mk.injEq] at h ⊢
          exact ⟨_, rfl, h.2⟩
        · simp only [hb, Bool.false_eq_true, if_false] at h ⊢
          cases hm : parseActions d1 f n (t :: rest) with
          | error er => simp [hm] at h
          | ok y =>
            obtain ⟨more, r'⟩ := y
            simp only [hm, Except.ok.injEq, Prod.mk.injEq] at h
            obtain ⟨more', hm'⟩ := sim_actions d1 f n (t :: rest) more r' hm
            rw [hm']
            exact ⟨_, by simp only [Except.ok.injEq, Prod.mk.injEq]; exact ⟨rfl, h.2⟩⟩


/-- the part of `parseRule` after the salience -/
def ruleBody (d : Dec) (fuel : Nat) (nm desc : String) (sal : Int) (rest2 : List Token) : Except PErr (Rule × List Token) :=
  match rest2 with
  | lb :: w :: rest3 =>
    if lb.kind != .lbrace then err rest2
    else if w.kind != .kWhen then err (w :: rest3)
    else do
      let (cond, rest4) ← parseExpr d fuel 0 rest3
      match rest4 with
      | th :: rest5 =>
        if th.kind != .kThen then err rest4 else do
          let (acts, rest6) ← parseActions d fuel fuel rest5
          match rest6 with
          | rb :: rest7 =>
            if rb.kind == .rbrace then
              .ok ({ name := nm, desc, salience := sal, cond, acts }, rest7)
            else err rest6
          | [] => err rest6
      | [] => err rest4
  | _ => err rest2

theorem sim_body (d1 : Dec) (f : Nat) (nm desc : String) (sal sal' : Int) (rest2 : List Token) (r : Rule) (rest : List Token)
    (h : ruleBody d1 f nm desc sal rest2 = .ok (r, rest)) : ∃ r', ruleBody anyDec f nm desc sal' rest2 = .ok (r', rest) := by
  unfold ruleBody at h ⊢
  split at h
  · rename_i lb w rest3
    simp only at h ⊢
    by_cases h1 : (lb.kind != TK.lbrace) = true
    · simp [h1, err] at h
    · simp only [h1, Bool.false_eq_true, if_false] at h ⊢
      by_cases h2 : (w.kind != TK.kWhen) = true
      · simp [h2, err] at h
      · simp only [h2, Bool.false_eq_true, if_false, bind, Except.bind] at h ⊢
        cases he : parseExpr d1 f 0 rest3 with
        | error er => simp [he] at h
        | ok x =>
          obtain ⟨cond, rest4⟩ := x
          simp only [he] at h
          rw [(simAny d1 f).expr _ _ _ _ he]
          simp only
          cases rest4 with
          | nil => simp [err] at h
          | cons th rest5 =>
            simp only at h ⊢
            by_cases h3 : (th.kind != TK.kThen) = true
            · simp [h3, err] at h
            · simp only [h3, Bool.false_eq_true, if_false] at h ⊢
              cases ha : parseActions d1 f f rest5 with
              | error er => simp [ha] at h
              | ok y =>
                obtain ⟨acts, rest6⟩ := y
                simp only [ha] at h
                obtain ⟨acts', ha'⟩ := sim_actions d1 f f rest5 acts rest6 ha
                rw [ha']
                simp only
                cases rest6 with
                | nil => simp [err] at h
                | cons rb rest7 =>
                  simp only at h ⊢
                  by_cases h4 : (rb.kind == TK.rbrace) = true
                  · simp only [h4, if_true, Except.ok.injEq, Prod.mk.injEq] at h ⊢
                    exact ⟨_, rfl, h.2⟩
                  · simp [h4, err] at h
  · simp [err] at h


/-- the salience clause -/
def salOf (d : Dec) (rest1 : List Token) : Except PErr (Int × List Token) :=
  match (rest1 : List Token) with
  | t :: rest' =>
    if t.kind == .kSalience then
      match parseConst d rest' with
      | some rc => do
        let (c, r2) ← rc
        match c with
        | .int i => .ok (i, r2)
        | _ => err rest'
      | none => err rest'
    else .ok (0, rest1)
  | [] => .ok (0, rest1)

def descPart (rest : List Token) : String × List Token :=
  match rest with
  | t :: rest' => if t.kind == .dq || t.kind == .sq then (descOf t, rest') else ("No Description", rest)
  | [] => ("No Description", rest)

theorem parseRule_eq (d : Dec) (fuel : Nat) (r0 n : Token) (rest : List Token) :
    parseRule d fuel (r0 :: n :: rest) =
      if r0.kind != .kRule then err (r0 :: n :: rest)
      else if n.kind != .name then err (n :: rest)
      else (salOf d (descPart rest).2) >>= fun (sal, rest2) => ruleBody d fuel (String.ofList n.text) (descPart rest).1 sal rest2 := by
  rfl

theorem sim_sal (d1 : Dec) (rest1 : List Token) (sal : Int) (rest2 : List Token) (h : salOf d1 rest1 = .ok (sal, rest2)) :
    ∃ sal', salOf anyDec rest1 = .ok (sal', rest2) := by
  unfold salOf at h ⊢
  cases rest1 with
  | nil =>
    simp only [Except.ok.injEq, Prod.mk.injEq] at h ⊢
    exact ⟨0, rfl, h.2⟩
  | cons t rest' =>
    simp only at h ⊢
    by_cases hk : (t.kind == TK.kSalience) = true
    · simp only [hk, if_true] at h ⊢
      cases hpc : parseConst d1 rest' with
      | none => simp [hpc, err] at h
      | some rc =>
        simp only [hpc, bind, Except.bind] at h
        cases rc with
        | error er => simp at h
        | ok x =>
          obtain ⟨c, r2⟩ := x
          simp only at h
          cases c with
          | int i =>
            simp only [Except.ok.injEq, Prod.mk.injEq] at h
            rw [hc_some d1 _ _ _ hpc]
            simp only [bind, Except.bind, eC]
            exact ⟨0, by rw [h.2]⟩
          | str s => simp [err] at h
          | float b => simp [err] at h
          | bool b => simp [err] at h
          | nil => simp [err] at h
    · simp only [hk, Bool.false_eq_true, if_false, Except.ok.injEq, Prod.mk.injEq] at h ⊢
      exact ⟨0, rfl, h.2⟩

theorem sim_rule (d1 : Dec) (f : Nat) (ts : List Token) (r : Rule) (rest : List Token)
    (h : parseRule d1 f ts = .ok (r, rest)) : ∃ r', parseRule anyDec f ts = .ok (r', rest) := by
  cases ts with
  | nil => simp [parseRule, err] at h
  | cons r0 ts1 =>
    cases ts1 with
    | nil => simp [parseRule, err] at h
    | cons n rest0 =>
      rw [parseRule_eq] at h ⊢
      by_cases h1 : (r0.kind != TK.kRule) = true
      · simp [h1, err] at h
      · simp only [h1, Bool.false_eq_true, if_false] at h ⊢
        by_cases h2 : (n.kind != TK.name) = true
        · simp [h2, err] at h
        · simp only [h2, Bool.false_eq_true, if_false, bind, Except.bind] at h ⊢
          cases hs : salOf d1 (descPart rest0).2 with
          | error er => simp [hs] at h
          | ok x =>
            obtain ⟨sal, rest2⟩ := x
            simp only [hs] at h
            obtain ⟨sal', hs'⟩ := sim_sal d1 _ sal rest2 hs
            rw [hs']
            exact sim_body d1 f _ _ sal sal' rest2 r rest h

theorem sim_rules (d1 : Dec) (f : Nat) : ∀ (n : Nat) (ts : List Token) (acc acc' : List Rule) (rs : List Rule),
    parseRules d1 f n ts acc = (rs, none) → ∃ rs', parseRules anyDec f n ts acc' = (rs', none)
  | 0, ts, acc, acc', rs, h => by simp [parseRules] at h
  | n + 1, [], acc, acc', rs, _ => ⟨acc', by simp [parseRules]⟩
  | n + 1, t :: ts, acc, acc', rs, h => by
    simp only [parseRules] at h ⊢
    cases hr : parseRule d1 f (t :: ts) with
    | error er => simp [hr] at h
    | ok x =>
      obtain ⟨r, rest⟩ := x
      simp only [hr] at h
      obtain ⟨r', hr'⟩ := sim_rule d1 f (t :: ts) r rest hr
      rw [hr']
      exact sim_rules d1 f n rest _ _ rs h

/-- **grammaticality does not depend on the literal decoder**: a token list any decoder parses without error is parsed
    without error when every literal is accepted -/
theorem parseDoc_any (d1 : Dec) (ts : List Token) (rs : List Rule) (h : parseDoc d1 ts = (rs, none)) :
    (parseDoc anyDec ts).2 = none := by
  unfold parseDoc at h ⊢
  obtain ⟨rs', h'⟩ := sim_rules d1 _ _ ts [] [] rs h
  rw [h']

#print axioms parseDoc_any

end Grule.ParseSim

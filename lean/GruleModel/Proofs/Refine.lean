/-
  R3–R6: actions and the engine loop refine the memo-free loop of `SpecEngine.lean`.
  The one semantic obligation about the invalidation index is isolated as `FrameHyp`
  (an assignment that succeeds leaves the working memory coherent); `Proofs/Frame.lean` discharges
  it from syntactic conditions on the rules.
-/
import GruleModel.Proofs.EvalSound
import GruleModel.SpecEngine
namespace Grule

variable {c : Cfg}

/-- after a successful assignment every value that is still remembered is the from-scratch value on
    the new facts: exactly what `ResetVariable` has to guarantee -/
def FrameHyp (c : Cfg) (targets : Var → Prop) : Prop :=
  ∀ (s s' : EState) (t : Var) (new : Val), targets t → Coh c s → assignVar c s t new = (.ok (), s') → Coh c s'

theorem vis_of_same {s s1 : EState} (h : Same s s1) : s1.vis = s.vis := by
  simp only [EState.vis, h.st, h.retracted, h.complete, h.cancelled]

@[simp] theorem vis_st (s : EState) : s.vis.st = s.st := rfl

-- erasing memo entries keeps coherence ----------------------------------------------------------

theorem snapGet_filter_key {α} (k : Snap) (p : Snap → Bool) (m : List (Snap × α)) (v : α)
    (h : snapGet k (m.filter (fun x => p x.1)) = some v) : p k = true := by
  induction m with
  | nil => simp [snapGet] at h
  | cons x rest ih =>
    obtain ⟨k1, v1⟩ := x
    simp only [List.filter] at h
    cases hp : p k1 with
    | true =>
      simp only [hp, snapGet] at h
      by_cases hk : (k == k1) = true
      · have : k = k1 := by simpa using hk
        subst this; exact hp
      · simp only [hk] at h; exact ih h
    | false =>
      simp only [hp] at h; exact ih h

theorem snapGet_filter_some {α} (k : Snap) (p : Snap → Bool) (m : List (Snap × α)) (v : α)
    (h : snapGet k (m.filter (fun x => p x.1)) = some v) : snapGet k m = some v := by
  induction m with
  | nil => simp [snapGet] at h
  | cons x rest ih =>
    obtain ⟨k1, v1⟩ := x
    simp only [List.filter] at h
    by_cases hk : (k == k1) = true
    · have ek : k = k1 := by simpa using hk
      subst ek
      cases hp : p k with
      | true =>
        simp only [hp, snapGet, hk, if_true] at h
        simp only [snapGet, hk, if_true]; exact h
      | false =>
        simp only [hp] at h
        have := snapGet_filter_key k p rest v h
        rw [hp] at this; cases this
    · cases hp : p k1 with
      | true =>
        simp only [hp, snapGet, hk] at h
        simp only [snapGet, hk]; exact ih h
      | false =>
        simp only [hp] at h
        simp only [snapGet, hk]; exact ih h

theorem memoErase_some (keys : List Snap) (m : Memo) (k : Snap) (v : Val)
    (h : snapGet k (memoErase keys m) = some v) : snapGet k m = some v := by
  unfold memoErase at h
  exact snapGet_filter_some k (fun k => !keys.contains k) m v h

/-- forgetting entries (ResetVariable / Reset / ResetAll) never breaks coherence -/
theorem coh_erase {s : EState} (h : Coh c s) (es as : List Snap) (log : List Ev) :
    Coh c { s with memoE := memoErase es s.memoE, memoA := memoErase as s.memoA, log := log } := by
  constructor
  · intro x v hx hg
    apply h.e x v hx
    unfold memoGetE at hg ⊢
    split at hg
    · rename_i hm; simp only [hm, if_true]; exact memoErase_some es s.memoE _ v hg
    · cases hg
  · intro x v hx hg
    apply h.a x v hx
    unfold memoGetA at hg ⊢
    split at hg
    · rename_i hm; simp only [hm, if_true]; exact memoErase_some as s.memoA _ v hg
    · cases hg
  · intro k v hg
    apply h.ke k v
    unfold memoGetE at hg ⊢
    split at hg
    · rename_i hm; simp only [hm, if_true]; exact memoErase_some es s.memoE _ v hg
    · cases hg
  · intro k v hg
    apply h.ka k v
    unfold memoGetA at hg ⊢
    split at hg
    · rename_i hm; simp only [hm, if_true]; exact memoErase_some as s.memoA _ v hg
    · cases hg

theorem coh_resetVariable {s : EState} (h : Coh c s) (w : WM) (v : Snap) : Coh c (resetVariable w v s) := by
  unfold resetVariable
  exact coh_erase h _ _ _

theorem same_resetVariable (s : EState) (w : WM) (v : Snap) : Same s (resetVariable w v s) :=
  ⟨rfl, rfl, rfl, rfl⟩

theorem coh_resetName {s : EState} (h : Coh c s) (w : WM) (n : String) : Coh c (resetName w n s) := by
  unfold resetName
  dsimp only
  split
  · exact coh_resetVariable (coh_push _ h) w _
  · exact coh_erase h _ _ _

theorem same_resetName (s : EState) (w : WM) (n : String) : Same s (resetName w n s) := by
  unfold resetName
  dsimp only
  split
  · exact (same_push s _).trans (same_resetVariable _ w _)
  · exact ⟨rfl, rfl, rfl, rfl⟩

-- actions -------------------------------------------------------------------------------------------

/-- an action step agrees with the memo-free step on result and visible state, and keeps coherence -/
structure ASound (c : Cfg) (res : R Unit × EState) (spec : R Unit × Vis) : Prop where
  val : res.1 = spec.1
  vis : res.2.vis = spec.2
  coh : Coh c res.2

theorem vis_resetVariable (s : EState) (w : WM) (v : Snap) : (resetVariable w v s).vis = s.vis := rfl

theorem vis_if_reset (c : Cfg) (w : WM) (v : Snap) (s : EState) :
    (if c.memo = true then resetVariable w v s else s).vis = s.vis := by
  split <;> rfl

theorem assignVar_sound (hp : MethodsPure c) (hi : SnapInj) {T : Var → Prop} (hf : FrameHyp c T)
    (s : EState) (t : Var) (new : Val) (ht : T t) (hpv : pureV t = true) (hvv : validV t = true) (hc : Coh c s) :
    ASound c (assignVar c s t new) (specAssign c s.vis t new) := by
  have key : ∀ s', assignVar c s t new = (.ok (), s') → Coh c s' := fun s' h => hf s s' t new ht hc h
  revert key
  cases t with
  | root n =>
    intro key
    simp only [assignVar, specAssign, vis_st]
    cases hw : writeRoot s.st n new with
    | error e => exact ⟨rfl, rfl, hc⟩
    | ok st' =>
      simp only
      refine ⟨rfl, ?_, ?_⟩
      · rw [vis_if_reset]; rfl
      · apply key; simp only [assignVar, hw]
  | field p f =>
    intro key
    have hpp : pureV p = true := by simpa [pureV] using hpv
    have hvp : validV p = true := by simp [validV] at hvv; exact hvv.1
    have ih1 := evalV_sound hp hi p s hpp hvp hc
    simp only [assignVar, specAssign, vis_st]
    generalize hres1 : evalV c s p = res1 at ih1
    obtain ⟨r1, s1⟩ := res1
    have hst1 : s1.st = s.st := ih1.same.st
    cases r1 with
    | error e =>
      have hv : specV c s.st p = .error e := ih1.val.symm
      simp only [hv]
      exact ⟨rfl, vis_of_same ih1.same, ih1.coh⟩
    | ok pv =>
      have hv : specV c s.st p = .ok pv := ih1.val.symm
      simp only [hv, hst1]
      cases hw : writeField c.cells s.st pv f new with
      | error e => exact ⟨rfl, vis_of_same ih1.same, ih1.coh⟩
      | ok st' =>
        simp only
        refine ⟨rfl, ?_, ?_⟩
        · rw [vis_if_reset]
          have h1 : s1.retracted = s.retracted := ih1.same.retracted
          have h2 : s1.complete = s.complete := ih1.same.complete
          have h3 : s1.cancelled = s.cancelled := ih1.same.cancelled
          simp only [EState.vis, h1, h2, h3]
        · apply key; simp only [assignVar, hres1, hst1, hw]
  | index p e =>
    intro key
    have hpp : pureV p = true := by simp [pureV] at hpv; exact hpv.1
    have hpe : pureE e = true := by simp [pureV] at hpv; exact hpv.2
    have hvp : validV p = true := by simp [validV] at hvv; exact hvv.1
    have hve : validE e = true := by simp [validV] at hvv; exact hvv.2
    have ih1 := evalV_sound hp hi p s hpp hvp hc
    simp only [assignVar, specAssign, vis_st]
    generalize hres1 : evalV c s p = res1 at ih1
    obtain ⟨r1, s1⟩ := res1
    have hst1 : s1.st = s.st := ih1.same.st
    cases r1 with
    | error err =>
      have hv : specV c s.st p = .error err := ih1.val.symm
      simp only [hv]
      exact ⟨rfl, vis_of_same ih1.same, ih1.coh⟩
    | ok pv =>
      have hv : specV c s.st p = .ok pv := ih1.val.symm
      simp only [hv]
      have ih2 := evalE_sound hp hi e s1 hpe hve ih1.coh
      rw [hst1] at ih2
      generalize hres2 : evalE c s1 e = res2 at ih2
      obtain ⟨r2, s2⟩ := res2
      have hsame2 : Same s s2 := ih1.same.trans ih2.same
      have hst2 : s2.st = s.st := hsame2.st
      cases r2 with
      | error err =>
        have hv2 : specE c s.st e = .error err := ih2.val.symm
        simp only [hv2]
        exact ⟨rfl, vis_of_same hsame2, ih2.coh⟩
      | ok iv =>
        have hv2 : specE c s.st e = .ok iv := ih2.val.symm
        simp only [hv2, hst2]
        cases hw : writeIndex c.cells s.st pv iv new with
        | error err => exact ⟨rfl, vis_of_same hsame2, ih2.coh⟩
        | ok st' =>
          simp only
          refine ⟨rfl, ?_, ?_⟩
          · rw [vis_if_reset]
            have h1 : s2.retracted = s.retracted := hsame2.retracted
            have h2 : s2.complete = s.complete := hsame2.complete
            have h3 : s2.cancelled = s.cancelled := hsame2.cancelled
            simp only [EState.vis, h1, h2, h3]
          · apply key; simp only [assignVar, hres1, hres2, hst2, hw]

theorem asound_of_sound_err {s : EState} {res : R Val × EState} {spec : R Val} {e : Err} {s1 : EState}
    (h : Sound c s res spec) (hres : res = (.error e, s1)) :
    spec = .error e ∧ s1.vis = s.vis ∧ Coh c s1 := by
  subst hres
  exact ⟨h.val.symm, vis_of_same h.same, h.coh⟩

/-- the state-changing built-ins -/
theorem callBuiltin_effect_sound (s : EState) (f : String) (args : List Val) (hf : isEffectful f = true)
    (hc : Coh c s) :
    (callBuiltin c s f args).1 = (specEffect s.vis f args).1 ∧
    (callBuiltin c s f args).2.vis = (specEffect s.vis f args).2 ∧ Coh c (callBuiltin c s f args).2 := by
  unfold callBuiltin specEffect
  dsimp only
  have hcp : Coh c (s.push (Ev.builtin f args)) := coh_push _ hc
  have hflag : ∀ (r : List String) (b : Bool), Coh c { s.push (Ev.builtin f args) with retracted := r, complete := b } :=
    fun _ _ => ⟨fun x v hx hg => hc.e x v hx hg, fun x v hx hg => hc.a x v hx hg, fun k v hg => hc.ke k v hg, fun k v hg => hc.ka k v hg⟩
  by_cases hany : (args.any (· == .invalid)) = true
  · simp only [hany, if_true]; exact ⟨trivial, rfl, hcp⟩
  · simp only [hany]
    by_cases h1 : (f == "Complete") = true
    · simp only [h1, if_true]
      cases args with
      | nil => exact ⟨rfl, rfl, hflag _ _⟩
      | cons a rest => exact ⟨rfl, rfl, hcp⟩
    · simp only [h1]
      by_cases h2 : (f == "Retract") = true
      · simp only [h2, if_true]
        cases args with
        | nil => exact ⟨rfl, rfl, hcp⟩
        | cons a rest =>
          cases rest with
          | nil => cases a <;> first | exact ⟨rfl, rfl, hcp⟩ | exact ⟨rfl, rfl, hflag _ _⟩
          | cons b r2 => cases a <;> exact ⟨rfl, rfl, hcp⟩
      · simp only [h2]
        have h3 : (f == "Forget" || f == "Changed") = true := by
          simp only [isEffectful] at hf
          simp only [Bool.or_eq_true] at hf ⊢
          rcases hf with ((hf | hf) | hf) | hf
          · exact absurd hf h1
          · exact absurd hf h2
          · left; exact hf
          · right; exact hf
        simp only [h3, if_true]
        have hrn : ∀ n, Coh c (resetName c.wm n (s.push (Ev.builtin f args))) ∧
            (resetName c.wm n (s.push (Ev.builtin f args))).vis = s.vis :=
          fun n => ⟨coh_resetName hcp _ _, vis_of_same ((same_push s _).trans (same_resetName _ _ _))⟩
        cases args with
        | nil => exact ⟨rfl, rfl, hcp⟩
        | cons a rest =>
          cases rest with
          | nil => cases a <;> first | exact ⟨rfl, rfl, hcp⟩ | exact ⟨rfl, (hrn _).2, (hrn _).1⟩
          | cons b r2 => cases a <;> exact ⟨rfl, rfl, hcp⟩

/-- a statement atom without state-changing built-in: evaluated, value dropped -/
theorem stmt_pure (hp : MethodsPure c) (hi : SnapInj) (s : EState) (a : Atom)
    (hw : pureA a = true ∧ validA a = true) (hc : Coh c s)
    (hspec : specAction c s.vis (.stmt a) = (match specA c s.st a with
      | .ok _ => (.ok (), s.vis)
      | .error e => (.error e, s.vis))) :
    ASound c (execAction c s (.stmt a)) (specAction c s.vis (.stmt a)) := by
  rw [hspec]
  have ih := evalA_sound hp hi a s hw.1 hw.2 hc
  simp only [execAction]
  generalize hres : evalA c s a = res at ih
  obtain ⟨r, s1⟩ := res
  cases r with
  | error e =>
    have hv : specA c s.st a = .error e := ih.val.symm
    simp only [hv]
    exact ⟨rfl, vis_of_same ih.same, ih.coh⟩
  | ok v =>
    have hv : specA c s.st a = .ok v := ih.val.symm
    simp only [hv]
    exact ⟨rfl, vis_of_same ih.same, ih.coh⟩

theorem execAction_sound (hp : MethodsPure c) (hi : SnapInj) {T : Var → Prop} (hf : FrameHyp c T)
    (s : EState) (a : Action) (hw : wfAction a = true) (hT : ∀ op t e, a = .assign op t e → T t) (hc : Coh c s) :
    ASound c (execAction c s a) (specAction c s.vis a) := by
  cases a with
  | assign op target rhs =>
    have hT' : T target := hT op target rhs rfl
    simp only [wfAction, Bool.and_eq_true] at hw
    obtain ⟨⟨⟨hpt, hvt⟩, hpe⟩, hve⟩ := hw
    have ih1 := evalE_sound hp hi rhs s hpe hve hc
    simp only [execAction, specAction, vis_st]
    generalize hres1 : evalE c s rhs = res1 at ih1
    obtain ⟨r1, s1⟩ := res1
    have hvis1 : s1.vis = s.vis := vis_of_same ih1.same
    have hst1 : s1.st = s.st := ih1.same.st
    cases r1 with
    | error e =>
      have hv : specE c s.st rhs = .error e := ih1.val.symm
      simp only [hv]
      exact ⟨rfl, hvis1, ih1.coh⟩
    | ok rv =>
      have hv : specE c s.st rhs = .ok rv := ih1.val.symm
      simp only [hv]
      cases hb : op.binop with
      | none =>
        simp only
        have := assignVar_sound hp hi hf s1 target rv hT' hpt hvt ih1.coh
        rw [hvis1] at this
        exact this
      | some bop =>
        simp only
        have ih2 := evalV_sound hp hi target s1 hpt hvt ih1.coh
        rw [hst1] at ih2
        generalize hres2 : evalV c s1 target = res2 at ih2
        obtain ⟨r2, s2⟩ := res2
        have hsame2 : Same s s2 := ih1.same.trans ih2.same
        have hst2 : s2.st = s.st := hsame2.st
        cases r2 with
        | error e =>
          have hv2 : specV c s.st target = .error e := ih2.val.symm
          simp only [hv2]
          exact ⟨rfl, vis_of_same hsame2, ih2.coh⟩
        | ok cur =>
          have hv2 : specV c s.st target = .ok cur := ih2.val.symm
          simp only [hv2, hst2]
          cases hop : evalBinOp c s.st bop cur rv with
          | error e => exact ⟨rfl, vis_of_same hsame2, ih2.coh⟩
          | ok nv =>
            simp only
            have := assignVar_sound hp hi hf s2 target nv hT' hpt hvt ih2.coh
            rw [vis_of_same hsame2] at this
            exact this
  | stmt a =>
    cases a with
    | call f args =>
      simp only [wfAction, Bool.and_eq_true] at hw
      obtain ⟨⟨hpa, hva⟩, hfn⟩ := hw
      simp only [execAction, specAction, evalA, vis_st]
      have ih := evalArgs_sound hp hi args (s.push (.evalA (snapA (.call f args)))) hpa hva (coh_push _ hc)
      simp only [push_st] at ih
      generalize hres : evalArgs c (s.push (.evalA (snapA (.call f args)))) args = res at ih
      obtain ⟨r, s1⟩ := res
      have hsame : Same s s1 := (same_push s _).trans ih.same
      cases hef : isEffectful f with
      | true =>
        simp only [if_true]
        cases r with
        | error e =>
          have hv : specArgs c s.st args = .error e := ih.val.symm
          simp only [hv]
          exact ⟨rfl, vis_of_same hsame, ih.coh⟩
        | ok vs =>
          have hv : specArgs c s.st args = .ok vs := ih.val.symm
          simp only [hv]
          obtain ⟨h1, h2, h3⟩ := callBuiltin_effect_sound (c := c) s1 f vs hef ih.coh
          rw [vis_of_same hsame] at h1 h2
          generalize hcb : callBuiltin c s1 f vs = cb at h1 h2 h3
          obtain ⟨rb, sb⟩ := cb
          generalize hse : specEffect s.vis f vs = se at h1 h2
          obtain ⟨re, ve⟩ := se
          simp only at h1 h2 h3
          subst h1
          cases rb with
          | ok x => exact ⟨rfl, h2, h3⟩
          | error e => exact ⟨rfl, h2, h3⟩
      | false =>
        simp only [Bool.false_eq_true, if_false, specA]
        cases r with
        | error e =>
          have hv : specArgs c s.st args = .error e := ih.val.symm
          simp only [hv]
          exact ⟨rfl, vis_of_same hsame, ih.coh⟩
        | ok vs =>
          have hv : specArgs c s.st args = .ok vs := ih.val.symm
          simp only [hv]
          obtain ⟨h1, h2, h3⟩ := callBuiltin_sound (c := c) s1 f vs hef ih.coh
          rw [hsame.st] at h1
          generalize hcb : callBuiltin c s1 f vs = cb at h1 h2 h3
          obtain ⟨rb, sb⟩ := cb
          simp only at h1 h2 h3
          rw [← h1]
          cases rb with
          | ok x => exact ⟨rfl, vis_of_same (hsame.trans h2), h3⟩
          | error e => exact ⟨rfl, vis_of_same (hsame.trans h2), h3⟩
    | const k => exact stmt_pure hp hi s (.const k) (by simpa [wfAction] using hw) hc rfl
    | var v => exact stmt_pure hp hi s (.var v) (by simpa [wfAction] using hw) hc rfl
    | neg a => exact stmt_pure hp hi s (.neg a) (by simpa [wfAction] using hw) hc rfl
    | meth r f as => exact stmt_pure hp hi s (.meth r f as) (by simpa [wfAction] using hw) hc rfl
    | member r n => exact stmt_pure hp hi s (.member r n) (by simpa [wfAction] using hw) hc rfl
    | sel r i => exact stmt_pure hp hi s (.sel r i) (by simpa [wfAction] using hw) hc rfl

theorem execActions_sound (hp : MethodsPure c) (hi : SnapInj) {T : Var → Prop} (hf : FrameHyp c T) :
    ∀ (acts : List Action) (s : EState) (i : Nat),
      (∀ a ∈ acts, wfAction a = true ∧ ∀ op t e, a = .assign op t e → T t) → Coh c s →
      ASound c (execActions c s i acts) (specActions c s.vis acts)
  | [], s, i, _, hc => by
    simp only [execActions, specActions]
    exact ⟨rfl, rfl, hc⟩
  | a :: rest, s, i, hw, hc => by
    simp only [execActions, specActions]
    have ha := hw a (by simp)
    have ih := execAction_sound hp hi hf (s.push (.actionStart i)) a ha.1 ha.2 (coh_push _ hc)
    have hv0 : (s.push (Ev.actionStart i)).vis = s.vis := rfl
    rw [hv0] at ih
    generalize hres : execAction c (s.push (.actionStart i)) a = res at ih
    obtain ⟨r, s1⟩ := res
    generalize hsp : specAction c s.vis a = sp at ih
    obtain ⟨r', v1⟩ := sp
    have h1 : r = r' := ih.val
    have h2 : s1.vis = v1 := ih.vis
    subst h1
    cases r with
    | error e => exact ⟨rfl, h2, ih.coh⟩
    | ok u =>
      simp only
      have := execActions_sound hp hi hf rest s1 (i + 1) (fun b hb => hw b (by simp [hb])) ih.coh
      rw [h2] at this
      exact this

-- the loop ---------------------------------------------------------------------------------------------

/-- the engine's loop state and the memo-free loop state show the same thing -/
structure LRel (c : Cfg) (ls : LoopState) (ss : SState) : Prop where
  vis : ls.es.vis = ss.vis
  polls : ls.polls = ss.polls
  passes : ls.passes = ss.passes
  trace : ls.trace = ss.trace
  coh : Coh c ls.es

theorem lrel_emit {ls : LoopState} {ss : SState} (h : LRel c ls ss) (e : TEv) : LRel c (ls.emit e) (ss.emit e) :=
  ⟨h.vis, h.polls, h.passes, by simp only [LoopState.emit, SState.emit, h.trace], h.coh⟩

theorem poll_sound (rc : RunCfg) {ls : LoopState} {ss : SState} (h : LRel c ls ss) :
    (poll rc ls).1 = (specPoll rc ss).1 ∧ LRel c (poll rc ls).2 (specPoll rc ss).2 := by
  unfold poll specPoll
  have hc : ls.es.cancelled = ss.vis.cancelled := by rw [← h.vis]; rfl
  simp only [hc, h.polls, h.trace]
  exact ⟨rfl, ⟨h.vis, rfl, h.passes, rfl, h.coh⟩⟩

theorem isRetracted_vis (es : EState) (e : RuleEntry) : isRetracted es e = visRetracted es.vis e := rfl

theorem evalCond_sound (hp : MethodsPure c) (hi : SnapInj) (es : EState) (e : RuleEntry)
    (hw : pureE e.rule.cond = true ∧ validE e.rule.cond = true) (hc : Coh c es) :
    (evalCond c es e).1 = specCond c es.vis e ∧ (evalCond c es e).2.vis = es.vis ∧ Coh c (evalCond c es e).2 := by
  unfold evalCond specCond
  rw [isRetracted_vis]
  split
  · exact ⟨rfl, rfl, hc⟩
  · have ih := evalE_sound hp hi e.rule.cond es hw.1 hw.2 hc
    generalize hres : evalE c es e.rule.cond = res at ih
    obtain ⟨r, es'⟩ := res
    have hv : specE c es.st e.rule.cond = r := ih.val.symm
    simp only [vis_st, hv]
    have hvis : es'.vis = es.vis := vis_of_same ih.same
    cases r with
    | ok v => cases v <;> exact ⟨rfl, hvis, ih.coh⟩
    | error err => cases err <;> exact ⟨rfl, hvis, ih.coh⟩

/-- what the rule entries must satisfy -/
def WFEntries (entries : List RuleEntry) : Prop := ∀ e ∈ entries, wfRule e.rule = true

/-- the assignment targets occurring in the rules -/
def Targets (entries : List RuleEntry) (t : Var) : Prop :=
  ∃ e ∈ entries, ∃ op rhs, Action.assign op t rhs ∈ e.rule.acts

theorem evalPass_sound (hp : MethodsPure c) (hi : SnapInj) (rc : RunCfg) (cyc : Nat) :
    ∀ (es : List RuleEntry) (ls : LoopState) (ss : SState) (acc : List RuleEntry),
      WFEntries es → LRel c ls ss →
      (evalPass rc c cyc es ls acc).1 = (specPass rc c cyc es ss acc).1 ∧
      LRel c (evalPass rc c cyc es ls acc).2.1 (specPass rc c cyc es ss acc).2.1 ∧
      (evalPass rc c cyc es ls acc).2.2 = (specPass rc c cyc es ss acc).2.2
  | [], ls, ss, acc, _, h => by
    simp only [evalPass, specPass]
    exact ⟨trivial, h, trivial⟩
  | e :: rest, ls, ss, acc, hw, h => by
    have hwr : WFEntries rest := fun x hx => hw x (by simp [hx])
    have hwe : pureE e.rule.cond = true ∧ validE e.rule.cond = true := by
      have := hw e (by simp)
      simp only [wfRule, Bool.and_eq_true] at this
      exact ⟨this.1.1, this.1.2⟩
    simp only [evalPass, specPass]
    obtain ⟨hp1, hl1⟩ := poll_sound rc h
    generalize poll rc ls = p1 at hp1 hl1
    obtain ⟨b1, ls1⟩ := p1
    generalize specPoll rc ss = q1 at hp1 hl1
    obtain ⟨b1', ss1⟩ := q1
    simp only at hp1 hl1
    subst hp1
    simp only
    cases b1 with
    | true => simp only [if_true]; exact ⟨trivial, hl1, trivial⟩
    | false =>
      simp only [Bool.false_eq_true, if_false]
      have hret : isRetracted ls1.es e = visRetracted ss1.vis e := by rw [isRetracted_vis, hl1.vis]
      rw [hret]
      cases hskip : (visRetracted ss1.vis e || e.deleted) with
      | true => simp only [if_true]; exact evalPass_sound hp hi rc cyc rest ls1 ss1 acc hwr hl1
      | false =>
        simp only [Bool.false_eq_true, if_false]
        obtain ⟨hp2, hl2⟩ := poll_sound rc hl1
        generalize poll rc ls1 = p2 at hp2 hl2
        obtain ⟨b2, ls2⟩ := p2
        generalize specPoll rc ss1 = q2 at hp2 hl2
        obtain ⟨b2', ss2⟩ := q2
        simp only at hp2 hl2
        subst hp2
        simp only
        cases b2 with
        | true =>
          simp only [if_true]
          cases rc.retErr with
          | true => simp only [if_true]; exact ⟨trivial, hl2, trivial⟩
          | false =>
            simp only [Bool.false_eq_true, if_false]
            exact evalPass_sound hp hi rc cyc rest _ _ acc hwr (lrel_emit hl2 _)
        | false =>
          simp only [Bool.false_eq_true, if_false]
          obtain ⟨hc1, hc2, hc3⟩ := evalCond_sound hp hi ls2.es e hwe hl2.coh
          rw [hl2.vis] at hc1 hc2
          generalize evalCond c ls2.es e = cr at hc1 hc2 hc3
          obtain ⟨r, es'⟩ := cr
          simp only at hc1 hc2 hc3
          subst hc1
          have hl3 : LRel c { ls2 with es := es' } ss2 := ⟨hc2, hl2.polls, hl2.passes, hl2.trace, hc3⟩
          cases hsc : specCond c ss2.vis e with
          | unmodelled m => exact ⟨rfl, hl3, rfl⟩
          | failed =>
            simp only
            cases rc.retErr with
            | true => simp only [if_true]; exact ⟨trivial, hl3, trivial⟩
            | false =>
              simp only [Bool.false_eq_true, if_false]
              exact evalPass_sound hp hi rc cyc rest _ _ acc hwr (lrel_emit hl3 _)
          | cand b =>
            simp only
            exact evalPass_sound hp hi rc cyc rest _ _ _ hwr (lrel_emit hl3 _)

theorem specPass_acc_mem (rc : RunCfg) (cyc : Nat) :
    ∀ (es : List RuleEntry) (ss : SState) (acc : List RuleEntry) (x : RuleEntry),
      x ∈ (specPass rc c cyc es ss acc).2.2 → x ∈ acc ∨ x ∈ es
  | [], ss, acc, x, h => by simp only [specPass] at h; exact Or.inl h
  | e :: rest, ss, acc, x, h => by
    simp only [specPass] at h
    have lift : ∀ {ss' acc'}, x ∈ (specPass rc c cyc rest ss' acc').2.2 → (∀ y ∈ acc', y ∈ acc ∨ y = e) →
        x ∈ acc ∨ x ∈ e :: rest := by
      intro ss' acc' hx hacc
      rcases specPass_acc_mem rc cyc rest ss' acc' x hx with h1 | h1
      · rcases hacc x h1 with h2 | h2
        · exact Or.inl h2
        · exact Or.inr (by simp [h2])
      · exact Or.inr (by simp [h1])
    have hid : ∀ y ∈ acc, y ∈ acc ∨ y = e := fun y hy => Or.inl hy
    split at h
    · exact Or.inl h
    · split at h
      · exact lift h hid
      · split at h
        · split at h
          · exact Or.inl h
          · exact lift h hid
        · split at h
          · exact Or.inl h
          · split at h
            · exact Or.inl h
            · exact lift h hid
          · rename_i b _
            apply lift h
            intro y hy
            cases b with
            | true =>
              simp only [if_true, List.mem_append, List.mem_singleton] at hy
              exact hy
            | false => exact Or.inl (by simpa using hy)

theorem orderEntries_mem (o : Option (List String)) (entries : List RuleEntry) (x : RuleEntry)
    (h : x ∈ orderEntries o entries) : x ∈ entries := by
  unfold orderEntries at h
  cases o with
  | none => exact h
  | some ks =>
    simp only [List.mem_append, List.mem_filterMap, List.mem_filter] at h
    rcases h with ⟨k, _, hk⟩ | ⟨h1, _⟩
    · exact List.mem_of_find?_eq_some hk
    · exact h1

theorem pickRunner_mem (r : RuleEntry) (rs : List RuleEntry) : pickRunner r rs ∈ r :: rs := by
  induction rs generalizing r with
  | nil => simp [pickRunner]
  | cons p rest ih =>
    unfold pickRunner
    split
    · have := ih p
      simp only [List.mem_cons] at this ⊢
      rcases this with h | h
      · right; left; exact h
      · right; right; exact h
    · have := ih r
      simp only [List.mem_cons] at this ⊢
      rcases this with h | h
      · left; exact h
      · right; right; exact h

/-- R6: the engine loop (with its working memory) and the memo-free loop produce the same outcome,
    listener trace, poll count and facts -/
theorem runLoop_sound (hp : MethodsPure c) (hi : SnapInj) (rc : RunCfg) (entries : List RuleEntry)
    (hw : WFEntries entries) (hf : FrameHyp c (Targets entries)) :
    ∀ (fuel cycle : Nat) (ls : LoopState) (ss : SState), LRel c ls ss →
      (runLoop rc c entries fuel cycle ls).1 = (specLoop rc c entries fuel cycle ss).1 ∧
      LRel c (runLoop rc c entries fuel cycle ls).2 (specLoop rc c entries fuel cycle ss).2
  | 0, cycle, ls, ss, h => by
    simp only [runLoop, specLoop]
    exact ⟨trivial, h⟩
  | fuel + 1, cycle, ls, ss, h => by
    simp only [runLoop, specLoop]
    obtain ⟨hp1, hl1⟩ := poll_sound rc h
    generalize poll rc ls = p1 at hp1 hl1
    obtain ⟨b1, ls1⟩ := p1
    generalize specPoll rc ss = q1 at hp1 hl1
    obtain ⟨b1', ss1⟩ := q1
    simp only at hp1 hl1
    subst hp1
    simp only
    cases b1 with
    | true => simp only [if_true]; exact ⟨trivial, hl1⟩
    | false =>
      simp only [Bool.false_eq_true, if_false]
      have hpass : (ls1.emit (TEv.begin (cycle + 1))).passes = (ss1.emit (TEv.begin (cycle + 1))).passes := hl1.passes
      have hl2 : LRel c { ls1.emit (TEv.begin (cycle + 1)) with passes := (ls1.emit (TEv.begin (cycle + 1))).passes + 1 }
          { ss1.emit (TEv.begin (cycle + 1)) with passes := (ss1.emit (TEv.begin (cycle + 1))).passes + 1 } :=
        ⟨hl1.vis, hl1.polls, by simp only [hpass], (lrel_emit hl1 _).trace, hl1.coh⟩
      have hordeq : orderEntries (rc.order (ls1.emit (TEv.begin (cycle + 1))).passes) entries =
          orderEntries (rc.order (ss1.emit (TEv.begin (cycle + 1))).passes) entries := by rw [hpass]
      rw [hordeq]
      generalize hord : orderEntries (rc.order (ss1.emit (TEv.begin (cycle + 1))).passes) entries = ord
      generalize ({ ls1.emit (TEv.begin (cycle + 1)) with passes := (ls1.emit (TEv.begin (cycle + 1))).passes + 1 } : LoopState) = L at hl2
      generalize ({ ss1.emit (TEv.begin (cycle + 1)) with passes := (ss1.emit (TEv.begin (cycle + 1))).passes + 1 } : SState) = S at hl2
      have hordw : WFEntries ord := fun x hx => hw x (orderEntries_mem _ _ x (by rw [hord]; exact hx))
      obtain ⟨he1, he2, he3⟩ := evalPass_sound hp hi rc (cycle + 1) ord L S [] hordw hl2
      have hmem := specPass_acc_mem (c := c) rc (cycle + 1) ord S []
      generalize evalPass rc c (cycle + 1) ord L [] = ep at he1 he2 he3
      obtain ⟨o1, ls3, acc1⟩ := ep
      generalize specPass rc c (cycle + 1) ord S [] = sp at he1 he2 he3 hmem
      obtain ⟨o2, ss3, acc2⟩ := sp
      simp only at he1 he2 he3 hmem
      subst he1; subst he3
      cases o1 with
      | some out => exact ⟨rfl, he2⟩
      | none =>
        simp only
        obtain ⟨hp0, hl0⟩ := poll_sound rc he2
        generalize poll rc ls3 = p0 at hp0 hl0
        obtain ⟨b0, ls3⟩ := p0
        generalize specPoll rc ss3 = q0 at hp0 hl0
        obtain ⟨b0', ss3⟩ := q0
        simp only at hp0 hl0
        subst hp0
        simp only
        have he2 := hl0
        cases b0 with
        | true => simp only [if_true]; exact ⟨trivial, he2⟩
        | false =>
        simp only [Bool.false_eq_true, if_false]
        cases acc1 with
        | nil => exact ⟨rfl, he2⟩
        | cons r0 rs =>
          simp only
          by_cases hlim : cycle + 1 > rc.maxCycle
          · simp only [hlim, if_true]; exact ⟨trivial, he2⟩
          · simp only [hlim, if_false]
            have hrun_mem : pickRunner r0 rs ∈ entries := by
              have h1 := pickRunner_mem r0 rs
              rcases hmem _ h1 with h2 | h2
              · cases h2
              · exact orderEntries_mem _ _ _ (by rw [hord]; exact h2)
            have hl4' := lrel_emit he2 (TEv.exec (cycle + 1) (pickRunner r0 rs).rule.name)
            have hl4 : LRel c (ls3.emit (TEv.exec (cycle + 1) (pickRunner r0 rs).rule.name))
                { ss3.emit (TEv.exec (cycle + 1) (pickRunner r0 rs).rule.name) with
                  fired := (cycle + 1, pickRunner r0 rs, ss3.vis) :: ss3.fired } :=
              ⟨hl4'.vis, hl4'.polls, hl4'.passes, hl4'.trace, hl4'.coh⟩
            obtain ⟨hp5, hl5⟩ := poll_sound rc hl4
            generalize poll rc (ls3.emit (TEv.exec (cycle + 1) (pickRunner r0 rs).rule.name)) = p5 at hp5 hl5
            obtain ⟨b5, ls5⟩ := p5
            generalize specPoll rc { ss3.emit (TEv.exec (cycle + 1) (pickRunner r0 rs).rule.name) with
                  fired := (cycle + 1, pickRunner r0 rs, ss3.vis) :: ss3.fired } = q5 at hp5 hl5
            obtain ⟨b5', ss5⟩ := q5
            simp only at hp5 hl5
            subst hp5
            simp only
            cases b5 with
            | true => simp only [if_true]; exact ⟨trivial, hl5⟩
            | false =>
              simp only [Bool.false_eq_true, if_false]
              have hwf : wfRule (pickRunner r0 rs).rule = true := hw _ hrun_mem
              have hacts : ∀ a ∈ (pickRunner r0 rs).rule.acts, wfAction a = true ∧
                  ∀ op t e, a = .assign op t e → Targets entries t := by
                intro a ha
                simp only [wfRule, Bool.and_eq_true, List.all_eq_true] at hwf
                refine ⟨hwf.2 a ha, ?_⟩
                intro op t e hae
                exact ⟨pickRunner r0 rs, hrun_mem, op, e, by rw [← hae]; exact ha⟩
              have hx := execActions_sound hp hi hf (pickRunner r0 rs).rule.acts ls5.es 0 hacts hl5.coh
              rw [hl5.vis] at hx
              generalize execActions c ls5.es 0 (pickRunner r0 rs).rule.acts = ea at hx
              obtain ⟨ra, esa⟩ := ea
              generalize specActions c ss5.vis (pickRunner r0 rs).rule.acts = sa at hx
              obtain ⟨ra', va⟩ := sa
              have hx1 : ra = ra' := hx.val
              have hx2 : esa.vis = va := hx.vis
              subst hx1
              have hl6 : LRel c { ls5 with es := esa } { ss5 with vis := va } :=
                ⟨hx2, hl5.polls, hl5.passes, hl5.trace, hx.coh⟩
              cases ra with
              | error err => cases err <;> exact ⟨rfl, hl6⟩
              | ok u =>
                simp only
                have hcomp : esa.complete = va.complete := by rw [← hx2]; rfl
                rw [hcomp]
                cases va.complete with
                | true => simp only [if_true]; exact ⟨trivial, hl6⟩
                | false =>
                  simp only [Bool.false_eq_true, if_false]
                  exact runLoop_sound hp hi rc entries hw hf fuel (cycle + 1) _ _ hl6

theorem coh_empty (s : EState) (h1 : s.memoE = []) (h2 : s.memoA = []) : Coh c s := by
  constructor
  · intro x v _ hg
    unfold memoGetE at hg
    rw [h1] at hg
    split at hg <;> simp [snapGet] at hg
  · intro x v _ hg
    unfold memoGetA at hg
    rw [h2] at hg
    split at hg <;> simp [snapGet] at hg
  · intro k v hg
    unfold memoGetE at hg
    rw [h1] at hg
    split at hg <;> simp [snapGet] at hg
  · intro k v hg
    unfold memoGetA at hg
    rw [h2] at hg
    split at hg <;> simp [snapGet] at hg

/-- without memoisation there is nothing to keep coherent -/
theorem coh_memo_off (hm : c.memo = false) (s : EState) : Coh c s := by
  constructor
  · intro x v _ hg; simp [memoGetE, hm] at hg
  · intro x v _ hg; simp [memoGetA, hm] at hg
  · intro k v hg; simp [memoGetE, hm] at hg
  · intro k v hg; simp [memoGetA, hm] at hg

theorem frameHyp_memo_off (hm : c.memo = false) (T : Var → Prop) : FrameHyp c T :=
  fun _ s' _ _ _ _ _ => coh_memo_off hm s'

/-- **Refinement theorem.** `ExecuteWithContext` on an instance — whatever its working memory remembers
    from earlier calls — produces the outcome, listener trace, poll count and final facts of the
    memo-free reference loop, for every rule set satisfying the side conditions, every fact state,
    MaxCycle, order oracle and cancellation point. -/
theorem execute_refines (hp : MethodsPure c) (hi : SnapInj) (rc : RunCfg) (inst : Instance) (st : Store)
    (hw : WFEntries inst.entries) (hf : FrameHyp c (Targets inst.entries)) :
    (execute rc c inst st).outcome = (specExecute rc c inst.entries st).outcome ∧
    (execute rc c inst st).trace = (specExecute rc c inst.entries st).trace ∧
    (execute rc c inst st).store = (specExecute rc c inst.entries st).store ∧
    (execute rc c inst st).polls = (specExecute rc c inst.entries st).polls ∧
    (execute rc c inst st).inst.retracted = (specExecute rc c inst.entries st).retracted := by
  unfold execute specExecute
  dsimp only
  have h0 : LRel c { es := resetAll { st := st, memoE := inst.memoE, memoA := inst.memoA, retracted := [] } }
      { vis := { st := st } } :=
    ⟨rfl, rfl, rfl, rfl, coh_empty _ rfl rfl⟩
  obtain ⟨h1, h2⟩ := runLoop_sound hp hi rc inst.entries hw hf (rc.maxCycle + 1) 0 _ _ h0
  generalize runLoop rc c inst.entries (rc.maxCycle + 1) 0
    { es := resetAll { st := st, memoE := inst.memoE, memoA := inst.memoA, retracted := [] } } = rl at h1 h2
  obtain ⟨o, ls⟩ := rl
  generalize specLoop rc c inst.entries (rc.maxCycle + 1) 0 { vis := { st := st } } = sl at h1 h2
  obtain ⟨o', ss⟩ := sl
  simp only at h1 h2
  subst h1
  have hv := h2.vis
  refine ⟨rfl, by simp only [h2.trace], ?_, h2.polls, ?_⟩
  · show ls.es.st = ss.vis.st
    rw [← hv]; rfl
  · show ls.es.retracted = ss.vis.retracted
    rw [← hv]; rfl

end Grule

/-
  All six comparison operators of the canonical tables evaluate through one "common view" of the two
  operands (the pair brought to a common Go type); consistency of the operators then is a property of
  the order on that carrier.
-/
import GruleModel.ArithExpected
namespace Grule
open Grule.Expected

/-- two operands of one family brought to a common Go type -/
inductive Common
  | i (a b : Int)        -- int64
  | u (a b : Nat)        -- uint64
  | f (a b : UInt64)     -- float64 (bit patterns)
  | s (a b : String)
  | b (a b : Bool)
  | t (a b : TimeV)
  deriving Repr

def Common.swap : Common → Common
  | .i x y => .i y x | .u x y => .u y x | .f x y => .f y x | .s x y => .s y x | .b x y => .b y x | .t x y => .t y x

/-- the common view of two values of the same family (none across families) -/
def common? : Val → Val → Option Common
  | .int _ a, .int _ b => some (.i a b)
  | .int _ a, .uint _ b => some (.i a (wrapI64 b))
  | .int _ a, .float _ b => some (.f (f64OfInt a) b)
  | .uint _ a, .int _ b => some (.i (wrapI64 a) b)
  | .uint _ a, .uint _ b => some (.u a b)
  | .uint _ a, .float _ b => some (.f (f64OfNat a) b)
  | .float _ a, .int _ b => some (.f a (f64OfInt b))
  | .float _ a, .uint _ b => some (.f a (f64OfNat b))
  | .float _ a, .float _ b => some (.f a b)
  | .str a, .str b => some (.s a b)
  | .bool a, .bool b => some (.b a b)
  | .time a, .time b => some (.t a b)
  | _, _ => none

theorem common_swap (l r : Val) : common? r l = (common? l r).map Common.swap := by
  cases l <;> cases r <;> rfl

/-- the ordered operators on a common view -/
def primOn (p : Prim) (t : TExp) : Common → R Val
  | .i x y => primI p x y
  | .u x y => primU p x y
  | .f x y => primF p x y
  | .s x y => primS p x y
  | .b x y => primB p x y
  | .t x y => .ok (.bool (t.eval x y))

/-- is the pair in an ordered family (everything but booleans)? -/
def Common.ordered : Common → Bool
  | .b _ _ => false
  | _ => true

set_option maxHeartbeats 1000000 in
theorem ordered_eval (p : Prim) (t : TExp) (l r : Val) (c : Common) (h : common? l r = some c) (ho : c.ordered = true) :
    evalTable (Expected.ordered p t) l r = primOn p t c := by
  cases l <;> cases r <;> simp only [common?, Option.some.injEq, reduceCtorEq] at h <;> subst h
  all_goals first
    | (rename_i k1 _ k2 _; cases k1 <;> cases k2 <;> rfl)
    | rfl
    | (simp [Common.ordered] at ho)

set_option maxHeartbeats 1000000 in
theorem equality_eval (p : Prim) (t : TExp) (l r : Val) (c : Common) (h : common? l r = some c) :
    evalTable (Expected.equality p t) l r = primOn p t c := by
  cases l <;> cases r <;> simp only [common?, Option.some.injEq, reduceCtorEq] at h <;> subst h
  all_goals first
    | (rename_i k1 _ k2 _; cases k1 <;> cases k2 <;> rfl)
    | rfl

end Grule

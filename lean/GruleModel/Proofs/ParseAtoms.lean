/-
  R10 for whole expressions: the atom chains (constants, variables with member/selector tails, built-in calls,
  method calls, members, selectors, negation, argument lists) are read back too, so `AtomsOK` of
  `Proofs/ParseGroup.lean` holds for the concrete token printer, and

      parseExpr (tokens of e ++ rest) = (e, rest)        for every well-formed e

  Literal *texts* stay abstract: `cT c` is any token sequence the literal decoder maps back to `c` (`ConstOK`);
  identifiers are the `name` tokens of their own characters.
-/
import GruleModel.Proofs.ParseGroup
namespace Grule.ParseAtoms
open Grule Grule.Syntax Grule.ParseGroup

def nameTok (s : String) : Token := ⟨.name, s.toList⟩

theorem nameTok_text (s : String) : String.ofList (nameTok s).text = s := by
  simp [nameTok, String.ofList_toList]

variable (d : Dec) (cT : Const → List Token) (ot : BinOp → List Char) (P : Const → Prop)

-- token printer ----------------------------------------------------------------------------------------------------

mutual
  def fE : Expr → List Token
    | .bin op l r => fE l ++ (opTok op (ot op) :: fE r)
    | .paren neg e => (if neg then [tk .bang] else []) ++ (tk .lparen :: (fE e ++ [tk .rparen]))
    | .atom a => fA a
  def fA : Atom → List Token
    | .const c => cT c
    | .var v => fV v
    | .call f args => nameTok f :: tk .lparen :: (fArgs args ++ [tk .rparen])
    | .meth recv f args => fA recv ++ (tk .dot :: nameTok f :: tk .lparen :: (fArgs args ++ [tk .rparen]))
    | .member recv n => fA recv ++ [tk .dot, nameTok n]
    | .sel recv idx => fA recv ++ (tk .lsq :: (fE idx ++ [tk .rsq]))
    | .neg a => tk .bang :: fA a
  def fV : Var → List Token
    | .root n => [nameTok n]
    | .field v n => fV v ++ [tk .dot, nameTok n]
    | .index v e => fV v ++ (tk .lsq :: (fE e ++ [tk .rsq]))
  /-- arguments, without the brackets: `e1 , e2 , …` -/
  def fArgs : Args → List Token
    | .nil => []
    | .cons e rest => fE e ++ fMore rest
  /-- `, e2 , e3 …` -/
  def fMore : Args → List Token
    | .nil => []
    | .cons e rest => tk .comma :: (fE e ++ fMore rest)
end

-- fuel ---------------------------------------------------------------------------------------------------------------

mutual
  def nE : Expr → Nat
    | .bin _ l r => nE l + nE r + 4
    | .paren _ e => nE e + 4
    | .atom a => nA a + 3
  def nA : Atom → Nat
    | .const _ => 3
    | .var v => nV v + 3
    | .call _ args => nArgs args + 4
    | .meth recv _ args => nA recv + nArgs args + 4
    | .member recv _ => nA recv + 3
    | .sel recv idx => nA recv + nE idx + 5
    | .neg a => nA a + 2
  def nV : Var → Nat
    | .root _ => 2
    | .field v _ => nV v + 2
    | .index v e => nV v + nE e + 5
  def nArgs : Args → Nat
    | .nil => 2
    | .cons e rest => nE e + nArgs rest + 4
end

theorem need_eq : (e : Expr) → need nA e = nE e
  | .bin op l r => by simp only [need, nE, need_eq l, need_eq r]
  | .paren neg e => by simp only [need, nE, need_eq e]
  | .atom a => by simp only [need, nE]

theorem flat_eq : (e : Expr) → flatE (fA cT ot) ot e = fE cT ot e
  | .bin op l r => by simp only [flatE, fE, flat_eq l, flat_eq r]
  | .paren neg e => by simp only [flatE, fE, flat_eq e]
  | .atom a => by simp only [flatE, fE]

-- well-formedness: the shapes the parser produces -------------------------------------------------------------------

def isVar : Atom → Bool
  | .var _ => true
  | _ => false

def isNeg : Atom → Bool
  | .neg _ => true
  | _ => false

mutual
  def WFE : Expr → Prop
    | .bin op l r => WFE l ∧ WFE r ∧ prec op ≤ level l ∧ prec op < level r
    | .paren _ e => WFE e
    | .atom a => WFA a
  /-- negation only outermost; a member or selector of a plain variable is part of the variable -/
  def WFA : Atom → Prop
    | .const c => P c
    | .var v => WFV v
    | .call _ args => WFArgs args
    | .meth recv _ args => WFA recv ∧ isNeg recv = false ∧ WFArgs args
    | .member recv _ => WFA recv ∧ isNeg recv = false ∧ isVar recv = false
    | .sel recv idx => WFA recv ∧ isNeg recv = false ∧ isVar recv = false ∧ WFE idx
    | .neg a => WFA a
  def WFV : Var → Prop
    | .root _ => True
    | .field v _ => WFV v
    | .index v e => WFV v ∧ WFE e
  def WFArgs : Args → Prop
    | .nil => True
    | .cons e rest => WFE e ∧ WFArgs rest
end

theorem WG_of_WFE : (e : Expr) → WFE P e → WG e
  | .bin op l r => by intro h; simp only [WFE] at h; exact ⟨WG_of_WFE l h.1, WG_of_WFE r h.2.1, h.2.2.1, h.2.2.2⟩
  | .paren neg e => by intro h; simp only [WFE] at h; exact WG_of_WFE e h
  | .atom a => by intro _; trivial

-- constants: any tokens the literal decoder maps back --------------------------------------------------------------------

/-- the tokens of every admitted constant (`P`) are read back as that constant, whatever follows -/
def ConstOK : Prop := ∀ c, P c → ∀ rest, parseConst d (cT c ++ rest) = some (.ok (c, rest))

/-- head kinds that can start a constant -/
def constHead : TK → Bool
  | .dq | .sq | .kTrue | .kFalse | .kNil | .minus | .dec | .hex | .oct | .decFloat | .hexFloat => true
  | _ => false

theorem parseConst_head (t : Token) (rest : List Token) (x : Except PErr (Const × List Token))
    (h : parseConst d (t :: rest) = some x) : constHead t.kind = true := by
  cases hk : t.kind <;> simp_all [parseConst, constHead, isNumTok]

theorem const_tokens (hc : ConstOK d cT P) (c : Const) (hp : P c) : ∃ t rest, cT c = t :: rest ∧ constHead t.kind = true := by
  have h := hc c hp []
  cases hct : cT c with
  | nil => simp [hct, parseConst] at h
  | cons t rest =>
    refine ⟨t, rest, rfl, ?_⟩
    rw [hct, List.append_nil] at h
    exact parseConst_head d t rest _ h

-- heads ---------------------------------------------------------------------------------------------------------------

/-- first token of an atom: never a bracket, comma or closing token; `!` only for a negation -/
def goodHead (k : TK) : Prop := k ≠ .lparen ∧ k ≠ .rparen ∧ k ≠ .comma ∧ k ≠ .rsq ∧ k ≠ .dot ∧ k ≠ .lsq ∧ k ≠ .rbrace ∧ k ≠ .semi

theorem constHead_good (k : TK) (h : constHead k = true) : goodHead k ∧ k ≠ .bang ∧ k ≠ .name := by
  cases k <;> simp_all [constHead, goodHead]

theorem fV_head : (v : Var) → ∃ rest, fV cT ot v = nameTok (match v with | .root n => n | _ => "") :: rest ∨ ∃ n rest', fV cT ot v = nameTok n :: rest'
  | .root n => ⟨[], Or.inl rfl⟩
  | .field v n => by
    obtain ⟨r, h⟩ := fV_head v
    rcases h with h | ⟨m, r', h⟩
    · exact ⟨[], Or.inr ⟨_, _, by simp only [fV, h]; rfl⟩⟩
    · exact ⟨[], Or.inr ⟨m, r' ++ [tk .dot, nameTok n], by simp only [fV, h]; rfl⟩⟩
  | .index v e => by
    obtain ⟨r, h⟩ := fV_head v
    rcases h with h | ⟨m, r', h⟩
    · exact ⟨[], Or.inr ⟨_, _, by simp only [fV, h]; rfl⟩⟩
    · exact ⟨[], Or.inr ⟨m, r' ++ (tk .lsq :: (fE cT ot e ++ [tk .rsq])), by simp only [fV, h]; rfl⟩⟩

theorem fV_name (v : Var) : ∃ n rest, fV cT ot v = nameTok n :: rest := by
  obtain ⟨r, h⟩ := fV_head cT ot v
  rcases h with h | h
  · exact ⟨_, _, h⟩
  · exact h

/-- head of a negation-free atom: a good head that is not `!` -/
theorem fA_head_core (hc : ConstOK d cT P) : (a : Atom) → WFA P a → isNeg a = false → ∃ t rest, fA cT ot a = t :: rest ∧ goodHead t.kind ∧ t.kind ≠ .bang
  | .const c => by
    intro hw _
    have hp : P c := by simpa only [WFA] using hw
    obtain ⟨t, rest, h, hk⟩ := const_tokens d cT P hc c hp
    exact ⟨t, rest, by simp only [fA, h], (constHead_good _ hk).1, (constHead_good _ hk).2.1⟩
  | .var v => by
    intro _ _
    obtain ⟨n, rest, h⟩ := fV_name cT ot v
    exact ⟨nameTok n, rest, by simp only [fA, h], by simp [goodHead, nameTok], by simp [nameTok]⟩
  | .call f args => by
    intro _ _
    exact ⟨nameTok f, _, rfl, by simp [goodHead, nameTok], by simp [nameTok]⟩
  | .meth recv f args => by
    intro hw _
    simp only [WFA] at hw
    obtain ⟨t, rest, h, hg, hb⟩ := fA_head_core hc recv hw.1 hw.2.1
    exact ⟨t, _, by simp only [fA, h]; rfl, hg, hb⟩
  | .member recv n => by
    intro hw _
    simp only [WFA] at hw
    obtain ⟨t, rest, h, hg, hb⟩ := fA_head_core hc recv hw.1 hw.2.1
    exact ⟨t, _, by simp only [fA, h]; rfl, hg, hb⟩
  | .sel recv idx => by
    intro hw _
    simp only [WFA] at hw
    obtain ⟨t, rest, h, hg, hb⟩ := fA_head_core hc recv hw.1 hw.2.1
    exact ⟨t, _, by simp only [fA, h]; rfl, hg, hb⟩
  | .neg a => by intro _ h; simp [isNeg] at h

/-- head of any atom: a good head; after a leading `!` never an opening bracket -/
theorem fA_head (hc : ConstOK d cT P) : (a : Atom) → WFA P a →
    ∃ t rest, fA cT ot a = t :: rest ∧ goodHead t.kind ∧ (t.kind = .bang → ∃ t2 r2, rest = t2 :: r2 ∧ t2.kind ≠ .lparen)
  | .neg a => by
    intro hw
    simp only [WFA] at hw
    obtain ⟨t, rest, h, hg, _⟩ := fA_head hc a hw
    exact ⟨tk .bang, fA cT ot a, by simp only [fA], by simp [goodHead, tk], fun _ => ⟨t, rest, h, hg.1⟩⟩
  | .const c => by
    intro hw
    obtain ⟨t, rest, h, hg, hb⟩ := fA_head_core d cT ot P hc (.const c) hw rfl
    exact ⟨t, rest, h, hg, fun hb' => absurd hb' hb⟩
  | .var v => by
    intro hw
    obtain ⟨t, rest, h, hg, hb⟩ := fA_head_core d cT ot P hc (.var v) hw rfl
    exact ⟨t, rest, h, hg, fun hb' => absurd hb' hb⟩
  | .call f args => by
    intro hw
    obtain ⟨t, rest, h, hg, hb⟩ := fA_head_core d cT ot P hc (.call f args) hw rfl
    exact ⟨t, rest, h, hg, fun hb' => absurd hb' hb⟩
  | .meth recv f args => by
    intro hw
    obtain ⟨t, rest, h, hg, hb⟩ := fA_head_core d cT ot P hc (.meth recv f args) hw rfl
    exact ⟨t, rest, h, hg, fun hb' => absurd hb' hb⟩
  | .member recv n => by
    intro hw
    obtain ⟨t, rest, h, hg, hb⟩ := fA_head_core d cT ot P hc (.member recv n) hw rfl
    exact ⟨t, rest, h, hg, fun hb' => absurd hb' hb⟩
  | .sel recv idx => by
    intro hw
    obtain ⟨t, rest, h, hg, hb⟩ := fA_head_core d cT ot P hc (.sel recv idx) hw rfl
    exact ⟨t, rest, h, hg, fun hb' => absurd hb' hb⟩

/-- head of an expression: a good head or an opening bracket — never `)` `,` `]` -/
theorem fE_head (hc : ConstOK d cT P) : (e : Expr) → WFE P e → ∃ t rest, fE cT ot e = t :: rest ∧ t.kind ≠ .rparen ∧ t.kind ≠ .comma ∧ t.kind ≠ .rsq
  | .bin op l r => by
    intro hw
    simp only [WFE] at hw
    obtain ⟨t, rest, h, h1⟩ := fE_head hc l hw.1
    exact ⟨t, _, by simp only [fE, h]; rfl, h1⟩
  | .paren neg e => by
    intro _
    cases neg with
    | true => exact ⟨tk .bang, _, by simp only [fE]; rfl, by simp [tk]⟩
    | false => exact ⟨tk .lparen, _, by simp only [fE]; rfl, by simp [tk]⟩
  | .atom a => by
    intro hw
    simp only [WFE] at hw
    obtain ⟨t, rest, h, hg, _⟩ := fA_head d cT ot P hc a hw
    exact ⟨t, rest, by simp only [fE, h], hg.2.1, hg.2.2.1, hg.2.2.2.1⟩

-- unfolding lemmas for the atom-level functions ------------------------------------------------------------------------

def noLParen : List Token → Bool
  | [] => true
  | t :: _ => t.kind != .lparen

/-- what may follow a plain variable without being absorbed into it: no selector, no call bracket, and a `.` only as
    the start of a method call -/
def VarNext : List Token → Prop
  | [] => True
  | t :: rest => t.kind ≠ .lsq ∧ t.kind ≠ .lparen ∧
      (t.kind = .dot → ∃ n p r, rest = n :: p :: r ∧ n.kind = .name ∧ p.kind = .lparen)

theorem parseConst_name (t : Token) (rest : List Token) (h : t.kind = .name) : parseConst d (t :: rest) = none := by
  simp [parseConst, h, isNumTok]

theorem parseAtom_neg (f : Nat) (bg : Token) (rest r : List Token) (a : Atom) (hb : bg.kind = .bang)
    (h : parseAtom d f rest = .ok (a, r)) : parseAtom d (f + 1) (bg :: rest) = .ok (.neg a, r) := by
  simp [parseAtom, hb, h, bind, Except.bind]

theorem parseAtom_const (f : Nat) (t : Token) (rest rest' : List Token) (c : Const) (hb : t.kind ≠ .bang)
    (h : parseConst d (t :: rest) = some (.ok (c, rest'))) : parseAtom d (f + 1) (t :: rest) = suffixes d f (.const c) rest' := by
  have e1 : (t.kind == TK.bang) = false := by simpa using hb
  simp [parseAtom, e1, h, bind, Except.bind]

theorem parseAtom_call (f : Nat) (n lp : Token) (rest2 r : List Token) (args : Args) (hn : n.kind = .name) (hl : lp.kind = .lparen)
    (h : parseArgs d f rest2 = .ok (args, r)) :
    parseAtom d (f + 1) (n :: lp :: rest2) = suffixes d f (.call (String.ofList n.text) args) r := by
  have e1 : (n.kind == TK.bang) = false := by simp [hn]
  simp [parseAtom, e1, parseConst_name d n _ hn, hn, hl, h, bind, Except.bind]

theorem parseAtom_var (f : Nat) (n t2 : Token) (rest2 r : List Token) (v : Var) (hn : n.kind = .name) (hl : t2.kind ≠ .lparen)
    (h : varTail d f (.root (String.ofList n.text)) (t2 :: rest2) = .ok (v, r)) :
    parseAtom d (f + 1) (n :: t2 :: rest2) = suffixes d f (.var v) r := by
  have e1 : (n.kind == TK.bang) = false := by simp [hn]
  have e2 : (t2.kind == TK.lparen) = false := by simpa using hl
  simp [parseAtom, e1, parseConst_name d n _ hn, hn, e2, h, bind, Except.bind]

theorem parseAtom_var_end (f : Nat) (n : Token) (hn : n.kind = .name) :
    parseAtom d (f + 1) [n] = .ok (.var (.root (String.ofList n.text)), []) := by
  have e1 : (n.kind == TK.bang) = false := by simp [hn]
  simp [parseAtom, e1, parseConst_name d n _ hn, hn]

theorem varTail_field (f : Nat) (v : Var) (dt n : Token) (rest2 : List Token) (hd : dt.kind = .dot) (hn : n.kind = .name)
    (hl : noLParen rest2 = true) : varTail d (f + 1) v (dt :: n :: rest2) = varTail d f (.field v (String.ofList n.text)) rest2 := by
  cases rest2 with
  | nil => simp [varTail, hd, hn]
  | cons p r =>
    have e : (p.kind == TK.lparen) = false := by simpa [noLParen] using hl
    simp [varTail, hd, hn, e]

theorem varTail_index (f : Nat) (v : Var) (lq rq : Token) (rest r' : List Token) (e : Expr) (hl : lq.kind = .lsq) (hr : rq.kind = .rsq)
    (h : parseExpr d f 0 rest = .ok (e, rq :: r')) : varTail d (f + 1) v (lq :: rest) = varTail d f (.index v e) r' := by
  have e1 : (lq.kind == TK.dot) = false := by simp [hl]
  simp [varTail, e1, hl, h, hr, bind, Except.bind]

theorem varTail_stop (f : Nat) (v : Var) (ts : List Token) (h : VarNext ts) : varTail d (f + 1) v ts = .ok (v, ts) := by
  cases ts with
  | nil => simp [varTail]
  | cons t rest =>
    obtain ⟨h1, _, h3⟩ := h
    have e2 : (t.kind == TK.lsq) = false := by simpa using h1
    by_cases hdot : t.kind = .dot
    · obtain ⟨n, p, r, hr, hn, hp⟩ := h3 hdot
      subst hr
      simp [varTail, hdot, hn, hp]
    · have e1 : (t.kind == TK.dot) = false := by simpa using hdot
      simp [varTail, e1, e2]

theorem suffixes_meth (f : Nat) (a : Atom) (dt n lp : Token) (rest3 r : List Token) (args : Args) (hd : dt.kind = .dot) (hn : n.kind = .name)
    (hl : lp.kind = .lparen) (h : parseArgs d f rest3 = .ok (args, r)) :
    suffixes d (f + 1) a (dt :: n :: lp :: rest3) = suffixes d f (.meth a (String.ofList n.text) args) r := by
  simp [suffixes, hd, hn, hl, h, bind, Except.bind]

theorem suffixes_member (f : Nat) (a : Atom) (dt n : Token) (rest2 : List Token) (hd : dt.kind = .dot) (hn : n.kind = .name)
    (hl : noLParen rest2 = true) : suffixes d (f + 1) a (dt :: n :: rest2) = suffixes d f (.member a (String.ofList n.text)) rest2 := by
  cases rest2 with
  | nil => simp [suffixes, hd, hn]
  | cons p r =>
    have e : (p.kind == TK.lparen) = false := by simpa [noLParen] using hl
    simp [suffixes, hd, hn, e]

theorem suffixes_sel (f : Nat) (a : Atom) (lq rq : Token) (rest r' : List Token) (e : Expr) (hl : lq.kind = .lsq) (hr : rq.kind = .rsq)
    (h : parseExpr d f 0 rest = .ok (e, rq :: r')) : suffixes d (f + 1) a (lq :: rest) = suffixes d f (.sel a e) r' := by
  have e1 : (lq.kind == TK.dot) = false := by simp [hl]
  simp [suffixes, e1, hl, h, hr, bind, Except.bind]

theorem suffixes_stop (f : Nat) (a : Atom) (ts : List Token) (h : stopAtom ts = true) : suffixes d (f + 1) a ts = .ok (a, ts) := by
  cases ts with
  | nil => simp [suffixes]
  | cons t rest =>
    simp only [stopAtom, Bool.and_eq_true, bne_iff_ne, ne_eq] at h
    have e1 : (t.kind == TK.dot) = false := by simpa using h.1.1
    have e2 : (t.kind == TK.lsq) = false := by simpa using h.1.2
    simp [suffixes, e1, e2]

theorem parseArgs_nil (f : Nat) (rp : Token) (rest : List Token) (hr : rp.kind = .rparen) :
    parseArgs d (f + 1) (rp :: rest) = .ok (.nil, rest) := by
  simp [parseArgs, hr]

theorem parseArgs_cons (f : Nat) (t : Token) (rest r r' : List Token) (e : Expr) (more : Args) (hr : t.kind ≠ .rparen)
    (h1 : parseExpr d f 0 (t :: rest) = .ok (e, r)) (h2 : moreArgs d f r = .ok (more, r')) :
    parseArgs d (f + 1) (t :: rest) = .ok (.cons e more, r') := by
  have e1 : (t.kind == TK.rparen) = false := by simpa using hr
  simp [parseArgs, e1, h1, h2, bind, Except.bind]

theorem moreArgs_nil (f : Nat) (rp : Token) (rest : List Token) (hr : rp.kind = .rparen) :
    moreArgs d (f + 1) (rp :: rest) = .ok (.nil, rest) := by
  simp [moreArgs, hr]

theorem moreArgs_cons (f : Nat) (cm : Token) (rest r r' : List Token) (e : Expr) (more : Args) (hc : cm.kind = .comma)
    (h1 : parseExpr d f 0 rest = .ok (e, r)) (h2 : moreArgs d f r = .ok (more, r')) :
    moreArgs d (f + 1) (cm :: rest) = .ok (.cons e more, r') := by
  have e1 : (cm.kind == TK.rparen) = false := by simp [hc]
  simp [moreArgs, e1, hc, h1, h2, bind, Except.bind]

-- the main theorems ---------------------------------------------------------------------------------------------------

/-- number of suffixes (method call, member, selector) of an atom -/
def ns : Atom → Nat
  | .meth r _ _ => ns r + 1
  | .member r _ => ns r + 1
  | .sel r _ => ns r + 1
  | _ => 0

/-- number of tail steps of a variable -/
def nvs : Var → Nat
  | .root _ => 0
  | .field v _ => nvs v + 1
  | .index v _ => nvs v + 1

def rootName : Var → String
  | .root n => n
  | .field v _ => rootName v
  | .index v _ => rootName v

/-- the tokens of a variable after its root name -/
def tailV : Var → List Token
  | .root _ => []
  | .field v n => tailV v ++ [tk .dot, nameTok n]
  | .index v e => tailV v ++ (tk .lsq :: (fE cT ot e ++ [tk .rsq]))

theorem fV_split : (v : Var) → fV cT ot v = nameTok (rootName v) :: tailV cT ot v
  | .root n => rfl
  | .field v n => by simp only [fV, tailV, rootName, fV_split v]; rfl
  | .index v e => by simp only [fV, tailV, rootName, fV_split v]; rfl

theorem ns_lt : (a : Atom) → ns a + 3 ≤ nA a
  | .const c => by simp [ns, nA]
  | .var v => by simp only [ns, nA]; omega
  | .call f args => by simp only [ns, nA]; omega
  | .meth r f args => by have := ns_lt r; simp only [ns, nA]; omega
  | .member r n => by have := ns_lt r; simp only [ns, nA]; omega
  | .sel r idx => by have := ns_lt r; simp only [ns, nA]; omega
  | .neg a => by have := ns_lt a; simp only [ns, nA]; omega

theorem nvs_lt : (v : Var) → nvs v + 2 ≤ nV v
  | .root n => by simp [nvs, nV]
  | .field v n => by have := nvs_lt v; simp only [nvs, nV]; omega
  | .index v e => by have := nvs_lt v; simp only [nvs, nV]; omega

/-- a non-empty variable tail starts with `.` or `[` -/
theorem tailHead : (v : Var) → 0 < nvs v → ∀ x xs, tailV cT ot v = x :: xs → x.kind = .dot ∨ x.kind = .lsq
  | .root n => by intro h; simp [nvs] at h
  | .field v n => by
    intro _ x xs h
    cases hv : v with
    | root m => subst hv; simp [tailV] at h; left; rw [← h.1]; rfl
    | field v' m =>
      have hne : 0 < nvs v := by rw [hv]; simp [nvs]
      cases ht : tailV cT ot v with
      | nil => rw [hv] at ht; simp [tailV] at ht
      | cons y ys =>
        simp only [tailV, ht, List.cons_append, List.cons.injEq] at h
        rw [← h.1]; exact tailHead v hne y ys ht
    | index v' e =>
      have hne : 0 < nvs v := by rw [hv]; simp [nvs]
      cases ht : tailV cT ot v with
      | nil => rw [hv] at ht; simp [tailV] at ht
      | cons y ys =>
        simp only [tailV, ht, List.cons_append, List.cons.injEq] at h
        rw [← h.1]; exact tailHead v hne y ys ht
  | .index v e => by
    intro _ x xs h
    cases hv : v with
    | root m => subst hv; simp [tailV] at h; right; rw [← h.1]; rfl
    | field v' m =>
      have hne : 0 < nvs v := by rw [hv]; simp [nvs]
      cases ht : tailV cT ot v with
      | nil => rw [hv] at ht; simp [tailV] at ht
      | cons y ys =>
        simp only [tailV, ht, List.cons_append, List.cons.injEq] at h
        rw [← h.1]; exact tailHead v hne y ys ht
    | index v' e' =>
      have hne : 0 < nvs v := by rw [hv]; simp [nvs]
      cases ht : tailV cT ot v with
      | nil => rw [hv] at ht; simp [tailV] at ht
      | cons y ys =>
        simp only [tailV, ht, List.cons_append, List.cons.injEq] at h
        rw [← h.1]; exact tailHead v hne y ys ht

/-- what is proved about an atom without leading negation: base, then the suffix loop -/
def CoreStmt (a : Atom) : Prop :=
  ∀ (g : Nat) (ts : List Token), nA a ≤ g + 1 → noLParen ts = true → (isVar a = true → VarNext ts) →
    parseAtom d (g + 1) (fA cT ot a ++ ts) = suffixes d (g - ns a) a ts

/-- the atom is read back, whatever follows, as long as what follows cannot extend it -/
def FullStmt (a : Atom) : Prop :=
  ∀ (g : Nat) (ts : List Token), nA a ≤ g → stopAtom ts = true → parseAtom d g (fA cT ot a ++ ts) = .ok (a, ts)

theorem stop_noLParen (ts : List Token) (h : stopAtom ts = true) : noLParen ts = true := by
  cases ts with
  | nil => rfl
  | cons t r => simp only [stopAtom, Bool.and_eq_true] at h; simp [noLParen, h.2]

theorem stop_VarNext (ts : List Token) (h : stopAtom ts = true) : VarNext ts := by
  cases ts with
  | nil => trivial
  | cons t r =>
    simp only [stopAtom, Bool.and_eq_true, bne_iff_ne, ne_eq] at h
    exact ⟨h.1.2, h.2, fun hd => absurd hd h.1.1⟩

theorem full_of_core (a : Atom) (hcore : CoreStmt d cT ot a) : FullStmt d cT ot a := by
  intro g ts hg hs
  have hn := ns_lt a
  obtain ⟨g', rfl⟩ : ∃ g', g = g' + 1 := ⟨g - 1, by omega⟩
  rw [hcore g' ts hg (stop_noLParen ts hs) (fun _ => stop_VarNext ts hs)]
  obtain ⟨h, hh⟩ : ∃ h, g' - ns a = h + 1 := ⟨g' - ns a - 1, by omega⟩
  rw [hh]
  exact suffixes_stop d h a ts hs

/-- an inner expression (argument, selector index) is read back up to a closing token -/
def InnerStmt (e : Expr) : Prop :=
  ∀ (f : Nat) (ts : List Token), nE e ≤ f → stopAtom ts = true → headOp ts = none → parseExpr d (f + 1) 0 (fE cT ot e ++ ts) = .ok (e, ts)

theorem inner_of_atomsOK (e : Expr) (hw : WFE P e) (hat : AtomsOK d (fA cT ot) nA e) : InnerStmt d cT ot e := by
  intro f ts hf hs ho
  have := parse_roundtrip d (fA cT ot) nA ot e (WG_of_WFE P e hw) hat 0 f ts (Nat.zero_le _) (by rw [need_eq]; exact hf) hs
    (by intro op h; rw [ho] at h; cases h)
  rw [flat_eq] at this
  exact this

mutual
  theorem atomsOK (hc : ConstOK d cT P) : (e : Expr) → WFE P e → AtomsOK d (fA cT ot) nA e
    | .bin op l r => by
      intro hw; simp only [WFE] at hw
      exact ⟨atomsOK hc l hw.1, atomsOK hc r hw.2.1⟩
    | .paren neg e => by
      intro hw; simp only [WFE] at hw
      exact atomsOK hc e hw
    | .atom a => by
      intro hw; simp only [WFE] at hw
      refine ⟨fun g ts hg hs => (atomThm hc a hw).2 g ts hg hs, ?_⟩
      obtain ⟨t, rest, h, hg, hb⟩ := fA_head d cT ot P hc a hw
      exact ⟨t, rest, h, hg.1, hb⟩

  /-- both statements about an atom (the first one only matters without leading negation) -/
  theorem atomThm (hc : ConstOK d cT P) : (a : Atom) → WFA P a → (isNeg a = false → CoreStmt d cT ot a) ∧ FullStmt d cT ot a
    | .neg a => by
      intro hw; simp only [WFA] at hw
      refine ⟨fun h => by simp [isNeg] at h, ?_⟩
      intro g ts hg hs
      simp only [nA] at hg
      obtain ⟨g', rfl⟩ : ∃ g', g = g' + 1 := ⟨g - 1, by omega⟩
      have := (atomThm hc a hw).2 g' ts (by omega) hs
      simp only [fA, List.cons_append]
      exact parseAtom_neg d g' (tk .bang) _ ts a rfl this
    | .const c => by
      intro hw
      have hpc : P c := by simpa only [WFA] using hw
      have hcore : CoreStmt d cT ot (.const c) := by
        intro g ts _ _ _
        obtain ⟨t, rest, h, hk⟩ := const_tokens d cT P hc c hpc
        have hp := hc c hpc ts
        simp only [fA, ns, Nat.sub_zero]
        rw [h] at hp ⊢
        exact parseAtom_const d g t (rest ++ ts) ts c (constHead_good _ hk).2.1 hp
      exact ⟨fun _ => hcore, full_of_core d cT ot _ hcore⟩
    | .call f args => by
      intro hw; simp only [WFA] at hw
      have hcore : CoreStmt d cT ot (.call f args) := by
        intro g ts hg _ _
        simp only [nA] at hg
        have ha := argsThm hc args hw g ts (by omega)
        simp only [fA, ns, Nat.sub_zero, List.cons_append, List.append_assoc, List.singleton_append]
        have := parseAtom_call d g (nameTok f) (tk .lparen) (fArgs cT ot args ++ (tk .rparen :: ts)) ts args rfl rfl ha
        rw [nameTok_text] at this
        exact this
      exact ⟨fun _ => hcore, full_of_core d cT ot _ hcore⟩
    | .var v => by
      intro hw; simp only [WFA] at hw
      have hcore : CoreStmt d cT ot (.var v) := by
        intro g ts hg hl hv
        simp only [nA] at hg
        have hvn := nvs_lt v
        simp only [fA, ns, Nat.sub_zero, fV_split cT ot v, List.cons_append]
        cases htl : tailV cT ot v ++ ts with
        | nil =>
          -- a bare root name at the very end of the tokens
          have h1 : tailV cT ot v = [] := (List.append_eq_nil_iff.mp htl).1
          have h2 : ts = [] := (List.append_eq_nil_iff.mp htl).2
          have hroot : v = .root (rootName v) := by
            cases v with
            | root n => rfl
            | field v' n => simp [tailV] at h1
            | index v' e => simp [tailV] at h1
          subst h2
          rw [parseAtom_var_end d g (nameTok (rootName v)) rfl, nameTok_text]
          obtain ⟨g', rfl⟩ : ∃ g', g = g' + 1 := ⟨g - 1, by omega⟩
          rw [suffixes_stop d g' (.var v) [] rfl, ← hroot]
        | cons t2 rest2 =>
          have ht2 : t2.kind ≠ .lparen := by
            cases htv : tailV cT ot v with
            | nil =>
              rw [htv] at htl
              simp only [List.nil_append] at htl
              rw [htl] at hl
              simpa [noLParen] using hl
            | cons x xs =>
              rw [htv] at htl
              simp only [List.cons_append, List.cons.injEq] at htl
              rw [← htl.1]
              cases v with
              | root n => simp [tailV] at htv
              | field v' n =>
                -- the tail starts with `.` or `[`
                have := tailHead cT ot (.field v' n) (by simp [nvs]) x xs htv
                rcases this with h | h <;> simp [h]
              | index v' e =>
                have := tailHead cT ot (.index v' e) (by simp [nvs]) x xs htv
                rcases this with h | h <;> simp [h]
          have hvt := varThm hc v hw g ts (by omega) hl
          rw [htl] at hvt
          obtain ⟨h, hh⟩ : ∃ h, g - nvs v = h + 1 := ⟨g - nvs v - 1, by omega⟩
          rw [hh, varTail_stop d h v ts (hv rfl)] at hvt
          have := parseAtom_var d g (nameTok (rootName v)) t2 rest2 ts v rfl ht2 (by rw [nameTok_text]; exact hvt)
          exact this
      exact ⟨fun _ => hcore, full_of_core d cT ot _ hcore⟩
    | .meth r f args => by
      intro hw; simp only [WFA] at hw
      have hr := (atomThm hc r hw.1).1 hw.2.1
      have hcore : CoreStmt d cT ot (.meth r f args) := by
        intro g ts hg _ _
        simp only [nA] at hg
        have hns := ns_lt r
        have h1 := hr g (tk .dot :: nameTok f :: tk .lparen :: (fArgs cT ot args ++ (tk .rparen :: ts))) (by omega) rfl
          (fun _ => ⟨by simp [tk], by simp [tk], fun _ => ⟨_, _, _, rfl, rfl, rfl⟩⟩)
        simp only [fA, List.append_assoc, List.cons_append, List.singleton_append, List.nil_append]
        rw [h1]
        obtain ⟨h, hh⟩ : ∃ h, g - ns r = h + 1 := ⟨g - ns r - 1, by omega⟩
        rw [hh]
        have ha := argsThm hc args hw.2.2 h ts (by omega)
        have := suffixes_meth d h r (tk .dot) (nameTok f) (tk .lparen) (fArgs cT ot args ++ (tk .rparen :: ts)) ts args rfl rfl rfl ha
        rw [nameTok_text] at this
        rw [this]
        have : g - ns (.meth r f args) = h := by simp only [ns]; omega
        rw [this]
      exact ⟨fun _ => hcore, full_of_core d cT ot _ hcore⟩
    | .member r n => by
      intro hw; simp only [WFA] at hw
      have hr := (atomThm hc r hw.1).1 hw.2.1
      have hcore : CoreStmt d cT ot (.member r n) := by
        intro g ts hg hl _
        simp only [nA] at hg
        have hns := ns_lt r
        have h1 := hr g (tk .dot :: nameTok n :: ts) (by omega) rfl (fun hv => by rw [hw.2.2] at hv; cases hv)
        simp only [fA, List.append_assoc, List.cons_append, List.singleton_append, List.nil_append]
        rw [h1]
        obtain ⟨h, hh⟩ : ∃ h, g - ns r = h + 1 := ⟨g - ns r - 1, by omega⟩
        rw [hh]
        have := suffixes_member d h r (tk .dot) (nameTok n) ts rfl rfl hl
        rw [nameTok_text] at this
        rw [this]
        have : g - ns (.member r n) = h := by simp only [ns]; omega
        rw [this]
      exact ⟨fun _ => hcore, full_of_core d cT ot _ hcore⟩
    | .sel r idx => by
      intro hw; simp only [WFA] at hw
      have hr := (atomThm hc r hw.1).1 hw.2.1
      have hidx := inner_of_atomsOK d cT ot P idx hw.2.2.2 (atomsOK hc idx hw.2.2.2)
      have hcore : CoreStmt d cT ot (.sel r idx) := by
        intro g ts hg _ _
        simp only [nA] at hg
        have hns := ns_lt r
        have h1 := hr g (tk .lsq :: (fE cT ot idx ++ (tk .rsq :: ts))) (by omega) rfl (fun hv => by rw [hw.2.2.1] at hv; cases hv)
        simp only [fA, List.append_assoc, List.cons_append, List.singleton_append, List.nil_append]
        rw [h1]
        obtain ⟨h, hh⟩ : ∃ h, g - ns r = h + 2 := ⟨g - ns r - 2, by omega⟩
        rw [hh]
        have he := hidx h (tk .rsq :: ts) (by omega) (by simp [stopAtom, tk]) (by simp [headOp, tk, binOpOf])
        rw [suffixes_sel d (h + 1) r (tk .lsq) (tk .rsq) (fE cT ot idx ++ (tk .rsq :: ts)) ts idx rfl rfl he]
        have : g - ns (.sel r idx) = h + 1 := by simp only [ns]; omega
        rw [this]
      exact ⟨fun _ => hcore, full_of_core d cT ot _ hcore⟩

  /-- the tail loop of a variable -/
  theorem varThm (hc : ConstOK d cT P) : (v : Var) → WFV P v → ∀ (g : Nat) (ts : List Token), nV v ≤ g + 1 → noLParen ts = true →
      varTail d g (.root (rootName v)) (tailV cT ot v ++ ts) = varTail d (g - nvs v) v ts
    | .root n => by
      intro _ g ts _ _
      simp [tailV, nvs, rootName]
    | .field v n => by
      intro hw g ts hg hl
      simp only [WFV] at hw
      simp only [nV] at hg
      have hvn := nvs_lt v
      have h1 := varThm hc v hw g (tk .dot :: nameTok n :: ts) (by omega) rfl
      simp only [tailV, rootName, List.append_assoc, List.cons_append, List.nil_append]
      rw [h1]
      obtain ⟨h, hh⟩ : ∃ h, g - nvs v = h + 1 := ⟨g - nvs v - 1, by omega⟩
      rw [hh]
      have := varTail_field d h v (tk .dot) (nameTok n) ts rfl rfl hl
      rw [nameTok_text] at this
      rw [this]
      have : g - nvs (.field v n) = h := by simp only [nvs]; omega
      rw [this]
    | .index v e => by
      intro hw g ts hg _
      simp only [WFV] at hw
      simp only [nV] at hg
      have hvn := nvs_lt v
      have hidx := inner_of_atomsOK d cT ot P e hw.2 (atomsOK hc e hw.2)
      have h1 := varThm hc v hw.1 g (tk .lsq :: (fE cT ot e ++ (tk .rsq :: ts))) (by omega) rfl
      simp only [tailV, rootName, List.append_assoc, List.cons_append, List.nil_append]
      rw [h1]
      obtain ⟨h, hh⟩ : ∃ h, g - nvs v = h + 2 := ⟨g - nvs v - 2, by omega⟩
      rw [hh]
      have he := hidx h (tk .rsq :: ts) (by omega) (by simp [stopAtom, tk]) (by simp [headOp, tk, binOpOf])
      rw [varTail_index d (h + 1) v (tk .lsq) (tk .rsq) (fE cT ot e ++ (tk .rsq :: ts)) ts e rfl rfl he]
      have : g - nvs (.index v e) = h + 1 := by simp only [nvs]; omega
      rw [this]

  /-- an argument list up to its closing bracket -/
  theorem argsThm (hc : ConstOK d cT P) : (args : Args) → WFArgs P args → ∀ (g : Nat) (ts : List Token), nArgs args ≤ g + 1 →
      parseArgs d g (fArgs cT ot args ++ (tk .rparen :: ts)) = .ok (args, ts)
    | .nil => by
      intro _ g ts hg
      simp only [nArgs] at hg
      obtain ⟨g', rfl⟩ : ∃ g', g = g' + 1 := ⟨g - 1, by omega⟩
      simp only [fArgs, List.nil_append]
      exact parseArgs_nil d g' (tk .rparen) ts rfl
    | .cons e rest => by
      intro hw g ts hg
      simp only [WFArgs] at hw
      simp only [nArgs] at hg
      obtain ⟨g', rfl⟩ : ∃ g', g = g' + 2 := ⟨g - 2, by omega⟩
      have he := inner_of_atomsOK d cT ot P e hw.1 (atomsOK hc e hw.1)
      have hm := moreThm hc rest hw.2 (g' + 1) ts (by omega)
      obtain ⟨t, r0, hhead, hk⟩ := fE_head d cT ot P hc e hw.1
      have hstop : stopAtom (fMore cT ot rest ++ (tk .rparen :: ts)) = true ∧ headOp (fMore cT ot rest ++ (tk .rparen :: ts)) = none := by
        cases rest with
        | nil => simp [fMore, stopAtom, headOp, tk, binOpOf]
        | cons e2 r2 => simp [fMore, stopAtom, headOp, tk, binOpOf]
      have h1 := he g' (fMore cT ot rest ++ (tk .rparen :: ts)) (by omega) hstop.1 hstop.2
      simp only [fArgs, List.append_assoc]
      rw [hhead] at h1 ⊢
      exact parseArgs_cons d (g' + 1) t (r0 ++ (fMore cT ot rest ++ (tk .rparen :: ts))) _ ts e rest hk.1 h1 hm

  theorem moreThm (hc : ConstOK d cT P) : (args : Args) → WFArgs P args → ∀ (g : Nat) (ts : List Token), nArgs args ≤ g + 1 →
      moreArgs d g (fMore cT ot args ++ (tk .rparen :: ts)) = .ok (args, ts)
    | .nil => by
      intro _ g ts hg
      simp only [nArgs] at hg
      obtain ⟨g', rfl⟩ : ∃ g', g = g' + 1 := ⟨g - 1, by omega⟩
      simp only [fMore, List.nil_append]
      exact moreArgs_nil d g' (tk .rparen) ts rfl
    | .cons e rest => by
      intro hw g ts hg
      simp only [WFArgs] at hw
      simp only [nArgs] at hg
      obtain ⟨g', rfl⟩ : ∃ g', g = g' + 2 := ⟨g - 2, by omega⟩
      have he := inner_of_atomsOK d cT ot P e hw.1 (atomsOK hc e hw.1)
      have hm := moreThm hc rest hw.2 (g' + 1) ts (by omega)
      have hstop : stopAtom (fMore cT ot rest ++ (tk .rparen :: ts)) = true ∧ headOp (fMore cT ot rest ++ (tk .rparen :: ts)) = none := by
        cases rest with
        | nil => simp [fMore, stopAtom, headOp, tk, binOpOf]
        | cons e2 r2 => simp [fMore, stopAtom, headOp, tk, binOpOf]
      have h1 := he g' (fMore cT ot rest ++ (tk .rparen :: ts)) (by omega) hstop.1 hstop.2
      simp only [fMore, List.cons_append, List.append_assoc]
      exact moreArgs_cons d (g' + 1) (tk .comma) _ _ ts e rest rfl h1 hm
end

/-- **R10 for expressions.** For every well-formed expression tree — operators grouped by `prec` and to the left,
    parentheses exactly its `paren` nodes, atoms in the listener's normal form — the parser model reads the tree's
    token sequence back as that tree, at any starting strength the tree's top operator allows, whatever follows that
    cannot continue the expression. -/
theorem parse_print (hc : ConstOK d cT P) (e : Expr) (hw : WFE P e) (p f : Nat) (ts : List Token)
    (hp : p ≤ level e) (hf : nE e ≤ f) (hs : stopAtom ts = true) (hfollow : ∀ op, headOp ts = some op → prec op < p) :
    parseExpr d (f + 1) p (fE cT ot e ++ ts) = .ok (e, ts) := by
  have := parse_roundtrip d (fA cT ot) nA ot e (WG_of_WFE P e hw) (atomsOK d cT ot P hc e hw) p f ts hp (by rw [need_eq]; exact hf) hs hfollow
  rw [flat_eq] at this
  exact this

#print axioms parse_print

end Grule.ParseAtoms

/-
  R2: memo coherence is preserved by evaluation, and evaluation (with or without memoisation)
  returns the from-scratch value.
-/
import GruleModel.Spec
import GruleModel.Valid
namespace Grule

/-- the engine-visible part of the state that evaluation of a pure expression leaves alone -/
structure Same (s s1 : EState) : Prop where
  st : s1.st = s.st
  retracted : s1.retracted = s.retracted
  complete : s1.complete = s.complete
  cancelled : s1.cancelled = s.cancelled

theorem Same.rfl' (s : EState) : Same s s := ⟨rfl, rfl, rfl, rfl⟩

theorem Same.trans {a b c : EState} (h1 : Same a b) (h2 : Same b c) : Same a c :=
  ⟨h2.st.trans h1.st, h2.retracted.trans h1.retracted, h2.complete.trans h1.complete, h2.cancelled.trans h1.cancelled⟩

/-- every remembered value is the from-scratch value on the current store -/
structure Coh (c : Cfg) (s : EState) : Prop where
  e : ∀ x v, validE x = true → memoGetE c (snapE x) s = some v → specE c s.st x = .ok v
  a : ∀ x v, validA x = true → memoGetA c (snapA x) s = some v → specA c s.st x = .ok v
  /-- and only registered nodes remember anything (without this, "an assignment keeps the memo coherent" would be
      false of every configuration: an unregistered key is never reset) -/
  ke : ∀ k v, memoGetE c k s = some v → (snapGet k c.wm.exprs).isSome = true
  ka : ∀ k v, memoGetA c k s = some v → (snapGet k c.wm.atoms).isSome = true

@[simp] theorem push_st (s : EState) (ev : Ev) : (s.push ev).st = s.st := rfl

theorem same_push (s : EState) (ev : Ev) : Same s (s.push ev) := ⟨rfl, rfl, rfl, rfl⟩

theorem coh_push {c : Cfg} {s : EState} (ev : Ev) (h : Coh c s) : Coh c (s.push ev) :=
  ⟨fun x v hv hm => h.e x v hv hm, fun x v hv hm => h.a x v hv hm, fun k v hm => h.ke k v hm, fun k v hm => h.ka k v hm⟩

theorem snapGet_snapSet {α} (k k' : Snap) (v : α) (m : List (Snap × α)) :
    snapGet k (snapSet k' v m) = if k == k' then some v else snapGet k m := by
  induction m with
  | nil => simp [snapSet, snapGet]
  | cons p rest ih =>
    obtain ⟨k1, v1⟩ := p
    simp only [snapSet]
    split
    · rename_i h1
      have e1 : k' = k1 := by simpa using h1
      subst e1
      simp only [snapGet]
      split <;> simp_all
    · rename_i h1
      simp only [snapGet]
      split
      · rename_i h3
        have e3 : k = k1 := by simpa using h3
        subst e3
        have : (k == k') = false := by
          apply Bool.eq_false_iff.mpr
          intro hkk
          apply h1
          have : k = k' := by simpa using hkk
          subst this
          simp
        simp [this]
      · rw [ih]

theorem coh_putE {c : Cfg} {s : EState} (hi : SnapInj) (h : Coh c s) (x : Expr) (v : Val)
    (hx : validE x = true) (hv : specE c s.st x = .ok v) : Coh c (memoPutE c (snapE x) v s) := by
  unfold memoPutE
  by_cases hm : c.memo = true
  · by_cases hr : (snapGet (snapE x) c.wm.exprs).isSome = true
    · simp only [hm, hr, Bool.and_self, if_true]
      refine ⟨?_, ?_, ?_, ?_⟩
      · intro y w hy hg
        simp only [memoGetE, hm, if_true] at hg
        rw [snapGet_snapSet] at hg
        by_cases hk : (snapE y == snapE x) = true
        · simp only [hk, if_true] at hg
          have : snapE y = snapE x := by simpa using hk
          have := hi.expr y x hy hx this
          subst this
          cases hg
          exact hv
        · simp only [hk] at hg
          exact h.e y w hy (by simp only [memoGetE, hm, if_true]; exact hg)
      · intro y w hy hg
        exact h.a y w hy hg
      · intro k w hg
        simp only [memoGetE, hm, if_true] at hg
        rw [snapGet_snapSet] at hg
        by_cases hk : (k == snapE x) = true
        · have : k = snapE x := by simpa using hk
          rw [this]; exact hr
        · simp only [hk] at hg
          exact h.ke k w (by simp only [memoGetE, hm, if_true]; exact hg)
      · intro k w hg
        exact h.ka k w hg
    · simp only [hm, hr, Bool.and_false, Bool.false_eq_true, if_false]
      exact h
  · simp only [hm, Bool.false_and, Bool.false_eq_true, if_false]
    exact h

theorem coh_putA {c : Cfg} {s : EState} (hi : SnapInj) (h : Coh c s) (x : Atom) (v : Val)
    (hx : validA x = true) (hv : specA c s.st x = .ok v) : Coh c (memoPutA c (snapA x) v s) := by
  unfold memoPutA
  by_cases hm : c.memo = true
  · by_cases hr : (snapGet (snapA x) c.wm.atoms).isSome = true
    · simp only [hm, hr, Bool.and_self, if_true]
      refine ⟨?_, ?_, ?_, ?_⟩
      · intro y w hy hg
        exact h.e y w hy hg
      · intro y w hy hg
        simp only [memoGetA, hm, if_true] at hg
        rw [snapGet_snapSet] at hg
        by_cases hk : (snapA y == snapA x) = true
        · simp only [hk, if_true] at hg
          have : snapA y = snapA x := by simpa using hk
          have := hi.atom y x hy hx this
          subst this
          cases hg
          exact hv
        · simp only [hk] at hg
          exact h.a y w hy (by simp only [memoGetA, hm, if_true]; exact hg)
      · intro k w hg
        exact h.ke k w hg
      · intro k w hg
        simp only [memoGetA, hm, if_true] at hg
        rw [snapGet_snapSet] at hg
        by_cases hk : (k == snapA x) = true
        · have : k = snapA x := by simpa using hk
          rw [this]; exact hr
        · simp only [hk] at hg
          exact h.ka k w (by simp only [memoGetA, hm, if_true]; exact hg)
    · simp only [hm, hr, Bool.and_false, Bool.false_eq_true, if_false]
      exact h
  · simp only [hm, Bool.false_and, Bool.false_eq_true, if_false]
    exact h

theorem same_putE (c : Cfg) (k : Snap) (v : Val) (s : EState) : Same s (memoPutE c k v s) := by
  unfold memoPutE; split <;> exact ⟨rfl, rfl, rfl, rfl⟩

theorem same_putA (c : Cfg) (k : Snap) (v : Val) (s : EState) : Same s (memoPutA c k v s) := by
  unfold memoPutA; split <;> exact ⟨rfl, rfl, rfl, rfl⟩

/-- what evaluation of a pure expression guarantees -/
structure Sound (c : Cfg) (s : EState) (res : R Val × EState) (spec : R Val) : Prop where
  val : res.1 = spec
  same : Same s res.2
  coh : Coh c res.2

structure SoundL (c : Cfg) (s : EState) (res : R (List Val) × EState) (spec : R (List Val)) : Prop where
  val : res.1 = spec
  same : Same s res.2
  coh : Coh c res.2

/-- a user-method call under `MethodsPure` -/
theorem callMethod_sound {c : Cfg} (hp : MethodsPure c) (site : Snap) (s : EState) (recv : Val) (f : String)
    (args : List Val) (hc : Coh c s) :
    (callMethod c site s recv f args).1 = specMethodCall c s.st recv f args ∧
    Same s (callMethod c site s recv f args).2 ∧ Coh c (callMethod c site s recv f args).2 := by
  unfold callMethod specMethodCall
  cases recv with
  | ref p =>
    simp only
    cases hg : s.st.get p with
    | none => exact ⟨rfl, Same.rfl' s, hc⟩
    | some n =>
      simp only
      cases hcl : n.cls with
      | goStruct =>
        simp only
        cases hm : c.methods f s.ncalls s.st (.ref p) args with
        | noMethod =>
          have := hp.indep f s.ncalls 0 s.st s.st (.ref p) args hm
          refine ⟨?_, Same.rfl' s, hc⟩
          simp [this]
        | badArgs =>
          have := hp.indepBad f s.ncalls 0 s.st s.st (.ref p) args hm
          refine ⟨?_, Same.rfl' s, hc⟩
          simp [this]
        | ran r st1 cn =>
          obtain ⟨h1, h2, h3⟩ := hp.ran f s.ncalls s.st (.ref p) args r st1 cn hm
          subst h1; subst h2
          have := h3 0 s.st
          refine ⟨?_, ⟨rfl, rfl, rfl, by simp⟩, ?_⟩
          · simp [this]
          · exact ⟨fun x v hx hg => hc.e x v hx hg, fun x v hx hg => hc.a x v hx hg, fun k v hg => hc.ke k v hg, fun k v hg => hc.ka k v hg⟩
      | goSlice => simp only; split <;> (try split) <;> (try split) <;> exact ⟨rfl, Same.rfl' s, hc⟩
      | jArr => simp only; split <;> (try split) <;> (try split) <;> exact ⟨rfl, Same.rfl' s, hc⟩
      | goMap => simp only; split <;> (try split) <;> exact ⟨rfl, Same.rfl' s, hc⟩
      | jObj => exact ⟨rfl, Same.rfl' s, hc⟩
      | scalar => exact ⟨rfl, Same.rfl' s, hc⟩
      | nilp => exact ⟨rfl, Same.rfl' s, hc⟩
  | _ => exact ⟨rfl, Same.rfl' s, hc⟩

theorem callBuiltin_sound {c : Cfg} (s : EState) (f : String) (args : List Val) (hf : isEffectful f = false)
    (hc : Coh c s) :
    (callBuiltin c s f args).1 = specBuiltin s.st f args ∧
    Same s (callBuiltin c s f args).2 ∧ Coh c (callBuiltin c s f args).2 := by
  unfold callBuiltin specBuiltin
  simp only [isEffectful, Bool.or_eq_false_iff] at hf
  obtain ⟨⟨⟨h1, h2⟩, h3⟩, h4⟩ := hf
  simp only [h1, h2, h3, h4, Bool.or_self, Bool.false_eq_true, if_false]
  split
  · exact ⟨rfl, same_push s _, coh_push _ hc⟩
  · exact ⟨rfl, same_push s _, coh_push _ hc⟩

end Grule

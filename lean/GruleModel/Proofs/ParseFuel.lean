/-
  The fuel the round-trip theorems need is linear in the number of tokens: `nE e + 4 ≤ 16 · |tokens of e|` and so on,
  hence `16 · |tokens| + 16` (the parser's `fuelFor`) always suffices.
-/
import GruleModel.Proofs.ParseDoc
namespace Grule.ParseFuel
open Grule Grule.Syntax Grule.ParseGroup Grule.ParseAtoms Grule.ParseDoc

variable (d : Dec) (cT : Const → List Token) (ot : BinOp → List Char) (dT : String → Token)

theorem cT_len (hc : ConstOK d cT) (c : Const) : 1 ≤ (cT c).length := by
  obtain ⟨t, rest, h, _⟩ := const_tokens d cT hc c
  rw [h]; simp

mutual
  theorem sizeE (hc : ConstOK d cT) : (e : Expr) → nE e + 4 ≤ 16 * (fE cT ot e).length
    | .bin op l r => by
      have h1 := sizeE hc l; have h2 := sizeE hc r
      simp only [nE, fE, List.length_append, List.length_cons]; omega
    | .paren neg e => by
      have h1 := sizeE hc e
      cases neg <;> simp only [nE, fE, List.length_append, List.length_cons, List.length_nil, if_true, if_false, Bool.false_eq_true] <;> omega
    | .atom a => by
      have h1 := sizeA hc a
      simp only [nE, fE]; omega
  theorem sizeA (hc : ConstOK d cT) : (a : Atom) → nA a + 7 ≤ 16 * (fA cT ot a).length
    | .const c => by have := cT_len d cT hc c; simp only [nA, fA]; omega
    | .var v => by have := sizeV hc v; simp only [nA, fA]; omega
    | .call f args => by
      have := sizeArgs hc args
      simp only [nA, fA, List.length_append, List.length_cons, List.length_nil]; omega
    | .meth r f args => by
      have h1 := sizeA hc r; have h2 := sizeArgs hc args
      simp only [nA, fA, List.length_append, List.length_cons, List.length_nil]; omega
    | .member r n => by
      have h1 := sizeA hc r
      simp only [nA, fA, List.length_append, List.length_cons, List.length_nil]; omega
    | .sel r idx => by
      have h1 := sizeA hc r; have h2 := sizeE hc idx
      simp only [nA, fA, List.length_append, List.length_cons, List.length_nil]; omega
    | .neg a => by
      have h1 := sizeA hc a
      simp only [nA, fA, List.length_cons]; omega
  theorem sizeV (hc : ConstOK d cT) : (v : Var) → nV v + 10 ≤ 16 * (fV cT ot v).length
    | .root n => by simp [nV, fV]
    | .field v n => by
      have h1 := sizeV hc v
      simp only [nV, fV, List.length_append, List.length_cons, List.length_nil]; omega
    | .index v e => by
      have h1 := sizeV hc v; have h2 := sizeE hc e
      simp only [nV, fV, List.length_append, List.length_cons, List.length_nil]; omega
  theorem sizeArgs (hc : ConstOK d cT) : (args : Args) → nArgs args ≤ 16 * (fArgs cT ot args).length + 2
    | .nil => by simp [nArgs, fArgs]
    | .cons e rest => by
      have h1 := sizeE hc e; have h2 := sizeMore hc rest
      simp only [nArgs, fArgs, List.length_append]; omega
  theorem sizeMore (hc : ConstOK d cT) : (args : Args) → nArgs args ≤ 16 * (fMore cT ot args).length + 2
    | .nil => by simp [nArgs, fMore]
    | .cons e rest => by
      have h1 := sizeE hc e; have h2 := sizeMore hc rest
      simp only [nArgs, fMore, List.length_append, List.length_cons]; omega
end

theorem sizeAct (hc : ConstOK d cT) (a : Action) : nAct a + 1 ≤ 16 * (fAction cT ot a).length := by
  cases a with
  | assign op v e =>
    have h1 := sizeV d cT ot hc v; have h2 := sizeE d cT ot hc e
    simp only [nAct, fAction, List.length_append, List.length_cons, List.length_nil]; omega
  | stmt a =>
    have h1 := sizeA d cT ot hc a
    simp only [nAct, fAction, List.length_append, List.length_cons, List.length_nil]; omega

theorem sizeActs (hc : ConstOK d cT) (acts : List Action) : ∀ m, acts.foldl (fun m a => m + nAct a) m + acts.length ≤ m + 16 * (fActs cT ot acts).length := by
  induction acts with
  | nil => intro m; simp [fActs]
  | cons a rest ih =>
    intro m
    have h1 := sizeAct d cT ot hc a
    have h2 := ih (m + nAct a)
    simp only [List.foldl_cons, List.length_cons, fActs, List.length_append]
    omega

theorem sizeRule (hc : ConstOK d cT) (r : Rule) : nRule r ≤ 16 * (fRule cT ot dT r).length := by
  have h1 := sizeE d cT ot hc r.cond
  have h2 := sizeActs d cT ot hc r.acts 0
  unfold nRule fRule
  simp only [List.length_cons, List.length_append, List.length_nil]
  omega

theorem fRule_le_doc : (rules : List Rule) → ∀ r ∈ rules, (fRule cT ot dT r).length ≤ (fDoc cT ot dT rules).length
  | [], r, h => by cases h
  | x :: rest, r, h => by
    simp only [List.mem_cons] at h
    simp only [fDoc, List.length_append]
    rcases h with h | h
    · subst h; omega
    · have := fRule_le_doc rest r h; omega

theorem doc_len : (rules : List Rule) → rules.length ≤ (fDoc cT ot dT rules).length
  | [] => by simp
  | r :: rest => by
    have := doc_len rest
    simp only [fDoc, List.length_append, List.length_cons, fRule]
    omega

/-- **with fuel `16·|tokens| + 16` and `|tokens| + 1` rule iterations** every well-formed document is read back -/
theorem parse_doc_fuel (hc : ConstOK d cT) (rules : List Rule) (hw : ∀ r ∈ rules, WFRule r ∧ DescOK dT r.desc) :
    parseRules d (16 * (fDoc cT ot dT rules).length + 16) ((fDoc cT ot dT rules).length + 1) (fDoc cT ot dT rules) [] = (rules, none) := by
  have hf : ∀ r ∈ rules, nRule r ≤ 16 * (fDoc cT ot dT rules).length + 15 := by
    intro r hr
    have h1 := sizeRule d cT ot dT hc r
    have h2 := fRule_le_doc cT ot dT rules r hr
    omega
  have hn := doc_len cT ot dT rules
  exact parse_doc d cT ot dT hc rules hw (16 * (fDoc cT ot dT rules).length + 15) ((fDoc cT ot dT rules).length + 1) hf (by omega)

/-- **the document parser itself** (`parseDoc`, with its own fuel) reads every well-formed document back -/
theorem parseDoc_roundtrip (hc : ConstOK d cT) (rules : List Rule) (hw : ∀ r ∈ rules, WFRule r ∧ DescOK dT r.desc) :
    parseDoc d (fDoc cT ot dT rules) = (rules, none) := by
  unfold parseDoc fuelFor
  exact parse_doc_fuel d cT ot dT hc rules hw

#print axioms parse_doc_fuel
#print axioms parseDoc_roundtrip

end Grule.ParseFuel

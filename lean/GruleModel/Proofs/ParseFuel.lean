/-
  The fuel the round-trip theorems need is linear in the number of tokens: `nE e + 4 ≤ 16 · |tokens of e|` and so on,
  hence `16 · |tokens| + 16` (the parser's `fuelFor`) always suffices.
-/
import GruleModel.Proofs.ParseDoc
namespace Grule.ParseFuel
open Grule Grule.Syntax Grule.ParseGroup Grule.ParseAtoms Grule.ParseDoc

variable (d : Dec) (cT : Const → List Token) (ot : BinOp → List Char) (dT : String → Token) (P : Const → Prop)

theorem cT_len (hc : ConstOK d cT P) (c : Const) (hp : P c) : 1 ≤ (cT c).length := by
  obtain ⟨t, rest, h, _⟩ := const_tokens d cT P hc c hp
  rw [h]; simp

mutual
  theorem sizeE (hc : ConstOK d cT P) : (e : Expr) → WFE P e → nE e + 4 ≤ 16 * (fE cT ot e).length
    | .bin op l r => by
      intro hw; simp only [WFE] at hw
      have h1 := sizeE hc l hw.1; have h2 := sizeE hc r hw.2.1
      simp only [nE, fE, List.length_append, List.length_cons]; omega
    | .paren neg e => by
      intro hw; simp only [WFE] at hw
      have h1 := sizeE hc e hw
      cases neg <;> simp only [nE, fE, List.length_append, List.length_cons, List.length_nil, if_true, if_false, Bool.false_eq_true] <;> omega
    | .atom a => by
      intro hw; simp only [WFE] at hw
      have h1 := sizeA hc a hw
      simp only [nE, fE]; omega
  theorem sizeA (hc : ConstOK d cT P) : (a : Atom) → WFA P a → nA a + 7 ≤ 16 * (fA cT ot a).length
    | .const c => by
      intro hw; simp only [WFA] at hw
      have := cT_len d cT P hc c hw; simp only [nA, fA]; omega
    | .var v => by
      intro hw; simp only [WFA] at hw
      have := sizeV hc v hw; simp only [nA, fA]; omega
    | .call f args => by
      intro hw; simp only [WFA] at hw
      have := sizeArgs hc args hw
      simp only [nA, fA, List.length_append, List.length_cons, List.length_nil]; omega
    | .meth r f args => by
      intro hw; simp only [WFA] at hw
      have h1 := sizeA hc r hw.1; have h2 := sizeArgs hc args hw.2.2
      simp only [nA, fA, List.length_append, List.length_cons, List.length_nil]; omega
    | .member r n => by
      intro hw; simp only [WFA] at hw
      have h1 := sizeA hc r hw.1
      simp only [nA, fA, List.length_append, List.length_cons, List.length_nil]; omega
    | .sel r idx => by
      intro hw; simp only [WFA] at hw
      have h1 := sizeA hc r hw.1; have h2 := sizeE hc idx hw.2.2.2
      simp only [nA, fA, List.length_append, List.length_cons, List.length_nil]; omega
    | .neg a => by
      intro hw; simp only [WFA] at hw
      have h1 := sizeA hc a hw
      simp only [nA, fA, List.length_cons]; omega
  theorem sizeV (hc : ConstOK d cT P) : (v : Var) → WFV P v → nV v + 10 ≤ 16 * (fV cT ot v).length
    | .root n => by intro _; simp [nV, fV]
    | .field v n => by
      intro hw; simp only [WFV] at hw
      have h1 := sizeV hc v hw
      simp only [nV, fV, List.length_append, List.length_cons, List.length_nil]; omega
    | .index v e => by
      intro hw; simp only [WFV] at hw
      have h1 := sizeV hc v hw.1; have h2 := sizeE hc e hw.2
      simp only [nV, fV, List.length_append, List.length_cons, List.length_nil]; omega
  theorem sizeArgs (hc : ConstOK d cT P) : (args : Args) → WFArgs P args → nArgs args ≤ 16 * (fArgs cT ot args).length + 2
    | .nil => by intro _; simp [nArgs, fArgs]
    | .cons e rest => by
      intro hw; simp only [WFArgs] at hw
      have h1 := sizeE hc e hw.1; have h2 := sizeMore hc rest hw.2
      simp only [nArgs, fArgs, List.length_append]; omega
  theorem sizeMore (hc : ConstOK d cT P) : (args : Args) → WFArgs P args → nArgs args ≤ 16 * (fMore cT ot args).length + 2
    | .nil => by intro _; simp [nArgs, fMore]
    | .cons e rest => by
      intro hw; simp only [WFArgs] at hw
      have h1 := sizeE hc e hw.1; have h2 := sizeMore hc rest hw.2
      simp only [nArgs, fMore, List.length_append, List.length_cons]; omega
end

theorem sizeAct (hc : ConstOK d cT P) (a : Action) (hw : WFAct P a) : nAct a + 1 ≤ 16 * (fAction cT ot a).length := by
  cases a with
  | assign op v e =>
    simp only [WFAct] at hw
    have h1 := sizeV d cT ot P hc v hw.1; have h2 := sizeE d cT ot P hc e hw.2
    simp only [nAct, fAction, List.length_append, List.length_cons, List.length_nil]; omega
  | stmt a =>
    simp only [WFAct] at hw
    have h1 := sizeA d cT ot P hc a hw
    simp only [nAct, fAction, List.length_append, List.length_cons, List.length_nil]; omega

theorem sizeActs (hc : ConstOK d cT P) (acts : List Action) : (∀ a ∈ acts, WFAct P a) →
    ∀ m, acts.foldl (fun m a => m + nAct a) m + acts.length ≤ m + 16 * (fActs cT ot acts).length := by
  induction acts with
  | nil => intro _ m; simp [fActs]
  | cons a rest ih =>
    intro hw m
    have h1 := sizeAct d cT ot P hc a (hw a (by simp))
    have h2 := ih (fun x hx => hw x (by simp [hx])) (m + nAct a)
    simp only [List.foldl_cons, List.length_cons, fActs, List.length_append]
    omega

theorem sizeRule (hc : ConstOK d cT P) (r : Rule) (hw : WFRule P r) : nRule r ≤ 16 * (fRule cT ot dT r).length := by
  have h1 := sizeE d cT ot P hc r.cond hw.1
  have h2 := sizeActs d cT ot P hc r.acts hw.2.2.1 0
  unfold nRule fRule
  simp only [List.length_cons, List.length_append, List.length_nil]
  omega

theorem fRule_le_doc : (rules : List Rule) → ∀ r ∈ rules, (fRule cT ot dT r).length ≤ (fDoc cT ot dT rules).length
  | [], r, h => by cases h
  | x :: rest, r, h => by
    simp only [List.mem_cons] at h
    simp only [fDoc, List.length_append]
    rcases h with h | h
    · subst h; omega
    · have := fRule_le_doc rest r h; omega

theorem doc_len : (rules : List Rule) → rules.length ≤ (fDoc cT ot dT rules).length
  | [] => by simp
  | r :: rest => by
    have := doc_len rest
    simp only [fDoc, List.length_append, List.length_cons, fRule]
    omega

/-- **with fuel `16·|tokens| + 16` and `|tokens| + 1` rule iterations** every well-formed document is read back -/
theorem parse_doc_fuel (hc : ConstOK d cT P) (rules : List Rule) (hw : ∀ r ∈ rules, WFRule P r ∧ DescOK dT r.desc) :
    parseRules d (16 * (fDoc cT ot dT rules).length + 16) ((fDoc cT ot dT rules).length + 1) (fDoc cT ot dT rules) [] = (rules, none) := by
  have hf : ∀ r ∈ rules, nRule r ≤ 16 * (fDoc cT ot dT rules).length + 15 := by
    intro r hr
    have h1 := sizeRule d cT ot dT P hc r (hw r hr).1
    have h2 := fRule_le_doc cT ot dT rules r hr
    omega
  have hn := doc_len cT ot dT rules
  exact parse_doc d cT ot dT P hc rules hw (16 * (fDoc cT ot dT rules).length + 15) ((fDoc cT ot dT rules).length + 1) hf (by omega)

/-- **the document parser itself** (`parseDoc`, with its own fuel) reads every well-formed document back -/
theorem parseDoc_roundtrip (hc : ConstOK d cT P) (rules : List Rule) (hw : ∀ r ∈ rules, WFRule P r ∧ DescOK dT r.desc) :
    parseDoc d (fDoc cT ot dT rules) = (rules, none) := by
  unfold parseDoc fuelFor
  exact parse_doc_fuel d cT ot dT P hc rules hw

#print axioms parse_doc_fuel
#print axioms parseDoc_roundtrip

end Grule.ParseFuel

/-
  Which tokens lex (`LexRender.Lexes`) besides the fixed ones: names that are not keywords, decimal integers, strings as
  `strconv.Quote` writes them.
-/
import GruleModel.Proofs.LexRender
import GruleModel.Proofs.ParseGroup
import GruleModel.Proofs.QuoteRoundTrip
namespace Grule.LexTokens
open Grule.Syntax Grule.LexFacts Grule.LexRender Grule.ParseGroup Grule.Json Grule.QuoteRoundTrip

set_option maxRecDepth 4000

-- spans and character classes -----------------------------------------------------------------------------------------------

theorem span_app (p : Char → Bool) : ∀ (w : List Char) (x : Char) (r : List Char), (∀ c ∈ w, p c = true) → p x = false →
    span p (w ++ x :: r) = w.length
  | [], x, r, _, hx => by simp [span, hx]
  | a :: w, x, r, hw, hx => by
    have ha := hw a (by simp)
    simp only [List.cons_append, span, ha, if_true, List.length_cons]
    rw [span_app p w x r (fun c hc => hw c (by simp [hc])) hx]

theorem span_app_le (p : Char → Bool) : ∀ (w : List Char) (x : Char) (r : List Char), p x = false →
    span p (w ++ x :: r) ≤ w.length
  | [], x, r, hx => by simp [span, hx]
  | a :: w, x, r, hx => by
    simp only [List.cons_append, span, List.length_cons]
    split
    · have := span_app_le p w x r hx; omega
    · omega

theorem isc_ne (c p : Char) (hc : isISC c = true) (hp : isISC p = false) : c ≠ p := by
  intro h; subst h; rw [hc] at hp; cases hp

theorem ic_ne (c p : Char) (hc : isIC c = true) (hp : isIC p = false) : c ≠ p := by
  intro h; subst h; rw [hc] at hp; cases hp

theorem isc_not_dec (c : Char) (hc : isISC c = true) : isDec c = false := by
  simp only [isISC, iscRanges, List.any, inR, Bool.or_eq_true, Bool.and_eq_true, decide_eq_true_eq, Bool.or_false] at hc
  cases hd : isDec c with
  | false => rfl
  | true =>
    simp only [isDec, inR, Bool.and_eq_true, decide_eq_true_eq] at hd
    omega

theorem isc_not_ws (c : Char) (hc : isISC c = true) : isWs c = false := by
  have h1 := isc_ne c ' ' hc (by decide)
  have h2 := isc_ne c '\t' hc (by decide)
  have h3 := isc_ne c '\r' hc (by decide)
  have h4 := isc_ne c '\n' hc (by decide)
  simp [isWs, h1, h2, h3, h4]


/-- what the proofs need of the whitespace character after a token -/
structure WsFacts (sp : Char) : Prop where
  ic : isIC sp = false
  dec : isDec sp = false
  oct : isOct sp = false
  sign : (sp == '+' || sp == '-') = false
  low : lowerC sp = sp
  dot : sp ≠ '.'
  e : lowerC sp ≠ 'e'
  x : (lowerC sp == 'x') = false
  quote : (sp == '"') = false
  nokw : ∀ e ∈ fixedTable, sp ∉ e.2.2.toList

theorem wsFacts (sp : Char) (h : isWs sp = true) : WsFacts sp := by
  have hc : sp = ' ' ∨ sp = '\t' ∨ sp = '\r' ∨ sp = '\n' := by
    simp only [isWs, Bool.or_eq_true, beq_iff_eq] at h
    rcases h with ((h | h) | h) | h <;> simp [h]
  rcases hc with rfl | rfl | rfl | rfl <;>
    exact ⟨by decide, by decide, by decide, by decide, by decide, by decide, by decide, by decide, by decide, by decide +kernel⟩

-- single matchers at a character they cannot start with ---------------------------------------------------------------------

theorem lit_none (p : Char) (t : List Char) (c : Char) (cs : List Char) (h : p ≠ c) : lit (p :: t) (c :: cs) = none := by
  simp [lit, List.isPrefixOf, h]

theorem mStr_none (q c : Char) (cs : List Char) (h : c ≠ q) : mStr q (c :: cs) = none := by
  simp [mStr, h]

theorem mDecLit_none (c : Char) (cs : List Char) (h0 : c ≠ '0') (hd : isDec c = false) : mDecLit (c :: cs) = none := by
  simp [mDecLit, h0, hd]

theorem mFrac_none (c : Char) (cs : List Char) (h : c ≠ '.') : mFrac (c :: cs) = none := by
  unfold mFrac
  split
  · rename_i heq; simp only [List.cons.injEq] at heq; exact absurd heq.1 h
  · rfl

theorem mDecFloat_none (c : Char) (cs : List Char) (h0 : c ≠ '0') (hd : isDec c = false) (hp : c ≠ '.') :
    mDecFloat (c :: cs) = none := by
  simp [mDecFloat, decLitExact, mDecLit_none c cs h0 hd, mFrac_none c cs hp, omax]

theorem mHexFloat_none (c : Char) (cs : List Char) (h0 : c ≠ '0') : mHexFloat (c :: cs) = none := by
  unfold mHexFloat
  split
  · rename_i heq; simp only [List.cons.injEq] at heq; exact absurd heq.1 h0
  · rfl

theorem mHexLit_none (c : Char) (cs : List Char) (h0 : c ≠ '0') : mHexLit (c :: cs) = none := by
  unfold mHexLit
  split
  · rename_i heq; simp only [List.cons.injEq] at heq; exact absurd heq.1 h0
  · rfl

theorem mOctLit_none (c : Char) (cs : List Char) (h0 : c ≠ '0') : mOctLit (c :: cs) = none := by
  unfold mOctLit
  split
  · rename_i heq; simp only [List.cons.injEq] at heq; exact absurd heq.1 h0
  · rfl

theorem mSpace_none (c : Char) (cs : List Char) (h : isWs c = false) : mSpace (c :: cs) = none := by
  simp [mSpace, span, h]

theorem mComment_none (c : Char) (cs : List Char) (h : c ≠ '/') : mComment (c :: cs) = none := by
  unfold mComment
  split
  · rename_i heq; simp only [List.cons.injEq] at heq; exact absurd heq.1 h
  · rfl

theorem mLineComment_none (c : Char) (cs : List Char) (h : c ≠ '/') : mLineComment (c :: cs) = none := by
  unfold mLineComment
  split
  · rename_i heq; simp only [List.cons.injEq] at heq; exact absurd heq.1 h
  · rfl

/-- an exponent-shaped prefix of an identifier is no longer than the identifier -/
theorem mExp_le (sp : Char) (hsp : WsFacts sp) (e c : Char) (w rest : List Char) (hw : ∀ x ∈ w, isIC x = true) (n : Nat)
    (h : mExp e (c :: (w ++ sp :: rest)) = some n) : n ≤ w.length + 1 := by
  unfold mExp at h
  simp only at h
  split at h
  · cases w with
    | nil =>
      simp only [List.nil_append] at h
      simp only [hsp.sign, Bool.false_eq_true, if_false, span] at h
      simp [hsp.dec] at h
    | cons s w' =>
      have hs := hw s (by simp)
      have h1 : s ≠ '+' := ic_ne s '+' hs (by decide)
      have h2 : s ≠ '-' := ic_ne s '-' hs (by decide)
      have : (s == '+' || s == '-') = false := by simp [h1, h2]
      simp only [List.cons_append, this, Bool.false_eq_true, if_false] at h
      have hle := span_app_le isDec (s :: w') sp rest hsp.dec
      simp only [List.cons_append] at hle
      split at h
      · cases h
      · simp only [Option.some.injEq] at h
        simp only [List.length_cons] at hle ⊢
        omega
  · cases h

-- keywords ------------------------------------------------------------------------------------------------------------------

/-- a keyword matcher on an identifier followed by whitespace matches fewer characters than the identifier has, unless the
    identifier is that keyword in some capitalisation -/
theorem kw_lt (sp : Char) (hlow : lowerC sp = sp) (wd tx rest : List Char) (hsp : sp ∉ wd) (hne : tx.map lowerC ≠ wd) (n : Nat)
    (h : kw wd (tx ++ sp :: rest) = some n) : n < tx.length := by
  unfold kw at h
  split at h
  · rename_i hp
    simp only [Option.some.injEq] at h
    subst h
    rw [List.isPrefixOf_iff_prefix, List.map_take] at hp
    have hL : List.map lowerC (tx ++ sp :: rest) = tx.map lowerC ++ sp :: rest.map lowerC := by
      simp [hlow]
    rw [hL] at hp
    have h1 : wd <+: tx.map lowerC ++ sp :: rest.map lowerC := List.IsPrefix.trans hp (List.take_prefix _ _)
    have h2 : tx.map lowerC <+: tx.map lowerC ++ sp :: rest.map lowerC := List.prefix_append _ _
    rcases List.prefix_or_prefix_of_prefix h1 h2 with h3 | h3
    · have hle := h3.length_le
      simp only [List.length_map] at hle
      by_cases heq : wd.length = tx.length
      · exact absurd (h3.eq_of_length (by simp [heq])).symm hne
      · omega
    · obtain ⟨s, hs⟩ := h3
      cases s with
      | nil => simp only [List.append_nil] at hs; exact absurd hs hne
      | cons x s' =>
        rw [← hs, List.prefix_append_right_inj] at h1
        obtain ⟨t, ht⟩ := h1
        simp only [List.cons_append, List.cons.injEq] at ht
        exfalso
        apply hsp
        rw [← hs, ht.1]
        simp
  · cases h

/-- an identifier is a keyword if some capitalisation of a keyword spells it -/
def NotKeyword (tx : List Char) : Prop := ∀ e ∈ fixedTable, e.2.1 = true → tx.map lowerC ≠ e.2.2.toList

theorem fixed_punct : ∀ e ∈ fixedTable, e.2.1 = false → ∃ p t, e.2.2.toList = p :: t ∧ isISC p = false := by
  have : ∀ e ∈ fixedTable, e.2.1 = false → (match e.2.2.toList with | p :: _ => !isISC p | [] => false) = true := by decide +kernel
  intro e he hci
  have := this e he hci
  cases hl : e.2.2.toList with
  | nil => rw [hl] at this; cases this
  | cons p t =>
    rw [hl] at this
    exact ⟨p, t, rfl, by simpa using this⟩

-- names ---------------------------------------------------------------------------------------------------------------------

/-- the rules before `SIMPLENAME` -/
def preName : List LexRender.Rule :=
  (.comma, lit [',']) :: fixedTable.map (fun (k, ci, w) => (k, if ci then kw w.toList else lit w.toList))

/-- the rules after `SIMPLENAME` -/
def postName : List LexRender.Rule := [
  (.dq, mStr '"'), (.sq, mStr '\''),
  (.decFloat, mDecFloat), (.decExp, mExp 'e'), (.hexFloat, mHexFloat), (.hexExp, mExp 'p'),
  (.dec, mDecLit), (.hex, mHexLit), (.oct, mOctLit),
  (.space, mSpace), (.comment, mComment), (.lineComment, mLineComment)]

theorem rules_split : rules = preName ++ (.name, mName) :: postName := rfl

/-- **identifiers lex as names**: a letter-like character followed by identifier characters, not spelling a keyword in
    any capitalisation, before a space: the keyword rules match fewer characters, an exponent-shaped prefix (`e12`) no more
    (and `SIMPLENAME` is written first), nothing else matches at all -/
theorem lexes_name (c : Char) (w : List Char) (hc : isISC c = true) (hw : ∀ x ∈ w, isIC x = true) (hk : NotKeyword (c :: w)) :
    Lexes ⟨.name, c :: w⟩ := by
  refine ⟨rfl, fun sp rest hws => ?_⟩
  have hsp := wsFacts sp hws
  unfold nextToken
  rw [rules_split]
  simp only [List.cons_append, List.length_cons]
  apply pick_win
  · simp only [mName, hc, if_true]
    rw [span_app isIC w sp rest hw hsp.ic]
  · omega
  · intro r hr n' hn'
    simp only [preName, List.mem_cons, List.mem_map] at hr
    rcases hr with hr | ⟨e, he, hr⟩
    · subst hr
      simp only at hn'
      rw [lit_none ',' [] c _ (Ne.symm (isc_ne c ',' hc (by decide)))] at hn'
      cases hn'
    · obtain ⟨k, ci, wd⟩ := e
      simp only at hr
      subst hr
      cases ci with
      | false =>
        obtain ⟨p, t, hpt, hp⟩ := fixed_punct _ he rfl
        simp only at hpt
        simp only [Bool.false_eq_true, if_false, hpt] at hn'
        rw [lit_none p t c _ (Ne.symm (isc_ne c p hc hp))] at hn'
        cases hn'
      | true =>
        simp only [if_true] at hn'
        have := kw_lt sp hsp.low wd.toList (c :: w) rest (hsp.nokw _ he) (hk _ he rfl) n' (by simpa using hn')
        simpa using this
  · intro r hr n' hn'
    have h0 : c ≠ '0' := isc_ne c '0' hc (by decide)
    have hd : isDec c = false := isc_not_dec c hc
    have hdot : c ≠ '.' := isc_ne c '.' hc (by decide)
    have hsl : c ≠ '/' := isc_ne c '/' hc (by decide)
    simp only [postName, List.mem_cons, List.not_mem_nil, or_false] at hr
    rcases hr with hr | hr | hr | hr | hr | hr | hr | hr | hr | hr | hr | hr <;> subst hr <;> simp only at hn'
    · rw [mStr_none _ c _ (isc_ne c '"' hc (by decide))] at hn'; cases hn'
    · rw [mStr_none _ c _ (isc_ne c '\'' hc (by decide))] at hn'; cases hn'
    · rw [mDecFloat_none c _ h0 hd hdot] at hn'; cases hn'
    · exact mExp_le sp hsp 'e' c w rest hw n' hn'
    · rw [mHexFloat_none c _ h0] at hn'; cases hn'
    · exact mExp_le sp hsp 'p' c w rest hw n' hn'
    · rw [mDecLit_none c _ h0 hd] at hn'; cases hn'
    · rw [mHexLit_none c _ h0] at hn'; cases hn'
    · rw [mOctLit_none c _ h0] at hn'; cases hn'
    · rw [mSpace_none c _ (isc_not_ws c hc)] at hn'; cases hn'
    · rw [mComment_none c _ hsl] at hn'; cases hn'
    · rw [mLineComment_none c _ hsl] at hn'; cases hn'


-- keywords in any capitalisation ------------------------------------------------------------------------------------------------

theorem letter_isc (x : Char) (h : 0x61 ≤ (lowerC x).toNat ∧ (lowerC x).toNat ≤ 0x7A) : isISC x = true := by
  unfold lowerC at h
  by_cases hu : inR x 0x41 0x5A = true
  · simp only [inR, Bool.and_eq_true, decide_eq_true_eq] at hu
    simp only [isISC, iscRanges, List.any, inR, Bool.or_eq_true, Bool.and_eq_true, decide_eq_true_eq]
    exact Or.inl hu
  · simp only [hu, Bool.false_eq_true, if_false] at h
    simp only [isISC, iscRanges, List.any, inR, Bool.or_eq_true, Bool.and_eq_true, decide_eq_true_eq]
    exact Or.inr (Or.inl h)

theorem kw_letters : ∀ e ∈ fixedTable, e.2.1 = true → ∀ y ∈ e.2.2.toList, 0x61 ≤ y.toNat ∧ y.toNat ≤ 0x7A := by decide +kernel

theorem kw_distinct : ∀ e ∈ fixedTable, ∀ e' ∈ fixedTable, e.2.2 = e'.2.2 → e.1 = e'.1 := by decide +kernel

theorem kw_self (wd tx rest : List Char) (sp : Char) (h : tx.map lowerC = wd) : kw wd (tx ++ sp :: rest) = some tx.length := by
  unfold kw
  have hl : wd.length = tx.length := by rw [← h]; simp
  have : ((tx ++ sp :: rest).take wd.length).map lowerC = wd := by
    rw [hl, List.take_left' rfl, h]
  rw [this]
  simp [hl]

/-- the bound every rule other than the keyword's own obeys on a capitalisation of the keyword -/
theorem kw_others (sp : Char) (hsp : WsFacts sp) (k : TK) (wd : String) (hk : (k, true, wd) ∈ fixedTable) (c : Char) (w rest : List Char)
    (hw : (c :: w).map lowerC = wd.toList) (r : LexRender.Rule) (hr : r ∈ rules) (n' : Nat) (hn' : r.2 (c :: (w ++ sp :: rest)) = some n') :
    n' ≤ w.length + 1 ∧ (r.1 ≠ k → r ∈ preName → n' < w.length + 1) := by
  have hlet := kw_letters _ hk rfl
  have hall : ∀ x ∈ c :: w, isISC x = true := by
    intro x hx
    apply letter_isc
    apply hlet
    rw [← hw]
    exact List.mem_map_of_mem hx
  have hc := hall c (by simp)
  have hwic : ∀ x ∈ w, isIC x = true := fun x hx => by simp [isIC, hall x (by simp [hx])]
  rw [rules_split] at hr
  simp only [List.mem_append, List.mem_cons] at hr
  have hpre : r ∈ preName → (r.1 ≠ k → n' < w.length + 1) ∧ n' ≤ w.length + 1 := by
    intro hp
    simp only [preName, List.mem_cons, List.mem_map] at hp
    rcases hp with hp | ⟨e, he, hp⟩
    · subst hp
      simp only at hn'
      rw [lit_none ',' [] c _ (Ne.symm (isc_ne c ',' hc (by decide)))] at hn'
      cases hn'
    · obtain ⟨k', ci, wd'⟩ := e
      simp only at hp
      subst hp
      cases ci with
      | false =>
        obtain ⟨p, t, hpt, hp⟩ := fixed_punct _ he rfl
        simp only at hpt
        simp only [Bool.false_eq_true, if_false, hpt] at hn'
        rw [lit_none p t c _ (Ne.symm (isc_ne c p hc hp))] at hn'
        cases hn'
      | true =>
        simp only [if_true] at hn'
        by_cases hsame : wd' = wd
        · subst hsame
          have hkk : k' = k := kw_distinct _ he _ hk rfl
          have := kw_self wd'.toList (c :: w) rest sp hw
          simp only [List.cons_append] at this
          rw [this] at hn'
          simp only [Option.some.injEq, List.length_cons] at hn'
          exact ⟨fun hne => absurd hkk hne, by omega⟩
        · have hne : (c :: w).map lowerC ≠ wd'.toList := by
            rw [hw]
            intro h
            exact hsame (String.ext h).symm
          have := kw_lt sp hsp.low wd'.toList (c :: w) rest (hsp.nokw _ he) hne n' (by simpa using hn')
          simp only [List.length_cons] at this
          exact ⟨fun _ => this, by omega⟩
  rcases hr with hr | hr | hr
  · exact ⟨(hpre hr).2, fun hne _ => (hpre hr).1 hne⟩
  · subst hr
    simp only [mName, hc, if_true, Option.some.injEq] at hn'
    rw [span_app isIC w sp rest hwic hsp.ic] at hn'
    refine ⟨by omega, fun _ hp => ?_⟩
    exfalso
    have hk2 : TK.name ∈ TK.comma :: fixedTable.map (·.1) := by
      simp only [preName, List.mem_cons, List.mem_map] at hp
      rcases hp with hp | ⟨e, he, hp⟩
      · have := congrArg Prod.fst hp
        simp at this
      · have := congrArg Prod.fst hp
        simp only at this
        simp only [List.mem_cons, List.mem_map]
        exact Or.inr ⟨e, he, this⟩
    revert hk2
    decide +kernel
  · have h0 : c ≠ '0' := isc_ne c '0' hc (by decide)
    have hd : isDec c = false := isc_not_dec c hc
    have hdot : c ≠ '.' := isc_ne c '.' hc (by decide)
    have hsl : c ≠ '/' := isc_ne c '/' hc (by decide)
    have hle : n' ≤ w.length + 1 := by
      simp only [postName, List.mem_cons, List.not_mem_nil, or_false] at hr
      rcases hr with hr | hr | hr | hr | hr | hr | hr | hr | hr | hr | hr | hr <;> subst hr <;> simp only at hn'
      · rw [mStr_none _ c _ (isc_ne c '"' hc (by decide))] at hn'; cases hn'
      · rw [mStr_none _ c _ (isc_ne c '\'' hc (by decide))] at hn'; cases hn'
      · rw [mDecFloat_none c _ h0 hd hdot] at hn'; cases hn'
      · exact mExp_le sp hsp 'e' c w rest hwic n' hn'
      · rw [mHexFloat_none c _ h0] at hn'; cases hn'
      · exact mExp_le sp hsp 'p' c w rest hwic n' hn'
      · rw [mDecLit_none c _ h0 hd] at hn'; cases hn'
      · rw [mHexLit_none c _ h0] at hn'; cases hn'
      · rw [mOctLit_none c _ h0] at hn'; cases hn'
      · rw [mSpace_none c _ (isc_not_ws c hc)] at hn'; cases hn'
      · rw [mComment_none c _ hsl] at hn'; cases hn'
      · rw [mLineComment_none c _ hsl] at hn'; cases hn'
    refine ⟨hle, fun _ hp => ?_⟩
    exfalso
    -- a rule after the names is not among the rules before them: the kinds differ
    have hk1 : r.1 ∈ [TK.dq, TK.sq, TK.decFloat, TK.decExp, TK.hexFloat, TK.hexExp, TK.dec, TK.hex, TK.oct, TK.space, TK.comment, TK.lineComment] := by
      simp only [postName, List.mem_cons, List.not_mem_nil, or_false] at hr
      rcases hr with hr | hr | hr | hr | hr | hr | hr | hr | hr | hr | hr | hr <;> subst hr <;> simp
    have hk2 : r.1 ∈ TK.comma :: fixedTable.map (·.1) := by
      simp only [preName, List.mem_cons, List.mem_map] at hp
      rcases hp with hp | ⟨e, he, hp⟩
      · subst hp; simp
      · subst hp
        simp only [List.mem_cons, List.mem_map]
        exact Or.inr ⟨e, he, rfl⟩
    revert hk1 hk2
    generalize r.1 = kk
    revert kk
    decide +kernel

theorem fixed_kinds_nodup : (TK.comma :: fixedTable.map (·.1)).Nodup := by decide +kernel

/-- **keywords lex as keywords in any capitalisation** (`RULE`, `When`, `tRuE`, …): the keyword's rule matches the whole word,
    every rule written before it matches less, `SIMPLENAME` matches the same word but is written later -/
theorem lexes_keyword (k : TK) (wd : String) (hk : (k, true, wd) ∈ fixedTable) (tx : List Char) (hw : tx.map lowerC = wd.toList) :
    Lexes ⟨k, tx⟩ := by
  have hskip : k.skipped = false := by
    have : ∀ e ∈ fixedTable, e.1.skipped = false := by decide +kernel
    exact this _ hk
  refine ⟨hskip, fun sp rest hws => ?_⟩
  have hsp := wsFacts sp hws
  cases tx with
  | nil =>
    exfalso
    have : ∀ e ∈ fixedTable, e.2.2.toList ≠ [] := by decide +kernel
    exact this _ hk (by simpa using hw.symm)
  | cons c w =>
    obtain ⟨s, t, hst⟩ := List.append_of_mem hk
    have hrules : rules = ((TK.comma, lit [',']) :: s.map (fun (k, ci, w) => (k, if ci then kw w.toList else lit w.toList))) ++
        (k, kw wd.toList) :: (t.map (fun (k, ci, w) => (k, if ci then kw w.toList else lit w.toList)) ++ patternRules) := by
      unfold rules
      rw [hst]
      simp
    have hnd := fixed_kinds_nodup
    rw [hst] at hnd
    simp only [List.map_append, List.map_cons, List.nodup_cons, List.nodup_append, List.mem_append, List.mem_cons, List.mem_map,
      not_or] at hnd
    obtain ⟨pre, hpre⟩ : ∃ pre, pre = (TK.comma, lit [',']) :: s.map (fun (k, ci, w) => (k, if ci then kw w.toList else lit w.toList)) := ⟨_, rfl⟩
    obtain ⟨post, hpost⟩ : ∃ post, post = t.map (fun (k, ci, w) => (k, if ci then kw w.toList else lit w.toList)) ++ patternRules := ⟨_, rfl⟩
    rw [← hpre, ← hpost] at hrules
    have hmem : ∀ r, r ∈ pre ∨ r ∈ post → r ∈ rules := by
      intro r hr
      rw [hrules]
      simp only [List.mem_append, List.mem_cons]
      rcases hr with hr | hr
      · exact Or.inl hr
      · exact Or.inr (Or.inr hr)
    have hself := kw_self wd.toList (c :: w) rest sp hw
    simp only [List.cons_append, List.length_cons] at hself
    unfold nextToken
    rw [hrules]
    simp only [List.cons_append, List.length_cons]
    refine pick_win _ pre post k (kw wd.toList) (w.length + 1) hself (by omega) ?_ ?_
    · intro r hr n' hn'
      have hb := kw_others sp hsp k wd hk c w rest hw r (hmem r (Or.inl hr)) n' hn'
      rw [hpre] at hr
      apply hb.2
      · -- kinds before the keyword differ from it
        simp only [List.mem_cons, List.mem_map] at hr
        rcases hr with hr | ⟨e, he, hr⟩
        · subst hr
          intro h
          exact hnd.1.2.1 h
        · subst hr
          exact hnd.2.2.2 e.1 ⟨e, he, rfl⟩ k (Or.inl rfl)
      · simp only [preName, List.mem_cons, List.mem_map] at hr ⊢
        rcases hr with hr | ⟨e, he, hr⟩
        · exact Or.inl hr
        · exact Or.inr ⟨e, by rw [hst]; simp [he], hr⟩
    · intro r hr n' hn'
      exact (kw_others sp hsp k wd hk c w rest hw r (hmem r (Or.inr hr)) n' hn').1

#print axioms lexes_keyword

-- decimal integers ----------------------------------------------------------------------------------------------------------

theorem dec_not_isc (d : Char) (hd : isDec d = true) : isISC d = false := by
  cases h : isISC d with
  | false => rfl
  | true => rw [isc_not_dec d h] at hd; cases hd

theorem dec_ne (d p : Char) (hd : isDec d = true) (hp : isDec p = false) : d ≠ p := by
  intro h; subst h; rw [hd] at hp; cases hp

theorem dec_lower (d : Char) (hd : isDec d = true) : lowerC d = d := by
  simp only [isDec, inR, Bool.and_eq_true, decide_eq_true_eq] at hd
  have : inR d 0x41 0x5A = false := by
    simp only [inR, Bool.and_eq_false_iff, decide_eq_false_iff_not]
    omega
  simp [lowerC, this]

theorem kw_none (p : Char) (t : List Char) (c : Char) (cs : List Char) (h : p ≠ lowerC c) : kw (p :: t) (c :: cs) = none := by
  simp [kw, List.isPrefixOf, h]

theorem mExp_none (e c : Char) (cs : List Char) (h : lowerC c ≠ e) : mExp e (c :: cs) = none := by
  simp [mExp, h]

theorem mName_none (c : Char) (cs : List Char) (h : isISC c = false) : mName (c :: cs) = none := by
  simp [mName, h]

theorem fixed_nondigit : ∀ e ∈ fixedTable, ∃ p t, e.2.2.toList = p :: t ∧ isDec p = false := by
  have : ∀ e ∈ fixedTable, (match e.2.2.toList with | p :: _ => !isDec p | [] => false) = true := by decide +kernel
  intro e he
  have := this e he
  cases hl : e.2.2.toList with
  | nil => rw [hl] at this; cases this
  | cons p t =>
    rw [hl] at this
    exact ⟨p, t, rfl, by simpa using this⟩

def preDec : List LexRender.Rule :=
  preName ++ [(.name, mName), (.dq, mStr '"'), (.sq, mStr '\''), (.decFloat, mDecFloat), (.decExp, mExp 'e'),
    (.hexFloat, mHexFloat), (.hexExp, mExp 'p')]

def postDec : List LexRender.Rule :=
  [(.hex, mHexLit), (.oct, mOctLit), (.space, mSpace), (.comment, mComment), (.lineComment, mLineComment)]

theorem rules_split_dec : rules = preDec ++ (.dec, mDecLit) :: postDec := rfl

/-- `DEC_LIT` on digits before whitespace -/
theorem mDecLit_digits (sp : Char) (hsp : WsFacts sp) (d : Char) (ds rest : List Char) (hd : isDec d = true)
    (hds : ∀ x ∈ ds, isDec x = true) (hz : d = '0' → ds = []) : mDecLit (d :: (ds ++ sp :: rest)) = some (ds.length + 1) := by
  unfold mDecLit
  by_cases h0 : d = '0'
  · subst h0
    rw [hz rfl]
    simp
  · simp only [beq_iff_eq, h0, if_false, hd, if_true]
    rw [span_app isDec ds sp rest hds hsp.dec]

theorem span_digits (sp : Char) (hsp : WsFacts sp) (d : Char) (ds rest : List Char) (hd : isDec d = true)
    (hds : ∀ x ∈ ds, isDec x = true) : span isDec (d :: (ds ++ sp :: rest)) = ds.length + 1 := by
  simp only [span, hd, if_true]
  rw [span_app isDec ds sp rest hds hsp.dec]

theorem mDecFloat_digits (sp : Char) (hsp : WsFacts sp) (d : Char) (ds rest : List Char) (hd : isDec d = true)
    (hds : ∀ x ∈ ds, isDec x = true) (hz : d = '0' → ds = []) : mDecFloat (d :: (ds ++ sp :: rest)) = none := by
  unfold mDecFloat decLitExact
  rw [mDecLit_digits sp hsp d ds rest hd hds hz, span_digits sp hsp d ds rest hd hds]
  have hdrop : (d :: (ds ++ sp :: rest)).drop (ds.length + 1) = sp :: rest := by simp
  simp only [beq_self_eq_true, if_true, hdrop]
  rw [mFrac_none sp rest hsp.dot, mExp_none 'e' sp rest hsp.e, mFrac_none d _ (dec_ne d '.' hd (by decide))]
  rfl

theorem zero_x_none (sp : Char) (hsp : WsFacts sp) (d : Char) (ds rest : List Char) (hz : d = '0' → ds = []) :
    mHexFloat (d :: (ds ++ sp :: rest)) = none ∧ mHexLit (d :: (ds ++ sp :: rest)) = none ∧
    mOctLit (d :: (ds ++ sp :: rest)) = none := by
  by_cases h0 : d = '0'
  · subst h0
    rw [hz rfl]
    refine ⟨?_, ?_, ?_⟩
    · simp [mHexFloat, hsp.x]
    · simp [mHexLit, hsp.x]
    · simp [mOctLit, span, hsp.oct]
  · exact ⟨mHexFloat_none d _ h0, mHexLit_none d _ h0, mOctLit_none d _ h0⟩

/-- **decimal integer literals lex as `DEC_LIT`**: digits without a superfluous leading zero, before a space -/
theorem lexes_digits (d : Char) (ds : List Char) (hd : isDec d = true) (hds : ∀ x ∈ ds, isDec x = true)
    (hz : d = '0' → ds = []) : Lexes ⟨.dec, d :: ds⟩ := by
  refine ⟨rfl, fun sp rest hws => ?_⟩
  have hsp := wsFacts sp hws
  unfold nextToken
  rw [rules_split_dec]
  simp only [List.cons_append, List.length_cons]
  have hlow := dec_lower d hd
  have hzx := zero_x_none sp hsp d ds rest hz
  apply pick_win
  · exact mDecLit_digits sp hsp d ds rest hd hds hz
  · omega
  · intro r hr n' hn'
    simp only [preDec, List.mem_append, List.mem_cons, List.not_mem_nil, or_false] at hr
    rcases hr with hr | hr
    · simp only [preName, List.mem_cons, List.mem_map] at hr
      rcases hr with hr | ⟨e, he, hr⟩
      · subst hr
        simp only at hn'
        rw [lit_none ',' [] d _ (Ne.symm (dec_ne d ',' hd (by decide)))] at hn'
        cases hn'
      · obtain ⟨p, t, hpt, hp⟩ := fixed_nondigit e he
        obtain ⟨k, ci, wd⟩ := e
        simp only at hr hpt
        subst hr
        cases ci with
        | false =>
          simp only [Bool.false_eq_true, if_false, hpt] at hn'
          rw [lit_none p t d _ (Ne.symm (dec_ne d p hd hp))] at hn'
          cases hn'
        | true =>
          simp only [if_true, hpt] at hn'
          rw [kw_none p t d _ (by rw [hlow]; exact Ne.symm (dec_ne d p hd hp))] at hn'
          cases hn'
    · rcases hr with hr | hr | hr | hr | hr | hr | hr <;> subst hr <;> simp only at hn'
      · rw [mName_none d _ (dec_not_isc d hd)] at hn'; cases hn'
      · rw [mStr_none _ d _ (dec_ne d '"' hd (by decide))] at hn'; cases hn'
      · rw [mStr_none _ d _ (dec_ne d '\'' hd (by decide))] at hn'; cases hn'
      · rw [mDecFloat_digits sp hsp d ds rest hd hds hz] at hn'; cases hn'
      · rw [mExp_none 'e' d _ (by rw [hlow]; exact dec_ne d 'e' hd (by decide))] at hn'; cases hn'
      · rw [hzx.1] at hn'; cases hn'
      · rw [mExp_none 'p' d _ (by rw [hlow]; exact dec_ne d 'p' hd (by decide))] at hn'; cases hn'
  · intro r hr n' hn'
    simp only [postDec, List.mem_cons, List.not_mem_nil, or_false] at hr
    have hws : isWs d = false := by
      have h1 := dec_ne d ' ' hd (by decide)
      have h2 := dec_ne d '\t' hd (by decide)
      have h3 := dec_ne d '\r' hd (by decide)
      have h4 := dec_ne d '\n' hd (by decide)
      simp [isWs, h1, h2, h3, h4]
    have hsl := dec_ne d '/' hd (by decide)
    rcases hr with hr | hr | hr | hr | hr <;> subst hr <;> simp only at hn'
    · rw [hzx.2.1] at hn'; cases hn'
    · rw [hzx.2.2] at hn'; cases hn'
    · rw [mSpace_none d _ hws] at hn'; cases hn'
    · rw [mComment_none d _ hsl] at hn'; cases hn'
    · rw [mLineComment_none d _ hsl] at hn'; cases hn'


-- strings -------------------------------------------------------------------------------------------------------------------

theorem hexDigit_plain : ∀ d : Fin 16, hexDigit d.val ≠ '"' ∧ hexDigit d.val ≠ '\\' := by decide

theorem hexPad_plain (k n : Nat) (hk : k = 2 ∨ k = 4 ∨ k = 8) : ∀ h ∈ hexPad k n, h ≠ '"' ∧ h ≠ '\\' := by
  intro h hh
  have key : ∀ m : Nat, hexDigit (m % 16) ≠ '"' ∧ hexDigit (m % 16) ≠ '\\' :=
    fun m => hexDigit_plain ⟨m % 16, Nat.mod_lt _ (by decide)⟩
  rcases hk with hk | hk | hk <;> subst hk
  · rw [hexPad2] at hh
    simp only [List.mem_cons, List.not_mem_nil, or_false] at hh
    rcases hh with hh | hh <;> subst hh <;> exact key _
  · rw [hexPad4] at hh
    simp only [List.mem_cons, List.not_mem_nil, or_false] at hh
    rcases hh with hh | hh | hh | hh <;> subst hh <;> exact key _
  · rw [hexPad8] at hh
    simp only [List.mem_cons, List.not_mem_nil, or_false] at hh
    rcases hh with hh | hh | hh | hh | hh | hh | hh | hh <;> subst hh <;> exact key _

/-- what `strconv.Quote` writes for one rune: the rune itself (no quote, no backslash), or a backslash, one character,
    and hexadecimal digits -/
theorem quoteRune_shape (c : Char) (a : List Char) (h : quoteRune c = some a) :
    (a = [c] ∧ c ≠ '"' ∧ c ≠ '\\') ∨ (∃ x hs, a = '\\' :: x :: hs ∧ ∀ h ∈ hs, h ≠ '"' ∧ h ≠ '\\') := by
  unfold quoteRune at h
  simp only at h
  by_cases hq : (c == '"') = true
  · simp only [hq, if_true, Option.some.injEq] at h
    subst h; exact Or.inr ⟨_, [], rfl, by simp⟩
  · simp only [hq, Bool.false_eq_true, if_false] at h
    by_cases hb : (c == '\\') = true
    · simp only [hb, if_true, Option.some.injEq] at h
      subst h; exact Or.inr ⟨_, [], rfl, by simp⟩
    · simp only [hb, Bool.false_eq_true, if_false] at h
      have hq' : c ≠ '"' := by simpa using hq
      have hb' : c ≠ '\\' := by simpa using hb
      cases hp : isPrintGo c with
      | yes =>
        simp only [hp, Option.some.injEq] at h
        subst h
        exact Or.inl ⟨rfl, hq', hb'⟩
      | unknown => simp [hp] at h
      | no =>
        simp only [hp] at h
        by_cases h7 : c.toNat = 7
        · simp [h7] at h; subst h; exact Or.inr ⟨_, [], rfl, by simp⟩
        by_cases h8 : c.toNat = 8
        · simp [h8] at h; subst h; exact Or.inr ⟨_, [], rfl, by simp⟩
        by_cases h12 : c.toNat = 12
        · simp [h12] at h; subst h; exact Or.inr ⟨_, [], rfl, by simp⟩
        by_cases h10 : c.toNat = 10
        · simp [h10] at h; subst h; exact Or.inr ⟨_, [], rfl, by simp⟩
        by_cases h13 : c.toNat = 13
        · simp [h13] at h; subst h; exact Or.inr ⟨_, [], rfl, by simp⟩
        by_cases h9 : c.toNat = 9
        · simp [h9] at h; subst h; exact Or.inr ⟨_, [], rfl, by simp⟩
        by_cases h11 : c.toNat = 11
        · simp [h11] at h; subst h; exact Or.inr ⟨_, [], rfl, by simp⟩
        simp only [h7, h8, h12, h10, h13, h9, h11, beq_iff_eq, if_false] at h
        by_cases hx : (decide (c.toNat < 0x20) || c.toNat == 0x7F) = true
        · simp only [hx, if_true, Option.some.injEq] at h
          subst h
          exact Or.inr ⟨_, hexPad 2 c.toNat, rfl, hexPad_plain 2 _ (Or.inl rfl)⟩
        · simp only [hx, Bool.false_eq_true, if_false] at h
          by_cases hu : c.toNat < 0x10000
          · simp only [hu, if_true, Option.some.injEq] at h
            subst h
            exact Or.inr ⟨_, hexPad 4 c.toNat, rfl, hexPad_plain 4 _ (Or.inr (Or.inl rfl))⟩
          · simp only [hu, if_false, Option.some.injEq] at h
            subst h
            exact Or.inr ⟨_, hexPad 8 c.toNat, rfl, hexPad_plain 8 _ (Or.inr (Or.inr rfl))⟩

/-- the string-body scanner passes over `a` -/
def Skip (a : List Char) : Prop :=
  ∀ (tail : List Char) (pos : Nat) (best : Option Nat), strBody '"' (a ++ tail) pos best = strBody '"' tail (pos + a.length) best

theorem skip_nil : Skip [] := fun _ _ _ => rfl

theorem skip_plain (c : Char) (h1 : c ≠ '"') (h2 : c ≠ '\\') : Skip [c] := by
  intro tail pos best
  have e1 : (c == '\\') = false := by simpa using h2
  have e2 : (c == '"') = false := by simpa using h1
  show strBody '"' (c :: tail) pos best = _
  rw [strBody.eq_def]
  simp only [e1, e2, Bool.false_eq_true, if_false, List.length_cons, List.length_nil, Nat.zero_add]

theorem skip_append (a b : List Char) (ha : Skip a) (hb : Skip b) : Skip (a ++ b) := by
  intro tail pos best
  rw [List.append_assoc, ha, hb, List.length_append, Nat.add_assoc]

theorem skip_plains : ∀ (hs : List Char), (∀ h ∈ hs, h ≠ '"' ∧ h ≠ '\\') → Skip hs
  | [], _ => skip_nil
  | h :: hs, hh => by
    have := skip_append [h] hs (skip_plain h (hh h (by simp)).1 (hh h (by simp)).2)
      (skip_plains hs (fun x hx => hh x (by simp [hx])))
    simpa using this

theorem skip_esc (x : Char) (hs : List Char) (hh : ∀ h ∈ hs, h ≠ '"' ∧ h ≠ '\\') : Skip ('\\' :: x :: hs) := by
  intro tail pos best
  simp only [List.cons_append, strBody, beq_self_eq_true, if_true]
  rw [skip_plains hs hh]
  simp only [List.length_cons]
  congr 1
  omega

theorem skip_rune (c : Char) (a : List Char) (h : quoteRune c = some a) : Skip a := by
  rcases quoteRune_shape c a h with ⟨rfl, h1, h2⟩ | ⟨x, hs, rfl, hh⟩
  · exact skip_plain c h1 h2
  · exact skip_esc x hs hh

theorem skip_body : ∀ (s b : List Char), quoteBody s = some b → Skip b
  | [], b, h => by simp only [quoteBody, Option.some.injEq] at h; subst h; exact skip_nil
  | c :: s, b, h => by
    simp only [quoteBody] at h
    cases hr : quoteRune c with
    | none => simp [hr] at h
    | some a =>
      cases hb : quoteBody s with
      | none => simp [hr, hb] at h
      | some b' =>
        simp only [hr, hb, Option.some.injEq] at h
        subst h
        exact skip_append a b' (skip_rune c a hr) (skip_body s b' hb)

def preStr : List LexRender.Rule := preName ++ [(.name, mName)]

def postStr : List LexRender.Rule := [(.sq, mStr '\''),
  (.decFloat, mDecFloat), (.decExp, mExp 'e'), (.hexFloat, mHexFloat), (.hexExp, mExp 'p'),
  (.dec, mDecLit), (.hex, mHexLit), (.oct, mOctLit),
  (.space, mSpace), (.comment, mComment), (.lineComment, mLineComment)]

theorem rules_split_str : rules = preStr ++ (.dq, mStr '"') :: postStr := rfl

theorem fixed_nonquote : ∀ e ∈ fixedTable, ∃ p t, e.2.2.toList = p :: t ∧ p ≠ '"' := by
  have : ∀ e ∈ fixedTable, (match e.2.2.toList with | p :: _ => p != '"' | [] => false) = true := by decide +kernel
  intro e he
  have := this e he
  cases hl : e.2.2.toList with
  | nil => rw [hl] at this; cases this
  | cons p t =>
    rw [hl] at this
    exact ⟨p, t, rfl, by simpa using this⟩

/-- **string literals as `strconv.Quote` writes them lex as one double-quoted string**, whatever characters the string
    has (quotes, backslashes, control characters, escapes), before a space -/
theorem lexes_quoted (s q : List Char) (h : quoteGo s = .ok q) : Lexes ⟨.dq, q⟩ := by
  unfold quoteGo at h
  cases hb : quoteBody s with
  | none => simp [hb] at h
  | some b =>
    simp only [hb, Except.ok.injEq] at h
    subst h
    refine ⟨rfl, fun sp rest hws => ?_⟩
    have hsp := wsFacts sp hws
    unfold nextToken
    rw [rules_split_str]
    have hq : (['"'] ++ b ++ ['"']) ++ sp :: rest = '"' :: (b ++ ('"' :: sp :: rest)) := by simp
    simp only [hq]
    apply pick_win
    · simp only [mStr, beq_self_eq_true, if_true]
      rw [skip_body s b hb]
      simp [strBody, hsp.quote]
      omega
    · simp
    · intro r hr n' hn'
      simp only [preStr, List.mem_append, List.mem_cons, List.not_mem_nil, or_false] at hr
      rcases hr with hr | hr
      · simp only [preName, List.mem_cons, List.mem_map] at hr
        rcases hr with hr | ⟨e, he, hr⟩
        · subst hr
          simp only at hn'
          rw [lit_none ',' [] '"' _ (by decide)] at hn'
          cases hn'
        · obtain ⟨p, t, hpt, hp⟩ := fixed_nonquote e he
          obtain ⟨k, ci, wd⟩ := e
          simp only at hr hpt
          subst hr
          cases ci with
          | false =>
            simp only [Bool.false_eq_true, if_false, hpt] at hn'
            rw [lit_none p t '"' _ hp] at hn'
            cases hn'
          | true =>
            simp only [if_true, hpt] at hn'
            rw [kw_none p t '"' _ (by rw [show lowerC '"' = '"' by decide]; exact hp)] at hn'
            cases hn'
      · subst hr
        simp only at hn'
        rw [mName_none '"' _ (by decide)] at hn'; cases hn'
    · intro r hr n' hn'
      simp only [postStr, List.mem_cons, List.not_mem_nil, or_false] at hr
      rcases hr with hr | hr | hr | hr | hr | hr | hr | hr | hr | hr | hr <;> subst hr <;> simp only at hn'
      · rw [mStr_none _ '"' _ (by decide)] at hn'; cases hn'
      · rw [mDecFloat_none '"' _ (by decide) (by decide) (by decide)] at hn'; cases hn'
      · rw [mExp_none 'e' '"' _ (by decide)] at hn'; cases hn'
      · rw [mHexFloat_none '"' _ (by decide)] at hn'; cases hn'
      · rw [mExp_none 'p' '"' _ (by decide)] at hn'; cases hn'
      · rw [mDecLit_none '"' _ (by decide) (by decide)] at hn'; cases hn'
      · rw [mHexLit_none '"' _ (by decide)] at hn'; cases hn'
      · rw [mOctLit_none '"' _ (by decide)] at hn'; cases hn'
      · rw [mSpace_none '"' _ (by decide)] at hn'; cases hn'
      · rw [mComment_none '"' _ (by decide)] at hn'; cases hn'
      · rw [mLineComment_none '"' _ (by decide)] at hn'; cases hn'

#print axioms lexes_name
#print axioms lexes_digits
#print axioms lexes_quoted

end Grule.LexTokens

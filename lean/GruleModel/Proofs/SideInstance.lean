/-
  Non-vacuity of the refinement theorems' side conditions **with the working memory on**: a concrete knowledge base
  (one rule reading and assigning `X`) whose configuration meets `Side` — in particular `FrameHyp`: from every coherent
  state, whatever the facts and whatever is remembered, assigning `X` leaves the memo coherent, because the index lists
  every registered node that mentions `X` and the others are constants.
-/
import GruleModel.Proofs.Side
import GruleModel.Library
namespace Grule.SideInstance
open Grule

def eX : Expr := .atom (.var (.root "X"))
def e1 : Expr := .atom (.const (.int 1))
def e0 : Expr := .atom (.const (.int 0))
def cond0 : Expr := .bin .gt eX e1
def rule0 : Rule := { name := "R", desc := "", salience := 0, cond := cond0, acts := [.assign .set (.root "X") e0] }
def entries0 : List RuleEntry := [{ key := "R", rule := rule0 }]
def noText : LitText := fun _ => none
def wm0 : WM := (regRule noText {} rule0).indexVariables
def c0 : Cfg := { (default : Cfg) with memo := true, methods := fun _ _ _ _ _ => .noMethod, wm := wm0 }

theorem exprs0 : wm0.exprs.map (·.1) = [snapE eX, snapE e1, snapE cond0, snapE e0] := by decide +kernel
theorem atoms0 : wm0.atoms.map (·.1) = [snapA (.var (.root "X")), snapA (.const (.int 1)), snapA (.const (.int 0))] := by decide +kernel
theorem eidx0 : (snapGet (snapV (.root "X")) wm0.exprIdx).getD [] = [snapE eX, snapE cond0] := by decide +kernel
theorem aidx0 : (snapGet (snapV (.root "X")) wm0.atomIdx).getD [] = [snapA (.var (.root "X"))] := by decide +kernel


theorem snapGet_isSome_mem {α} (k : Snap) : ∀ (l : List (Snap × α)), (snapGet k l).isSome = true → k ∈ l.map (·.1)
  | [], h => by simp [snapGet] at h
  | (k', v) :: rest, h => by
    simp only [snapGet] at h
    by_cases hk : (k == k') = true
    · have : k = k' := by simpa using hk
      simp [this]
    · simp only [hk] at h
      simp only [List.map_cons, List.mem_cons]
      exact Or.inr (snapGet_isSome_mem k rest h)

theorem memoErase_not_mem (keys : List Snap) : ∀ (m : Memo) (k : Snap) (v : Val),
    snapGet k (memoErase keys m) = some v → keys.contains k = false
  | [], k, v, h => by simp [memoErase, snapGet] at h
  | (k', v') :: rest, k, v, h => by
    unfold memoErase at h
    simp only [List.filter] at h
    cases hc : keys.contains k' with
    | true =>
      simp only [hc, Bool.not_true] at h
      exact memoErase_not_mem keys rest k v (by unfold memoErase; exact h)
    | false =>
      simp only [hc, Bool.not_false, snapGet] at h
      by_cases hk : (k == k') = true
      · have : k = k' := by simpa using hk
        rw [this]; exact hc
      · simp only [hk] at h
        exact memoErase_not_mem keys rest k v (by unfold memoErase; exact h)

theorem memo_on : c0.memo = true := rfl
theorem wm_c0 : c0.wm = wm0 := rfl

/-- **`FrameHyp` holds for this knowledge base with the working memory on.** -/
theorem frame0 (hfl : FloatPF) : FrameHyp c0 (Targets entries0) := by
  intro s s' t new ht hc ha
  have hi := snapInj_of hfl
  obtain ⟨e, he, op, rhs, hmem⟩ := ht
  simp only [entries0, List.mem_singleton] at he
  subst he
  simp only [rule0, List.mem_singleton, Action.assign.injEq] at hmem
  obtain ⟨_, rfl, _⟩ := hmem
  unfold assignVar at ha
  simp only at ha
  cases hw : writeRoot s.st "X" new with
  | error e => simp [hw] at ha
  | ok st' =>
    simp only [hw, memo_on, if_true, Prod.mk.injEq, true_and] at ha
    subst ha
    unfold resetVariable
    rw [wm_c0, eidx0, aidx0]
    refine ⟨?_, ?_, ?_, ?_⟩
    · intro x v hx hg
      simp only [memoGetE, memo_on, if_true] at hg
      have hne := memoErase_not_mem _ _ _ _ hg
      have hold := Grule.memoErase_some _ _ _ _ hg
      have hgo : memoGetE c0 (snapE x) s = some v := by simp only [memoGetE, memo_on, if_true]; exact hold
      have hreg := snapGet_isSome_mem _ _ (hc.ke _ _ hgo)
      rw [wm_c0, exprs0] at hreg
      simp only [List.mem_cons, List.not_mem_nil, or_false] at hreg
      simp only [List.contains_cons, List.contains_nil, Bool.or_false, Bool.or_eq_false_iff, beq_eq_false_iff_ne, ne_eq] at hne
      have hspec := hc.e x v hx hgo
      rcases hreg with h | h | h | h
      · exact absurd h hne.1
      · have := hi.expr x e1 hx (by decide +kernel) h
        subst this
        simpa only [e1, specE, specA] using hspec
      · exact absurd h hne.2
      · have := hi.expr x e0 hx (by decide +kernel) h
        subst this
        simpa only [e0, specE, specA] using hspec
    · intro x v hx hg
      simp only [memoGetA, memo_on, if_true] at hg
      have hne := memoErase_not_mem _ _ _ _ hg
      have hold := Grule.memoErase_some _ _ _ _ hg
      have hgo : memoGetA c0 (snapA x) s = some v := by simp only [memoGetA, memo_on, if_true]; exact hold
      have hreg := snapGet_isSome_mem _ _ (hc.ka _ _ hgo)
      rw [wm_c0, atoms0] at hreg
      simp only [List.mem_cons, List.not_mem_nil, or_false] at hreg
      simp only [List.contains_cons, List.contains_nil, Bool.or_false, beq_eq_false_iff_ne, ne_eq] at hne
      have hspec := hc.a x v hx hgo
      rcases hreg with h | h | h
      · exact absurd h hne
      · have := hi.atom x (.const (.int 1)) hx (by decide +kernel) h
        subst this
        simpa only [specA] using hspec
      · have := hi.atom x (.const (.int 0)) hx (by decide +kernel) h
        subst this
        simpa only [specA] using hspec
    · intro k v hg
      simp only [memoGetE, memo_on, if_true] at hg
      exact hc.ke k v (by simp only [memoGetE, memo_on, if_true]; exact Grule.memoErase_some _ _ _ _ hg)
    · intro k v hg
      simp only [memoGetA, memo_on, if_true] at hg
      exact hc.ka k v (by simp only [memoGetA, memo_on, if_true]; exact Grule.memoErase_some _ _ _ _ hg)

/-- **The side conditions of the refinement theorems are satisfiable with memoisation on**, for a rule that reads and
    writes a fact: every theorem stated under `Side` says something about this knowledge base. -/
theorem side0 (hfl : FloatPF) : Side c0 entries0 where
  pure := {
    indep := fun _ _ _ _ _ _ _ _ => rfl
    indepBad := fun f n n' st st' recv args h => by
      have : c0.methods f n st recv args = .noMethod := rfl
      rw [this] at h; cases h
    ran := fun f n st recv args r st1 cn h => by
      have : c0.methods f n st recv args = .noMethod := rfl
      rw [this] at h; cases h }
  float := hfl
  wf := by intro e he; simp only [entries0, List.mem_singleton] at he; subst he; decide +kernel
  keys := by
    intro a ha b hb _
    simp only [entries0, List.mem_singleton] at ha hb
    rw [ha, hb]
  frame := frame0 hfl

end Grule.SideInstance
#print axioms Grule.SideInstance.side0

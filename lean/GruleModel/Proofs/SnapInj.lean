/-
  Snapshots determine nodes (`SnapInj`), proved from one fact about float formatting (`FloatPF`).

  The snapshot printers write a prefix code: for every valid node `x`, `snap x ++ r = snap x' ++ r'` forces `x = x'` and
  `r = r'`. Proved by mutual structural recursion over expressions, atoms, variables and argument lists, with
  * names: identifier characters never include the character that follows a name (`)` or `,`),
  * integers: `Nat.repr` is injective and all digits (core lemmas),
  * strings: `strconv.QuoteToASCII`'s encoding of one rune determines its own length and is undone by one step of the
    unquoting loop (`Proofs/QuoteRoundTrip`), so bodies are uniquely decodable up to the closing quote,
  * floats: `FloatPF` (hypothesis; not provable here without a correctness proof of shortest formatting),
  * selectors follow their receiver (`-[]>`), method calls and members theirs (`->F(`, `->MV:`): told apart after the
    prefix-free receiver.
-/
import GruleModel.Valid
import GruleModel.Proofs.QuoteRoundTrip
namespace Grule
open Grule.Syntax Grule.QuoteRoundTrip

-- tags as literals ---------------------------------------------------------------------------------------------------------

theorem tE : t_E = ['E','('] := by decide +kernel
theorem tSE : t_SE = ['S','E','('] := by decide +kernel
theorem tEL : t_EL = ['E','L','('] := by decide +kernel
theorem tER : t_ER = ['E','R','('] := by decide +kernel
theorem tEA : t_EA = ['E','A','('] := by decide +kernel
theorem tA : t_A = ['A','('] := by decide +kernel
theorem tC : t_C = ['C','('] := by decide +kernel
theorem tF : t_F = ['F','(','n',':'] := by decide +kernel
theorem tAL : t_AL = ['A','L','('] := by decide +kernel
theorem tMAS : t_MAS = ['M','A','S','('] := by decide +kernel
theorem tVN : t_VN = ['V','(','N',':'] := by decide +kernel
theorem tVO : t_VO = ['V','(','O',':'] := by decide +kernel
theorem tArrow : t_arrow = ['-','>'] := by decide +kernel
theorem tMV : t_MV = ['-','>','M','V',':'] := by decide +kernel
theorem tSel : t_selarrow = ['-','[',']','>'] := by decide +kernel
theorem tClose : t_close = [')'] := by decide +kernel
theorem tBang : t_bang = ['!'] := by decide +kernel
theorem tComma : t_comma = [','] := by decide +kernel
theorem kS : "string->".toList = ['s','t','r','i','n','g','-','>'] := by decide +kernel
theorem kI : "int64->".toList = ['i','n','t','6','4','-','>'] := by decide +kernel
theorem kF : "float64->".toList = ['f','l','o','a','t','6','4','-','>'] := by decide +kernel
theorem kB : "bool->".toList = ['b','o','o','l','-','>'] := by decide +kernel
theorem kN : "invalid->".toList = ['i','n','v','a','l','i','d','-','>'] := by decide +kernel
theorem bT : (toString true).toList = ['t','r','u','e'] := by decide +kernel
theorem bF : (toString false).toList = ['f','a','l','s','e'] := by decide +kernel

-- spans --------------------------------------------------------------------------------------------------------------------

/-- two runs of `p`-characters, each followed by a non-`p` character: equal texts have equal runs -/
theorem span_pf (p : Char → Bool) : ∀ (l l' : List Char) (c c' : Char) (x x' : List Char),
    l.all p = true → l'.all p = true → p c = false → p c' = false →
    l ++ c :: x = l' ++ c' :: x' → l = l' ∧ c = c' ∧ x = x'
  | [], [], c, c', x, x', _, _, _, _, h => by
    simp only [List.nil_append, List.cons.injEq] at h
    exact ⟨rfl, h.1, h.2⟩
  | [], a' :: t', c, c', x, x', _, hl', hc, _, h => by
    simp only [List.nil_append, List.cons_append, List.cons.injEq] at h
    simp only [List.all_cons, Bool.and_eq_true] at hl'
    rw [h.1, hl'.1] at hc
    cases hc
  | a :: t, [], c, c', x, x', hl, _, _, hc', h => by
    simp only [List.nil_append, List.cons_append, List.cons.injEq] at h
    simp only [List.all_cons, Bool.and_eq_true] at hl
    rw [← h.1, hl.1] at hc'
    cases hc'
  | a :: t, a' :: t', c, c', x, x', hl, hl', hc, hc', h => by
    simp only [List.cons_append, List.cons.injEq] at h
    simp only [List.all_cons, Bool.and_eq_true] at hl hl'
    obtain ⟨e1, e2, e3⟩ := span_pf p t t' c c' x x' hl.2 hl'.2 hc hc' h.2
    exact ⟨by rw [h.1, e1], e2, e3⟩

theorem name_pf (n n' : String) (hn : okName n = true) (hn' : okName n' = true) (c c' : Char) (x x' : List Char)
    (hc : okChar c = false) (hc' : okChar c' = false) (h : n.toList ++ c :: x = n'.toList ++ c' :: x') :
    n = n' ∧ c = c' ∧ x = x' := by
  simp only [okName, Bool.and_eq_true] at hn hn'
  obtain ⟨e1, e2, e3⟩ := span_pf okChar _ _ c c' x x' hn.2 hn'.2 hc hc' h
  exact ⟨String.ext e1, e2, e3⟩

-- integers -----------------------------------------------------------------------------------------------------------------

theorem natDigits_eq (n : Nat) : natDigits n = Nat.toDigits 10 n := by
  unfold natDigits; exact Nat.toList_repr

theorem natDigits_all (n : Nat) : (natDigits n).all Char.isDigit = true := by
  rw [natDigits_eq, List.all_eq_true]
  intro c hc
  exact Nat.isDigit_of_mem_toDigits (by decide) (by decide) hc

theorem natDigits_inj (n n' : Nat) (h : natDigits n = natDigits n') : n = n' := by
  rw [natDigits_eq, natDigits_eq] at h
  have := congrArg (fun l => Nat.ofDigitChars 10 l 0) h
  simpa using this

theorem natDigits_head (n : Nat) : ∃ d t, natDigits n = d :: t ∧ d.isDigit = true := by
  have hall := natDigits_all n
  cases hd : natDigits n with
  | nil => rw [natDigits_eq] at hd; exact absurd hd Nat.toDigits_ne_nil
  | cons d t =>
    rw [hd] at hall
    simp only [List.all_cons, Bool.and_eq_true] at hall
    exact ⟨d, t, rfl, hall.1⟩

theorem digits_pf (n n' : Nat) (c c' : Char) (x x' : List Char) (hc : c.isDigit = false) (hc' : c'.isDigit = false)
    (h : natDigits n ++ c :: x = natDigits n' ++ c' :: x') : n = n' ∧ c = c' ∧ x = x' := by
  obtain ⟨e1, e2, e3⟩ := span_pf Char.isDigit _ _ c c' x x' (natDigits_all n) (natDigits_all n') hc hc' h
  exact ⟨natDigits_inj n n' e1, e2, e3⟩

theorem int_pf (i i' : Int) (x x' : List Char) (h : intChars i ++ ')' :: x = intChars i' ++ ')' :: x') :
    i = i' ∧ x = x' := by
  unfold intChars at h
  by_cases hi : i < 0 <;> by_cases hi' : i' < 0
  · simp only [hi, hi', if_true, List.cons_append, List.cons.injEq, true_and] at h
    obtain ⟨e, _, ex⟩ := digits_pf _ _ _ _ _ _ (by decide) (by decide) h
    exact ⟨by omega, ex⟩
  · simp only [hi, hi', if_true, if_false, List.cons_append] at h
    obtain ⟨d, t, hd, hdig⟩ := natDigits_head i'.natAbs
    rw [hd] at h
    simp only [List.cons_append, List.cons.injEq] at h
    rw [← h.1] at hdig
    exact absurd hdig (by decide)
  · simp only [hi, hi', if_true, if_false, List.cons_append] at h
    obtain ⟨d, t, hd, hdig⟩ := natDigits_head i.natAbs
    rw [hd] at h
    simp only [List.cons_append, List.cons.injEq] at h
    rw [h.1] at hdig
    exact absurd hdig (by decide)
  · simp only [hi, hi', if_false] at h
    obtain ⟨e, _, ex⟩ := digits_pf _ _ _ _ _ _ (by decide) (by decide) h
    exact ⟨by omega, ex⟩

-- strings ------------------------------------------------------------------------------------------------------------------

/-- the length of the encoding of one rune, read off its first two characters -/
def unitLen (l : List Char) : Nat :=
  match l with
  | c :: e :: _ => if c == '\\' then (if e == 'x' then 4 else if e == 'u' then 6 else if e == 'U' then 10 else 2) else 1
  | _ => 1

/-- what the proof needs of one rune's encoding: undone by one step of the unquoting loop, its length is readable from
    its first characters whatever follows, and it does not start with a quote -/
structure QUnit (c : Char) (a : List Char) : Prop where
  step : Step c a
  len : ∀ X, unitLen (a ++ X) = a.length
  head : ∃ h t, a = h :: t ∧ h ≠ '"'

theorem unit_plain (c : Char) (h1 : c ≠ '"') (h2 : c ≠ '\\') : QUnit c [c] := by
  refine ⟨step_plain c h1 h2, ?_, ⟨c, [], rfl, h1⟩⟩
  intro X
  have e : (c == '\\') = false := by simpa using h2
  cases X <;> simp [unitLen, e]

theorem unit_ascii (c : Char) : QUnit c (quoteASCIIChar c) := by
  unfold quoteASCIIChar
  simp only
  by_cases hq : (c == '"') = true
  · simp only [hq, if_true]
    have : c = '"' := by simpa using hq
    subst this
    exact ⟨step_quote, by intro X; simp [unitLen], ⟨_, _, rfl, by decide⟩⟩
  simp only [hq, Bool.false_eq_true, if_false]
  by_cases hb : (c == '\\') = true
  · simp only [hb, if_true]
    have : c = '\\' := by simpa using hb
    subst this
    exact ⟨step_backslash, by intro X; simp [unitLen], ⟨_, _, rfl, by decide⟩⟩
  simp only [hb, Bool.false_eq_true, if_false]
  have hq' : c ≠ '"' := by simpa using hq
  have hb' : c ≠ '\\' := by simpa using hb
  have hs := step_simple c
  by_cases h7 : c.toNat = 7
  · simp only [h7, beq_self_eq_true, if_true]
    exact ⟨hs.1 h7, by intro X; simp [unitLen], ⟨_, _, rfl, by decide⟩⟩
  by_cases h8 : c.toNat = 8
  · simp [h8]
    exact ⟨hs.2.1 h8, by intro X; simp [unitLen], ⟨_, _, rfl, by decide⟩⟩
  by_cases h12 : c.toNat = 12
  · simp [h12]
    exact ⟨hs.2.2.1 h12, by intro X; simp [unitLen], ⟨_, _, rfl, by decide⟩⟩
  by_cases h10 : c.toNat = 10
  · simp [h10]
    exact ⟨hs.2.2.2.1 h10, by intro X; simp [unitLen], ⟨_, _, rfl, by decide⟩⟩
  by_cases h13 : c.toNat = 13
  · simp [h13]
    exact ⟨hs.2.2.2.2.1 h13, by intro X; simp [unitLen], ⟨_, _, rfl, by decide⟩⟩
  by_cases h9 : c.toNat = 9
  · simp [h9]
    exact ⟨hs.2.2.2.2.2.1 h9, by intro X; simp [unitLen], ⟨_, _, rfl, by decide⟩⟩
  by_cases h11 : c.toNat = 11
  · simp [h11]
    exact ⟨hs.2.2.2.2.2.2 h11, by intro X; simp [unitLen], ⟨_, _, rfl, by decide⟩⟩
  simp only [h7, h8, h12, h10, h13, h9, h11, beq_iff_eq, if_false]
  by_cases hx : (decide (c.toNat < 32) || c.toNat == 127) = true
  · simp only [hx, if_true]
    have : c.toNat < 0x80 := by
      simp only [Bool.or_eq_true, decide_eq_true_eq, beq_iff_eq] at hx
      omega
    exact ⟨step_x c this, by intro X; simp [unitLen, hexPad2], ⟨_, _, rfl, by decide⟩⟩
  simp only [hx, Bool.false_eq_true, if_false]
  by_cases ha : c.toNat < 128
  · simp only [ha, if_true]
    exact unit_plain c hq' hb'
  simp only [ha, if_false]
  by_cases hu : c.toNat < 65536
  · simp only [hu, if_true]
    exact ⟨step_u c hu, by intro X; simp [unitLen, hexPad4], ⟨_, _, rfl, by decide⟩⟩
  · simp only [hu, if_false]
    exact ⟨step_U c, by intro X; simp [unitLen, hexPad8], ⟨_, _, rfl, by decide⟩⟩

/-- one rune's encoding is a prefix code -/
theorem unit_pf (c c' : Char) (X X' : List Char) (h : quoteASCIIChar c ++ X = quoteASCIIChar c' ++ X') :
    c = c' ∧ X = X' := by
  have u := unit_ascii c
  have u' := unit_ascii c'
  have hl : (quoteASCIIChar c).length = (quoteASCIIChar c').length := by
    rw [← u.len X, ← u'.len X', h]
  have ht := congrArg (List.take (quoteASCIIChar c).length) h
  have hd := congrArg (List.drop (quoteASCIIChar c).length) h
  rw [List.take_left'  rfl, hl, List.take_left' rfl] at ht
  rw [List.drop_left' rfl, hl, List.drop_left' rfl] at hd
  refine ⟨?_, hd⟩
  have s1 := u.step 1 [] []
  have s2 := u'.step 1 [] []
  rw [List.append_nil] at s1 s2
  rw [ht, s2] at s1
  simp only [unquoteLoop, List.reverse_cons, List.reverse_nil, List.nil_append] at s1
  injection s1 with s1
  injection s1 with s1
  exact s1.symm

theorem body_pf : ∀ (l l' : List Char) (X X' : List Char),
    l.flatMap quoteASCIIChar ++ '"' :: X = l'.flatMap quoteASCIIChar ++ '"' :: X' → l = l' ∧ X = X'
  | [], [], X, X', h => by
    simp only [List.flatMap_nil, List.nil_append, List.cons.injEq, true_and] at h
    exact ⟨rfl, h⟩
  | [], c' :: t', X, X', h => by
    obtain ⟨hd, tl, e, hne⟩ := (unit_ascii c').head
    simp only [List.flatMap_nil, List.nil_append, List.flatMap_cons, e, List.cons_append, List.cons.injEq] at h
    exact absurd h.1.symm hne
  | c :: t, [], X, X', h => by
    obtain ⟨hd, tl, e, hne⟩ := (unit_ascii c).head
    simp only [List.flatMap_nil, List.nil_append, List.flatMap_cons, e, List.cons_append, List.cons.injEq] at h
    exact absurd h.1 hne
  | c :: t, c' :: t', X, X', h => by
    simp only [List.flatMap_cons, List.append_assoc] at h
    obtain ⟨e1, e2⟩ := unit_pf c c' _ _ h
    obtain ⟨e3, e4⟩ := body_pf t t' X X' e2
    exact ⟨by rw [e1, e3], e4⟩

theorem str_pf (s s' : String) (X X' : List Char) (h : quoteASCII s ++ X = quoteASCII s' ++ X') : s = s' ∧ X = X' := by
  unfold quoteASCII at h
  simp only [List.cons_append, List.nil_append, List.append_assoc, List.cons.injEq, true_and] at h
  obtain ⟨e1, e2⟩ := body_pf _ _ _ _ h
  exact ⟨String.ext e1, e2⟩

-- constants ----------------------------------------------------------------------------------------------------------------

theorem const_pf (hf : FloatPF) : ∀ (c c' : Const) (r r' : List Char), okConst c = true → okConst c' = true →
    snapC c ++ r = snapC c' ++ r' → c = c' ∧ r = r' := by
  intro c c' r r' hc hc' h
  cases c <;> cases c' <;>
    simp only [snapC, tC, tClose, kS, kI, kF, kB, kN, List.append_assoc, List.cons_append, List.nil_append,
      List.cons.injEq, Char.reduceEq, true_and, false_and, and_false] at h
  case str.str s s' =>
    obtain ⟨e1, e2⟩ := str_pf s s' _ _ h
    simp only [List.cons.injEq, true_and] at e2
    exact ⟨by rw [e1], e2⟩
  case int.int i i' =>
    obtain ⟨e1, e2⟩ := int_pf i i' _ _ h
    exact ⟨by rw [e1], e2⟩
  case float.float b b' =>
    simp only [okConst, Bool.not_eq_true'] at hc hc'
    obtain ⟨e1, e2⟩ := hf b b' _ _ hc hc' h
    exact ⟨by rw [e1], e2⟩
  case bool.bool b b' =>
    cases b <;> cases b' <;>
      simp only [bT, bF, List.cons_append, List.nil_append, List.cons.injEq, Char.reduceEq, true_and, false_and, and_false] at h
    · exact ⟨rfl, h⟩
    · exact ⟨rfl, h⟩
  case nil.nil => exact ⟨rfl, h⟩

-- heads --------------------------------------------------------------------------------------------------------------------

def tlE (e : Expr) : List Char := (snapE e).drop 2
def tlA (a : Atom) : List Char := (snapA a).drop 2
def tlV (v : Var) : List Char := (snapV v).drop 2

theorem snapE_hd (e : Expr) : snapE e = 'E' :: '(' :: tlE e := by
  cases e <;> simp [tlE, snapE, tE]
theorem snapA_hd (a : Atom) : snapA a = 'A' :: '(' :: tlA a := by
  cases a <;> simp [tlA, snapA, tA]
theorem snapV_hd (v : Var) : snapV v = 'V' :: '(' :: tlV v := by
  cases v <;> simp [tlV, snapV, tVN, tVO]
theorem snapC_hd (c : Const) : ∃ t, snapC c = 'C' :: '(' :: t := by
  cases c <;> exact ⟨_, by simp only [snapC, tC]; rfl⟩

-- operators ----------------------------------------------------------------------------------------------------------------

def opChars : BinOp → List Char
  | .mul => ['*'] | .div => ['/'] | .mod => ['%'] | .add => ['+'] | .sub => ['-'] | .band => ['&'] | .bor => ['|']
  | .gt => ['>'] | .lt => ['<'] | .gte => ['>','='] | .lte => ['<','='] | .eq => ['=','='] | .neq => ['!','=']
  | .and => ['&','&'] | .or => ['|','|']

theorem snap_opChars (o : BinOp) : o.snap = opChars o := by cases o <;> decide +kernel

theorem op_pf (op op' : BinOp) (X X' : List Char)
    (h : op.snap ++ ('E' :: 'R' :: '(' :: X) = op'.snap ++ ('E' :: 'R' :: '(' :: X')) : op = op' ∧ X = X' := by
  rw [snap_opChars, snap_opChars] at h
  cases op <;> cases op' <;>
    simp only [opChars, List.cons_append, List.nil_append, List.cons.injEq, Char.reduceEq, true_and, false_and,
      and_false] at h <;>
    first | exact ⟨rfl, h⟩ | exact h.elim

-- the printers are a prefix code ------------------------------------------------------------------------------------------

def tlC (c : Const) : List Char := (snapC c).drop 2
theorem snapC_hd' (c : Const) : snapC c = 'C' :: '(' :: tlC c := by
  cases c <;> simp [tlC, snapC, tC]

local macro "norm_at " h:ident : tactic =>
  `(tactic| simp only [snapE, snapA, snapV, snapArgs, tE, tSE, tEL, tER, tEA, tA, tF, tAL, tMAS, tVN, tVO, tArrow, tMV,
      tSel, tClose, tBang, tComma, List.append_assoc, List.cons_append, List.nil_append, List.cons.injEq, Char.reduceEq,
      true_and, false_and, and_false] at $h:ident)

local macro "hd_at " h:ident : tactic =>
  `(tactic| simp only [snapE_hd, snapA_hd, snapV_hd, snapC_hd', List.cons_append, List.nil_append, List.cons.injEq,
      Char.reduceEq, true_and, false_and, and_false] at $h:ident)

theorem ok_close : okChar ')' = false := by decide
theorem ok_comma : okChar ',' = false := by decide
theorem ok_open : okChar '(' = false := by decide

mutual
theorem pfE (hf : FloatPF) : ∀ (e e' : Expr) (r r' : List Char), validE e = true → validE e' = true →
    snapE e ++ r = snapE e' ++ r' → e = e' ∧ r = r'
  | .bin op l rr, .bin op' l' rr', r, r', hv, hv', h => by
    simp only [validE, Bool.and_eq_true] at hv hv'
    norm_at h
    obtain ⟨e1, h1⟩ := pfE hf l l' _ _ hv.1 hv'.1 h
    subst e1
    simp only [List.cons.injEq, true_and] at h1
    obtain ⟨e2, h2⟩ := op_pf op op' _ _ h1
    subst e2
    obtain ⟨e3, h3⟩ := pfE hf rr rr' _ _ hv.2 hv'.2 h2
    subst e3
    simp only [List.cons.injEq, true_and] at h3
    exact ⟨rfl, h3⟩
  | .bin _ _ _, .paren _ _, _, _, _, _, h => by norm_at h
  | .bin _ _ _, .atom _, _, _, _, _, h => by norm_at h
  | .paren _ _, .bin _ _ _, _, _, _, _, h => by norm_at h
  | .paren _ _, .atom _, _, _, _, _, h => by norm_at h
  | .atom _, .bin _ _ _, _, _, _, _, h => by norm_at h
  | .atom _, .paren _ _, _, _, _, _, h => by norm_at h
  | .paren n e, .paren n' e', r, r', hv, hv', h => by
    simp only [validE] at hv hv'
    norm_at h
    cases n <;> cases n' <;>
      simp only [bangIf, tBang, Bool.false_eq_true, reduceIte, List.nil_append, List.cons_append] at h
    · obtain ⟨e1, h1⟩ := pfE hf e e' _ _ hv hv' h
      subst e1
      simp only [List.cons.injEq, true_and] at h1
      exact ⟨rfl, h1⟩
    · hd_at h
    · hd_at h
    · simp only [List.cons.injEq, true_and] at h
      obtain ⟨e1, h1⟩ := pfE hf e e' _ _ hv hv' h
      subst e1
      simp only [List.cons.injEq, true_and] at h1
      exact ⟨rfl, h1⟩
  | .atom a, .atom a', r, r', hv, hv', h => by
    simp only [validE] at hv hv'
    norm_at h
    obtain ⟨e1, h1⟩ := pfA hf a a' _ _ hv hv' h
    subst e1
    simp only [List.cons.injEq, true_and] at h1
    exact ⟨rfl, h1⟩

theorem pfA (hf : FloatPF) : ∀ (a a' : Atom) (r r' : List Char), validA a = true → validA a' = true →
    snapA a ++ r = snapA a' ++ r' → a = a' ∧ r = r'
  -- constants
  | .const c, .const c', r, r', hv, hv', h => by
    simp only [validA] at hv hv'
    norm_at h
    obtain ⟨e1, h1⟩ := const_pf hf c c' _ _ hv hv' h
    subst e1
    simp only [List.cons.injEq, true_and] at h1
    exact ⟨rfl, h1⟩
  | .const _, .var _, _, _, _, _, h => by norm_at h <;> hd_at h
  | .const _, .call _ _, _, _, _, _, h => by norm_at h <;> hd_at h
  | .const _, .meth _ _ _, _, _, _, _, h => by norm_at h <;> hd_at h
  | .const _, .member _ _, _, _, _, _, h => by norm_at h <;> hd_at h
  | .const _, .sel _ _, _, _, _, _, h => by norm_at h <;> hd_at h
  | .const _, .neg _, _, _, _, _, h => by norm_at h <;> hd_at h
  -- variables
  | .var _, .const _, _, _, _, _, h => by norm_at h <;> hd_at h
  | .var v, .var v', r, r', hv, hv', h => by
    simp only [validA] at hv hv'
    norm_at h
    obtain ⟨e1, h1⟩ := pfV hf v v' _ _ hv hv' h
    subst e1
    simp only [List.cons.injEq, true_and] at h1
    exact ⟨rfl, h1⟩
  | .var _, .call _ _, _, _, _, _, h => by norm_at h <;> hd_at h
  | .var _, .meth _ _ _, _, _, _, _, h => by norm_at h <;> hd_at h
  | .var _, .member _ _, _, _, _, _, h => by norm_at h <;> hd_at h
  | .var _, .sel _ _, _, _, _, _, h => by norm_at h <;> hd_at h
  | .var _, .neg _, _, _, _, _, h => by norm_at h <;> hd_at h
  -- function calls
  | .call _ _, .const _, _, _, _, _, h => by norm_at h <;> hd_at h
  | .call _ _, .var _, _, _, _, _, h => by norm_at h <;> hd_at h
  | .call f args, .call f' args', r, r', hv, hv', h => by
    simp only [validA, Bool.and_eq_true] at hv hv'
    norm_at h
    obtain ⟨e1, _, h1⟩ := name_pf f f' hv.1 hv'.1 ',' ',' _ _ ok_comma ok_comma h
    subst e1
    norm_at h1
    obtain ⟨e2, h2⟩ := pfArgs hf args args' _ _ hv.2 hv'.2 h1
    subst e2
    simp only [List.cons.injEq, true_and] at h2
    exact ⟨rfl, h2⟩
  | .call _ _, .meth _ _ _, _, _, _, _, h => by norm_at h <;> hd_at h
  | .call _ _, .member _ _, _, _, _, _, h => by norm_at h <;> hd_at h
  | .call _ _, .sel _ _, _, _, _, _, h => by norm_at h <;> hd_at h
  | .call _ _, .neg _, _, _, _, _, h => by norm_at h
  -- negations
  | .neg _, .const _, _, _, _, _, h => by norm_at h <;> hd_at h
  | .neg _, .var _, _, _, _, _, h => by norm_at h <;> hd_at h
  | .neg _, .call _ _, _, _, _, _, h => by norm_at h
  | .neg _, .meth _ _ _, _, _, _, _, h => by norm_at h <;> hd_at h
  | .neg _, .member _ _, _, _, _, _, h => by norm_at h <;> hd_at h
  | .neg _, .sel _ _, _, _, _, _, h => by norm_at h <;> hd_at h
  | .neg a, .neg a', r, r', hv, hv', h => by
    simp only [validA] at hv hv'
    norm_at h
    obtain ⟨e1, h1⟩ := pfA hf a a' _ _ hv hv' h
    subst e1
    simp only [List.cons.injEq, true_and] at h1
    exact ⟨rfl, h1⟩
  -- method calls
  | .meth _ _ _, .const _, _, _, _, _, h => by norm_at h <;> hd_at h
  | .meth _ _ _, .var _, _, _, _, _, h => by norm_at h <;> hd_at h
  | .meth _ _ _, .call _ _, _, _, _, _, h => by norm_at h <;> hd_at h
  | .meth _ _ _, .neg _, _, _, _, _, h => by norm_at h <;> hd_at h
  | .meth recv f args, .meth recv' f' args', r, r', hv, hv', h => by
    simp only [validA, Bool.and_eq_true] at hv hv'
    norm_at h
    obtain ⟨e0, h0⟩ := pfA hf recv recv' _ _ hv.1.1 hv'.1.1 h
    subst e0
    norm_at h0
    obtain ⟨e1, _, h1⟩ := name_pf f f' hv.1.2 hv'.1.2 ',' ',' _ _ ok_comma ok_comma h0
    subst e1
    norm_at h1
    obtain ⟨e2, h2⟩ := pfArgs hf args args' _ _ hv.2 hv'.2 h1
    subst e2
    simp only [List.cons.injEq, true_and] at h2
    exact ⟨rfl, h2⟩
  | .meth recv _ _, .member recv' _, _, _, hv, hv', h => by
    simp only [validA, Bool.and_eq_true] at hv hv'
    norm_at h
    obtain ⟨_, h0⟩ := pfA hf recv recv' _ _ hv.1.1 hv'.1 h
    norm_at h0
  | .meth recv _ _, .sel recv' _, _, _, hv, hv', h => by
    simp only [validA, Bool.and_eq_true] at hv hv'
    norm_at h
    obtain ⟨_, h0⟩ := pfA hf recv recv' _ _ hv.1.1 hv'.1 h
    norm_at h0
  -- members
  | .member _ _, .const _, _, _, _, _, h => by norm_at h <;> hd_at h
  | .member _ _, .var _, _, _, _, _, h => by norm_at h <;> hd_at h
  | .member _ _, .call _ _, _, _, _, _, h => by norm_at h <;> hd_at h
  | .member _ _, .neg _, _, _, _, _, h => by norm_at h <;> hd_at h
  | .member recv _, .meth recv' _ _, _, _, hv, hv', h => by
    simp only [validA, Bool.and_eq_true] at hv hv'
    norm_at h
    obtain ⟨_, h0⟩ := pfA hf recv recv' _ _ hv.1 hv'.1.1 h
    norm_at h0
  | .member recv n, .member recv' n', r, r', hv, hv', h => by
    simp only [validA, Bool.and_eq_true] at hv hv'
    norm_at h
    obtain ⟨e0, h0⟩ := pfA hf recv recv' _ _ hv.1 hv'.1 h
    subst e0
    norm_at h0
    obtain ⟨e1, _, h1⟩ := name_pf n n' hv.2 hv'.2 ')' ')' _ _ ok_close ok_close h0
    subst e1
    exact ⟨rfl, h1⟩
  | .member recv _, .sel recv' _, _, _, hv, hv', h => by
    simp only [validA, Bool.and_eq_true] at hv hv'
    norm_at h
    obtain ⟨_, h0⟩ := pfA hf recv recv' _ _ hv.1 hv'.1 h
    norm_at h0
  -- selectors
  | .sel _ _, .const _, _, _, _, _, h => by norm_at h <;> hd_at h
  | .sel _ _, .var _, _, _, _, _, h => by norm_at h <;> hd_at h
  | .sel _ _, .call _ _, _, _, _, _, h => by norm_at h <;> hd_at h
  | .sel _ _, .neg _, _, _, _, _, h => by norm_at h <;> hd_at h
  | .sel recv _, .meth recv' _ _, _, _, hv, hv', h => by
    simp only [validA, Bool.and_eq_true] at hv hv'
    norm_at h
    obtain ⟨_, h0⟩ := pfA hf recv recv' _ _ hv.1 hv'.1.1 h
    norm_at h0
  | .sel recv _, .member recv' _, _, _, hv, hv', h => by
    simp only [validA, Bool.and_eq_true] at hv hv'
    norm_at h
    obtain ⟨_, h0⟩ := pfA hf recv recv' _ _ hv.1 hv'.1 h
    norm_at h0
  | .sel recv idx, .sel recv' idx', r, r', hv, hv', h => by
    simp only [validA, Bool.and_eq_true] at hv hv'
    norm_at h
    obtain ⟨e0, h0⟩ := pfA hf recv recv' _ _ hv.1 hv'.1 h
    subst e0
    norm_at h0
    obtain ⟨e2, h2⟩ := pfE hf idx idx' _ _ hv.2 hv'.2 h0
    subst e2
    simp only [List.cons.injEq, true_and] at h2
    exact ⟨rfl, h2⟩

theorem pfV (hf : FloatPF) : ∀ (v v' : Var) (r r' : List Char), validV v = true → validV v' = true →
    snapV v ++ r = snapV v' ++ r' → v = v' ∧ r = r'
  | .root n, .root n', r, r', hv, hv', h => by
    simp only [validV] at hv hv'
    norm_at h
    obtain ⟨e1, _, h1⟩ := name_pf n n' hv hv' ')' ')' _ _ ok_close ok_close h
    subst e1
    exact ⟨rfl, h1⟩
  | .root _, .field _ _, _, _, _, _, h => by norm_at h
  | .root _, .index _ _, _, _, _, _, h => by norm_at h
  | .field _ _, .root _, _, _, _, _, h => by norm_at h
  | .index _ _, .root _, _, _, _, _, h => by norm_at h
  | .field v n, .field v' n', r, r', hv, hv', h => by
    simp only [validV, Bool.and_eq_true] at hv hv'
    norm_at h
    obtain ⟨e0, h0⟩ := pfV hf v v' _ _ hv.1 hv'.1 h
    subst e0
    norm_at h0
    obtain ⟨e1, _, h1⟩ := name_pf n n' hv.2 hv'.2 ')' ')' _ _ ok_close ok_close h0
    subst e1
    exact ⟨rfl, h1⟩
  | .field v n, .index v' _, _, _, hv, hv', h => by
    simp only [validV, Bool.and_eq_true] at hv hv'
    norm_at h
    obtain ⟨_, h0⟩ := pfV hf v v' _ _ hv.1 hv'.1 h
    norm_at h0
    have hn := hv.2
    simp only [okName, Bool.and_eq_true] at hn
    have := span_pf okChar n.toList ['M','A','S'] ')' '(' _ _ hn.2 (by decide) ok_close ok_open h0
    exact absurd this.2.1 (by decide)
  | .index v _, .field v' n, _, _, hv, hv', h => by
    simp only [validV, Bool.and_eq_true] at hv hv'
    norm_at h
    obtain ⟨_, h0⟩ := pfV hf v v' _ _ hv.1 hv'.1 h
    norm_at h0
    have hn := hv'.2
    simp only [okName, Bool.and_eq_true] at hn
    have := span_pf okChar ['M','A','S'] n.toList '(' ')' _ _ (by decide) hn.2 ok_open ok_close h0
    exact absurd this.2.1 (by decide)
  | .index v e, .index v' e', r, r', hv, hv', h => by
    simp only [validV, Bool.and_eq_true] at hv hv'
    norm_at h
    obtain ⟨e0, h0⟩ := pfV hf v v' _ _ hv.1 hv'.1 h
    subst e0
    norm_at h0
    obtain ⟨e2, h2⟩ := pfE hf e e' _ _ hv.2 hv'.2 h0
    subst e2
    simp only [List.cons.injEq, true_and] at h2
    exact ⟨rfl, h2⟩

theorem pfArgs (hf : FloatPF) : ∀ (as as' : Args) (r r' : List Char), validArgs as = true → validArgs as' = true →
    snapArgs as ++ (')' :: r) = snapArgs as' ++ (')' :: r') → as = as' ∧ r = r'
  | .nil, .nil, r, r', _, _, h => by
    norm_at h
    exact ⟨rfl, h⟩
  | .nil, .cons _ .nil, _, _, _, _, h => by norm_at h <;> hd_at h
  | .nil, .cons _ (.cons _ _), _, _, _, _, h => by norm_at h <;> hd_at h
  | .cons _ .nil, .nil, _, _, _, _, h => by norm_at h <;> hd_at h
  | .cons _ (.cons _ _), .nil, _, _, _, _, h => by norm_at h <;> hd_at h
  | .cons e .nil, .cons e' .nil, r, r', hv, hv', h => by
    simp only [validArgs, Bool.and_eq_true] at hv hv'
    norm_at h
    obtain ⟨e1, h1⟩ := pfE hf e e' _ _ hv.1 hv'.1 h
    subst e1
    simp only [List.cons.injEq, true_and] at h1
    exact ⟨rfl, h1⟩
  | .cons e .nil, .cons e' (.cons _ _), _, _, hv, hv', h => by
    simp only [validArgs, Bool.and_eq_true] at hv hv'
    norm_at h
    obtain ⟨_, h1⟩ := pfE hf e e' _ _ hv.1 hv'.1 h
    norm_at h1
  | .cons e (.cons _ _), .cons e' .nil, _, _, hv, hv', h => by
    simp only [validArgs, Bool.and_eq_true] at hv hv'
    norm_at h
    obtain ⟨_, h1⟩ := pfE hf e e' _ _ hv.1 hv'.1 h
    norm_at h1
  | .cons e (.cons e2 rest), .cons e' (.cons e2' rest'), r, r', hv, hv', h => by
    simp only [validArgs, Bool.and_eq_true] at hv hv'
    norm_at h
    obtain ⟨e1, h1⟩ := pfE hf e e' _ _ hv.1 hv'.1 h
    subst e1
    simp only [List.cons.injEq, true_and] at h1
    obtain ⟨e3, h3⟩ := pfArgs hf (.cons e2 rest) (.cons e2' rest') _ _ (by simp only [validArgs, Bool.and_eq_true]; exact hv.2)
      (by simp only [validArgs, Bool.and_eq_true]; exact hv'.2) h1
    rw [e3]
    exact ⟨rfl, h3⟩
end

/-- **Snapshots determine nodes**, given only that float formatting is injective. -/
theorem snapInj_of (hf : FloatPF) : SnapInj where
  expr e e' hv hv' h := (pfE hf e e' [] [] hv hv' (by rw [List.append_nil, List.append_nil]; exact h)).1
  atom a a' hv hv' h := (pfA hf a a' [] [] hv hv' (by rw [List.append_nil, List.append_nil]; exact h)).1

end Grule

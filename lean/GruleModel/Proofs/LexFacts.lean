/-
  Lexer facts: whitespace produces no token. Leading and trailing whitespace never change the token stream or the
  error count (the general "spacing between any two tokens" claim is validated by the correspondence).
-/
import GruleModel.Syntax.Lexer
namespace Grule.LexFacts
open Grule.Syntax

set_option maxRecDepth 4000

/-- at a whitespace character the longest match is the `SPACE` rule, over the whole run of whitespace -/
theorem nextToken_ws (c : Char) (cs : List Char) (h : isWs c = true) : nextToken (c :: cs) = some (.space, span isWs cs + 1) := by
  have hc : c = ' ' ∨ c = '\t' ∨ c = '\r' ∨ c = '\n' := by
    simp only [isWs, Bool.or_eq_true, beq_iff_eq] at h
    rcases h with ((h | h) | h) | h <;> simp [h]
  rcases hc with h | h | h | h <;> subst h <;>
  simp [nextToken, rules, fixedTable, patternRules, pick, lit, kw, mName, mStr, mDecFloat, mExp, mHexFloat, mDecLit, mHexLit, mOctLit,
    mSpace, mComment, mLineComment, decLitExact, mFrac, omax, isISC, iscRanges, inR, isDec, lowerC, span, isWs, List.isPrefixOf]

theorem drop_span_all (ws cs : List Char) (h : ∀ c ∈ ws, isWs c = true) (hcs : ∀ c, cs.head? = some c → isWs c = false) :
    (ws ++ cs).drop (span isWs (ws ++ cs)) = cs := by
  induction ws with
  | nil =>
    cases cs with
    | nil => simp [span]
    | cons c r =>
      have := hcs c rfl
      simp [span, this]
  | cons w rest ih =>
    have hw := h w (by simp)
    simp only [List.cons_append, span, hw, if_true]
    exact ih (fun c hc => h c (by simp [hc]))

/-- one step of the loop at a whitespace character skips the whole run -/
theorem lexLoop_ws (f : Nat) (c : Char) (cs : List Char) (acc : LexOut) (h : isWs c = true) :
    lexLoop (f + 1) (c :: cs) acc = lexLoop f (cs.drop (span isWs cs)) acc := by
  simp [lexLoop, nextToken_ws c cs h, TK.skipped]

/-- what is picked is never empty -/
theorem pick_pos (cs : List Char) : ∀ (rs : List (TK × (List Char → Option Nat))) (best : Option (TK × Nat)),
    (∀ k n, best = some (k, n) → 0 < n) → ∀ k n, pick cs rs best = some (k, n) → 0 < n
  | [], best, hb, k, n, h => by simp only [pick] at h; exact hb k n h
  | (k0, m) :: rest, best, hb, k, n, h => by
    simp only [pick] at h
    cases hm : m cs with
    | none => simp only [hm] at h; exact pick_pos cs rest best hb k n h
    | some n0 =>
      cases best with
      | none =>
        simp only [hm] at h
        by_cases hz : (n0 == 0) = true
        · simp only [hz, if_true] at h; exact pick_pos cs rest none hb k n h
        · simp only [hz, Bool.false_eq_true, if_false] at h
          exact pick_pos cs rest (some (k0, n0)) (by
            intro k' n' he
            simp only [Option.some.injEq, Prod.mk.injEq] at he
            have : n0 ≠ 0 := by simpa using hz
            omega) k n h
      | some b =>
        obtain ⟨bk, bn⟩ := b
        simp only [hm] at h
        by_cases hgt : n0 > bn
        · simp only [hgt, if_true] at h
          exact pick_pos cs rest (some (k0, n0)) (by
            intro k' n' he
            simp only [Option.some.injEq, Prod.mk.injEq] at he
            have := hb bk bn rfl
            omega) k n h
        · simp only [hgt, if_false] at h
          exact pick_pos cs rest (some (bk, bn)) hb k n h

theorem nextToken_pos (cs : List Char) (k : TK) (n : Nat) (h : nextToken cs = some (k, n)) : 0 < n :=
  pick_pos cs rules none (by intro k n h; cases h) k n h

/-- more fuel than characters is as good as any more -/
theorem lexLoop_fuel : ∀ (f f' : Nat) (cs : List Char) (acc : LexOut), cs.length < f → cs.length < f' → lexLoop f cs acc = lexLoop f' cs acc
  | 0, _, cs, _, h, _ => by omega
  | _, 0, cs, _, _, h => by omega
  | f + 1, f' + 1, [], acc, _, _ => by simp [lexLoop]
  | f + 1, f' + 1, c :: cs, acc, h, h' => by
    simp only [lexLoop]
    cases hn : nextToken (c :: cs) with
    | some p =>
      obtain ⟨k, n⟩ := p
      have hp := nextToken_pos (c :: cs) k n hn
      have hl : ((c :: cs).drop n).length < f := by simp only [List.length_drop, List.length_cons] at *; omega
      have hl' : ((c :: cs).drop n).length < f' := by simp only [List.length_drop, List.length_cons] at *; omega
      simp only
      split
      · exact lexLoop_fuel f f' _ acc hl hl'
      · exact lexLoop_fuel f f' _ _ hl hl'
    | none =>
      simp only
      split
      · rfl
      · exact lexLoop_fuel f f' cs _ (by simp at h; omega) (by simp at h'; omega)

/-- **leading whitespace never changes the token stream** -/
theorem lex_leading_ws (ws cs : List Char) (h : ∀ c ∈ ws, isWs c = true) (hcs : ∀ c, cs.head? = some c → isWs c = false) :
    lex (ws ++ cs) = lex cs := by
  cases ws with
  | nil => rfl
  | cons w rest =>
    unfold lex
    have hw := h w (by simp)
    simp only [List.cons_append, List.length_cons]
    rw [lexLoop_ws _ w (rest ++ cs) {} hw]
    rw [drop_span_all rest cs (fun c hc => h c (by simp [hc])) hcs]
    exact lexLoop_fuel _ _ cs {} (by simp; omega) (by omega)

/-- a text of whitespace only has no token and no error -/
theorem lex_only_ws (ws : List Char) (h : ∀ c ∈ ws, isWs c = true) : (lex ws).toks = [] ∧ (lex ws).errs = 0 := by
  have := lex_leading_ws ws [] h (by intro c hc; cases hc)
  simp only [List.append_nil] at this
  rw [this]
  exact ⟨rfl, rfl⟩

#print axioms lex_leading_ws
#print axioms lex_only_ws
#print axioms lexLoop_fuel

end Grule.LexFacts

namespace Grule.LexFacts
open Grule.Syntax

set_option maxRecDepth 4000

/-- characters no lexer rule can start with (the ASCII ones) -/
def illegalStart : List Char := ['#', '@', '$', '~', '^', '?', ':', '\\', '`']

theorem nextToken_illegal (c : Char) (cs : List Char) (h : c ∈ illegalStart) : nextToken (c :: cs) = none := by
  simp only [illegalStart, List.mem_cons, List.not_mem_nil, or_false] at h
  rcases h with h | h | h | h | h | h | h | h | h <;> subst h <;>
  simp [nextToken, rules, fixedTable, patternRules, pick, lit, kw, mName, mStr, mDecFloat, mExp, mHexFloat, mDecLit, mHexLit, mOctLit,
    mSpace, mComment, mLineComment, decLitExact, mFrac, omax, isISC, iscRanges, inR, isDec, lowerC, span, isWs, List.isPrefixOf]

/-- errors are only ever added -/
theorem errs_mono : ∀ (f : Nat) (cs : List Char) (acc : LexOut), acc.errs ≤ (lexLoop f cs acc).errs
  | 0, _, acc => by simp [lexLoop]
  | f + 1, [], acc => by simp [lexLoop]
  | f + 1, c :: cs, acc => by
    simp only [lexLoop]
    cases hn : nextToken (c :: cs) with
    | some p =>
      obtain ⟨k, n⟩ := p
      simp only
      split
      · exact errs_mono f _ acc
      · have := errs_mono f ((c :: cs).drop n) { acc with toks := acc.toks ++ [⟨k, (c :: cs).take n⟩] }
        simpa using this
    | none =>
      simp only
      split
      · simp
      · have := errs_mono f cs { acc with errs := acc.errs + 1 }
        simp only at this
        omega

/-- **an illegal character at the start of what remains is an error** (hence the text is rejected: `front` gives
    `lexical` for any text with a lexer error) -/
theorem illegal_char_error (c : Char) (cs : List Char) (h : c ∈ illegalStart) : 1 ≤ (lex (c :: cs)).errs := by
  unfold lex
  simp only [List.length_cons, lexLoop, nextToken_illegal c cs h]
  have hq : (c == '"' || c == '\'') = false := by
    simp only [illegalStart, List.mem_cons, List.not_mem_nil, or_false] at h
    rcases h with h | h | h | h | h | h | h | h | h <;> subst h <;> decide
  simp only [hq, Bool.false_eq_true, if_false]
  have := errs_mono (cs.length + 1) cs { ({} : LexOut) with errs := ({} : LexOut).errs + 1 }
  simpa using this

#print axioms illegal_char_error

end Grule.LexFacts

namespace Grule.LexFacts
open Grule.Syntax

set_option maxRecDepth 4000

-- comments -------------------------------------------------------------------------------------------------------------------

/-- does the text contain `*/`? -/
def hasClose : List Char → Bool
  | '*' :: '/' :: _ => true
  | _ :: rest => hasClose rest
  | [] => false

/-- one step of the scan over a character that does not start `*/` -/
theorem cc_step (c : Char) (rest : List Char) (k : Nat) (h : ¬ (c = '*' ∧ rest.head? = some '/')) :
    closeComment (c :: rest) k = closeComment rest (k + 1) := by
  conv => lhs; unfold closeComment
  split
  · rename_i tl heq
    simp only [List.cons.injEq] at heq
    obtain ⟨rfl, rfl⟩ := heq
    exact absurd ⟨rfl, rfl⟩ h
  · rename_i hd rs _ heq
    simp only [List.cons.injEq] at heq
    obtain ⟨_, rfl⟩ := heq
    rfl
  · rename_i heq; cases heq

theorem closeComment_body : ∀ (body cs : List Char) (k : Nat), hasClose body = false →
    closeComment (body ++ '*' :: '/' :: cs) k = some (k + body.length + 2)
  | [], cs, k, _ => by simp [closeComment]
  | [c], cs, k, _ => by
    have hs := cc_step c ('*' :: '/' :: cs) k (by simp)
    simp only [List.cons_append, List.nil_append]
    rw [hs]
    simp only [closeComment, List.length_cons, List.length_nil]
  | c :: c2 :: b, cs, k, h => by
    have hne : ¬ (c = '*' ∧ c2 = '/') := by
      intro h1; obtain ⟨rfl, rfl⟩ := h1; simp [hasClose] at h
    have hrest : hasClose (c2 :: b) = false := by
      unfold hasClose at h
      split at h
      · rename_i tl heq; simp only [List.cons.injEq] at heq; exact absurd ⟨heq.1, heq.2.1⟩ hne
      · rename_i hd rs _ heq; simp only [List.cons.injEq] at heq; obtain ⟨_, rfl⟩ := heq; exact h
      · rename_i heq; cases heq
    have ih := closeComment_body (c2 :: b) cs (k + 1) hrest
    have hs := cc_step c ((c2 :: b) ++ '*' :: '/' :: cs) k (by simp; exact fun h1 h2 => hne ⟨h1, h2⟩)
    simp only [List.cons_append] at hs ih ⊢
    rw [hs, ih]
    simp only [List.length_cons]; congr 1; omega

/-- at `/*` the longest match is the comment up to the first `*/` -/
theorem nextToken_comment (rest : List Char) (n : Nat) (h : closeComment rest 2 = some n) (hn : 2 ≤ n) :
    nextToken ('/' :: '*' :: rest) = some (.comment, n) := by
  simp [nextToken, rules, fixedTable, patternRules, pick, lit, kw, mName, mStr, mDecFloat, mExp, mHexFloat, mDecLit, mHexLit, mOctLit,
    mSpace, mComment, mLineComment, decLitExact, mFrac, omax, isISC, iscRanges, inR, isDec, lowerC, span, isWs, List.isPrefixOf, h]
  omega

/-- **a comment in front of a text never changes the token stream** -/
theorem lex_leading_comment (body cs : List Char) (h : hasClose body = false) :
    lex ('/' :: '*' :: (body ++ '*' :: '/' :: cs)) = lex cs := by
  have hc := closeComment_body body cs 2 h
  have hnt := nextToken_comment (body ++ '*' :: '/' :: cs) (2 + body.length + 2) hc (by omega)
  unfold lex
  simp only [List.length_cons, lexLoop, hnt, TK.skipped, if_true]
  have hdrop : List.drop (2 + body.length + 2) ('/' :: '*' :: (body ++ '*' :: '/' :: cs)) = cs := by
    have : 2 + body.length + 2 = (('/' :: '*' :: body) ++ ['*', '/']).length := by simp; omega
    rw [this]
    have hl : '/' :: '*' :: (body ++ '*' :: '/' :: cs) = (('/' :: '*' :: body) ++ ['*', '/']) ++ cs := by simp
    rw [hl]
    exact List.drop_left
  rw [hdrop]
  exact lexLoop_fuel _ _ cs {} (by simp; omega) (by omega)

/-- at `//` the longest match is the line comment up to the end of the line -/
theorem nextToken_line (rest : List Char) :
    nextToken ('/' :: '/' :: rest) = some (.lineComment, 2 + span (fun c => c != '\r' && c != '\n') rest) := by
  simp [nextToken, rules, fixedTable, patternRules, pick, lit, kw, mName, mStr, mDecFloat, mExp, mHexFloat, mDecLit, mHexLit, mOctLit,
    mSpace, mComment, mLineComment, decLitExact, mFrac, omax, isISC, iscRanges, inR, isDec, lowerC, span, isWs, List.isPrefixOf]
  omega

#print axioms lex_leading_comment
#print axioms nextToken_line

end Grule.LexFacts

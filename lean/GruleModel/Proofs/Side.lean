/-
  The side conditions under which the working memory is transparent, bundled.
-/
import GruleModel.Proofs.Refine
import GruleModel.Proofs.SpecTrace
import GruleModel.Proofs.SnapInj
namespace Grule

/-- `Side c entries`: user methods are referentially transparent (the documented contract), float
    formatting is injective (`FloatPF`; with it snapshots determine nodes, `SnapInj`, proved in `Proofs/SnapInj.lean`), the rules are
    well-formed (`wfRule`: state-changing built-ins only as statements, identifiers are SIMPLENAMEs),
    entry keys are unique (a Go map), and successful assignments leave the working memory coherent
    (`FrameHyp`; discharged from the syntactic predicate `Stable` in `Proofs/Frame.lean`). -/
structure Side (c : Cfg) (entries : List RuleEntry) : Prop where
  pure : MethodsPure c
  float : FloatPF
  wf : WFEntries entries
  keys : KeysNodup entries
  frame : FrameHyp c (Targets entries)

/-- snapshots determine nodes: a theorem now, no longer a field -/
theorem Side.inj {c : Cfg} {entries : List RuleEntry} (h : Side c entries) : SnapInj := snapInj_of h.float

/-- the ghost history of the reference run of the same call -/
def refRun (rc : RunCfg) (c : Cfg) (inst : Instance) (st : Store) : SpecResult :=
  specExecute rc c inst.entries st

theorem refRun_fired_good (rc : RunCfg) (c : Cfg) (inst : Instance) (st : Store) :
    ∀ f ∈ (refRun rc c inst st).fired, GoodFiring c inst.entries f := by
  unfold refRun specExecute
  dsimp only
  have := specLoop_fired (c := c) rc inst.entries (rc.maxCycle + 1) 0 { vis := { st := st } }
    (by intro f hf; cases hf)
  generalize specLoop rc c inst.entries (rc.maxCycle + 1) 0 { vis := { st := st } } = sl at this
  obtain ⟨o, ss⟩ := sl
  intro f hf
  simp only [List.mem_reverse] at hf
  exact this f hf

/-- oldest-first `exec` events of a finished trace -/
def execList (tr : List TEv) : List (Nat × String) := tr.filterMap execOf

theorem refRun_exec (rc : RunCfg) (c : Cfg) (inst : Instance) (st : Store) :
    execList (refRun rc c inst st).trace = firedNames (refRun rc c inst st).fired := by
  unfold refRun specExecute
  dsimp only
  have := specLoop_exec (c := c) rc inst.entries (rc.maxCycle + 1) 0 { vis := { st := st } } rfl
  generalize specLoop rc c inst.entries (rc.maxCycle + 1) 0 { vis := { st := st } } = sl at this
  obtain ⟨o, ss⟩ := sl
  simp only at this ⊢
  unfold execList firedNames
  unfold execEvents firedNames at this
  rw [List.filterMap_reverse, this, List.map_reverse]

end Grule

/-
  The parser never looks at the text of a token whose rule has a fixed text (keywords, operators, punctuation): replacing
  those texts by the canonical spelling (`norm`) changes nothing but the texts in the rest. Equational, for every parser
  function, every fuel, every outcome (errors carry token counts, which `norm` preserves).
-/
import GruleModel.Syntax.Parser
import GruleModel.Proofs.ParseGroup
import GruleModel.Proofs.ParseSim
namespace Grule.ParseNorm
open Grule Grule.Syntax Grule.ParseGroup Grule.ParseSim

/-- kinds whose text the parser reads: names and literals -/
def textMatters : TK → Bool
  | .name | .dq | .sq | .decFloat | .decExp | .hexFloat | .hexExp | .dec | .hex | .oct => true
  | _ => false

/-- canonical spelling for every token whose text does not matter -/
def norm (t : Token) : Token := if textMatters t.kind then t else ⟨t.kind, fixedText t.kind⟩

@[simp] theorem norm_kind (t : Token) : (norm t).kind = t.kind := by
  unfold norm; split <;> rfl

theorem norm_id (t : Token) (h : textMatters t.kind = true) : norm t = t := by
  unfold norm; simp [h]

def mapR {α : Type} : Except PErr (α × List Token) → Except PErr (α × List Token)
  | .ok (a, r) => .ok (a, r.map norm)
  | .error e => .error e

@[simp] theorem mapR_ok {α : Type} (a : α) (r : List Token) : mapR (.ok (a, r)) = .ok (a, r.map norm) := rfl
@[simp] theorem mapR_error {α : Type} (e : PErr) : mapR (.error e : Except PErr (α × List Token)) = .error e := rfl
@[simp] theorem mapR_err {α : Type} (ts : List Token) : mapR (err ts : Except PErr (α × List Token)) = err (ts.map norm) := by
  simp [err]

variable (d : Dec)

set_option hygiene false in
macro "lit_case " x:term : tactic => `(tactic| (cases hx : $x with
   | error e => cases e <;> simp [mapR]
   | ok v => simp [mapR]))

theorem parseConst_norm (ts : List Token) : parseConst d (ts.map norm) = (parseConst d ts).map mapR := by
  cases ts with
  | nil => simp [parseConst]
  | cons t rest =>
    simp only [List.map_cons]
    cases hk : t.kind <;>
      simp [parseConst, hk, norm, textMatters, isNumTok, relocate, bind, Except.bind, pure, Except.pure]
    case minus =>
      cases rest with
      | nil => simp
      | cons t2 rest2 =>
        simp only [List.map_cons, norm_kind]
        cases hk2 : t2.kind <;> simp [hk2, norm, textMatters]
        case dec => lit_case (d.int ('-' :: t2.text))
        case hex => lit_case (d.int ('-' :: t2.text))
        case oct => lit_case (d.int ('-' :: t2.text))
        case decFloat => lit_case (d.float ('-' :: t2.text))
        case hexFloat => lit_case (d.float ('-' :: t2.text))
    case dq => lit_case (d.str t.text)
    case sq => lit_case (d.str t.text)
    case decFloat => lit_case (d.float t.text)
    case hexFloat => lit_case (d.float t.text)
    case dec => lit_case (d.int t.text)
    case hex => lit_case (d.int t.text)
    case oct => lit_case (d.int t.text)


structure Eqs (f : Nat) : Prop where
  expr : ∀ p ts, parseExpr d f p (ts.map norm) = mapR (parseExpr d f p ts)
  climb : ∀ p lhs ts, climb d f p lhs (ts.map norm) = mapR (climb d f p lhs ts)
  primary : ∀ ts, parsePrimary d f (ts.map norm) = mapR (parsePrimary d f ts)
  atom : ∀ ts, parseAtom d f (ts.map norm) = mapR (parseAtom d f ts)
  vtail : ∀ v ts, varTail d f v (ts.map norm) = mapR (varTail d f v ts)
  suff : ∀ a ts, suffixes d f a (ts.map norm) = mapR (suffixes d f a ts)
  args : ∀ ts, parseArgs d f (ts.map norm) = mapR (parseArgs d f ts)
  more : ∀ ts, moreArgs d f (ts.map norm) = mapR (moreArgs d f ts)

theorem eqs_zero : Eqs d 0 where
  expr := by intro p ts; simp [parseExpr]
  climb := by intro p lhs ts; simp [Syntax.climb]
  primary := by intro ts; simp [parsePrimary]
  atom := by intro ts; simp [parseAtom]
  vtail := by intro v ts; simp [varTail]
  suff := by intro a ts; simp [suffixes]
  args := by intro ts; simp [parseArgs]
  more := by intro ts; simp [moreArgs]

variable {d}

theorem eq_expr (f : Nat) (ih : Eqs d f) : ∀ p ts, parseExpr d (f + 1) p (ts.map norm) = mapR (parseExpr d (f + 1) p ts) := by
  intro p ts
  simp only [parseExpr, bind, Except.bind]
  rw [ih.primary]
  cases parsePrimary d f ts with
  | error e => rfl
  | ok x =>
    obtain ⟨lhs, r1⟩ := x
    simp only [mapR_ok]
    exact ih.climb p lhs r1

theorem eq_climb (f : Nat) (ih : Eqs d f) : ∀ p lhs ts, Syntax.climb d (f + 1) p lhs (ts.map norm) = mapR (Syntax.climb d (f + 1) p lhs ts) := by
  intro p lhs ts
  cases ts with
  | nil => simp [Syntax.climb]
  | cons t r0 =>
    simp only [List.map_cons, Syntax.climb, norm_kind]
    cases hop : binOpOf t.kind with
    | none => simp
    | some op =>
      simp only
      by_cases hge : prec op ≥ p
      · simp only [hge, if_true, bind, Except.bind]
        rw [ih.expr]
        cases parseExpr d f (prec op + 1) r0 with
        | error e => rfl
        | ok x =>
          obtain ⟨rhs, r'⟩ := x
          simp only [mapR_ok]
          exact ih.climb p _ r'
      · simp [hge]

theorem eq_paren (f : Nat) (ih : Eqs d f) (neg : Bool) (inner : List Token) :
    (do
        let (e', r1) ← parseExpr d f 0 (inner.map norm)
        match r1 with
        | t :: rest' => if t.kind == TK.rparen then (.ok (.paren neg e', rest') : Except PErr (Expr × List Token)) else err r1
        | [] => err r1) =
    mapR (do
        let (e', r1) ← parseExpr d f 0 inner
        match r1 with
        | t :: rest' => if t.kind == TK.rparen then (.ok (.paren neg e', rest') : Except PErr (Expr × List Token)) else err r1
        | [] => err r1) := by
  simp only [bind, Except.bind]
  rw [ih.expr]
  cases parseExpr d f 0 inner with
  | error e => rfl
  | ok x =>
    obtain ⟨e', r1⟩ := x
    simp only [mapR_ok]
    cases r1 with
    | nil => simp
    | cons t rest' =>
      simp only [List.map_cons, norm_kind]
      split <;> simp

theorem eq_atomCase (f : Nat) (ih : Eqs d f) (ts : List Token) :
    (do let (a, r) ← parseAtom d f (ts.map norm); (.ok (.atom a, r) : Except PErr (Expr × List Token))) =
    mapR (do let (a, r) ← parseAtom d f ts; (.ok (.atom a, r) : Except PErr (Expr × List Token))) := by
  simp only [bind, Except.bind]
  rw [ih.atom]
  cases parseAtom d f ts with
  | error e => rfl
  | ok x => obtain ⟨a, r⟩ := x; rfl

theorem eq_primary (f : Nat) (ih : Eqs d f) : ∀ ts, parsePrimary d (f + 1) (ts.map norm) = mapR (parsePrimary d (f + 1) ts) := by
  intro ts
  cases ts with
  | nil => simp [parsePrimary]
  | cons t rest0 =>
    simp only [List.map_cons, parsePrimary, norm_kind]
    by_cases hl : (t.kind == TK.lparen) = true
    · simp only [hl, if_true]
      exact eq_paren f ih false rest0
    · simp only [hl, Bool.false_eq_true, if_false]
      by_cases hb : (t.kind == TK.bang) = true
      · simp only [hb, if_true]
        cases rest0 with
        | nil => simp
        | cons t2 rest2 =>
          simp only [List.map_cons, norm_kind]
          by_cases hl2 : (t2.kind == TK.lparen) = true
          · simp only [hl2, if_true]
            exact eq_paren f ih true rest2
          · simp only [hl2, Bool.false_eq_true, if_false]
            exact eq_atomCase f ih (t :: t2 :: rest2)
      · simp only [hb, Bool.false_eq_true, if_false]
        exact eq_atomCase f ih (t :: rest0)


theorem name_text (t : Token) (h : (t.kind == TK.name) = true) : (norm t).text = t.text := by
  have hk : t.kind = TK.name := by simpa using h
  rw [norm_id t (by simp [textMatters, hk])]

theorem eq_atom (f : Nat) (ih : Eqs d f) : ∀ ts, parseAtom d (f + 1) (ts.map norm) = mapR (parseAtom d (f + 1) ts) := by
  intro ts
  cases ts with
  | nil => simp [parseAtom]
  | cons t rest =>
    have hc := parseConst_norm d (t :: rest)
    simp only [List.map_cons] at hc
    simp only [List.map_cons, parseAtom, norm_kind]
    by_cases hb : (t.kind == TK.bang) = true
    · simp only [hb, if_true, bind, Except.bind]
      rw [ih.atom]
      cases parseAtom d f rest with
      | error e => rfl
      | ok x => obtain ⟨a0, r0⟩ := x; rfl
    · simp only [hb, Bool.false_eq_true, if_false]
      rw [hc]
      cases parseConst d (t :: rest) with
      | some rc =>
        simp only [Option.map_some, bind, Except.bind]
        cases rc with
        | error e => rfl
        | ok x =>
          obtain ⟨c, rest'⟩ := x
          simp only [mapR_ok]
          exact ih.suff _ rest'
      | none =>
        simp only [Option.map_none]
        by_cases hn : (t.kind == TK.name) = true
        · simp only [hn, if_true, name_text t hn]
          cases rest with
          | nil => simp
          | cons t2 rest2 =>
            simp only [List.map_cons, norm_kind]
            by_cases hl : (t2.kind == TK.lparen) = true
            · simp only [hl, if_true, bind, Except.bind]
              rw [ih.args]
              cases parseArgs d f rest2 with
              | error e => rfl
              | ok x =>
                obtain ⟨args, r0⟩ := x
                simp only [mapR_ok]
                exact ih.suff _ r0
            · simp only [hl, Bool.false_eq_true, if_false, bind, Except.bind]
              have hv := ih.vtail (.root (String.ofList t.text)) (t2 :: rest2)
              simp only [List.map_cons] at hv
              rw [hv]
              cases varTail d f (.root (String.ofList t.text)) (t2 :: rest2) with
              | error e => rfl
              | ok x =>
                obtain ⟨v, r0⟩ := x
                simp only [mapR_ok]
                exact ih.suff _ r0
        · simp [hn]

theorem eq_vtail (f : Nat) (ih : Eqs d f) : ∀ v ts, varTail d (f + 1) v (ts.map norm) = mapR (varTail d (f + 1) v ts) := by
  intro v ts
  cases ts with
  | nil => simp [varTail]
  | cons t rest =>
    simp only [List.map_cons, varTail, norm_kind]
    by_cases hd : (t.kind == TK.dot) = true
    · simp only [hd, if_true]
      cases rest with
      | nil => simp
      | cons n rest2 =>
        simp only [List.map_cons, norm_kind]
        by_cases hn : (n.kind == TK.name) = true
        · simp only [hn, if_true, name_text n hn]
          cases rest2 with
          | nil =>
            simp only [List.map_nil]
            have := ih.vtail (.field v (String.ofList n.text)) []
            simpa using this
          | cons p rest3 =>
            simp only [List.map_cons, norm_kind]
            by_cases hl : (p.kind == TK.lparen) = true
            · simp [hl]
            · simp only [hl, Bool.false_eq_true, if_false]
              have := ih.vtail (.field v (String.ofList n.text)) (p :: rest3)
              simpa using this
        · simp [hn]
    · simp only [hd, Bool.false_eq_true, if_false]
      by_cases hs : (t.kind == TK.lsq) = true
      · simp only [hs, if_true, bind, Except.bind]
        rw [ih.expr]
        cases parseExpr d f 0 rest with
        | error e => rfl
        | ok x =>
          obtain ⟨e, r0⟩ := x
          simp only [mapR_ok]
          cases r0 with
          | nil => simp
          | cons c r' =>
            simp only [List.map_cons, norm_kind]
            by_cases hr : (c.kind == TK.rsq) = true
            · simp only [hr, if_true]
              exact ih.vtail _ r'
            · simp [hr]
      · simp [hs]

theorem eq_suff (f : Nat) (ih : Eqs d f) : ∀ a ts, suffixes d (f + 1) a (ts.map norm) = mapR (suffixes d (f + 1) a ts) := by
  intro a ts
  cases ts with
  | nil => simp [suffixes]
  | cons t rest =>
    simp only [List.map_cons, suffixes, norm_kind]
    by_cases hd : (t.kind == TK.dot) = true
    · simp only [hd, if_true]
      cases rest with
      | nil => simp
      | cons n rest2 =>
        simp only [List.map_cons, norm_kind]
        by_cases hn : (n.kind == TK.name) = true
        · simp only [hn, if_true, name_text n hn]
          cases rest2 with
          | nil =>
            simp only [List.map_nil]
            have := ih.suff (.member a (String.ofList n.text)) []
            simpa using this
          | cons p rest3 =>
            simp only [List.map_cons, norm_kind]
            by_cases hl : (p.kind == TK.lparen) = true
            · simp only [hl, if_true, bind, Except.bind]
              rw [ih.args]
              cases parseArgs d f rest3 with
              | error e => rfl
              | ok x =>
                obtain ⟨args, r0⟩ := x
                simp only [mapR_ok]
                exact ih.suff _ r0
            · simp only [hl, Bool.false_eq_true, if_false]
              have := ih.suff (.member a (String.ofList n.text)) (p :: rest3)
              simpa using this
        · simp [hn]
    · simp only [hd, Bool.false_eq_true, if_false]
      by_cases hs : (t.kind == TK.lsq) = true
      · simp only [hs, if_true, bind, Except.bind]
        rw [ih.expr]
        cases parseExpr d f 0 rest with
        | error e => rfl
        | ok x =>
          obtain ⟨e, r0⟩ := x
          simp only [mapR_ok]
          cases r0 with
          | nil => simp
          | cons c r' =>
            simp only [List.map_cons, norm_kind]
            by_cases hr : (c.kind == TK.rsq) = true
            · simp only [hr, if_true]
              exact ih.suff _ r'
            · simp [hr]
      · simp [hs]

theorem eq_more (f : Nat) (ih : Eqs d f) : ∀ ts, moreArgs d (f + 1) (ts.map norm) = mapR (moreArgs d (f + 1) ts) := by
  intro ts
  cases ts with
  | nil => simp [moreArgs]
  | cons t rest =>
    simp only [List.map_cons, moreArgs, norm_kind]
    by_cases hr : (t.kind == TK.rparen) = true
    · simp [hr]
    · simp only [hr, Bool.false_eq_true, if_false]
      by_cases hcm : (t.kind == TK.comma) = true
      · simp only [hcm, if_true, bind, Except.bind]
        rw [ih.expr]
        cases parseExpr d f 0 rest with
        | error e => rfl
        | ok x =>
          obtain ⟨e, r0⟩ := x
          simp only [mapR_ok]
          rw [ih.more]
          cases moreArgs d f r0 with
          | error e => rfl
          | ok y => obtain ⟨more, r1⟩ := y; rfl
      · simp [hcm]

theorem eq_args (f : Nat) (ih : Eqs d f) : ∀ ts, parseArgs d (f + 1) (ts.map norm) = mapR (parseArgs d (f + 1) ts) := by
  intro ts
  cases ts with
  | nil => simp [parseArgs]
  | cons t rest =>
    simp only [List.map_cons, parseArgs, norm_kind]
    by_cases hr : (t.kind == TK.rparen) = true
    · simp [hr]
    · simp only [hr, Bool.false_eq_true, if_false, bind, Except.bind]
      have he := ih.expr 0 (t :: rest)
      simp only [List.map_cons] at he
      rw [he]
      cases parseExpr d f 0 (t :: rest) with
      | error e => rfl
      | ok x =>
        obtain ⟨e, r0⟩ := x
        simp only [mapR_ok]
        rw [ih.more]
        cases moreArgs d f r0 with
        | error e => rfl
        | ok y => obtain ⟨more, r1⟩ := y; rfl

theorem eqs_all (d : Dec) : ∀ f, Eqs d f
  | 0 => eqs_zero d
  | f + 1 =>
    have ih := eqs_all d f
    { expr := eq_expr f ih, climb := eq_climb f ih, primary := eq_primary f ih, atom := eq_atom f ih,
      vtail := eq_vtail f ih, suff := eq_suff f ih, args := eq_args f ih, more := eq_more f ih }


theorem eq_action (d : Dec) (f : Nat) (ts : List Token) : parseAction d f (ts.map norm) = mapR (parseAction d f ts) := by
  simp only [parseAction, bind, Except.bind]
  rw [(eqs_all d f).atom]
  cases parseAtom d f ts with
  | error e => rfl
  | ok x =>
    obtain ⟨a, r⟩ := x
    simp only [mapR_ok]
    cases r with
    | nil => simp
    | cons t rest =>
      simp only [List.map_cons, norm_kind]
      cases hop : assignOpOf t.kind with
      | none =>
        simp only
        by_cases hs : (t.kind == TK.semi) = true
        · simp [hs]
        · simp [hs]
      | some op =>
        cases a with
        | var v =>
          simp only
          rw [(eqs_all d f).expr]
          cases parseExpr d f 0 rest with
          | error e => rfl
          | ok y =>
            obtain ⟨e, r2⟩ := y
            simp only [mapR_ok]
            cases r2 with
            | nil => simp
            | cons s r3 =>
              simp only [List.map_cons, norm_kind]
              by_cases hs : (s.kind == TK.semi) = true
              · simp [hs]
              · simp [hs]
        | const c => simp
        | call g as => simp
        | meth rc g as => simp
        | member rc g => simp
        | sel rc i => simp
        | neg b => simp

theorem eq_actions (d : Dec) (f : Nat) : ∀ (n : Nat) (ts : List Token),
    parseActions d f n (ts.map norm) = mapR (parseActions d f n ts)
  | 0, ts => by simp [parseActions]
  | n + 1, ts => by
    simp only [parseActions, bind, Except.bind]
    rw [eq_action]
    cases parseAction d f ts with
    | error e => rfl
    | ok x =>
      obtain ⟨a, r⟩ := x
      simp only [mapR_ok]
      cases r with
      | nil => simp
      | cons t rest =>
        simp only [List.map_cons, norm_kind]
        by_cases hb : (t.kind == TK.rbrace) = true
        · simp [hb]
        · simp only [hb, Bool.false_eq_true, if_false]
          have ih := eq_actions d f n (t :: rest)
          simp only [List.map_cons] at ih
          rw [ih]
          cases parseActions d f n (t :: rest) with
          | error e => rfl
          | ok y => obtain ⟨more, r'⟩ := y; rfl

theorem eq_body (d : Dec) (f : Nat) (nm desc : String) (sal : Int) (rest2 : List Token) :
    ruleBody d f nm desc sal (rest2.map norm) = mapR (ruleBody d f nm desc sal rest2) := by
  unfold ruleBody
  cases rest2 with
  | nil => simp
  | cons lb r1 =>
    cases r1 with
    | nil => simp
    | cons w rest3 =>
      simp only [List.map_cons, norm_kind]
      by_cases h1 : (lb.kind != TK.lbrace) = true
      · simp [h1]
      · simp only [h1, Bool.false_eq_true, if_false]
        by_cases h2 : (w.kind != TK.kWhen) = true
        · simp [h2]
        · simp only [h2, Bool.false_eq_true, if_false, bind, Except.bind]
          rw [(eqs_all d f).expr]
          cases parseExpr d f 0 rest3 with
          | error e => rfl
          | ok x =>
            obtain ⟨cond, rest4⟩ := x
            simp only [mapR_ok]
            cases rest4 with
            | nil => simp
            | cons th rest5 =>
              simp only [List.map_cons, norm_kind]
              by_cases h3 : (th.kind != TK.kThen) = true
              · simp [h3]
              · simp only [h3, Bool.false_eq_true, if_false]
                rw [eq_actions]
                cases parseActions d f f rest5 with
                | error e => rfl
                | ok y =>
                  obtain ⟨acts, rest6⟩ := y
                  simp only [mapR_ok]
                  cases rest6 with
                  | nil => simp
                  | cons rb rest7 =>
                    simp only [List.map_cons, norm_kind]
                    by_cases h4 : (rb.kind == TK.rbrace) = true
                    · simp [h4]
                    · simp [h4]

theorem eq_sal (d : Dec) (rest1 : List Token) : salOf d (rest1.map norm) = mapR (salOf d rest1) := by
  unfold salOf
  cases rest1 with
  | nil => simp
  | cons t rest' =>
    simp only [List.map_cons, norm_kind]
    by_cases hk : (t.kind == TK.kSalience) = true
    · simp only [hk, if_true]
      rw [parseConst_norm]
      cases parseConst d rest' with
      | none => simp
      | some rc =>
        simp only [Option.map_some, bind, Except.bind]
        cases rc with
        | error e => rfl
        | ok x =>
          obtain ⟨c, r2⟩ := x
          simp only [mapR_ok]
          cases c <;> simp
    · simp [hk]

theorem eq_desc (rest : List Token) : descPart (rest.map norm) = ((descPart rest).1, (descPart rest).2.map norm) := by
  unfold descPart
  cases rest with
  | nil => simp
  | cons t rest' =>
    simp only [List.map_cons, norm_kind]
    by_cases hq : (t.kind == TK.dq || t.kind == TK.sq) = true
    · have hm : textMatters t.kind = true := by
        simp only [Bool.or_eq_true, beq_iff_eq] at hq
        rcases hq with h | h <;> simp [textMatters, h]
      simp only [hq, if_true, norm_id t hm]
    · simp [hq]

theorem eq_rule (d : Dec) (f : Nat) (ts : List Token) : parseRule d f (ts.map norm) = mapR (parseRule d f ts) := by
  cases ts with
  | nil => simp [parseRule]
  | cons r0 ts1 =>
    cases ts1 with
    | nil => simp [parseRule]
    | cons n rest0 =>
      simp only [List.map_cons]
      rw [parseRule_eq, parseRule_eq]
      simp only [norm_kind]
      by_cases h1 : (r0.kind != TK.kRule) = true
      · simp [h1]
      · simp only [h1, Bool.false_eq_true, if_false]
        by_cases h2 : (n.kind != TK.name) = true
        · simp [h2]
        · simp only [h2, Bool.false_eq_true, if_false, bind, Except.bind]
          have hn : (n.kind == TK.name) = true := by simpa using h2
          rw [eq_desc, name_text n hn]
          simp only
          rw [eq_sal]
          cases salOf d (descPart rest0).2 with
          | error e => rfl
          | ok x =>
            obtain ⟨sal, rest2⟩ := x
            simp only [mapR_ok]
            exact eq_body d f _ _ sal rest2

theorem eq_rules (d : Dec) (f : Nat) : ∀ (n : Nat) (ts : List Token) (acc : List Rule),
    parseRules d f n (ts.map norm) acc = parseRules d f n ts acc
  | 0, ts, acc => by simp [parseRules]
  | n + 1, [], acc => by simp [parseRules]
  | n + 1, t :: ts, acc => by
    have hr := eq_rule d f (t :: ts)
    simp only [List.map_cons] at hr
    simp only [List.map_cons, parseRules]
    rw [hr]
    cases parseRule d f (t :: ts) with
    | error e => rfl
    | ok x =>
      obtain ⟨r, rest⟩ := x
      simp only [mapR_ok]
      exact eq_rules d f n rest _

/-- **The parser never reads the text of a keyword, operator or punctuation token**: with every such text replaced by the
    canonical spelling, the document parser returns the same rules and the same error. -/
theorem parseDoc_norm (d : Dec) (ts : List Token) : parseDoc d (ts.map norm) = parseDoc d ts := by
  unfold parseDoc fuelFor
  simp only [List.length_map]
  exact eq_rules d _ _ ts []

#print axioms parseDoc_norm

end Grule.ParseNorm

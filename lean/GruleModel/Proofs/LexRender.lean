/-
  The lexer reads a space-separated rendering of a token list back as that token list.

  `Lexes t`: whatever follows, at `t.text ++ " "` the longest match is `t`'s rule over exactly `t.text`.
  `lex_render`: if every token of `ts` lexes, `lex (render ts)` is `ts` with no error.
  `pick_win`: how a rule wins the longest-match competition (strictly longer than every earlier rule, at least as long
  as every later one).
-/
import GruleModel.Proofs.LexFacts
namespace Grule.LexRender
open Grule.Syntax Grule.LexFacts

abbrev Rule := TK × (List Char → Option Nat)

def bound (best : Option (TK × Nat)) : Nat := match best with
  | some (_, n) => n
  | none => 0

/-- rules that all match strictly less than `n` leave a best shorter than `n` -/
theorem pick_pre (cs : List Char) (n : Nat) (rest : List Rule) : ∀ (pre : List Rule) (best : Option (TK × Nat)),
    bound best < n → (∀ r ∈ pre, ∀ n', r.2 cs = some n' → n' < n) →
    ∃ best', pick cs (pre ++ rest) best = pick cs rest best' ∧ bound best' < n
  | [], best, hb, _ => ⟨best, rfl, hb⟩
  | (k0, m) :: pre, best, hb, hpre => by
    simp only [List.cons_append, pick]
    have hrest : ∀ r ∈ pre, ∀ n', r.2 cs = some n' → n' < n := fun r hr => hpre r (by simp [hr])
    cases hm : m cs with
    | none => exact pick_pre cs n rest pre best hb hrest
    | some n0 =>
      have hn0 : n0 < n := hpre (k0, m) (by simp) n0 hm
      cases best with
      | none =>
        simp only
        by_cases hz : (n0 == 0) = true
        · simp only [hz, if_true]; exact pick_pre cs n rest pre none hb hrest
        · simp only [hz, Bool.false_eq_true, if_false]
          exact pick_pre cs n rest pre (some (k0, n0)) hn0 hrest
      | some b =>
        obtain ⟨bk, bn⟩ := b
        simp only
        by_cases hgt : n0 > bn
        · simp only [hgt, if_true]; exact pick_pre cs n rest pre (some (k0, n0)) hn0 hrest
        · simp only [hgt, if_false]; exact pick_pre cs n rest pre (some (bk, bn)) hb hrest

/-- rules that match at most `n` do not displace a best of length `n` -/
theorem pick_post (cs : List Char) (k : TK) (n : Nat) : ∀ (post : List Rule),
    (∀ r ∈ post, ∀ n', r.2 cs = some n' → n' ≤ n) → pick cs post (some (k, n)) = some (k, n)
  | [], _ => rfl
  | (k0, m) :: post, hpost => by
    simp only [pick]
    have hrest : ∀ r ∈ post, ∀ n', r.2 cs = some n' → n' ≤ n := fun r hr => hpost r (by simp [hr])
    cases hm : m cs with
    | none => exact pick_post cs k n post hrest
    | some n0 =>
      have hn0 : n0 ≤ n := hpost (k0, m) (by simp) n0 hm
      have : ¬ n0 > n := by omega
      simp only [this, if_false]
      exact pick_post cs k n post hrest

/-- **how a rule wins**: it matches `n > 0` characters, every earlier rule matches fewer, no later rule matches more -/
theorem pick_win (cs : List Char) (pre post : List Rule) (k : TK) (m : List Char → Option Nat) (n : Nat)
    (hm : m cs = some n) (hn : 0 < n)
    (hpre : ∀ r ∈ pre, ∀ n', r.2 cs = some n' → n' < n)
    (hpost : ∀ r ∈ post, ∀ n', r.2 cs = some n' → n' ≤ n) :
    pick cs (pre ++ (k, m) :: post) none = some (k, n) := by
  obtain ⟨best', he, hb⟩ := pick_pre cs n ((k, m) :: post) pre none hn hpre
  rw [he]
  simp only [pick, hm]
  cases best' with
  | none =>
    have : (n == 0) = false := by simp; omega
    simp only [this, Bool.false_eq_true, if_false]
    exact pick_post cs k n post hpost
  | some b =>
    obtain ⟨bk, bn⟩ := b
    have : n > bn := hb
    simp only [this, if_true]
    exact pick_post cs k n post hpost

-- rendering -----------------------------------------------------------------------------------------------------------------

/-- whatever follows the separating space, the longest match at `t.text ++ " "` is `t` -/
def Lexes (t : Token) : Prop :=
  t.kind.skipped = false ∧ ∀ rest, nextToken (t.text ++ ' ' :: rest) = some (t.kind, t.text.length)

/-- every token followed by one space -/
def render : List Token → List Char
  | [] => []
  | t :: ts => t.text ++ ' ' :: render ts

theorem lexes_head (t : Token) (h : Lexes t) : ∃ c w, t.text = c :: w ∧ isWs c = false := by
  cases ht : t.text with
  | nil =>
    have := h.2 []
    rw [ht] at this
    have hp := nextToken_pos _ _ _ this
    simp at hp
  | cons c w =>
    refine ⟨c, w, rfl, ?_⟩
    cases hw : isWs c with
    | false => rfl
    | true =>
      have := h.2 []
      rw [ht, List.cons_append, nextToken_ws c _ hw] at this
      simp only [Option.some.injEq, Prod.mk.injEq] at this
      have hk := h.1
      rw [← this.1] at hk
      cases hk

theorem render_head (ts : List Token) (h : ∀ t ∈ ts, Lexes t) : ∀ c, (render ts).head? = some c → isWs c = false := by
  cases ts with
  | nil => intro c hc; cases hc
  | cons t rest =>
    obtain ⟨c0, w, ht, hw⟩ := lexes_head t (h t (by simp))
    intro c hc
    simp only [render, ht, List.cons_append, List.head?_cons, Option.some.injEq] at hc
    rw [← hc]; exact hw

theorem lexLoop_render : ∀ (ts : List Token) (f : Nat) (acc : LexOut), (∀ t ∈ ts, Lexes t) → (render ts).length < f →
    lexLoop f (render ts) acc = { toks := acc.toks ++ ts, errs := acc.errs }
  | [], f, acc, _, hf => by
    cases f with
    | zero => simp at hf
    | succ f => simp [render, lexLoop]
  | t :: ts, f, acc, h, hf => by
    have ht := h t (by simp)
    have hts : ∀ t ∈ ts, Lexes t := fun x hx => h x (by simp [hx])
    obtain ⟨c0, w, htx, hw⟩ := lexes_head t ht
    have hnt := ht.2 (render ts)
    simp only [render] at hf ⊢
    rw [htx] at hnt hf ⊢
    simp only [List.cons_append, List.length_cons, List.length_append] at hf hnt
    obtain ⟨f1, rfl⟩ : ∃ f1, f = f1 + 1 := ⟨f - 1, by omega⟩
    simp only [List.cons_append, lexLoop, hnt, ht.1, Bool.false_eq_true, if_false]
    have hdrop : (c0 :: (w ++ ' ' :: render ts)).drop (w.length + 1) = ' ' :: render ts := by
      simp [List.drop_append]
    have htake : (c0 :: (w ++ ' ' :: render ts)).take (w.length + 1) = c0 :: w := by
      simp [List.take_append]
    rw [hdrop, htake]
    obtain ⟨f2, rfl⟩ : ∃ f2, f1 = f2 + 1 := ⟨f1 - 1, by omega⟩
    rw [lexLoop_ws f2 ' ' (render ts) _ (by decide)]
    have hd := drop_span_all [] (render ts) (by intro c hc; cases hc) (render_head ts hts)
    simp only [List.nil_append] at hd
    rw [hd]
    rw [lexLoop_render ts f2 _ hts (by omega)]
    have : (⟨t.kind, c0 :: w⟩ : Token) = t := by rw [← htx]
    simp only [this, List.append_assoc, List.singleton_append]

/-- **The lexer reads the space-separated rendering of lexable tokens back, without error.** -/
theorem lex_render (ts : List Token) (h : ∀ t ∈ ts, Lexes t) : lex (render ts) = { toks := ts, errs := 0 } := by
  unfold lex
  rw [lexLoop_render ts _ {} h (by omega)]
  simp

end Grule.LexRender

/-
  The lexer reads a space-separated rendering of a token list back as that token list.

  `Lexes t`: whatever follows, at `t.text ++ " "` the longest match is `t`'s rule over exactly `t.text`.
  `lex_render`: if every token of `ts` lexes, `lex (render ts)` is `ts` with no error.
  `pick_win`: how a rule wins the longest-match competition (strictly longer than every earlier rule, at least as long
  as every later one).
-/
import GruleModel.Proofs.LexFacts
namespace Grule.LexRender
open Grule.Syntax Grule.LexFacts

abbrev Rule := TK × (List Char → Option Nat)

def bound (best : Option (TK × Nat)) : Nat := match best with
  | some (_, n) => n
  | none => 0

/-- rules that all match strictly less than `n` leave a best shorter than `n` -/
theorem pick_pre (cs : List Char) (n : Nat) (rest : List Rule) : ∀ (pre : List Rule) (best : Option (TK × Nat)),
    bound best < n → (∀ r ∈ pre, ∀ n', r.2 cs = some n' → n' < n) →
    ∃ best', pick cs (pre ++ rest) best = pick cs rest best' ∧ bound best' < n
  | [], best, hb, _ => ⟨best, rfl, hb⟩
  | (k0, m) :: pre, best, hb, hpre => by
    simp only [List.cons_append, pick]
    have hrest : ∀ r ∈ pre, ∀ n', r.2 cs = some n' → n' < n := fun r hr => hpre r (by simp [hr])
    cases hm : m cs with
    | none => exact pick_pre cs n rest pre best hb hrest
    | some n0 =>
      have hn0 : n0 < n := hpre (k0, m) (by simp) n0 hm
      cases best with
      | none =>
        simp only
        by_cases hz : (n0 == 0) = true
        · simp only [hz, if_true]; exact pick_pre cs n rest pre none hb hrest
        · simp only [hz, Bool.false_eq_true, if_false]
          exact pick_pre cs n rest pre (some (k0, n0)) hn0 hrest
      | some b =>
        obtain ⟨bk, bn⟩ := b
        simp only
        by_cases hgt : n0 > bn
        · simp only [hgt, if_true]; exact pick_pre cs n rest pre (some (k0, n0)) hn0 hrest
        · simp only [hgt, if_false]; exact pick_pre cs n rest pre (some (bk, bn)) hb hrest

/-- rules that match at most `n` do not displace a best of length `n` -/
theorem pick_post (cs : List Char) (k : TK) (n : Nat) : ∀ (post : List Rule),
    (∀ r ∈ post, ∀ n', r.2 cs = some n' → n' ≤ n) → pick cs post (some (k, n)) = some (k, n)
  | [], _ => rfl
  | (k0, m) :: post, hpost => by
    simp only [pick]
    have hrest : ∀ r ∈ post, ∀ n', r.2 cs = some n' → n' ≤ n := fun r hr => hpost r (by simp [hr])
    cases hm : m cs with
    | none => exact pick_post cs k n post hrest
    | some n0 =>
      have hn0 : n0 ≤ n := hpost (k0, m) (by simp) n0 hm
      have : ¬ n0 > n := by omega
      simp only [this, if_false]
      exact pick_post cs k n post hrest

/-- **how a rule wins**: it matches `n > 0` characters, every earlier rule matches fewer, no later rule matches more -/
theorem pick_win (cs : List Char) (pre post : List Rule) (k : TK) (m : List Char → Option Nat) (n : Nat)
    (hm : m cs = some n) (hn : 0 < n)
    (hpre : ∀ r ∈ pre, ∀ n', r.2 cs = some n' → n' < n)
    (hpost : ∀ r ∈ post, ∀ n', r.2 cs = some n' → n' ≤ n) :
    pick cs (pre ++ (k, m) :: post) none = some (k, n) := by
  obtain ⟨best', he, hb⟩ := pick_pre cs n ((k, m) :: post) pre none hn hpre
  rw [he]
  simp only [pick, hm]
  cases best' with
  | none =>
    have : (n == 0) = false := by simp; omega
    simp only [this, Bool.false_eq_true, if_false]
    exact pick_post cs k n post hpost
  | some b =>
    obtain ⟨bk, bn⟩ := b
    have : n > bn := hb
    simp only [this, if_true]
    exact pick_post cs k n post hpost

-- separators ----------------------------------------------------------------------------------------------------------------

/-- the lexer loop passes over `sep` without a token or an error, whatever follows -/
def Skips (sep : List Char) : Prop :=
  ∀ (cs : List Char) (acc : LexOut) (f : Nat), (sep ++ cs).length < f → lexLoop f (sep ++ cs) acc = lexLoop f cs acc

theorem skips_nil : Skips [] := fun _ _ _ _ => rfl

theorem skips_app (a b : List Char) (ha : Skips a) (hb : Skips b) : Skips (a ++ b) := by
  intro cs acc f hf
  rw [List.append_assoc] at hf ⊢
  rw [ha (b ++ cs) acc f hf, hb cs acc f (by simp only [List.length_append] at hf ⊢; omega)]

/-- whitespace in front of a text can be dropped, at the same fuel -/
theorem loop_drop_ws (cs : List Char) (acc : LexOut) (f : Nat) (hf : cs.length < f) :
    lexLoop f (cs.drop (span isWs cs)) acc = lexLoop f cs acc := by
  cases cs with
  | nil => simp [span]
  | cons c r =>
    cases hw : isWs c with
    | false => simp [span, hw]
    | true =>
      obtain ⟨g, rfl⟩ : ∃ g, f = g + 1 := ⟨f - 1, by simp at hf; omega⟩
      rw [lexLoop_ws g c r acc hw]
      have : (c :: r).drop (span isWs (c :: r)) = r.drop (span isWs r) := by simp [span, hw]
      rw [this]
      exact lexLoop_fuel _ _ _ acc (by simp only [List.length_drop, List.length_cons] at *; omega)
        (by simp only [List.length_drop, List.length_cons] at *; omega)

theorem skips_ws (c : Char) (h : isWs c = true) : Skips [c] := by
  intro cs acc f hf
  obtain ⟨g, rfl⟩ : ∃ g, f = g + 1 := ⟨f - 1, by simp at hf; omega⟩
  simp only [List.cons_append, List.nil_append]
  rw [lexLoop_ws g c cs acc h]
  have h1 := loop_drop_ws cs acc g (by simp at hf; omega)
  rw [h1]
  exact lexLoop_fuel _ _ cs acc (by simp at hf; omega) (by simp at hf; omega)

/-- a block comment, whatever it contains up to its first `*/` -/
theorem skips_block (body : List Char) (h : hasClose body = false) : Skips ('/' :: '*' :: (body ++ ['*', '/'])) := by
  intro cs acc f hf
  have hc := closeComment_body body cs 2 h
  have hnt := nextToken_comment (body ++ '*' :: '/' :: cs) (2 + body.length + 2) hc (by omega)
  obtain ⟨g, rfl⟩ : ∃ g, f = g + 1 := ⟨f - 1, by simp at hf; omega⟩
  have hl : ('/' :: '*' :: (body ++ ['*', '/'])) ++ cs = '/' :: '*' :: (body ++ '*' :: '/' :: cs) := by simp
  rw [hl]
  simp only [lexLoop, hnt, TK.skipped, if_true]
  have hdrop : List.drop (2 + body.length + 2) ('/' :: '*' :: (body ++ '*' :: '/' :: cs)) = cs := by
    have : 2 + body.length + 2 = (('/' :: '*' :: body) ++ ['*', '/']).length := by simp; omega
    rw [this]
    have hl2 : '/' :: '*' :: (body ++ '*' :: '/' :: cs) = (('/' :: '*' :: body) ++ ['*', '/']) ++ cs := by simp
    rw [hl2]
    exact List.drop_left
  rw [hdrop]
  exact lexLoop_fuel _ _ cs acc (by simp at hf; omega) (by simp at hf; omega)

theorem span_line (body cs : List Char) (h : ∀ c ∈ body, c ≠ '\r' ∧ c ≠ '\n') :
    span (fun c => c != '\r' && c != '\n') (body ++ '\n' :: cs) = body.length := by
  induction body with
  | nil => simp [span]
  | cons b rest ih =>
    have hb := h b (by simp)
    simp only [List.cons_append, span, List.length_cons]
    have : (b != '\r' && b != '\n') = true := by simp [hb.1, hb.2]
    simp only [this, if_true]
    rw [ih (fun c hc => h c (by simp [hc]))]

/-- a line comment with its newline -/
theorem skips_line (body : List Char) (h : ∀ c ∈ body, c ≠ '\r' ∧ c ≠ '\n') : Skips ('/' :: '/' :: (body ++ ['\n'])) := by
  intro cs acc f hf
  obtain ⟨g, rfl⟩ : ∃ g, f = g + 1 := ⟨f - 1, by simp at hf; omega⟩
  have hl : ('/' :: '/' :: (body ++ ['\n'])) ++ cs = '/' :: '/' :: (body ++ '\n' :: cs) := by simp
  rw [hl]
  have hnt := nextToken_line (body ++ '\n' :: cs)
  rw [span_line body cs h] at hnt
  simp only [lexLoop, hnt, TK.skipped, if_true]
  have hdrop : List.drop (2 + body.length) ('/' :: '/' :: (body ++ '\n' :: cs)) = '\n' :: cs := by
    have : 2 + body.length = ('/' :: '/' :: body).length := by simp; omega
    rw [this]
    have hl2 : '/' :: '/' :: (body ++ '\n' :: cs) = ('/' :: '/' :: body) ++ '\n' :: cs := by simp
    rw [hl2]
    exact List.drop_left
  rw [hdrop]
  have := skips_ws '\n' (by decide) cs acc g (by simp at hf ⊢; omega)
  simp only [List.cons_append, List.nil_append] at this
  rw [this]
  exact lexLoop_fuel _ _ cs acc (by simp at hf; omega) (by simp at hf; omega)

/-- a separator between two tokens: starts with a whitespace character and is passed over -/
def GoodSep (sep : List Char) : Prop := ∃ s more, sep = s :: more ∧ isWs s = true ∧ Skips sep

theorem goodSep_space : GoodSep [' '] := ⟨' ', [], rfl, by decide, skips_ws ' ' (by decide)⟩

-- rendering -----------------------------------------------------------------------------------------------------------------

/-- whatever whitespace character and text follow, the longest match at `t.text` is `t` -/
def Lexes (t : Token) : Prop :=
  t.kind.skipped = false ∧ ∀ (s : Char) (rest : List Char), isWs s = true → nextToken (t.text ++ s :: rest) = some (t.kind, t.text.length)

/-- every token followed by its separator -/
def renderS : List (Token × List Char) → List Char
  | [] => []
  | (t, sep) :: ts => t.text ++ (sep ++ renderS ts)

theorem lexLoop_renderS : ∀ (ts : List (Token × List Char)) (f : Nat) (acc : LexOut),
    (∀ p ∈ ts, Lexes p.1 ∧ GoodSep p.2) → (renderS ts).length < f →
    lexLoop f (renderS ts) acc = { toks := acc.toks ++ ts.map (·.1), errs := acc.errs }
  | [], f, acc, _, hf => by
    cases f with
    | zero => simp at hf
    | succ f => simp [renderS, lexLoop]
  | (t, sep) :: ts, f, acc, h, hf => by
    obtain ⟨ht, s, more, hsep, hs, hskip⟩ := h (t, sep) (by simp)
    have hts : ∀ p ∈ ts, Lexes p.1 ∧ GoodSep p.2 := fun x hx => h x (by simp [hx])
    simp only at ht hsep hskip
    have hnt := ht.2 s (more ++ renderS ts) hs
    have hpos := nextToken_pos _ _ _ hnt
    cases htx : t.text with
    | nil => rw [htx] at hpos; simp at hpos
    | cons c0 w =>
      simp only [renderS] at hf ⊢
      rw [hsep, htx] at hf ⊢
      rw [htx] at hnt
      simp only [List.cons_append, List.length_cons, List.length_append] at hf hnt
      obtain ⟨f1, rfl⟩ : ∃ f1, f = f1 + 1 := ⟨f - 1, by omega⟩
      simp only [List.cons_append, lexLoop, hnt, ht.1, Bool.false_eq_true, if_false]
      have hdrop : (c0 :: (w ++ s :: (more ++ renderS ts))).drop (w.length + 1) = s :: (more ++ renderS ts) := by simp
      have htake : (c0 :: (w ++ s :: (more ++ renderS ts))).take (w.length + 1) = c0 :: w := by simp
      rw [hdrop, htake]
      have hsk := hskip (renderS ts) { toks := acc.toks ++ [⟨t.kind, c0 :: w⟩], errs := acc.errs } f1
        (by rw [hsep]; simp only [List.cons_append, List.length_cons, List.length_append]; omega)
      rw [hsep] at hsk
      simp only [List.cons_append] at hsk
      rw [hsk]
      rw [lexLoop_renderS ts f1 _ hts (by omega)]
      have : (⟨t.kind, c0 :: w⟩ : Token) = t := by rw [← htx]
      simp only [this, List.map_cons, List.append_assoc, List.singleton_append]

/-- **Whitespace and comments between tokens never change the token stream**: whatever separators — each beginning with a
    whitespace character and consisting of whitespace, block comments and line comments — stand after the tokens, the lexer
    reads exactly the tokens, without error. -/
theorem lex_renderS (ts : List (Token × List Char)) (h : ∀ p ∈ ts, Lexes p.1 ∧ GoodSep p.2) :
    lex (renderS ts) = { toks := ts.map (·.1), errs := 0 } := by
  unfold lex
  rw [lexLoop_renderS ts _ {} h (by omega)]
  simp

/-- every token followed by one space -/
def render (ts : List Token) : List Char := renderS (ts.map (fun t => (t, [' '])))

/-- **The lexer reads the space-separated rendering of lexable tokens back, without error.** -/
theorem lex_render (ts : List Token) (h : ∀ t ∈ ts, Lexes t) : lex (render ts) = { toks := ts, errs := 0 } := by
  unfold render
  rw [lex_renderS]
  · simp [List.map_map, Function.comp_def]
  · intro p hp
    simp only [List.mem_map] at hp
    obtain ⟨t, ht, rfl⟩ := hp
    exact ⟨h t ht, goodSep_space⟩

end Grule.LexRender

/-
  R2: evaluation with the working memory (any memo flag) returns the from-scratch value and keeps
  the memo coherent; it does not touch the store nor the control flags.
-/
import GruleModel.Proofs.Coherence
namespace Grule

variable {c : Cfg}

theorem sound_of_hit {s : EState} {v : Val} {spec : R Val} (hc : Coh c s) (hv : spec = .ok v) :
    Sound c s (.ok v, s) spec := ⟨hv.symm, Same.rfl' s, hc⟩

/-- remembering a sound result keeps everything sound -/
theorem finishE_sound (hi : SnapInj) {s : EState} {res : R Val × EState} (x : Expr) (hx : validE x = true)
    (h : Sound c s res (specE c s.st x)) : Sound c s (finishE c (snapE x) res) (specE c s.st x) := by
  obtain ⟨r, s1⟩ := res
  cases r with
  | ok v =>
    simp only [finishE]
    have hv : specE c s.st x = .ok v := h.val.symm
    refine ⟨h.val, h.same.trans (same_putE c _ _ s1), ?_⟩
    apply coh_putE hi h.coh x v hx
    rw [h.same.st]; exact hv
  | error e => simpa [finishE] using h

theorem finishA_sound (hi : SnapInj) {s : EState} {res : R Val × EState} (x : Atom) (hx : validA x = true)
    (h : Sound c s res (specA c s.st x)) : Sound c s (finishA c (snapA x) res) (specA c s.st x) := by
  obtain ⟨r, s1⟩ := res
  cases r with
  | ok v =>
    simp only [finishA]
    have hv : specA c s.st x = .ok v := h.val.symm
    refine ⟨h.val, h.same.trans (same_putA c _ _ s1), ?_⟩
    apply coh_putA hi h.coh x v hx
    rw [h.same.st]; exact hv
  | error e => simpa [finishA] using h

/-- transport along a `push` -/
theorem sound_push {s : EState} {ev : Ev} {res : R Val × EState} {spec : R Val}
    (h : Sound c (s.push ev) res spec) : Sound c s res spec :=
  ⟨h.val, (same_push s ev).trans h.same, h.coh⟩

mutual
  theorem evalE_sound (hp : MethodsPure c) (hi : SnapInj) :
      ∀ (x : Expr) (s : EState), pureE x = true → validE x = true → Coh c s →
        Sound c s (evalE c s x) (specE c s.st x)
    | .atom a, s, hpure, hval, hc => by
      simp only [evalE]
      split
      · rename_i v hm
        exact sound_of_hit hc (hc.e (.atom a) v hval hm)
      · apply finishE_sound hi (.atom a) hval
        have ih := evalA_sound hp hi a (s.push (.evalE (snapE (.atom a)))) (by simpa [pureE] using hpure)
          (by simpa [validE] using hval) (coh_push _ hc)
        simp only [specE]
        exact sound_push (by simpa using ih)
    | .paren neg e, s, hpure, hval, hc => by
      simp only [evalE]
      split
      · rename_i v hm
        exact sound_of_hit hc (hc.e (.paren neg e) v hval hm)
      · apply finishE_sound hi (.paren neg e) hval
        have ih := evalE_sound hp hi e (s.push (.evalE (snapE (.paren neg e)))) (by simpa [pureE] using hpure)
          (by simpa [validE] using hval) (coh_push _ hc)
        simp only [specE]
        have ih' := sound_push ih
        simp only [push_st] at ih'
        exact ⟨by rw [← ih'.val], ih'.same, ih'.coh⟩
    | .bin op l r, s, hpure, hval, hc => by
      have hpl : pureE l = true := by simp [pureE] at hpure; exact hpure.1
      have hpr : pureE r = true := by simp [pureE] at hpure; exact hpure.2
      have hvl : validE l = true := by simp [validE] at hval; exact hval.1
      have hvr : validE r = true := by simp [validE] at hval; exact hval.2
      simp only [evalE]
      split
      · rename_i v hm
        exact sound_of_hit hc (hc.e (.bin op l r) v hval hm)
      · have ihl := sound_push (evalE_sound hp hi l (s.push (.evalE (snapE (.bin op l r)))) hpl hvl (coh_push _ hc))
        simp only [push_st] at ihl
        generalize hresl : evalE c (s.push (.evalE (snapE (.bin op l r)))) l = resl at ihl
        obtain ⟨lr, s1⟩ := resl
        have hst1 : s1.st = s.st := ihl.same.st
        have hlr : lr = specE c s.st l := ihl.val
        simp only
        by_cases hpan : isPanic lr = true
        · simp only [hpan, if_true]
          refine ⟨?_, ihl.same, ihl.coh⟩
          simp only [specE, ← hlr, hpan, if_true]
        · simp only [hpan, hst1]
          cases hsc : shortCircuit s.st op lr with
          | some res =>
            simp only
            apply finishE_sound hi (.bin op l r) hval
            refine ⟨?_, ihl.same, ihl.coh⟩
            simp only [specE, ← hlr, hpan, hsc]
            rfl
          | none =>
            simp only
            have ihr := evalE_sound hp hi r s1 hpr hvr ihl.coh
            rw [hst1] at ihr
            generalize hresr : evalE c s1 r = resr at ihr
            obtain ⟨rr, s2⟩ := resr
            have hst2 : s2.st = s.st := (ihl.same.trans ihr.same).st
            have hrr : rr = specE c s.st r := ihr.val
            simp only
            apply finishE_sound hi (.bin op l r) hval
            refine ⟨?_, ihl.same.trans ihr.same, ihr.coh⟩
            simp only [specE, ← hlr, hpan, hsc, ← hrr, hst2]
            rfl

  theorem evalA_sound (hp : MethodsPure c) (hi : SnapInj) :
      ∀ (x : Atom) (s : EState), pureA x = true → validA x = true → Coh c s →
        Sound c s (evalA c s x) (specA c s.st x)
    | .const k0, s, hpure, hval, hc => by
      simp only [evalA]
      split
      · rename_i v hm
        exact sound_of_hit hc (hc.a (.const k0) v hval hm)
      · apply finishA_sound hi (.const k0) hval
        exact ⟨by simp only [specA], same_push s _, coh_push _ hc⟩
    | .var v, s, hpure, hval, hc => by
      simp only [evalA]
      split
      · rename_i x hm
        exact sound_of_hit hc (hc.a (.var v) x hval hm)
      · apply finishA_sound hi (.var v) hval
        have ih := evalV_sound hp hi v (s.push (.evalA (snapA (.var v)))) (by simpa [pureA] using hpure)
          (by simpa [validA] using hval) (coh_push _ hc)
        simp only [specA]
        exact sound_push (by simpa using ih)
    | .call f args, s, hpure, hval, hc => by
      have hf : isEffectful f = false := by simp [pureA] at hpure; exact hpure.1
      have hpa : pureArgs args = true := by simp [pureA] at hpure; exact hpure.2
      have hva : validArgs args = true := by simp [validA] at hval; exact hval.2
      simp only [evalA, specA]
      have ih := evalArgs_sound hp hi args (s.push (.evalA (snapA (.call f args)))) hpa hva (coh_push _ hc)
      simp only [push_st] at ih
      generalize hres : evalArgs c (s.push (.evalA (snapA (.call f args)))) args = res at ih
      obtain ⟨r, s1⟩ := res
      have hsame : Same s s1 := (same_push s _).trans ih.same
      cases r with
      | ok vs =>
        simp only
        have hv : specArgs c s.st args = .ok vs := ih.val.symm
        simp only [hv]
        obtain ⟨h1, h2, h3⟩ := callBuiltin_sound (c := c) s1 f vs hf ih.coh
        rw [hsame.st] at h1
        exact ⟨h1, hsame.trans h2, h3⟩
      | error e =>
        simp only
        have hv : specArgs c s.st args = .error e := ih.val.symm
        simp only [hv]
        exact ⟨rfl, hsame, ih.coh⟩
    | .neg a, s, hpure, hval, hc => by
      simp only [evalA]
      split
      · rename_i x hm
        exact sound_of_hit hc (hc.a (.neg a) x hval hm)
      · apply finishA_sound hi (.neg a) hval
        have ih := evalA_sound hp hi a (s.push (.evalA (snapA (.neg a)))) (by simpa [pureA] using hpure)
          (by simpa [validA] using hval) (coh_push _ hc)
        simp only [specA]
        have ih' := sound_push ih
        simp only [push_st] at ih'
        exact ⟨by rw [← ih'.val], ih'.same, ih'.coh⟩
    | .meth recv f args, s, hpure, hval, hc => by
      have hpr : pureA recv = true := by simp [pureA] at hpure; exact hpure.1
      have hpa : pureArgs args = true := by simp [pureA] at hpure; exact hpure.2
      have hvr : validA recv = true := by simp [validA] at hval; exact hval.1.1
      have hva : validArgs args = true := by simp [validA] at hval; exact hval.2
      simp only [evalA]
      split
      · rename_i x hm
        exact sound_of_hit hc (hc.a (.meth recv f args) x hval hm)
      · have ih1 := sound_push (evalA_sound hp hi recv (s.push (.evalA (snapA (.meth recv f args)))) hpr hvr (coh_push _ hc))
        simp only [push_st] at ih1
        generalize hres1 : evalA c (s.push (.evalA (snapA (.meth recv f args)))) recv = res1 at ih1
        obtain ⟨r1, s1⟩ := res1
        cases r1 with
        | error e =>
          simp only
          have hv : specA c s.st recv = .error e := ih1.val.symm
          exact ⟨by simp only [specA, hv], ih1.same, ih1.coh⟩
        | ok rv =>
          simp only
          have hv1 : specA c s.st recv = .ok rv := ih1.val.symm
          have ih2 := evalArgs_sound hp hi args s1 hpa hva ih1.coh
          rw [ih1.same.st] at ih2
          generalize hres2 : evalArgs c s1 args = res2 at ih2
          obtain ⟨r2, s2⟩ := res2
          have hsame2 : Same s s2 := ih1.same.trans ih2.same
          cases r2 with
          | error e =>
            simp only
            have hv : specArgs c s.st args = .error e := ih2.val.symm
            exact ⟨by simp only [specA, hv1, hv], hsame2, ih2.coh⟩
          | ok vs =>
            simp only
            have hv2 : specArgs c s.st args = .ok vs := ih2.val.symm
            apply finishA_sound hi (.meth recv f args) hval
            obtain ⟨h1, h2, h3⟩ := callMethod_sound hp (snapA (.meth recv f args)) s2 rv f vs ih2.coh
            rw [hsame2.st] at h1
            exact ⟨by simp only [specA, hv1, hv2]; exact h1, hsame2.trans h2, h3⟩
    | .member recv n, s, hpure, hval, hc => by
      have hpr : pureA recv = true := by simpa [pureA] using hpure
      have hvr : validA recv = true := by simp [validA] at hval; exact hval.1
      simp only [evalA]
      split
      · rename_i x hm
        exact sound_of_hit hc (hc.a (.member recv n) x hval hm)
      · have ih1 := sound_push (evalA_sound hp hi recv (s.push (.evalA (snapA (.member recv n)))) hpr hvr (coh_push _ hc))
        simp only [push_st] at ih1
        generalize hres1 : evalA c (s.push (.evalA (snapA (.member recv n)))) recv = res1 at ih1
        obtain ⟨r1, s1⟩ := res1
        cases r1 with
        | error e =>
          simp only
          have hv : specA c s.st recv = .error e := ih1.val.symm
          exact ⟨by simp only [specA, hv], ih1.same, ih1.coh⟩
        | ok rv =>
          simp only
          have hv1 : specA c s.st recv = .ok rv := ih1.val.symm
          apply finishA_sound hi (.member recv n) hval
          have hst1 : s1.st = s.st := ih1.same.st
          exact ⟨by simp only [specA, hv1, hst1], ih1.same, ih1.coh⟩
    | .sel recv idx, s, hpure, hval, hc => by
      have hpr : pureA recv = true := by simp [pureA] at hpure; exact hpure.1
      have hpi : pureE idx = true := by simp [pureA] at hpure; exact hpure.2
      have hvr : validA recv = true := by simp [validA] at hval; exact hval.1
      have hvi : validE idx = true := by simp [validA] at hval; exact hval.2
      simp only [evalA]
      have ih1 := sound_push (evalA_sound hp hi recv (s.push (.evalA (snapA (.sel recv idx)))) hpr hvr (coh_push _ hc))
      simp only [push_st] at ih1
      generalize hres1 : evalA c (s.push (.evalA (snapA (.sel recv idx)))) recv = res1 at ih1
      obtain ⟨r1, s1⟩ := res1
      cases r1 with
      | error e =>
        simp only
        have hv : specA c s.st recv = .error e := ih1.val.symm
        exact ⟨by simp only [specA, hv], ih1.same, ih1.coh⟩
      | ok rv =>
        simp only
        have hv1 : specA c s.st recv = .ok rv := ih1.val.symm
        have ih2 := evalE_sound hp hi idx s1 hpi hvi ih1.coh
        rw [ih1.same.st] at ih2
        generalize hres2 : evalE c s1 idx = res2 at ih2
        obtain ⟨r2, s2⟩ := res2
        have hsame2 : Same s s2 := ih1.same.trans ih2.same
        cases r2 with
        | error e =>
          simp only
          have hv : specE c s.st idx = .error e := ih2.val.symm
          exact ⟨by simp only [specA, hv1, hv], hsame2, ih2.coh⟩
        | ok iv =>
          simp only
          have hv2 : specE c s.st idx = .ok iv := ih2.val.symm
          exact ⟨by simp only [specA, hv1, hv2, hsame2.st], hsame2, ih2.coh⟩

  theorem evalV_sound (hp : MethodsPure c) (hi : SnapInj) :
      ∀ (x : Var) (s : EState), pureV x = true → validV x = true → Coh c s →
        Sound c s (evalV c s x) (specV c s.st x)
    | .root n, s, _, _, hc => by
      simp only [evalV, specV]
      exact ⟨rfl, Same.rfl' s, hc⟩
    | .field v n, s, hpure, hval, hc => by
      have hpv : pureV v = true := by simpa [pureV] using hpure
      have hvv : validV v = true := by simp [validV] at hval; exact hval.1
      simp only [evalV]
      have ih1 := evalV_sound hp hi v s hpv hvv hc
      generalize hres1 : evalV c s v = res1 at ih1
      obtain ⟨r1, s1⟩ := res1
      cases r1 with
      | error e =>
        simp only
        have hv : specV c s.st v = .error e := ih1.val.symm
        exact ⟨by simp only [specV, hv], ih1.same, ih1.coh⟩
      | ok pv =>
        simp only
        have hv1 : specV c s.st v = .ok pv := ih1.val.symm
        have hst1 : s1.st = s.st := ih1.same.st
        exact ⟨by simp only [specV, hv1, hst1], ih1.same, ih1.coh⟩
    | .index v e, s, hpure, hval, hc => by
      have hpv : pureV v = true := by simp [pureV] at hpure; exact hpure.1
      have hpe : pureE e = true := by simp [pureV] at hpure; exact hpure.2
      have hvv : validV v = true := by simp [validV] at hval; exact hval.1
      have hve : validE e = true := by simp [validV] at hval; exact hval.2
      simp only [evalV]
      have ih1 := evalV_sound hp hi v s hpv hvv hc
      generalize hres1 : evalV c s v = res1 at ih1
      obtain ⟨r1, s1⟩ := res1
      cases r1 with
      | error e' =>
        simp only
        have hv : specV c s.st v = .error e' := ih1.val.symm
        exact ⟨by simp only [specV, hv], ih1.same, ih1.coh⟩
      | ok pv =>
        simp only
        have hv1 : specV c s.st v = .ok pv := ih1.val.symm
        have ih2 := evalE_sound hp hi e s1 hpe hve ih1.coh
        rw [ih1.same.st] at ih2
        generalize hres2 : evalE c s1 e = res2 at ih2
        obtain ⟨r2, s2⟩ := res2
        have hsame2 : Same s s2 := ih1.same.trans ih2.same
        cases r2 with
        | error e' =>
          simp only
          have hv : specE c s.st e = .error e' := ih2.val.symm
          exact ⟨by simp only [specV, hv1, hv], hsame2, ih2.coh⟩
        | ok iv =>
          simp only
          have hv2 : specE c s.st e = .ok iv := ih2.val.symm
          exact ⟨by simp only [specV, hv1, hv2, hsame2.st], hsame2, ih2.coh⟩

  theorem evalArgs_sound (hp : MethodsPure c) (hi : SnapInj) :
      ∀ (x : Args) (s : EState), pureArgs x = true → validArgs x = true → Coh c s →
        SoundL c s (evalArgs c s x) (specArgs c s.st x)
    | .nil, s, _, _, hc => by
      simp only [evalArgs, specArgs]
      exact ⟨rfl, Same.rfl' s, hc⟩
    | .cons e rest, s, hpure, hval, hc => by
      have hpe : pureE e = true := by simp [pureArgs] at hpure; exact hpure.1
      have hpr : pureArgs rest = true := by simp [pureArgs] at hpure; exact hpure.2
      have hve : validE e = true := by simp [validArgs] at hval; exact hval.1
      have hvr : validArgs rest = true := by simp [validArgs] at hval; exact hval.2
      simp only [evalArgs]
      have ih1 := evalE_sound hp hi e s hpe hve hc
      generalize hres1 : evalE c s e = res1 at ih1
      obtain ⟨r1, s1⟩ := res1
      cases r1 with
      | error e' =>
        simp only
        have hv : specE c s.st e = .error e' := ih1.val.symm
        exact ⟨by simp only [specArgs, hv], ih1.same, ih1.coh⟩
      | ok v =>
        simp only
        have hv1 : specE c s.st e = .ok v := ih1.val.symm
        have ih2 := evalArgs_sound hp hi rest s1 hpr hvr ih1.coh
        rw [ih1.same.st] at ih2
        generalize hres2 : evalArgs c s1 rest = res2 at ih2
        obtain ⟨r2, s2⟩ := res2
        have hsame2 : Same s s2 := ih1.same.trans ih2.same
        cases r2 with
        | error e' =>
          simp only
          have hv : specArgs c s.st rest = .error e' := ih2.val.symm
          exact ⟨by simp only [specArgs, hv1, hv], hsame2, ih2.coh⟩
        | ok vs =>
          simp only
          have hv2 : specArgs c s.st rest = .ok vs := ih2.val.symm
          exact ⟨by simp only [specArgs, hv1, hv2], hsame2, ih2.coh⟩
end

end Grule

/-
  R10, the binary-operator / parenthesis core: the parser model groups by `prec`, left associative.

  For every expression tree `e` whose parentheses are exactly its `paren` nodes and that is *well grouped*
  (`WG`: the left operand of an operator binds at least as tight, the right operand strictly tighter — which is
  what "precedence, left associative" means for a tree), the parser reads the flat token sequence of `e` back as
  `e`, at any starting strength `p ≤ level e`, with anything behind it that cannot continue the expression.

  Atoms are abstract here: `fa a` is any token sequence the atom parser reads back as `a` (`AtomOK`); the statement
  is about how operators and parentheses group. Fuel is tracked exactly (no monotonicity lemma is needed).
-/
import GruleModel.Syntax.Parser
namespace Grule.ParseGroup
open Grule Grule.Syntax

/-- the token of an operator -/
def opKind : BinOp → TK
  | .mul => .mul | .div => .div | .mod => .mod | .add => .plus | .sub => .minus | .band => .bitand | .bor => .bitor
  | .gt => .gt | .lt => .lt | .gte => .gte | .lte => .lte | .eq => .eqeq | .neq => .neq | .and => .and | .or => .or

theorem binOpOf_opKind (op : BinOp) : binOpOf (opKind op) = some op := by cases op <;> rfl

def opTok (op : BinOp) (txt : List Char) : Token := ⟨opKind op, txt⟩
/-- the text of the rules with a fixed text (keywords in lower case) -/
def fixedText : TK → List Char
  | .comma => [','] | .plus => ['+'] | .minus => ['-'] | .div => ['/'] | .mul => ['*'] | .mod => ['%'] | .dot => ['.']
  | .semi => [';'] | .lbrace => ['{'] | .rbrace => ['}'] | .lparen => ['('] | .rparen => [')'] | .lsq => ['['] | .rsq => [']']
  | .kRule => ['r','u','l','e'] | .kWhen => ['w','h','e','n'] | .kThen => ['t','h','e','n'] | .and => ['&','&'] | .or => ['|','|']
  | .kTrue => ['t','r','u','e'] | .kFalse => ['f','a','l','s','e'] | .kNil => ['n','i','l'] | .bang => ['!']
  | .kSalience => ['s','a','l','i','e','n','c','e'] | .eqeq => ['=','='] | .assign => ['='] | .plusAs => ['+','=']
  | .minusAs => ['-','='] | .divAs => ['/','='] | .mulAs => ['*','='] | .gt => ['>'] | .lt => ['<'] | .gte => ['>','=']
  | .lte => ['<','='] | .neq => ['!','='] | .bitand => ['&'] | .bitor => ['|']
  | _ => []

def tk (k : TK) : Token := ⟨k, fixedText k⟩

/-- binding strength of a tree's top node: atoms and parenthesised expressions bind tightest -/
def level : Expr → Nat
  | .bin op _ _ => prec op
  | _ => 6

theorem prec_le_five (op : BinOp) : prec op ≤ 5 := by cases op <;> decide
theorem prec_pos (op : BinOp) : 1 ≤ prec op := by cases op <;> decide

/-- well grouped: what the published table and left associativity allow without parentheses -/
def WG : Expr → Prop
  | .bin op l r => WG l ∧ WG r ∧ prec op ≤ level l ∧ prec op < level r
  | .paren _ e => WG e
  | .atom _ => True

/-- operators on the left spine -/
def ls : Expr → Nat
  | .bin _ l _ => ls l + 1
  | _ => 0

variable (d : Dec) (fa : Atom → List Token) (na : Atom → Nat) (ot : BinOp → List Char)

/-- flat token sequence: exactly the parentheses that are `paren` nodes -/
def flatE : Expr → List Token
  | .bin op l r => flatE l ++ (opTok op (ot op) :: flatE r)
  | .paren neg e => (if neg then [tk .bang] else []) ++ (tk .lparen :: (flatE e ++ [tk .rparen]))
  | .atom a => fa a

/-- fuel that suffices -/
def need : Expr → Nat
  | .bin _ l r => need l + need r + 4
  | .paren _ e => need e + 4
  | .atom a => na a + 3

theorem ls_lt_need : (e : Expr) → ls e + 2 ≤ need na e
  | .bin op l r => by have ihl := ls_lt_need l; simp only [ls, need]; omega
  | .paren neg e => by simp only [ls, need]; omega
  | .atom a => by simp only [ls, need]; omega

/-- what may follow an atom: nothing that extends it -/
def stopAtom : List Token → Bool
  | [] => true
  | t :: _ => t.kind != .dot && t.kind != .lsq && t.kind != .lparen

def headOp : List Token → Option BinOp
  | [] => none
  | t :: _ => binOpOf t.kind

/-- what may follow the tokens of `e` without being absorbed into `e` -/
def RightOK (e : Expr) (ts : List Token) : Prop :=
  stopAtom ts = true ∧ ∀ op, headOp ts = some op → prec op ≤ level e

/-- the atoms at the leaves of the operator tree are read back by the atom parser, and do not start like a
    parenthesised expression -/
def AtomsOK : Expr → Prop
  | .bin _ l r => AtomsOK l ∧ AtomsOK r
  | .paren _ e => AtomsOK e
  | .atom a =>
    (∀ g ts, na a ≤ g → stopAtom ts = true → parseAtom d g (fa a ++ ts) = .ok (a, ts)) ∧
    (∃ t rest, fa a = t :: rest ∧ t.kind ≠ .lparen ∧ (t.kind = .bang → ∃ t2 r2, rest = t2 :: r2 ∧ t2.kind ≠ .lparen))

-- unfolding lemmas ---------------------------------------------------------------------------------------------

theorem parseExpr_of_primary (f p : Nat) (ts rest : List Token) (lhs : Expr)
    (h : parsePrimary d f ts = .ok (lhs, rest)) : parseExpr d (f + 1) p ts = climb d f p lhs rest := by
  simp [parseExpr, h, bind, Except.bind]

theorem climb_step (f p : Nat) (lhs rhs : Expr) (t : Token) (rest rest' : List Token) (op : BinOp)
    (hop : binOpOf t.kind = some op) (hp : p ≤ prec op) (h : parseExpr d f (prec op + 1) rest = .ok (rhs, rest')) :
    climb d (f + 1) p lhs (t :: rest) = climb d f p (.bin op lhs rhs) rest' := by
  simp [climb, hop, hp, h, bind, Except.bind]

theorem climb_stop (f p : Nat) (lhs : Expr) (ts : List Token)
    (h : ∀ op, headOp ts = some op → prec op < p) : climb d (f + 1) p lhs ts = .ok (lhs, ts) := by
  cases ts with
  | nil => simp [climb]
  | cons t rest =>
    simp only [climb]
    cases hop : binOpOf t.kind with
    | none => rfl
    | some op =>
      have := h op (by simp [headOp, hop])
      have hn : ¬ prec op ≥ p := by omega
      simp [hn]

theorem primary_atom (f : Nat) (ts r : List Token) (a : Atom) (t : Token) (rest : List Token) (hts : ts = t :: rest)
    (h1 : t.kind ≠ .lparen) (h2 : t.kind = .bang → ∃ t2 r2, rest = t2 :: r2 ∧ t2.kind ≠ .lparen)
    (h : parseAtom d f ts = .ok (a, r)) : parsePrimary d (f + 1) ts = .ok (.atom a, r) := by
  subst hts
  have e1 : (t.kind == TK.lparen) = false := by simpa using h1
  by_cases hb : t.kind = .bang
  · obtain ⟨t2, r2, hr, h3⟩ := h2 hb
    subst hr
    have e2 : (t2.kind == TK.lparen) = false := by simpa using h3
    simp [parsePrimary, e1, hb, e2, h, bind, Except.bind]
  · have e2 : (t.kind == TK.bang) = false := by simpa using hb
    simp [parsePrimary, e1, e2, h, bind, Except.bind]

theorem primary_paren (f : Nat) (inner rest' : List Token) (e : Expr) (lp rp : Token) (hl : lp.kind = .lparen) (hr : rp.kind = .rparen)
    (h : parseExpr d f 0 inner = .ok (e, rp :: rest')) :
    parsePrimary d (f + 1) (lp :: inner) = .ok (.paren false e, rest') := by
  simp [parsePrimary, hl, h, hr, bind, Except.bind]

theorem primary_neg_paren (f : Nat) (inner rest' : List Token) (e : Expr) (bg lp rp : Token) (hb : bg.kind = .bang) (hl : lp.kind = .lparen)
    (hr : rp.kind = .rparen) (h : parseExpr d f 0 inner = .ok (e, rp :: rest')) :
    parsePrimary d (f + 1) (bg :: lp :: inner) = .ok (.paren true e, rest') := by
  simp [parsePrimary, hb, hl, h, hr, bind, Except.bind]

-- the main lemma ------------------------------------------------------------------------------------------------

theorem level_le_six (e : Expr) : level e ≤ 6 := by
  cases e with
  | bin op l r => have := prec_le_five op; simp only [level]; omega
  | paren neg e => simp [level]
  | atom a => simp [level]

/-- parsing the tokens of `e` and going on = climbing on from `e` -/
theorem parse_flat : (e : Expr) → WG e → AtomsOK d fa na e → ∀ (p f : Nat) (ts : List Token), p ≤ level e → need na e ≤ f → RightOK e ts →
    parseExpr d (f + 1) p (flatE fa ot e ++ ts) = climb d (f - ls e) p e ts
  | .atom a => by
    intro _ hat p f ts _ hf hr
    obtain ⟨hparse, t, rest, hfa, h1, h2⟩ := hat
    simp only [need] at hf
    obtain ⟨f', rfl⟩ : ∃ f', f = f' + 1 := ⟨f - 1, by omega⟩
    have hp := hparse f' ts (by omega) hr.1
    have hprim := primary_atom d f' (fa a ++ ts) ts a t (rest ++ ts) (by rw [hfa]; rfl) h1
      (by intro hb; obtain ⟨t2, r2, hr2, h3⟩ := h2 hb; exact ⟨t2, r2 ++ ts, by rw [hr2]; rfl, h3⟩) hp
    simp only [flatE, ls, Nat.sub_zero]
    exact parseExpr_of_primary d (f' + 1) p (fa a ++ ts) ts (.atom a) hprim
  | .paren neg e => by
    have ih := parse_flat e
    intro hwg hat p f ts _ hf hr
    simp only [need] at hf
    have hls := ls_lt_need na e
    obtain ⟨f', rfl⟩ : ∃ f', f = f' + 2 := ⟨f - 2, by omega⟩
    -- the inner expression, up to the closing bracket
    have hinner : parseExpr d (f' + 1) 0 (flatE fa ot e ++ (tk .rparen :: ts)) = .ok (e, tk .rparen :: ts) := by
      rw [ih hwg hat 0 f' (tk .rparen :: ts) (Nat.zero_le _) (by omega) ⟨by simp [stopAtom, tk], by intro op h; simp [headOp, tk, binOpOf] at h⟩]
      obtain ⟨g, hg⟩ : ∃ g, f' - ls e = g + 1 := ⟨f' - ls e - 1, by omega⟩
      rw [hg]
      exact climb_stop d g 0 e _ (by intro op h; simp [headOp, tk, binOpOf] at h)
    simp only [ls, Nat.sub_zero]
    cases neg with
    | false =>
      have hprim := primary_paren d (f' + 1) (flatE fa ot e ++ (tk .rparen :: ts)) ts e (tk .lparen) (tk .rparen) rfl rfl hinner
      have : flatE fa ot (.paren false e) ++ ts = tk .lparen :: (flatE fa ot e ++ (tk .rparen :: ts)) := by
        simp [flatE]
      rw [this]
      exact parseExpr_of_primary d (f' + 2) p _ ts _ hprim
    | true =>
      have hprim := primary_neg_paren d (f' + 1) (flatE fa ot e ++ (tk .rparen :: ts)) ts e (tk .bang) (tk .lparen) (tk .rparen) rfl rfl rfl hinner
      have : flatE fa ot (.paren true e) ++ ts = tk .bang :: tk .lparen :: (flatE fa ot e ++ (tk .rparen :: ts)) := by
        simp [flatE]
      rw [this]
      exact parseExpr_of_primary d (f' + 2) p _ ts _ hprim
  | .bin op l r => by
    have ihl := parse_flat l
    have ihr := parse_flat r
    intro hwg hat p f ts hp hf hr
    obtain ⟨hwl, hwr, hll, hlr⟩ := hwg
    obtain ⟨hal, har⟩ := hat
    simp only [need] at hf
    simp only [level] at hp
    have hlsl := ls_lt_need na l
    have hlsr := ls_lt_need na r
    -- the left operand, then the operator
    have hleft := ihl hwl hal p f (opTok op (ot op) :: (flatE fa ot r ++ ts)) (by omega) (by omega)
      ⟨by simp [stopAtom, opTok]; cases op <;> simp [opKind], by
        intro op' h
        simp only [headOp, opTok, binOpOf_opKind, Option.some.injEq] at h
        subst h; exact hll⟩
    have hflat : flatE fa ot (.bin op l r) ++ ts = flatE fa ot l ++ (opTok op (ot op) :: (flatE fa ot r ++ ts)) := by
      simp [flatE]
    rw [hflat, hleft]
    obtain ⟨g, hg⟩ : ∃ g, f - ls l = g + 2 := ⟨f - ls l - 2, by omega⟩
    -- the right operand at strength prec op + 1
    have hright : parseExpr d (g + 1) (prec op + 1) (flatE fa ot r ++ ts) = .ok (r, ts) := by
      rw [ihr hwr har (prec op + 1) g ts (by omega) (by omega) ⟨hr.1, by
        intro op' h; have := hr.2 op' h; simp only [level] at this; omega⟩]
      obtain ⟨g', hg'⟩ : ∃ g', g - ls r = g' + 1 := ⟨g - ls r - 1, by omega⟩
      rw [hg']
      exact climb_stop d g' (prec op + 1) r ts (by
        intro op' h; have := hr.2 op' h; simp only [level] at this; omega)
    rw [hg]
    rw [climb_step d (g + 1) p l r (opTok op (ot op)) (flatE fa ot r ++ ts) ts op (by simp [opTok, binOpOf_opKind]) hp hright]
    have : f - ls (.bin op l r) = g + 1 := by simp only [ls]; omega
    rw [this]

/-- **the parser groups by `prec`, left associative**: a well-grouped tree is read back from its flat tokens, whatever
    follows, as long as what follows cannot continue an expression of strength `p` -/
theorem parse_roundtrip (e : Expr) (hwg : WG e) (hat : AtomsOK d fa na e) (p f : Nat) (ts : List Token)
    (hp : p ≤ level e) (hf : need na e ≤ f) (hs : stopAtom ts = true) (hfollow : ∀ op, headOp ts = some op → prec op < p) :
    parseExpr d (f + 1) p (flatE fa ot e ++ ts) = .ok (e, ts) := by
  rw [parse_flat d fa na ot e hwg hat p f ts hp hf ⟨hs, by intro op h; have := hfollow op h; omega⟩]
  have := ls_lt_need na e
  obtain ⟨g, hg⟩ : ∃ g, f - ls e = g + 1 := ⟨f - ls e - 1, by omega⟩
  rw [hg]
  exact climb_stop d g p e ts hfollow

/-- left associativity and precedence, spelled out on three atoms: `a ∘ b ∘' c` is `(a ∘ b) ∘' c` when `∘'` does not
    bind tighter than `∘`, and `a ∘ (b ∘' c)` when it does -/
theorem WG_left (o1 o2 : BinOp) (a b c : Atom) (h : prec o2 ≤ prec o1) :
    WG (.bin o2 (.bin o1 (.atom a) (.atom b)) (.atom c)) := by
  have h1 := prec_le_five o1
  have h2 := prec_le_five o2
  simp only [WG, level, and_true, true_and]
  omega

theorem WG_right (o1 o2 : BinOp) (a b c : Atom) (h : prec o1 < prec o2) :
    WG (.bin o1 (.atom a) (.bin o2 (.atom b) (.atom c))) := by
  have h1 := prec_le_five o1
  have h2 := prec_le_five o2
  simp only [WG, level, and_true, true_and]
  omega

/-- the two trees have the same flat tokens: which one the parser returns is decided by `prec` alone -/
theorem same_tokens (o1 o2 : BinOp) (a b c : Atom) :
    flatE fa ot (.bin o2 (.bin o1 (.atom a) (.atom b)) (.atom c)) = flatE fa ot (.bin o1 (.atom a) (.bin o2 (.atom b) (.atom c))) := by
  simp [flatE]

#print axioms parse_flat
#print axioms parse_roundtrip

end Grule.ParseGroup

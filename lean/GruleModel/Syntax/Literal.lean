/-
  Literal decoding as the listener does it (antlr/GruleParserV3Listener.go, antlr/ParserCommon.go):
  `strconv.ParseInt(text, 0, 64)`, `strconv.ParseFloat(text, 64)`, `unquoteString`, `strings.ToLower`.
  All arithmetic is exact (`Nat`/`Int`); floats are produced as IEEE-754 binary64 bit patterns with
  round-to-nearest-even, which is what `ParseFloat` guarantees.
-/
import GruleModel.FloatFmt
import GruleModel.Syntax.Lexer
namespace Grule.Syntax

def hexVal (c : Char) : Nat :=
  if inR c 0x30 0x39 then c.toNat - 0x30
  else if inR c 0x61 0x66 then c.toNat - 0x61 + 10
  else if inR c 0x41 0x46 then c.toNat - 0x41 + 10
  else 0

/-- value of a digit string in the given base (digits are assumed valid: the lexer guarantees it) -/
def digitsVal (base : Nat) (cs : List Char) : Nat := cs.foldl (fun acc c => acc * base + hexVal c) 0

/-- `ParseInt(text, 0, 64)` on the texts the lexer can produce: `-`? then `0x…`, `0…` (octal) or decimal;
    `none` is `strconv.ErrRange` -/
def parseIntLit (text : List Char) : Option Int :=
  let (negv, body) := match text with
    | '-' :: r => (true, r)
    | r => (false, r)
  let mag : Nat := match body with
    | '0' :: x :: r => if lowerC x == 'x' then digitsVal 16 r else digitsVal 8 (x :: r)
    | r => digitsVal 10 r
  if negv then (if mag ≤ 2^63 then some (-(mag : Int)) else none)
  else (if mag < 2^63 then some (mag : Int) else none)

-- floats -------------------------------------------------------------------------------------------

/-- the binary64 nearest to `num / den` (`den > 0`), ties to even; `none` when it rounds beyond the
    largest finite double (`strconv.ErrRange`) -/
def ratToF64 (num den : Nat) : Option UInt64 :=
  if num == 0 then some 0 else
  -- e with 2^e ≤ num/den < 2^(e+1)
  let e0 : Int := (num.log2 : Int) - (den.log2 : Int)
  let ge (e : Int) : Bool := if e ≥ 0 then den * 2^e.toNat ≤ num else den ≤ num * 2^(-e).toNat
  let e : Int := if ge e0 then (if ge (e0 + 1) then e0 + 1 else e0) else e0 - 1
  if e < -1022 then
    -- subnormal (or the smallest normal after rounding): units of 2^-1074
    some (UInt64.ofNat (roundHalfEven (num * 2^1074) den))
  else
    let sh : Int := 52 - e
    let q := if sh ≥ 0 then roundHalfEven (num * 2^sh.toNat) den else roundHalfEven num (den * 2^(-sh).toNat)
    let (e, q) := if q == 2^53 then (e + 1, 2^52) else (e, q)
    if e > 1023 then none else some (UInt64.ofNat ((e + 1023).toNat * 2^52 + (q - 2^52)))

def withSign (negv : Bool) (b : UInt64) : UInt64 := if negv then UInt64.ofNat (2^63 + b.toNat) else b

/-- split `[+-]?digits` -/
def signedNat (cs : List Char) : Int :=
  match cs with
  | '-' :: r => -(digitsVal 10 r : Int)
  | '+' :: r => (digitsVal 10 r : Int)
  | r => (digitsVal 10 r : Int)

/-- `ParseFloat(text, 64)` on the texts the lexer can produce -/
def parseFloatLit (text : List Char) : Option UInt64 :=
  let (negv, body) := match text with
    | '-' :: r => (true, r)
    | r => (false, r)
  let isHexF := match body with
    | '0' :: x :: _ => lowerC x == 'x'
    | _ => false
  if isHexF then
    let r := body.drop 2
    let ip := r.takeWhile isHex
    let r1 := r.dropWhile isHex
    let (fp, r2) := match r1 with
      | '.' :: r' => (r'.takeWhile isHex, r'.dropWhile isHex)
      | _ => ([], r1)
    let ex : Int := signedNat (r2.drop 1)
    let mant := digitsVal 16 (ip ++ fp)
    let e2 : Int := ex - 4 * fp.length
    if mant == 0 then some (withSign negv 0)
    else if e2 > 1100 then none
    else if e2 < -1200 - 4 * (ip.length + fp.length : Nat) then some (withSign negv 0)
    else (if e2 ≥ 0 then ratToF64 (mant * 2^e2.toNat) 1 else ratToF64 mant (2^(-e2).toNat)).map (withSign negv)
  else
    let ip := body.takeWhile isDec
    let r1 := body.dropWhile isDec
    let (fp, r2) := match r1 with
      | '.' :: r' => (r'.takeWhile isDec, r'.dropWhile isDec)
      | _ => ([], r1)
    let ex : Int := match r2 with
      | _ :: r' => signedNat r'
      | [] => 0
    let mant := digitsVal 10 (ip ++ fp)
    let e10 : Int := ex - fp.length
    if mant == 0 then some (withSign negv 0)
    else if e10 > 400 then none
    else if e10 < -400 - (ip.length + fp.length : Nat) then some (withSign negv 0)
    else (if e10 ≥ 0 then ratToF64 (mant * 10^e10.toNat) 1 else ratToF64 mant (10^(-e10).toNat)).map (withSign negv)

-- strings ------------------------------------------------------------------------------------------

inductive UQ
  | ok (s : List Char)
  | syntaxErr
  | unmodelled          -- a byte escape ≥ 0x80: the Go string is not a sequence of code points
  deriving Repr, DecidableEq

def allHex (cs : List Char) : Bool := cs.all isHex
def allOct (cs : List Char) : Bool := cs.all isOct

/-- the loop of `unquoteString` over `strconv.UnquoteChar(s, quote)` -/
def unquoteLoop (q : Char) : Nat → List Char → List Char → UQ
  | 0, _, _ => .syntaxErr
  | _, [], acc => .ok acc.reverse
  | fuel + 1, c :: rest, acc =>
    if c == q then .syntaxErr
    else if c != '\\' then unquoteLoop q fuel rest (c :: acc)
    else match rest with
      | [] => .syntaxErr
      | e :: r =>
        let simple (v : Char) := unquoteLoop q fuel r (v :: acc)
        if e == 'a' then simple (Char.ofNat 7) else if e == 'b' then simple (Char.ofNat 8)
        else if e == 'f' then simple (Char.ofNat 12) else if e == 'n' then simple '\n'
        else if e == 'r' then simple '\r' else if e == 't' then simple '\t'
        else if e == 'v' then simple (Char.ofNat 11) else if e == '\\' then simple '\\'
        else if e == '\'' || e == '"' then (if e == q then simple e else .syntaxErr)
        else if e == 'x' || e == 'u' || e == 'U' then
          let n := if e == 'x' then 2 else if e == 'u' then 4 else 8
          let ds := r.take n
          if ds.length < n || !allHex ds then .syntaxErr else
          let v := digitsVal 16 ds
          if e == 'x' then (if v < 0x80 then unquoteLoop q fuel (r.drop n) (Char.ofNat v :: acc) else .unmodelled)
          else if v > 0x10FFFF || (0xD800 ≤ v && v < 0xE000) then .syntaxErr
          else unquoteLoop q fuel (r.drop n) (Char.ofNat v :: acc)
        else if isOct e then
          let ds := r.take 2
          if ds.length < 2 || !allOct ds then .syntaxErr else
          let v := digitsVal 8 (e :: ds)
          if v > 255 then .syntaxErr
          else if v < 0x80 then unquoteLoop q fuel (r.drop 2) (Char.ofNat v :: acc) else .unmodelled
        else .syntaxErr

/-- `unquoteString` on a quoted-string token -/
def unquote (text : List Char) : UQ :=
  match text with
  | q :: rest =>
    if rest.isEmpty then .syntaxErr else
    let inner := rest.dropLast
    if rest.getLast? != some q then .syntaxErr
    else if q != '"' && q != '\'' then .syntaxErr
    else if !inner.contains '\\' && !inner.contains q then .ok inner
    else unquoteLoop q (inner.length + 1) inner []
  | [] => .syntaxErr

end Grule.Syntax

/-
  builder/RuleBuilder.go, first half: text → token stream → rules, with every reason the builder has to
  reject the text before it looks at the knowledge base:
  lexer errors, parser errors, literal errors (integer/float range, string escapes), salience range.
-/
import GruleModel.Syntax.Parser
namespace Grule.Syntax
open Grule

inductive Verdict
  | accepted                -- lexes, parses, literals valid: the rules go to the knowledge base
  | lexical                 -- the lexer reported an error
  | syntactic               -- the token stream is no sentence of the grammar
  | literal                 -- an integer/float out of range, a malformed string escape
  | salience                -- a salience outside int32
  | unmodelled              -- a string with a byte escape ≥ 0x80 (the model's strings are code points)
  | fuel                    -- never (the fuel is sufficient); kept distinct so that it would show
  deriving Repr, DecidableEq

structure FrontOut where
  verdict : Verdict
  rules : List Rule := []
  lexErrs : Nat := 0
  grammatical : Bool := false
  deriving Repr

def salienceOk (r : Rule) : Bool := -(2^31 : Int) ≤ r.salience && r.salience ≤ 2^31 - 1

def front (text : List Char) : FrontOut :=
  let lx := lex text
  let gram := (parseDoc anyDec lx.toks).2
  let (rules, e) := parseDoc realDec lx.toks
  let grammatical := gram.isNone
  let verdict : Verdict :=
    match gram with
    | some .fuel => .fuel
    | some _ => if lx.errs > 0 then .lexical else .syntactic
    | none =>
      if lx.errs > 0 then .lexical else
      match e with
      | some .unmodelled => .unmodelled
      | some .fuel => .fuel
      | some _ => .literal
      | none => if rules.all salienceOk then .accepted else .salience
  { verdict, rules := if verdict == .accepted then rules else [], lexErrs := lx.errs, grammatical }

/-- does an operand end with this token? (then a following `-` is the binary operator, otherwise the sign of a literal) -/
def endsOperand : TK → Bool
  | .name | .dq | .sq | .decFloat | .hexFloat | .dec | .hex | .oct | .kTrue | .kFalse | .kNil | .rparen | .rsq => true
  | _ => false

/-- the constants of a token stream with their source text (`GetText()` of the literal, sign included) -/
def constTexts (toks : List Token) : List (Const × String) :=
  let rec go (pp p : Option Token) : List Token → List (Const × String)
    | [] => []
    | t :: rest =>
      let signed : Bool := match p with
        | some m => m.kind == .minus && !(match pp with | some q => endsOperand q.kind | none => false)
        | none => false
      let txt : List Char := if signed && isNumTok t.kind then '-' :: t.text else t.text
      let here : List (Const × String) :=
        match t.kind with
        | .dec | .hex | .oct => match parseIntLit txt with
          | some i => [(.int i, String.ofList txt)]
          | none => []
        | .decFloat | .hexFloat => match parseFloatLit txt with
          | some b => [(.float b, String.ofList txt)]
          | none => []
        | .dq | .sq => match unquote t.text with
          | .ok s => [(.str (String.ofList s), String.ofList t.text)]
          | _ => []
        | .kTrue => [(.bool true, String.ofList t.text)]
        | .kFalse => [(.bool false, String.ofList t.text)]
        | .kNil => [(.nil, String.ofList t.text)]
        | _ => []
      here ++ go p (some t) rest
  go none none toks

end Grule.Syntax

/-
  builder/RuleBuilder.go as a whole: text → front end → knowledge base.
  A text the front end rejects (lexer, parser, literal or salience error) adds no rule; the nodes the
  listener registered before the error stay in the working memory as unreachable garbage, which
  `WM.restrict` (Clone / MakeCatalog) never looks at — so the model leaves the working memory alone.
-/
import GruleModel.Library
import GruleModel.Syntax.Front
namespace Grule
open Grule.Syntax

/-- a table of (constant, source text) as a `LitText`: the first occurrence of a value decides, as in the working memory -/
def LitText.ofTable (tbl : List (Const × String)) : LitText :=
  fun c => (tbl.find? (·.1 == c)).map (·.2)

/-- source text of the literals of a text, by value (what `GetText()` yields for the constant's node) -/
def litTextOf (toks : List Token) : LitText := LitText.ofTable (constTexts toks)

/-- BuildRuleFromResource: the new knowledge base and the number of errors reported (0 = `nil`) -/
def KB.buildText (kb : KB) (text : List Char) : KB × Nat :=
  let fo := front text
  if fo.verdict == .accepted then
    let tbl := constTexts (lex text).toks        -- computed once, not per constant
    kb.build (LitText.ofTable tbl) fo.rules
  else (kb, 1)

end Grule

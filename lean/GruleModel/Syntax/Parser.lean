/-
  The parser section of antlr/grulev3.g4 as a recursive-descent recogniser that builds the AST the
  listener (antlr/GruleParserV3Listener.go) builds.

  `expression` is left-recursive in the grammar; ANTLR rewrites it into precedence climbing with the
  alternatives' order as precedence (first alternative binds tightest) and left associativity.
  `prec` below is that table, read off the grammar: `* / %` > `+ - & |` > comparisons > `&&` > `||`.

  `variable` is greedy (`a.b[c].d` is one variable; ANTLR resolves the ambiguity with `expressionAtom
  memberVariable` in favour of the lower alternative, i.e. staying inside `variable`); a `.name(`
  starts a method call on what was read so far.

  Literals are decoded while parsing, with the decoder passed in (`Dec`), so that "the token stream is a
  sentence of the grammar" can be asked separately from "and its literals are valid".
-/
import GruleModel.Ast
import GruleModel.Syntax.Literal
namespace Grule.Syntax
open Grule

inductive PErr
  | syntaxErr (at_ : Nat)      -- number of tokens left when the error was detected
  | literal (at_ : Nat)        -- a literal the listener rejects (range, escape)
  | unmodelled
  | fuel
  deriving Repr, DecidableEq


inductive LitKind | int | float | str
  deriving Repr, DecidableEq

/-- literal decoder: `none` = the listener reports an error -/
structure Dec where
  int : List Char → Except PErr Int
  float : List Char → Except PErr UInt64
  str : List Char → Except PErr String

def realDec : Dec where
  int t := match parseIntLit t with
    | some i => .ok i
    | none => .error (.literal 0)
  float t := match parseFloatLit t with
    | some b => .ok b
    | none => .error (.literal 0)
  str t := match unquote t with
    | .ok s => .ok (String.ofList s)
    | .syntaxErr => .error (.literal 0)
    | .unmodelled => .error .unmodelled

/-- accepts every literal: for asking whether the text is a sentence of the grammar -/
def anyDec : Dec where
  int _ := .ok 0
  float _ := .ok 0
  str _ := .ok ""

def binOpOf : TK → Option BinOp
  | .mul => some .mul | .div => some .div | .mod => some .mod
  | .plus => some .add | .minus => some .sub | .bitand => some .band | .bitor => some .bor
  | .gt => some .gt | .lt => some .lt | .gte => some .gte | .lte => some .lte | .eqeq => some .eq | .neq => some .neq
  | .and => some .and | .or => some .or
  | _ => none

/-- binding strength as the grammar's alternative order gives it -/
def prec : BinOp → Nat
  | .mul | .div | .mod => 5
  | .add | .sub | .band | .bor => 4
  | .gt | .lt | .gte | .lte | .eq | .neq => 3
  | .and => 2
  | .or => 1

def assignOpOf : TK → Option AssignOp
  | .assign => some .set | .plusAs => some .add | .minusAs => some .sub | .divAs => some .div | .mulAs => some .mul
  | _ => none

def err {α : Type} (ts : List Token) : Except PErr (α × List Token) := .error (.syntaxErr ts.length)

def relocate {α : Type} (ts : List Token) : Except PErr α → Except PErr α
  | .error (.literal _) => .error (.literal ts.length)
  | r => r

def isNumTok : TK → Bool
  | .dec | .hex | .oct | .decFloat | .hexFloat => true
  | _ => false

/-- `constant` at the head of the token list, if there is one -/
def parseConst (d : Dec) (ts : List Token) : Option (Except PErr (Const × List Token)) :=
  let num (sign : List Char) (t : Token) (rest : List Token) : Except PErr (Const × List Token) :=
    match t.kind with
    | .dec | .hex | .oct => do let i ← relocate ts (d.int (sign ++ t.text)); pure (.int i, rest)
    | _ => do let b ← relocate ts (d.float (sign ++ t.text)); pure (.float b, rest)
  match ts with
  | t :: rest =>
    match t.kind with
    | .dq | .sq => some (do let s ← relocate ts (d.str t.text); pure (.str s, rest))
    | .kTrue => some (.ok (.bool true, rest))
    | .kFalse => some (.ok (.bool false, rest))
    | .kNil => some (.ok (.nil, rest))
    | .minus =>
      match rest with
      | t2 :: rest2 => if isNumTok t2.kind then some (num ['-'] t2 rest2) else none
      | [] => none
    | k => if isNumTok k then some (num [] t rest) else none
  | [] => none

mutual
  /-- `expression` at binding strength ≥ `minPrec` -/
  def parseExpr (d : Dec) : Nat → Nat → List Token → Except PErr (Expr × List Token)
    | 0, _, _ => .error .fuel
    | fuel + 1, minPrec, ts => do
      let (lhs, rest) ← parsePrimary d fuel ts
      climb d fuel minPrec lhs rest

  /-- the loop of precedence climbing: extend `lhs` with operators of strength ≥ `minPrec` -/
  def climb (d : Dec) : Nat → Nat → Expr → List Token → Except PErr (Expr × List Token)
    | 0, _, _, _ => .error .fuel
    | fuel + 1, minPrec, lhs, ts =>
      match ts with
      | t :: rest =>
        match binOpOf t.kind with
        | some op =>
          if prec op ≥ minPrec then do
            let (rhs, rest') ← parseExpr d fuel (prec op + 1) rest
            climb d fuel minPrec (.bin op lhs rhs) rest'
          else .ok (lhs, ts)
        | none => .ok (lhs, ts)
      | [] => .ok (lhs, ts)

  /-- `NEGATION? ( expression )` or an `expressionAtom` -/
  def parsePrimary (d : Dec) : Nat → List Token → Except PErr (Expr × List Token)
    | 0, _ => .error .fuel
    | fuel + 1, ts =>
      let paren (neg : Bool) (inner : List Token) : Except PErr (Expr × List Token) := do
        let (e, rest) ← parseExpr d fuel 0 inner
        match rest with
        | t :: rest' => if t.kind == .rparen then .ok (.paren neg e, rest') else err rest
        | [] => err rest
      match ts with
      | t :: rest =>
        if t.kind == .lparen then paren false rest
        else if t.kind == .bang then
          match rest with
          | t2 :: rest2 => if t2.kind == .lparen then paren true rest2 else do
              let (a, r) ← parseAtom d fuel ts
              .ok (.atom a, r)
          | [] => err rest
        else do
          let (a, r) ← parseAtom d fuel ts
          .ok (.atom a, r)
      | [] => err ts

  /-- `expressionAtom` -/
  def parseAtom (d : Dec) : Nat → List Token → Except PErr (Atom × List Token)
    | 0, _ => .error .fuel
    | fuel + 1, ts =>
      match ts with
      | t :: rest =>
        if t.kind == .bang then do
          let (a, r) ← parseAtom d fuel rest
          .ok (.neg a, r)
        else match parseConst d ts with
          | some r => do
            let (c, rest') ← r
            suffixes d fuel (.const c) rest'
          | none =>
            if t.kind == .name then
              match rest with
              | t2 :: rest2 =>
                if t2.kind == .lparen then do
                  let (args, r) ← parseArgs d fuel rest2
                  suffixes d fuel (.call (String.ofList t.text) args) r
                else do
                  let (v, r) ← varTail d fuel (.root (String.ofList t.text)) rest
                  suffixes d fuel (.var v) r
              | [] => .ok (.var (.root (String.ofList t.text)), [])
            else err ts
      | [] => err ts

  /-- the loop of `variable`: `.name` (not followed by `(`) and `[ expression ]` -/
  def varTail (d : Dec) : Nat → Var → List Token → Except PErr (Var × List Token)
    | 0, _, _ => .error .fuel
    | fuel + 1, v, ts =>
      match ts with
      | t :: rest =>
        if t.kind == .dot then
          match rest with
          | n :: rest2 =>
            if n.kind == .name then
              match rest2 with
              | p :: _ => if p.kind == .lparen then .ok (v, ts) else varTail d fuel (.field v (String.ofList n.text)) rest2
              | [] => varTail d fuel (.field v (String.ofList n.text)) rest2
            else .ok (v, ts)
          | [] => .ok (v, ts)
        else if t.kind == .lsq then do
          let (e, r) ← parseExpr d fuel 0 rest
          match r with
          | c :: r' => if c.kind == .rsq then varTail d fuel (.index v e) r' else err r
          | [] => err r
        else .ok (v, ts)
      | [] => .ok (v, ts)

  /-- the loop of `expressionAtom`: method call, member, selector -/
  def suffixes (d : Dec) : Nat → Atom → List Token → Except PErr (Atom × List Token)
    | 0, _, _ => .error .fuel
    | fuel + 1, a, ts =>
      match ts with
      | t :: rest =>
        if t.kind == .dot then
          match rest with
          | n :: rest2 =>
            if n.kind == .name then
              match rest2 with
              | p :: rest3 =>
                if p.kind == .lparen then do
                  let (args, r) ← parseArgs d fuel rest3
                  suffixes d fuel (.meth a (String.ofList n.text) args) r
                else suffixes d fuel (.member a (String.ofList n.text)) rest2
              | [] => suffixes d fuel (.member a (String.ofList n.text)) rest2
            else err rest
          | [] => err rest
        else if t.kind == .lsq then do
          let (e, r) ← parseExpr d fuel 0 rest
          match r with
          | c :: r' => if c.kind == .rsq then suffixes d fuel (.sel a e) r' else err r
          | [] => err r
        else .ok (a, ts)
      | [] => .ok (a, ts)

  /-- `argumentList? )` — the opening bracket has been consumed -/
  def parseArgs (d : Dec) : Nat → List Token → Except PErr (Args × List Token)
    | 0, _ => .error .fuel
    | fuel + 1, ts =>
      match ts with
      | t :: rest =>
        if t.kind == .rparen then .ok (.nil, rest) else do
          let (e, r) ← parseExpr d fuel 0 ts
          let (more, r') ← moreArgs d fuel r
          .ok (.cons e more, r')
      | [] => err ts

  /-- `( ',' expression )* )` -/
  def moreArgs (d : Dec) : Nat → List Token → Except PErr (Args × List Token)
    | 0, _ => .error .fuel
    | fuel + 1, ts =>
      match ts with
      | t :: rest =>
        if t.kind == .rparen then .ok (.nil, rest)
        else if t.kind == .comma then do
          let (e, r) ← parseExpr d fuel 0 rest
          let (more, r') ← moreArgs d fuel r
          .ok (.cons e more, r')
        else err ts
      | [] => err ts
end

/-- `thenExpression SEMICOLON` -/
def parseAction (d : Dec) (fuel : Nat) (ts : List Token) : Except PErr (Action × List Token) := do
  let (a, r) ← parseAtom d fuel ts
  match r with
  | t :: rest =>
    match assignOpOf t.kind, a with
    | some op, .var v => do
      let (e, r2) ← parseExpr d fuel 0 rest
      match r2 with
      | s :: r3 => if s.kind == .semi then .ok (.assign op v e, r3) else err r2
      | [] => err r2
    | some _, _ => err r
    | none, _ => if t.kind == .semi then .ok (.stmt a, rest) else err r
  | [] => err r

/-- `(thenExpression SEMICOLON)+` up to the closing brace -/
def parseActions (d : Dec) (fuel : Nat) : Nat → List Token → Except PErr (List Action × List Token)
  | 0, _ => .error .fuel
  | n + 1, ts => do
    let (a, r) ← parseAction d fuel ts
    match r with
    | t :: _ =>
      if t.kind == .rbrace then .ok ([a], r) else do
        let (more, r') ← parseActions d fuel n r
        .ok (a :: more, r')
    | [] => err r

/-- rule description: the string the literal denotes; when it does not unquote, the raw characters between the quotes -/
def descOf (t : Token) : String :=
  match unquote t.text with
  | .ok s => String.ofList s
  | _ => String.ofList (t.text.drop 1).dropLast

/-- `RULE ruleName ruleDescription? salience? { whenScope thenScope }`; the salience value is kept as parsed
    (the int32 range check is the listener's) -/
def parseRule (d : Dec) (fuel : Nat) (ts : List Token) : Except PErr (Rule × List Token) :=
  match ts with
  | r :: n :: rest =>
    if r.kind != .kRule then err ts
    else if n.kind != .name then err (n :: rest)
    else
      let (desc, rest1) : String × List Token := match rest with
        | t :: rest' => if t.kind == .dq || t.kind == .sq then (descOf t, rest') else ("No Description", rest)
        | [] => ("No Description", rest)
      let salRes : Except PErr (Int × List Token) := match (rest1 : List Token) with
        | t :: rest' =>
          if t.kind == .kSalience then
            match parseConst d rest' with
            | some rc => do
              let (c, r2) ← rc
              match c with
              | .int i => .ok (i, r2)
              | _ => err rest'
            | none => err rest'
          else .ok (0, rest1)
        | [] => .ok (0, rest1)
      do
        let (sal, rest2) ← salRes
        match rest2 with
        | lb :: w :: rest3 =>
          if lb.kind != .lbrace then err rest2
          else if w.kind != .kWhen then err (w :: rest3)
          else do
            let (cond, rest4) ← parseExpr d fuel 0 rest3
            match rest4 with
            | th :: rest5 =>
              if th.kind != .kThen then err rest4 else do
                let (acts, rest6) ← parseActions d fuel fuel rest5
                match rest6 with
                | rb :: rest7 =>
                  if rb.kind == .rbrace then
                    .ok ({ name := String.ofList n.text, desc, salience := sal, cond, acts }, rest7)
                  else err rest6
                | [] => err rest6
            | [] => err rest4
        | _ => err rest2
  | _ => err ts

/-- `ruleEntry* EOF`: the rules read before the first error, and that error -/
def parseRules (d : Dec) (fuel : Nat) : Nat → List Token → List Rule → List Rule × Option PErr
  | 0, _, acc => (acc, some .fuel)
  | _, [], acc => (acc, none)
  | n + 1, ts, acc =>
    match parseRule d fuel ts with
    | .ok (r, rest) => parseRules d fuel n rest (acc ++ [r])
    | .error e => (acc, some e)

/-- recursion-depth budget: linear in the token count; `Proofs/ParseFuel.lean` shows it always suffices for a well-formed document -/
def fuelFor (ts : List Token) : Nat := 16 * ts.length + 16

def parseDoc (d : Dec) (ts : List Token) : List Rule × Option PErr :=
  parseRules d (fuelFor ts) (ts.length + 1) ts []

end Grule.Syntax

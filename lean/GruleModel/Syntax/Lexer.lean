/-
  The lexer section of antlr/grulev3.g4, rule by rule, in the grammar's order.

  ANTLR's lexer takes, at every position, the longest prefix that some token rule matches and, among
  the rules matching that longest prefix, the one written first. Every rule below is a function giving
  the length of the longest prefix of the input in that rule's language (`none`: no prefix matches);
  `COMMENT` is the one non-greedy rule (`.*?`: it ends at the first `*/`).

  Recovery, as the runtime does it (`BaseLexer.Recover`): a character no rule can start with is reported
  and skipped; an unterminated string runs to the end of the input, is reported, and nothing follows it.
-/
namespace Grule.Syntax

inductive TK
  | comma
  | plus | minus | div | mul | mod | dot | semi
  | lbrace | rbrace | lparen | rparen | lsq | rsq
  | kRule | kWhen | kThen | and | or | kTrue | kFalse | kNil | bang | kSalience
  | eqeq | assign | plusAs | minusAs | divAs | mulAs | gt | lt | gte | lte | neq
  | bitand | bitor
  | name | dq | sq
  | decFloat | decExp | hexFloat | hexExp | dec | hex | oct
  | space | comment | lineComment
  deriving DecidableEq, Repr, Inhabited

structure Token where
  kind : TK
  text : List Char
  deriving DecidableEq, Repr, Inhabited

-- character classes ---------------------------------------------------------------------------

def inR (c : Char) (lo hi : Nat) : Bool := lo ≤ c.toNat && c.toNat ≤ hi

/-- fragment ISC: identifier start (tied to the grammar file by `Properties/SyntaxTie`) -/
def iscRanges : List (Nat × Nat) := [(0x41, 0x5A), (0x61, 0x7A), (0xC0, 0xD6), (0xD8, 0xF6), (0xF8, 0x2FF), (0x370, 0x37D),
  (0x37F, 0x1FFF), (0x200C, 0x200D), (0x2070, 0x218F), (0x2C00, 0x2FEF), (0x3001, 0xD7FF), (0xF900, 0xFDCF), (0xFDF0, 0xFFFD)]

/-- what fragment IC adds to ISC besides `_` and U+00B7 -/
def icRanges : List (Nat × Nat) := [(0x30, 0x39), (0x300, 0x36F), (0x203F, 0x2040)]

def isISC (c : Char) : Bool := iscRanges.any (fun r => inR c r.1 r.2)

/-- fragment IC: identifier continuation -/
def isIC (c : Char) : Bool := isISC c || c == '_' || c.toNat == 0xB7 || icRanges.any (fun r => inR c r.1 r.2)

def isDec (c : Char) : Bool := inR c 0x30 0x39
def isOct (c : Char) : Bool := inR c 0x30 0x37
def isHex (c : Char) : Bool := inR c 0x30 0x39 || inR c 0x61 0x66 || inR c 0x41 0x46
def isWs (c : Char) : Bool := c == ' ' || c == '\t' || c == '\r' || c == '\n'

def lowerC (c : Char) : Char := if inR c 0x41 0x5A then Char.ofNat (c.toNat + 32) else c

/-- number of leading characters satisfying `p` -/
def span (p : Char → Bool) : List Char → Nat
  | [] => 0
  | c :: cs => if p c then span p cs + 1 else 0

theorem span_le (p : Char → Bool) (cs : List Char) : span p cs ≤ cs.length := by
  induction cs with
  | nil => simp [span]
  | cons c cs ih => simp only [span]; split <;> simp <;> omega

-- the rules -----------------------------------------------------------------------------------

/-- a fixed, case-sensitive literal -/
def lit (w : List Char) (cs : List Char) : Option Nat :=
  if w.isPrefixOf cs then some w.length else none

/-- a keyword spelled with the case-insensitive letter fragments -/
def kw (w : List Char) (cs : List Char) : Option Nat :=
  if w.isPrefixOf ((cs.take w.length).map lowerC) then some w.length else none

def mName (cs : List Char) : Option Nat :=
  match cs with
  | c :: rest => if isISC c then some (span isIC rest + 1) else none
  | [] => none

/-- body of a quoted string after the opening quote: `( '\\' . | q q | ~(q | '\\') )* q`.
    `pos` counts the characters consumed so far (opening quote included); `best` is the longest match seen. -/
def strBody (q : Char) : List Char → Nat → Option Nat → Option Nat
  | [], _, best => best
  | c :: rest, pos, best =>
    if c == '\\' then
      match rest with
      | [] => best
      | _ :: rest' => strBody q rest' (pos + 2) best
    else if c == q then
      match rest with
      | c' :: rest' => if c' == q then strBody q rest' (pos + 2) (some (pos + 1)) else some (pos + 1)
      | [] => some (pos + 1)
    else strBody q rest (pos + 1) best

def mStr (q : Char) (cs : List Char) : Option Nat :=
  match cs with
  | c :: rest => if c == q then strBody q rest 1 none else none
  | [] => none

/-- DEC_LIT : '0' | [1-9] DEC_DIGITS? — all lengths it can match are: 1 for '0'; 1..n for a nonzero start -/
def mDecLit (cs : List Char) : Option Nat :=
  match cs with
  | c :: rest => if c == '0' then some 1 else if isDec c then some (span isDec rest + 1) else none
  | [] => none

/-- DEC_LIT followed by something that is not a digit: the only split is "all leading digits" -/
def decLitExact (cs : List Char) : Option Nat :=
  match mDecLit cs with
  | some n => if n == span isDec cs then some n else none
  | none => none

/-- E (PLUS|MINUS)? DEC_DIGITS   (also P … for hex floats) -/
def mExp (e : Char) (cs : List Char) : Option Nat :=
  match cs with
  | c :: rest =>
    if lowerC c == e then
      let (sgn, rest') := match rest with
        | s :: r => if s == '+' || s == '-' then (1, r) else (0, rest)
        | [] => (0, rest)
      let d := span isDec rest'
      if d == 0 then none else some (1 + sgn + d)
    else none
  | [] => none

def optLen (o : Option Nat) : Nat := o.getD 0

/-- '.' DEC_DIGITS DECIMAL_EXPONENT? -/
def mFrac (cs : List Char) : Option Nat :=
  match cs with
  | '.' :: rest =>
    let d := span isDec rest
    if d == 0 then none else some (1 + d + optLen (mExp 'e' (rest.drop d)))
  | _ => none

def omax (a b : Option Nat) : Option Nat :=
  match a, b with
  | some x, some y => some (max x y)
  | some x, none => some x
  | none, b => b

def mDecFloat (cs : List Char) : Option Nat :=
  let a := match decLitExact cs with
    | some n => omax ((mFrac (cs.drop n)).map (· + n)) ((mExp 'e' (cs.drop n)).map (· + n))
    | none => none
  omax a (mFrac cs)

/-- '0' X HEX_MANTISA HEX_EXPONENT -/
def mHexFloat (cs : List Char) : Option Nat :=
  match cs with
  | '0' :: x :: rest =>
    if lowerC x == 'x' then
      let h1 := span isHex rest
      let r1 := rest.drop h1
      let direct := if h1 == 0 then none else (mExp 'p' r1).map (· + 2 + h1)
      let dotted := match r1 with
        | '.' :: r2 =>
          let h2 := span isHex r2
          if h1 == 0 && h2 == 0 then none else (mExp 'p' (r2.drop h2)).map (· + 2 + h1 + 1 + h2)
        | _ => none
      omax direct dotted
    else none
  | _ => none

def mHexLit (cs : List Char) : Option Nat :=
  match cs with
  | '0' :: x :: rest =>
    if lowerC x == 'x' then (let h := span isHex rest; if h == 0 then none else some (2 + h)) else none
  | _ => none

def mOctLit (cs : List Char) : Option Nat :=
  match cs with
  | '0' :: rest => let h := span isOct rest; if h == 0 then none else some (1 + h)
  | _ => none

def mSpace (cs : List Char) : Option Nat :=
  let n := span isWs cs; if n == 0 then none else some n

/-- position just after the first `*/` -/
def closeComment : List Char → Nat → Option Nat
  | '*' :: '/' :: _, pos => some (pos + 2)
  | _ :: rest, pos => closeComment rest (pos + 1)
  | [], _ => none

def mComment (cs : List Char) : Option Nat :=
  match cs with
  | '/' :: '*' :: rest => closeComment rest 2
  | _ => none

def mLineComment (cs : List Char) : Option Nat :=
  match cs with
  | '/' :: '/' :: rest => some (2 + span (fun c => c != '\r' && c != '\n') rest)
  | _ => none

/-- the rules with a fixed text, in the order of the grammar file: (kind, case-insensitive?, text) -/
def fixedTable : List (TK × Bool × String) := [
  (.plus, false, "+"), (.minus, false, "-"), (.div, false, "/"), (.mul, false, "*"), (.mod, false, "%"),
  (.dot, false, "."), (.semi, false, ";"),
  (.lbrace, false, "{"), (.rbrace, false, "}"), (.lparen, false, "("), (.rparen, false, ")"),
  (.lsq, false, "["), (.rsq, false, "]"),
  (.kRule, true, "rule"), (.kWhen, true, "when"), (.kThen, true, "then"),
  (.and, false, "&&"), (.or, false, "||"),
  (.kTrue, true, "true"), (.kFalse, true, "false"), (.kNil, true, "nil"),
  (.bang, false, "!"), (.kSalience, true, "salience"),
  (.eqeq, false, "=="), (.assign, false, "="), (.plusAs, false, "+="), (.minusAs, false, "-="),
  (.divAs, false, "/="), (.mulAs, false, "*="), (.gt, false, ">"), (.lt, false, "<"),
  (.gte, false, ">="), (.lte, false, "<="), (.neq, false, "!="),
  (.bitand, false, "&"), (.bitor, false, "|")
]

/-- the other rules, in the order of the grammar file -/
def patternRules : List (TK × (List Char → Option Nat)) := [
  (.name, mName), (.dq, mStr '"'), (.sq, mStr '\''),
  (.decFloat, mDecFloat), (.decExp, mExp 'e'), (.hexFloat, mHexFloat), (.hexExp, mExp 'p'),
  (.dec, mDecLit), (.hex, mHexLit), (.oct, mOctLit),
  (.space, mSpace), (.comment, mComment), (.lineComment, mLineComment)
]

/-- every lexer rule in the order of the grammar file (the implicit `','` token of the parser rules comes first) -/
def rules : List (TK × (List Char → Option Nat)) :=
  (.comma, lit [',']) :: fixedTable.map (fun (k, ci, w) => (k, if ci then kw w.toList else lit w.toList)) ++ patternRules

/-- longest match; the earlier rule wins a tie -/
def pick (cs : List Char) : List (TK × (List Char → Option Nat)) → Option (TK × Nat) → Option (TK × Nat)
  | [], best => best
  | (k, m) :: rest, best =>
    match m cs, best with
    | some n, some (_, bn) => if n > bn then pick cs rest (some (k, n)) else pick cs rest best
    | some n, none => if n == 0 then pick cs rest best else pick cs rest (some (k, n))
    | none, _ => pick cs rest best

def nextToken (cs : List Char) : Option (TK × Nat) := pick cs rules none

def TK.skipped : TK → Bool
  | .space | .comment | .lineComment => true
  | _ => false

structure LexOut where
  toks : List Token := []
  errs : Nat := 0
  deriving Repr

/-- the token stream of the default channel and the number of lexer errors -/
def lexLoop : Nat → List Char → LexOut → LexOut
  | 0, _, acc => acc
  | _, [], acc => acc
  | fuel + 1, c :: cs, acc =>
    match nextToken (c :: cs) with
    | some (k, n) =>
      let rest := (c :: cs).drop n
      if k.skipped then lexLoop fuel rest acc
      else lexLoop fuel rest { acc with toks := acc.toks ++ [⟨k, (c :: cs).take n⟩] }
    | none =>
      if c == '"' || c == '\'' then { acc with errs := acc.errs + 1 }       -- runs to the end of the input
      else lexLoop fuel cs { acc with errs := acc.errs + 1 }               -- skip one character

def lex (cs : List Char) : LexOut := lexLoop (cs.length + 1) cs {}

end Grule.Syntax

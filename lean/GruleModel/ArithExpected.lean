/-
  The canonical operator tables: what `pkg/reflectmath.go` is supposed to say, written once, uniformly.
  The theorems of C05 (arithmetic) and C19 (comparisons) are proved about these; the tables regenerated
  from the Go source (`Gen/ArithTables.lean`) are proved equal to them by `decide` in
  `Properties/TableTie.lean`. A change to one cell of the Go file therefore breaks that obligation.
-/
import GruleModel.Arith
import GruleModel.Ast
namespace Grule.Expected
open Grule

inductive Cls | I | U | F
  deriving DecidableEq, Repr

def Cls.kinds : Cls → List Kind
  | .I => intKinds | .U => uintKinds | .F => floatKinds

/-- conversions that bring two numeric operands to a common Go type: int64 wins over uint64, float64 wins over both -/
def commonConv : Cls → Cls → Conv × Conv
  | .I, .I => (.id, .id) | .I, .U => (.id, .i64) | .I, .F => (.f64, .id)
  | .U, .I => (.i64, .id) | .U, .U => (.id, .id) | .U, .F => (.f64, .id)
  | .F, .I => (.id, .f64) | .F, .U => (.id, .f64) | .F, .F => (.id, .id)

/-- `/` always is the real quotient -/
def divConv : Cls → Cls → Conv × Conv
  | .F, .F => (.id, .id) | .F, _ => (.id, .f64) | _, .F => (.f64, .id) | _, _ => (.f64, .f64)

/-- `%` is computed on int64 -/
def modConv : Cls → Cls → Conv × Conv
  | .I, .I => (.id, .id) | .I, .U => (.id, .i64) | .U, .I => (.i64, .id) | .U, .U => (.i64, .i64) | _, _ => (.id, .id)

def numCell (p : Prim) (conv : Cls → Cls → Conv × Conv) (l r : Cls) : List Kind × Leaf :=
  (r.kinds, .prim p (conv l r).1 (conv l r).2)

def numRow (p : Prim) (conv : Cls → Cls → Conv × Conv) (rs : List Cls) (pre : List (List Kind × Leaf)) (l : Cls) : Row :=
  { kinds := l.kinds, cells := pre ++ rs.map (numCell p conv l), dflt := .err }

def arith (p : Prim) : OpTable :=
  { rows := [Cls.I, .U, .F].map (numRow p commonConv [.I, .U, .F] []), dflt := .err }

def tblMultiplication : OpTable := arith .mul
def tblSubtraction : OpTable := arith .sub
def tblDivision : OpTable :=
  { rows := [Cls.I, .U, .F].map (numRow .quo divConv [.I, .U, .F] []), dflt := .err }
def tblModulo : OpTable :=
  { rows := [Cls.I, .U].map (numRow .rem modConv [.I, .U] []), dflt := .err }
def bitop (p : Prim) : OpTable :=
  { rows := [Cls.I, .U].map (numRow p commonConv [.I, .U] []), dflt := .err }
def tblBitAnd : OpTable := bitop .band
def tblBitOr : OpTable := bitop .bor

def tblAddition : OpTable :=
  { rows := [
      { kinds := [.string],
        cells := [([.string], .sprintf "%s%s"), (intKinds, .sprintf "%s%d"), (uintKinds, .sprintf "%s%d"),
                  (floatKinds, .sprintf "%s%f"), ([.bool], .sprintf "%s%v")],
        dflt := .sprintfTimeR "%s%s" },
      numRow .add commonConv [.I, .U, .F] [([.string], .sprintf "%d%s")] .I,
      numRow .add commonConv [.I, .U, .F] [([.string], .sprintf "%d%s")] .U,
      numRow .add commonConv [.I, .U, .F] [([.string], .sprintf "%f%s")] .F ],
    dflt := .err }

/-- ordered comparison: strings with strings, numbers with numbers, times with times -/
def ordered (p : Prim) (t : TExp) : OpTable :=
  { rows := { kinds := [.string], cells := [([.string], .prim p .id .id)], dflt := .err } ::
            [Cls.I, .U, .F].map (numRow p commonConv [.I, .U, .F] []),
    dflt := .timeE t }

def tblGreaterThan : OpTable := ordered .gt .after
def tblLesserThan : OpTable := ordered .lt .before
def tblGreaterThanEqual : OpTable := ordered .ge (.or .after .equal)
def tblLesserThanEqual : OpTable := ordered .le (.or .before .equal)

/-- equality: additionally booleans; a string or boolean against anything else is `false` -/
def equality (p : Prim) (t : TExp) : OpTable :=
  { rows := { kinds := [.string], cells := [([.string], .prim p .id .id)], dflt := .constB false } ::
            { kinds := [.bool], cells := [([.bool], .prim p .id .id)], dflt := .constB false } ::
            [Cls.I, .U, .F].map (numRow p commonConv [.I, .U, .F] []),
    dflt := .timeE t }

def tblEqual : OpTable := equality .eq .equal
def tblNotEqual : OpTable := equality .ne (.not .equal)

def logic (p : Prim) : OpTable :=
  { rows := [{ kinds := [.bool], cells := [([.bool], .prim p .id .id)], dflt := .err }], dflt := .err }
def tblLogicAnd : OpTable := logic .land
def tblLogicOr : OpTable := logic .lor

def tab : BinOp → OpTable
  | .mul => tblMultiplication | .div => tblDivision | .mod => tblModulo
  | .add => tblAddition | .sub => tblSubtraction | .band => tblBitAnd | .bor => tblBitOr
  | .gt => tblGreaterThan | .lt => tblLesserThan | .gte => tblGreaterThanEqual
  | .lte => tblLesserThanEqual | .eq => tblEqual | .neq => tblNotEqual
  | .and => tblLogicAnd | .or => tblLogicOr

/-- SetNumberValue: the value is converted to the target's class; the setter truncates to its width -/
def setNumberCells : List (List Kind × List (SrcBase × SetLeaf)) := [
  (intKinds, [(.uint64, .setInt .i64), (.float64, .setInt .i64), (.int64, .setInt .id)]),
  (uintKinds, [(.uint64, .setUint .id), (.float64, .setUint .u64), (.int64, .setUint .u64)]),
  (floatKinds, [(.uint64, .setFloat .f64), (.float64, .setFloat .id), (.int64, .setFloat .f64)])
]

end Grule.Expected

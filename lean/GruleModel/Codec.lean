/-
  JSON (de)serialisation of scenarios for the line-protocol driver. Not part of the proved model.
-/
import Lean.Data.Json
import GruleModel.Library
namespace Grule.Codec
open Lean Grule

abbrev P := Except String

def arr (j : Json) : P (Array Json) := match j with
  | .arr a => pure a
  | _ => throw s!"expected array, got {j.compress}"

def str (j : Json) : P String := match j with
  | .str s => pure s
  | _ => throw s!"expected string, got {j.compress}"

def bool (j : Json) : P Bool := match j with
  | .bool b => pure b
  | _ => throw s!"expected bool, got {j.compress}"

def intOfStr (s : String) : P Int := match s.toInt? with
  | some i => pure i
  | none => throw s!"bad integer {s}"

def int (j : Json) : P Int := match j with
  | .str s => intOfStr s
  | .num n => if n.exponent == 0 then pure n.mantissa else throw "non-integer number"
  | _ => throw s!"expected integer, got {j.compress}"

def nat (j : Json) : P Nat := do
  let i ← int j
  if i < 0 then throw "negative" else pure i.toNat

def u64 (j : Json) : P UInt64 := do
  let n ← nat j
  pure (UInt64.ofNat n)

def binop (s : String) : P BinOp := match s with
  | "*" => pure .mul | "/" => pure .div | "%" => pure .mod | "+" => pure .add | "-" => pure .sub
  | "&" => pure .band | "|" => pure .bor | ">" => pure .gt | "<" => pure .lt | ">=" => pure .gte
  | "<=" => pure .lte | "==" => pure .eq | "!=" => pure .neq | "&&" => pure .and | "||" => pure .or
  | _ => throw s!"bad operator {s}"

def const (j : Json) : P Const := do
  let a ← arr j
  match (← str a[0]!) with
  | "s" => pure (.str (← str a[1]!))
  | "i" => pure (.int (← int a[1]!))
  | "f" => pure (.float (← u64 a[1]!))
  | "b" => pure (.bool (← bool a[1]!))
  | "nil" => pure .nil
  | t => throw s!"bad const tag {t}"

mutual
  partial def expr (j : Json) : P Expr := do
    let a ← arr j
    match (← str a[0]!) with
    | "bin" => pure (.bin (← binop (← str a[1]!)) (← expr a[2]!) (← expr a[3]!))
    | "par" => pure (.paren (← bool a[1]!) (← expr a[2]!))
    | "atom" => pure (.atom (← atom a[1]!))
    | t => throw s!"bad expr tag {t}"
  partial def atom (j : Json) : P Atom := do
    let a ← arr j
    match (← str a[0]!) with
    | "c" => pure (.const (← const a[1]!))
    | "v" => pure (.var (← var a[1]!))
    | "call" => pure (.call (← str a[1]!) (← args a[2]!))
    | "meth" => pure (.meth (← atom a[1]!) (← str a[2]!) (← args a[3]!))
    | "mem" => pure (.member (← atom a[1]!) (← str a[2]!))
    | "sel" => pure (.sel (← atom a[1]!) (← expr a[2]!))
    | "neg" => pure (.neg (← atom a[1]!))
    | t => throw s!"bad atom tag {t}"
  partial def var (j : Json) : P Var := do
    let a ← arr j
    match (← str a[0]!) with
    | "root" => pure (.root (← str a[1]!))
    | "fld" => pure (.field (← var a[1]!) (← str a[2]!))
    | "idx" => pure (.index (← var a[1]!) (← expr a[2]!))
    | t => throw s!"bad var tag {t}"
  partial def args (j : Json) : P Args := do
    let a ← arr j
    let es ← a.toList.mapM expr
    pure (Args.ofList es)
end

def assignOp (s : String) : P AssignOp := match s with
  | "=" => pure .set | "+=" => pure .add | "-=" => pure .sub | "*=" => pure .mul | "/=" => pure .div
  | _ => throw s!"bad assign op {s}"

def action (j : Json) : P Action := do
  let a ← arr j
  match (← str a[0]!) with
  | "as" => pure (.assign (← assignOp (← str a[1]!)) (← var a[2]!) (← expr a[3]!))
  | "st" => pure (.stmt (← atom a[1]!))
  | t => throw s!"bad action tag {t}"

def field (j : Json) (k : String) : P Json := match j.getObjVal? k with
  | .ok v => pure v
  | .error _ => throw s!"missing field {k}"

def fieldOpt (j : Json) (k : String) : Option Json := match j.getObjVal? k with
  | .ok .null => none
  | .ok v => some v
  | .error _ => none

def rule (j : Json) : P Rule := do
  let acts ← (← arr (← field j "then")).toList.mapM action
  pure { name := ← str (← field j "name"), desc := ← str (← field j "desc"),
         salience := ← int (← field j "sal"), cond := ← expr (← field j "when"), acts := acts }

-- facts --------------------------------------------------------------------------------------

def intK (s : String) : Option IntK := match s with
  | "int" => some .int | "int8" => some .int8 | "int16" => some .int16 | "int32" => some .int32
  | "int64" => some .int64 | _ => none
def uintK (s : String) : Option UIntK := match s with
  | "uint" => some .uint | "uint8" => some .uint8 | "uint16" => some .uint16 | "uint32" => some .uint32
  | "uint64" => some .uint64 | _ => none

def ty (s : String) : Ty :=
  match intK s, uintK s with
  | some k, _ => .int k
  | _, some k => .uint k
  | _, _ => match s with
    | "float64" => .float .f64 | "float32" => .float .f32 | "string" => .str | "bool" => .bool
    | "time" => .time | _ => .other

def key (j : Json) : P Key := do
  let a ← arr j
  match (← str a[0]!) with
  | "s" => pure (.s (← str a[1]!))
  | "i" => pure (.i (← int a[1]!))
  | t => throw s!"bad key tag {t}"

partial def node (j : Json) : P Node := do
  let a ← arr j
  let tag ← str a[0]!
  match intK tag, uintK tag with
  | some k, _ => pure (.leaf (.int k (← int a[1]!)))
  | _, some k => pure (.leaf (.uint k (← nat a[1]!)))
  | _, _ =>
  match tag with
  | "float64" => pure (.leaf (.float .f64 (← u64 a[1]!)))
  | "float32" => pure (.leaf (.float .f32 (← u64 a[1]!)))
  | "string" => pure (.leaf (.str (← str a[1]!)))
  | "bool" => pure (.leaf (.bool (← bool a[1]!)))
  | "time" =>
    let mono ← match a[3]! with
      | .null => pure none
      | m => do pure (some (← int m))
    pure (.leaf (.time { inst := ← int a[1]!, loc := ← nat a[2]!, mono := mono }))
  | "invalid" => pure (.leaf .invalid)
  | "struct" => do
    let fs ← (← arr a[2]!).toList.mapM (fun f => do
      let p ← arr f
      pure ((← str p[0]!), (← node p[1]!)))
    pure (.struct fs)
  | "ptr" => match a[2]! with
    | .null => pure (.ptr none)
    | n => do pure (.ptr (some (← node n)))
  | "iface" => match a[1]! with
    | .null => pure (.iface none)
    | n => do pure (.iface (some (← node n)))
  | "slice" => do pure (.slice (← (← arr a[2]!).toList.mapM node))
  | "map" => do
    let es ← (← arr a[3]!).toList.mapM (fun f => do
      let p ← arr f
      pure ((← key p[0]!), (← node p[1]!)))
    pure (.map (ty (← str a[1]!)) (ty (← str a[2]!)) es)
  | "jobj" => do
    let fs ← (← arr a[1]!).toList.mapM (fun f => do
      let p ← arr f
      pure ((← str p[0]!), (← node p[1]!)))
    pure (.jobj fs)
  | "jarr" => do pure (.jarr (← (← arr a[1]!).toList.mapM node))
  | t => throw s!"bad node tag {t}"

def store (j : Json) : P Store := do
  (← arr j).toList.mapM (fun f => do
    let p ← arr f
    pure ((← str p[0]!), (← node p[1]!)))

-- output ---------------------------------------------------------------------------------------

def jstr (s : String) : Json := .str s
def jint (i : Int) : Json := .str (toString i)
def jsnap (s : Snap) : Json := .str (String.ofList s)

def keyJ : Key → Json
  | .s v => .arr #[jstr "s", jstr v]
  | .i v => .arr #[jstr "i", jint v]

def valJ : Val → Json
  | .int k v => .arr #[jstr k.name, jint v]
  | .uint k v => .arr #[jstr k.name, jint v]
  | .float k b => .arr #[jstr k.name, jint b.toNat]
  | .str s => .arr #[jstr "string", jstr s]
  | .bool b => .arr #[jstr "bool", .bool b]
  | .time t => .arr #[jstr "time", jint t.inst, jint t.loc, match t.mono with | some m => jint m | none => .null]
  | .invalid => .arr #[jstr "invalid"]
  | .nilptr => .arr #[jstr "nilptr"]
  | .ref _ => .arr #[jstr "ref"]

def tyName : Ty → String
  | .int k => k.name | .uint k => k.name | .float k => k.name | .str => "string" | .bool => "bool"
  | .time => "time" | .other => "other"

/-- output form: type names are dropped (the harness compares shapes and values) -/
partial def nodeJ : Node → Json
  | .leaf v => valJ v
  | .struct fs => .arr #[jstr "struct", .arr (fs.map (fun (k, n) => Json.arr #[jstr k, nodeJ n])).toArray]
  | .ptr none => .arr #[jstr "ptr", .null]
  | .ptr (some n) => .arr #[jstr "ptr", nodeJ n]
  | .iface none => .arr #[jstr "iface", .null]
  | .iface (some n) => .arr #[jstr "iface", nodeJ n]
  | .slice es => .arr #[jstr "slice", .arr (es.map nodeJ).toArray]
  | .map _ _ es => .arr #[jstr "map", .arr (es.map (fun (k, n) => Json.arr #[keyJ k, nodeJ n])).toArray]
  | .jobj fs => .arr #[jstr "jobj", .arr (fs.map (fun (k, n) => Json.arr #[jstr k, nodeJ n])).toArray]
  | .jarr es => .arr #[jstr "jarr", .arr (es.map nodeJ).toArray]

def storeJ (st : Store) : Json := .arr (st.map (fun (k, n) => Json.arr #[jstr k, nodeJ n])).toArray

def outcomeJ : Outcome → Json
  | .ok => jstr "ok"
  | .cycleLimit => jstr "limit"
  | .ctx => jstr "ctx"
  | .evalErr r w => jstr s!"evalErr:{r}:{w}"
  | .actionErr r w => jstr s!"actErr:{r}:{w}"
  | .unmodelled m => jstr s!"unmodelled:{m}"

def tevJ : TEv → Json
  | .begin c => .arr #[jstr "b", (c : Nat)]
  | .eval c r b => .arr #[jstr "e", (c : Nat), jstr r, .bool b]
  | .exec c r => .arr #[jstr "x", (c : Nat), jstr r]

end Grule.Codec

/-
  The data context as a tree store: navigation (`model/GoDataAccessLayer.go`,
  `model/JsonDataAccessLayer.go`: GetChildNodeByField / ByIndex / BySelector), and the three write
  forms (SetObjectValueByField / SetArrayValueAt / SetMapValueAt, DataContext.Add), including the
  `SetNumberValue` conversions, which are interpreted from the generated cells.
-/
import GruleModel.Arith
namespace Grule

def assocGet {α} (k : String) : List (String × α) → Option α
  | [] => none
  | (k', v) :: rest => if k == k' then some v else assocGet k rest

def assocSet {α} (k : String) (v : α) : List (String × α) → List (String × α)
  | [] => [(k, v)]
  | (k', v') :: rest => if k == k' then (k, v) :: rest else (k', v') :: assocSet k v rest

def assocErase {α} (k : String) : List (String × α) → List (String × α)
  | [] => []
  | (k', v') :: rest => if k == k' then rest else (k', v') :: assocErase k rest

def keyGet {α} (k : Key) : List (Key × α) → Option α
  | [] => none
  | (k', v) :: rest => if k == k' then some v else keyGet k rest

def keySet {α} (k : Key) (v : α) : List (Key × α) → List (Key × α)
  | [] => [(k, v)]
  | (k', v') :: rest => if k == k' then (k, v) :: rest else (k', v') :: keySet k v rest

def keyErase {α} (k : Key) : List (Key × α) → List (Key × α)
  | [] => []
  | (k', v') :: rest => if k == k' then rest else (k', v') :: keyErase k rest

def listSet {α} (i : Nat) (v : α) : List α → List α
  | [] => []
  | x :: rest => match i with
    | 0 => v :: rest
    | j + 1 => x :: listSet j v rest

/-- look through pointers and interfaces (what `.Elem()` does) -/
def Node.elem : Node → Option Node
  | .ptr t => t
  | .iface t => match t with
    | some (.ptr t') => t'
    | other => other
  | n => some n

/-- one navigation step; `none` when the hop does not apply -/
def Node.child (n : Node) (h : Hop) : Option Node :=
  match h with
  | .root _ => none
  | .fld f =>
    match n.elem with
    | some (.struct fs) => assocGet f fs
    | some (.jobj es) => assocGet f es
    | _ => none
  | .idx i =>
    match n.elem with
    | some (.slice es) => es[i]?
    | some (.jarr es) => es[i]?
    | _ => none
  | .key k =>
    match n.elem with
    | some (.map _ _ es) => keyGet k es
    | some (.jobj es) => match k with
      | .s f => assocGet f es
      | .i _ => none
    | _ => none

def Node.get (n : Node) : Path → Option Node
  | [] => some n
  | h :: t => match n.child h with
    | some c => c.get t
    | none => none

def Store.get (st : Store) : Path → Option Node
  | .root r :: t => match assocGet r st with
    | some n => n.get t
    | none => none
  | _ => none

/-- replace the child reached by one hop (inverse of `child`) -/
def Node.setChild (n : Node) (h : Hop) (c : Node) : Option Node :=
  let inner (m : Node) : Option Node :=
    match h, m with
    | .fld f, .struct fs => if (assocGet f fs).isSome then some (.struct (assocSet f c fs)) else none
    | .fld f, .jobj es => some (.jobj (assocSet f c es))
    | .idx i, .slice es => if i < es.length then some (.slice (listSet i c es)) else none
    | .idx i, .jarr es => if i < es.length then some (.jarr (listSet i c es)) else none
    | .key k, .map kt et es => some (.map kt et (keySet k c es))
    | .key (.s f), .jobj es => some (.jobj (assocSet f c es))
    | _, _ => none
  match n with
  | .ptr (some t) => (inner t).map (fun t' => .ptr (some t'))
  | .iface (some (.ptr (some t))) => (inner t).map (fun t' => .iface (some (.ptr (some t'))))
  | .iface (some t) => (inner t).map (fun t' => .iface (some t'))
  | .ptr none => none
  | .iface none => none
  | m => inner m

/-- remove a map entry / JSON member -/
def Node.eraseChild (n : Node) (h : Hop) : Option Node :=
  let inner (m : Node) : Option Node :=
    match h, m with
    | .fld f, .jobj es => some (.jobj (assocErase f es))
    | .key k, .map kt et es => some (.map kt et (keyErase k es))
    | .key (.s f), .jobj es => some (.jobj (assocErase f es))
    | _, _ => none
  match n with
  | .ptr (some t) => (inner t).map (fun t' => .ptr (some t'))
  | .iface (some t) => (inner t).map (fun t' => .iface (some t'))
  | .ptr none => none
  | .iface none => none
  | m => inner m

def Node.update (n : Node) (p : Path) (f : Node → Option Node) : Option Node :=
  match p with
  | [] => f n
  | h :: t => match n.child h with
    | some c => match c.update t f with
      | some c' => n.setChild h c'
      | none => none
    | none => none

def Store.update (st : Store) (p : Path) (f : Node → Option Node) : Option Store :=
  match p with
  | .root r :: t => match assocGet r st with
    | some n => (n.update t f).map (fun n' => assocSet r n' st)
    | none => none
  | _ => none

/-- the `reflect.Value` the engine sees for the node at `p` -/
def valOf (p : Path) : Node → Val
  | .leaf v => v
  | .ptr none => .nilptr
  | .iface none => .nilptr
  | .iface (some (.ptr none)) => .nilptr
  | _ => .ref p

inductive NodeClass | goStruct | goSlice | goMap | jObj | jArr | scalar | nilp
  deriving DecidableEq, Repr

def Node.cls (n : Node) : NodeClass :=
  match n with
  | .ptr none => .nilp
  | .iface none => .nilp
  | _ => match n.elem with
    | some (.struct _) => .goStruct
    | some (.slice _) => .goSlice
    | some (.map ..) => .goMap
    | some (.jobj _) => .jObj
    | some (.jarr _) => .jArr
    | none => .nilp
    | _ => .scalar

def Val.toKey? : Val → Option Key
  | .str s => some (.s s)
  | .int _ i => some (.i i)
  | _ => none

def Key.ty : Key → Ty
  | .s _ => .str
  | .i _ => .int .int64   -- refined by `keyMatches`

/-- does a selector value have exactly the map's key type? -/
def keyMatches (kt : Ty) (v : Val) : Bool := v.ty == kt

-- reading ------------------------------------------------------------------------------------

/-- `DataContext.Get(name)` + `Value()` -/
def readRoot (st : Store) (n : String) : R Val :=
  match assocGet n st with
  | some node => .ok (valOf [.root n] node)
  | none => evalErr s!"non existent key {n}"

/-- `parent.GetChildNodeByField(f)` -/
def readField (st : Store) (parent : Val) (f : String) : R Val :=
  match parent with
  | .ref p =>
    match st.get p with
    | some n =>
      match n.cls with
      | .goStruct =>
        match n.child (.fld f) with
        | some c => .ok (valOf (p ++ [.fld f]) c)
        | none => evalErr s!"this node have no field named {f}"
      | .jObj =>
        match n.child (.fld f) with
        | some (.leaf .invalid) => .ok .invalid      -- JSON null member
        | some c => .ok (valOf (p ++ [.fld f]) c)
        | none => evalErr s!"json field '{f}' is undefined"
      | .nilp => panicErr "FieldByName on zero Value"
      | _ => evalErr "not referencing to an object"
    | none => unmodelled "dangling reference"
  | .nilptr => panicErr "FieldByName on zero Value"
  | .time _ => unmodelled "field of time.Time"
  | _ => evalErr "not referencing to an object"

/-- `int(selValue.Int())` -/
def selInt (sel : Val) : R Int :=
  match sel with
  | .int _ i => .ok i
  | _ => panicErr "reflect: call of reflect.Value.Int on non-int Value"

/-- `parent[sel]` for reading (`GetChildNodeByIndex` / `GetChildNodeBySelector`) -/
def readIndex (st : Store) (parent sel : Val) : R Val :=
  match parent with
  | .ref p =>
    match st.get p with
    | some n =>
      match n.cls with
      | .goSlice => do
        let i ← selInt sel
        if i < 0 then evalErr "recovered : index out of range" else
        match n.child (.idx i.toNat) with
        | some c => .ok (valOf (p ++ [.idx i.toNat]) c)
        | none => evalErr "recovered : index out of range"
      | .jArr => do
        let i ← selInt sel
        if i < 0 then panicErr "index out of range" else
        match n.child (.idx i.toNat) with
        | some (.leaf .invalid) => .ok .invalid
        | some c => .ok (valOf (p ++ [.idx i.toNat]) c)
        | none => panicErr "index out of range"
      | .goMap =>
        match n.elem with
        | some (.map kt _ es) =>
          if !keyMatches kt sel then panicErr "reflect.Value.MapIndex: key type mismatch" else
          match sel.toKey? with
          | some k =>
            match keyGet k es with
            | some c => .ok (valOf (p ++ [.key k]) c)
            | none => evalErr "have no selector with specified key"
          | none => unmodelled "map key kind"
        | _ => unmodelled "map"
      | .jObj =>
        match sel with
        | .str f =>
          match n.child (.fld f) with
          | some (.leaf .invalid) => .ok .invalid
          | some c => .ok (valOf (p ++ [.key (.s f)]) c)
          | none => panicErr "Elem on zero Value"
        | _ => evalErr "JSON map selector must be a string"
      | .goStruct => evalErr "is not an array nor map"
      | .nilp => evalErr "is not an array nor map"
      | .scalar => evalErr "is not an array nor map"
    | none => unmodelled "dangling reference"
  | .time _ => evalErr "is not an array nor map"
  | .invalid => unmodelled "selector on invalid"
  | _ => evalErr "is not an array nor map"

-- SetNumberValue -------------------------------------------------------------------------------


/-- a selector on an atom (`recv[idx]` where `recv` is no variable): as `readIndex`, except that the "is not an array nor
    map" branch of ExpressionAtom.Evaluate builds its message from `e.Variable`, which is nil there — a nil dereference,
    recovered at the rule boundary like any panic -/
def readSel (st : Store) (parent sel : Val) : R Val :=
  match readIndex st parent sel with
  | .error (.eval m) => if m == "is not an array nor map" then panicErr "nil pointer dereference" else .error (.eval m)
  | r => r

def f32round (bits : UInt64) : UInt64 := (Float.ofBits bits).toFloat32.toFloat.toBits

def srcBase : Val → Option (SrcBase × Opd)
  | .int _ v => some (.int64, .i v)
  | .uint _ v => some (.uint64, .u v)
  | .float _ b => some (.float64, .f b)
  | _ => none

def findSetLeaf (b : SrcBase) : List (SrcBase × SetLeaf) → Option SetLeaf
  | [] => none
  | (b', l) :: rest => if b == b' then some l else findSetLeaf b rest

def findSetRow (k : Kind) : List (List Kind × List (SrcBase × SetLeaf)) → Option (List (SrcBase × SetLeaf))
  | [] => none
  | (ks, r) :: rest => if ks.contains k then some r else findSetRow k rest

/-- `SetNumberValue(target, newvalue)`: `target` is the current (typed) content of the cell -/
def setNumber (cells : List (List Kind × List (SrcBase × SetLeaf))) (target new : Val) : R Val :=
  match srcBase new with
  | none => evalErr "this function only used for assigning number data to number variable"
  | some (b, o) =>
    match findSetRow target.kind cells with
    | none => evalErr "this function only used for assigning number data to number variable"
    | some row =>
      match findSetLeaf b row with
      | none => unmodelled "SetNumberValue cell"
      | some (.unknown s) => unmodelled s!"SetNumberValue cell {s}"
      | some (.setInt c) =>
        match o.conv c, target with
        | some (.i v), .int k _ => .ok (.int k (wrapS k.bits v))
        | _, _ => unmodelled "SetInt typing"
      | some (.setUint c) =>
        match o.conv c, target with
        | some (.u v), .uint k _ => .ok (.uint k (wrapU k.bits v))
        | _, _ => unmodelled "SetUint typing"
      | some (.setFloat c) =>
        match o.conv c, target with
        | some (.f v), .float .f64 _ => .ok (.float .f64 v)
        | some (.f v), .float .f32 _ => .ok (.float .f32 (f32round v))
        | _, _ => unmodelled "SetFloat typing"

def Val.isNumber : Val → Bool
  | .int .. => true | .uint .. => true | .float .. => true | _ => false

abbrev SetCells := List (List Kind × List (SrcBase × SetLeaf))

/-- new content of a typed Go cell (struct field / slice element) currently holding `cur` when
    `new` is assigned: number conversion, or `reflect.Value.Set` (same type required). -/
def assignCell (cells : SetCells) (cur : Node) (new : Val) : R Node :=
  match cur with
  | .leaf c =>
    if c.isNumber && new.isNumber then (setNumber cells c new).map .leaf
    else match new with
      | .invalid => evalErr "recovered : reflect: call of reflect.Value.Set on zero Value"
      | .nilptr => unmodelled "assigning nil pointer"
      | .ref _ => unmodelled "assigning a composite"
      | _ => if c.ty == new.ty && c.ty != .other then .ok (.leaf new)
             else if c == .invalid then unmodelled "untyped cell"
             else evalErr "recovered : value is not assignable"
  | .iface cur' =>
    -- IsPointerToNumber(fieldVal) looks through the interface: SetNumberValue(fieldVal.Elem(), …) then
    -- panics (the element of an interface is not addressable); recovered by the setter's defer
    let holdsNumber := match cur' with
      | some (.leaf c) => c.isNumber
      | _ => false
    if holdsNumber && new.isNumber then evalErr "recovered : reflect.Value.SetInt using unaddressable value" else
    match new with
    | .invalid => evalErr "recovered : reflect: call of reflect.Value.Set on zero Value"
    | .nilptr => unmodelled "assigning nil pointer"
    | .ref _ => unmodelled "assigning a composite"
    | v => .ok (.iface (some (.leaf v)))
  | _ =>
    match new with
    | .invalid => evalErr "recovered : reflect: call of reflect.Value.Set on zero Value"
    | .ref _ => unmodelled "assigning a composite"
    | .nilptr => unmodelled "assigning nil pointer"
    | _ => evalErr "recovered : value is not assignable"

-- writing --------------------------------------------------------------------------------------

def liftOpt {α} (msg : String) : Option α → R α
  | some a => .ok a
  | none => unmodelled msg

/-- `dataContext.Add(name, pkg.ValueToInterface(newVal))` -/
def writeRoot (st : Store) (n : String) (new : Val) : R Store :=
  match new with
  | .invalid => panicErr "reflect: call of reflect.Value.Type on zero Value"
  | .nilptr => panicErr "reflect: call of reflect.Value.Type on zero Value"
  | .ref _ => unmodelled "top-level assignment of a composite"
  | v => .ok (assocSet n (.leaf v) st)

/-- `parent.SetObjectValueByField(f, new)` -/
def writeField (cells : SetCells) (st : Store) (parent : Val) (f : String) (new : Val) : R Store :=
  match parent with
  | .ref p =>
    match st.get p with
    | some n =>
      match n.cls with
      | .goStruct =>
        match n.child (.fld f) with
        | some cur => do
          let c' ← assignCell cells cur new
          liftOpt "store update" (st.update p (fun m => m.setChild (.fld f) c'))
        | none => evalErr "field is not valid nor addressable"
      | .jObj =>
        match new with
        | .invalid => liftOpt "store update" (st.update p (fun m => m.eraseChild (.fld f)))
        | .ref _ => unmodelled "assigning a composite"
        | .nilptr => unmodelled "assigning nil pointer"
        | v => liftOpt "store update" (st.update p (fun m => m.setChild (.fld f) (.leaf v)))
      | .jArr => evalErr "not an object or map"
      | .nilp => panicErr "FieldByName on zero Value"
      | _ => panicErr "reflect: call of reflect.Value.FieldByName on non-struct Value"
    | none => unmodelled "dangling reference"
  | .nilptr => panicErr "FieldByName on zero Value"
  | .invalid => panicErr "FieldByName on zero Value"
  | .time _ => unmodelled "field of time.Time"
  | _ => panicErr "reflect: call of reflect.Value.FieldByName on non-struct Value"

/-- `parent[sel] = new` (`SetArrayValueAt` / `SetMapValueAt`) -/
def writeIndex (cells : SetCells) (st : Store) (parent sel new : Val) : R Store :=
  match parent with
  | .ref p =>
    match st.get p with
    | some n =>
      match n.cls with
      | .goSlice => do
        let i ← selInt sel
        if i < 0 then evalErr "recovered : index out of range" else
        match n.child (.idx i.toNat) with
        | some cur => do
          let c' ← assignCell cells cur new
          liftOpt "store update" (st.update p (fun m => m.setChild (.idx i.toNat) c'))
        | none => evalErr "recovered : index out of range"
      | .jArr => do
        let i ← selInt sel
        if i < 0 then panicErr "index out of range" else
        match n.child (.idx i.toNat) with
        | some _ =>
          match new with
          | .invalid => panicErr "reflect: call of reflect.Value.Set on zero Value"
          | .ref _ => unmodelled "assigning a composite"
          | .nilptr => unmodelled "assigning nil pointer"
          | v => liftOpt "store update" (st.update p (fun m => m.setChild (.idx i.toNat) (.leaf v)))
        | none => panicErr "index out of range"
      | .goMap =>
        match n.elem with
        | some (.map kt et _) =>
          if !keyMatches kt sel then evalErr "recovered : key type mismatch" else
          match sel.toKey? with
          | none => unmodelled "map key kind"
          | some k =>
            match new with
            | .invalid => liftOpt "store update" (st.update p (fun m => m.eraseChild (.key k)))
            | .ref _ => unmodelled "assigning a composite"
            | .nilptr => unmodelled "assigning nil pointer"
            | v =>
              if et == .other then unmodelled "map element type"
              else if v.ty == et then liftOpt "store update" (st.update p (fun m => m.setChild (.key k) (.leaf v)))
              else evalErr "recovered : value type mismatch"
        | _ => unmodelled "map"
      | .jObj =>
        match sel with
        | .str f =>
          match new with
          | .invalid => liftOpt "store update" (st.update p (fun m => m.eraseChild (.fld f)))
          | .ref _ => unmodelled "assigning a composite"
          | .nilptr => unmodelled "assigning nil pointer"
          | v => liftOpt "store update" (st.update p (fun m => m.setChild (.fld f) (.leaf v)))
        | .invalid => panicErr "SetMapIndex with zero key"
        | _ => panicErr "reflect.Value.SetMapIndex: key type mismatch"
      | _ => evalErr "this code part should not be reached"
    | none => unmodelled "dangling reference"
  | .invalid => unmodelled "selector on invalid"
  | _ => evalErr "this code part should not be reached"

end Grule

/-
  pkg/JsonResource.go: JSON rule definitions → GRL text.
  `parseRule / parseWhen / parseThen / buildExpressionEx / buildCompoundOperator / joinOperator / joinSet /
  joinCall / parseOperand / parseCallOperand`, function by function, over a JSON tree.

  Go strings are modelled as code-point lists (JSON text decoded by encoding/json is valid UTF-8).
  `strconv.Quote` needs `unicode.IsPrint`, which is a table: the model knows it for ASCII and for the code
  points in `knownPrintable` / `knownUnprintable`; any other code point makes the result `unmodelled`.
-/
import GruleModel.FloatFmt
import GruleModel.Snapshot
namespace Grule.Json

mutual
  inductive J
    | null
    | bool (b : Bool)
    | num (bits : UInt64)          -- a JSON number as encoding/json decodes it into interface{}: float64
    | str (s : List Char)
    | arr (xs : JL)
    | obj (kvs : JKV)
  inductive JL
    | nil
    | cons (x : J) (rest : JL)
  inductive JKV
    | nil
    | cons (k : List Char) (v : J) (rest : JKV)
end

instance : Inhabited J := ⟨.null⟩
instance : Inhabited JL := ⟨.nil⟩

def JL.length : JL → Nat
  | .nil => 0
  | .cons _ r => r.length + 1

def JKV.length : JKV → Nat
  | .nil => 0
  | .cons _ _ r => r.length + 1

inductive TErr
  | invalid (msg : String)        -- the translator returns an error
  | unmodelled (msg : String)
  deriving Repr, DecidableEq

abbrev T := Except TErr

def bad {α : Type} (m : String) : T α := .error (.invalid m)

-- numbers ------------------------------------------------------------------------------------------

/-- `strconv.FormatFloat(v, 'f', -1, 64)`: shortest digits, never an exponent -/
def fmtF (bits : UInt64) : List Char := fmtShortestChars bits 400 (-400)

/-- how the translator prints a number (after the repair of F14: an integral value outside int64 keeps a
    fractional part so that it stays a valid — float — literal) -/
def fmtNumber (bits : UInt64) : List Char :=
  let s := fmtF bits
  -- |v| ≥ 2^63 (Inf/NaN cannot come out of JSON)
  let big : Bool := bits.toNat % 2^63 ≥ 0x43E0000000000000
  if big && !s.contains '.' then s ++ ".0".toList else s

-- strconv.Quote -------------------------------------------------------------------------------------

def knownPrintable : List Nat := [0xE9, 0xFC, 0xDF, 0x4E2D, 0x6587, 0x3042, 0x1F600, 0xFFFD, 0xD7, 0xB7, 0x20AC, 0xFF, 0x100, 0x10000]
def knownUnprintable : List Nat := [0xA0, 0xAD, 0x200B, 0x200C, 0x2028, 0xFEFF, 0x85, 0x9F, 0xE000, 0x10FFFF, 0xFFFE, 0x2003, 0x80, 0x81, 0xFFFF]

inductive Printable | yes | no | unknown

def isPrintGo (c : Char) : Printable :=
  let n := c.toNat
  if n < 0x80 then (if 0x20 ≤ n && n < 0x7F then .yes else .no)
  else if knownPrintable.contains n then .yes
  else if knownUnprintable.contains n then .no
  else .unknown

/-- one rune of `strconv.Quote` -/
def quoteRune (c : Char) : Option (List Char) :=
  let n := c.toNat
  if c == '"' then some ['\\', '"'] else if c == '\\' then some ['\\', '\\']
  else match isPrintGo c with
    | .yes => some [c]
    | .unknown => none
    | .no =>
      if n == 7 then some ['\\', 'a'] else if n == 8 then some ['\\', 'b'] else if n == 12 then some ['\\', 'f']
      else if n == 10 then some ['\\', 'n'] else if n == 13 then some ['\\', 'r'] else if n == 9 then some ['\\', 't']
      else if n == 11 then some ['\\', 'v']
      else if n < 0x20 || n == 0x7F then some (['\\', 'x'] ++ hexPad 2 n)
      else if n < 0x10000 then some (['\\', 'u'] ++ hexPad 4 n)
      else some (['\\', 'U'] ++ hexPad 8 n)

def quoteBody : List Char → Option (List Char)
  | [] => some []
  | c :: rest => match quoteRune c, quoteBody rest with
    | some a, some b => some (a ++ b)
    | _, _ => none

def quoteGo (s : List Char) : T (List Char) :=
  match quoteBody s with
  | some b => .ok (['"'] ++ b ++ ['"'])
  | none => .error (.unmodelled "strconv.Quote of a code point outside the modelled IsPrint table")

-- the translator ------------------------------------------------------------------------------------

def joinWith (sep : List Char) : List (List Char) → List Char
  | [] => []
  | [x] => x
  | x :: rest => x ++ sep ++ joinWith sep rest

def opText : List Char → Option (List Char)
  | ['e','q'] => some " == ".toList | ['n','o','t'] => some " != ".toList | ['g','t'] => some " > ".toList
  | ['g','t','e'] => some " >= ".toList | ['l','t'] => some " < ".toList | ['l','t','e'] => some " <= ".toList
  | ['b','o','r'] => some " | ".toList | ['b','a','n','d'] => some " & ".toList | ['p','l','u','s'] => some " + ".toList
  | ['m','i','n','u','s'] => some " - ".toList | ['d','i','v'] => some " / ".toList | ['m','u','l'] => some " * ".toList
  | ['m','o','d'] => some " % ".toList
  | _ => none

def boolText (b : Bool) : List Char := if b then "true".toList else "false".toList

mutual
  /-- buildExpressionEx: (text, noWrap) -/
  def buildEx : Nat → J → Nat → T (List Char × Bool)
    | 0, _, _ => .error (.unmodelled "fuel")
    | fuel + 1, j, depth =>
      if depth > 1024 then bad "JSON nesting exceeded 1024 levels, aborting" else
      match j with
      | .obj .nil => bad "boolean expression cannot be empty"
      | .obj (.cons key value .nil) =>
        if key == "and".toList then compound fuel value depth " && ".toList
        else if key == "or".toList then compound fuel value depth " || ".toList
        else if key == "set".toList then do
          let s ← joinSet fuel value
          pure (s, true)
        else if key == "call".toList then do
          let s ← joinCall fuel value
          pure (s, true)
        else if key == "obj".toList then
          match value with
          | .str s => .ok (s, true)
          | _ => bad "object must be a string"
        else if key == "const".toList then
          match value with
          | .str s => do let q ← quoteGo s; pure (q, true)
          | .num b => .ok (fmtNumber b, true)
          | .bool b => .ok (boolText b, true)
          | _ => bad "constant must be a string or a numeric value"
        else match opText key with
          | some op => do
            let s ← joinOperator fuel value op
            pure (s, false)
          | none => bad "unknown operator type"
      | .obj _ => bad "expression objects can only contain a single operation type"
      | _ => .error (.unmodelled "buildExpressionEx on a non-object")

  /-- buildCompoundOperator -/
  def compound : Nat → J → Nat → List Char → T (List Char × Bool)
    | 0, _, _, _ => .error (.unmodelled "fuel")
    | fuel + 1, v, depth, op =>
      match v with
      | .arr xs =>
        if xs.length < 2 then bad "and operator must have at least 2 operands" else do
          let parts ← compoundParts fuel xs depth
          let s := joinWith op parts
          pure (if depth > 0 then (['('] ++ s ++ [')'], false) else (s, false))
      | _ => bad "compound operator must be an array"

  def compoundParts : Nat → JL → Nat → T (List (List Char))
    | 0, _, _ => .error (.unmodelled "fuel")
    | _, .nil, _ => .ok []
    | fuel + 1, .cons x rest, depth =>
      match x with
      | .obj _ => do
        let (s, _) ← buildEx fuel x (depth + 1)
        let more ← compoundParts fuel rest depth
        pure (s :: more)
      | _ => bad "and operands must be an array of objects"

  /-- parseOperand -/
  def operand : Nat → J → Bool → Bool → T (List Char)
    | 0, _, _, _ => .error (.unmodelled "fuel")
    | fuel + 1, o, noWrap, negation =>
      match o with
      | .str s => .ok s
      | .num b => .ok (fmtNumber b)
      | .bool b => .ok (boolText b)
      | .obj _ => do
        let (expr, expNoWrap) ← buildEx fuel o 0
        if expNoWrap || noWrap then pure expr
        else if negation then pure ("!(".toList ++ expr ++ [')'])
        else pure (['('] ++ expr ++ [')'])
      | _ => bad "operand has an invalid type"

  def operands : Nat → JL → Bool → T (List (List Char))
    | 0, _, _ => .error (.unmodelled "fuel")
    | _, .nil, _ => .ok []
    | fuel + 1, .cons x rest, negation => do
      let s ← operand fuel x false negation
      let more ← operands fuel rest negation
      pure (s :: more)

  /-- joinOperator -/
  def joinOperator : Nat → J → List Char → T (List Char)
    | 0, _, _ => .error (.unmodelled "fuel")
    | fuel + 1, v, op =>
      match v with
      | .arr xs =>
        if xs.length == 0 then bad "operator cannot have 0 operands" else do
          let ops ← operands fuel xs (op == " != ".toList && xs.length == 1)
          pure (joinWith op ops)
      | _ => bad "operator has an unexpected type"

  /-- joinSet -/
  def joinSet : Nat → J → T (List Char)
    | 0, _ => .error (.unmodelled "fuel")
    | fuel + 1, v =>
      match v with
      | .arr (.cons a (.cons b .nil)) => do
        let l ← operand fuel a true false
        let r ← operand fuel b true false
        pure (l ++ " = ".toList ++ r)
      | .arr _ => bad "set operand count must be 2"
      | _ => bad "operator has an unexpected type"

  /-- joinCall -/
  def joinCall : Nat → J → T (List Char)
    | 0, _ => .error (.unmodelled "fuel")
    | fuel + 1, v =>
      match v with
      | .arr .nil => bad "call operator must have at least one operand"
      | .arr (.cons (.str f) args) => do
        let as ← callOperands fuel args
        pure (f ++ ['('] ++ joinWith ", ".toList as ++ [')'])
      | .arr _ => bad "first call operand must be a string"
      | _ => bad "operator has an unexpected type"

  /-- parseCallOperand over the argument list -/
  def callOperands : Nat → JL → T (List (List Char))
    | 0, _ => .error (.unmodelled "fuel")
    | _, .nil => .ok []
    | fuel + 1, .cons x rest => do
      let s ← match x with
        | .str s => if s.isEmpty then bad "operand cannnot be empty" else pure s
        | .num b => pure (fmtNumber b)
        | .bool b => pure (boolText b)
        | .obj _ => do let (s, _) ← buildEx fuel x 0; pure s
        | _ => bad "operand has an invalid type"
      let more ← callOperands fuel rest
      pure (s :: more)
end

-- an upper bound of the recursion depth of a tree (the fuel the functions above need)
mutual
  def J.size : J → Nat
    | .arr xs => xs.size + 1
    | .obj kvs => kvs.size + 1
    | _ => 1
  def JL.size : JL → Nat
    | .nil => 1
    | .cons x r => x.size + r.size + 1
  def JKV.size : JKV → Nat
    | .nil => 1
    | .cons _ v r => v.size + r.size + 1
end

def fuelOf (j : J) : Nat := 4 * j.size + 8

/-- the fields of a GruleJSON struct after `json.Unmarshal` (absent = zero value) -/
structure RuleJ where
  name : List Char := []
  desc : List Char := []
  salience : Int := 0
  when : J := .null
  then_ : Option JL := none          -- `nil` when absent or null

def endsWithSemi (s : List Char) : Bool := s.getLast? == some ';'

def thenItems : JL → T (List (List Char))
  | .nil => .ok []
  | .cons x rest => do
    let s ← match x with
      | .str s => pure (if endsWithSemi s then s else s ++ [';'])
      | .obj _ => do let (e, _) ← buildEx (fuelOf x) x 0; pure (e ++ [';'])
      | _ => bad "invalid then type, must be a string or an array of action objects"
    let more ← thenItems rest
    pure (s :: more)

/-- parseRule -/
def parseRule (r : RuleJ) : T (List Char) :=
  if r.name.isEmpty then bad "rule name cannot be blank" else
  match r.when, r.then_ with
  | .null, _ => bad "rule when condition cannot be nil"
  | _, none => bad "rule then condition cannot be nil"
  | w, some ts => do
    let q ← quoteGo r.desc
    let when ← match w with
      | .str s => pure s
      | .obj _ => do let (e, _) ← buildEx (fuelOf w) w 0; pure e
      | _ => bad "invalid when type, must be a string or an array of condition objects"
    let thens ← thenItems ts
    pure ("rule ".toList ++ r.name ++ " ".toList ++ q ++ " salience ".toList ++ intChars r.salience ++ " {\n    when\n        ".toList ++
      when ++ "\n    then\n".toList ++ (thens.flatMap (fun t => "        ".toList ++ t ++ "\n".toList)) ++ "}\n".toList)

def parseRuleset : List RuleJ → T (List Char)
  | [] => .ok []
  | r :: rest => do
    let a ← parseRule r
    let b ← parseRuleset rest
    pure (a ++ b)

end Grule.Json

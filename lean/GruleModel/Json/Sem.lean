/-
  What a JSON rule *means*: the operator tree read directly as a GRL syntax tree, operands grouped exactly
  as they are nested (n-ary operand lists associate to the left), `obj` / raw strings = the GRL they spell
  (read by the front end), `const` = a literal, `set` / `call` = actions.
  `full…` prints such a tree with every binary node in parentheses, so that its grouping does not depend on
  any precedence table.
-/
import GruleModel.Json.Translate
import GruleModel.Syntax.Front
namespace Grule.Json
open Grule Grule.Syntax

def semOp : List Char → Option BinOp
  | ['e','q'] => some .eq | ['n','o','t'] => some .neq | ['g','t'] => some .gt | ['g','t','e'] => some .gte
  | ['l','t'] => some .lt | ['l','t','e'] => some .lte | ['b','o','r'] => some .bor | ['b','a','n','d'] => some .band
  | ['p','l','u','s'] => some .add | ['m','i','n','u','s'] => some .sub | ['d','i','v'] => some .div | ['m','u','l'] => some .mul
  | ['m','o','d'] => some .mod | ['a','n','d'] => some .and | ['o','r'] => some .or
  | _ => none

/-- a raw GRL expression -/
def rawExpr (s : List Char) : T Expr :=
  let lx := lex s
  if lx.errs > 0 then bad "raw operand does not lex" else
  match parseExpr realDec (fuelFor lx.toks) 0 lx.toks with
  | .ok (e, []) => .ok e
  | .ok _ => bad "raw operand is no single expression"
  | .error .unmodelled => .error (.unmodelled "byte escape")
  | .error _ => bad "raw operand does not parse"

/-- a raw GRL action (`…;`) -/
def rawAction (s : List Char) : T Action :=
  let lx := lex (if endsWithSemi s then s else s ++ [';'])
  if lx.errs > 0 then bad "raw action does not lex" else
  match parseAction realDec (fuelFor lx.toks) lx.toks with
  | .ok (a, []) => .ok a
  | .ok _ => bad "raw action is no single action"
  | .error .unmodelled => .error (.unmodelled "byte escape")
  | .error _ => bad "raw action does not parse"

/-- a JSON number as a GRL constant: integral values inside int64 are integer literals -/
def numConst (bits : UInt64) : Const :=
  let x := Float.ofBits bits
  if x == x.floor && x.abs < 9223372036854775808.0 then .int x.toInt64.toInt else .float bits

def foldBin (op : BinOp) : Expr → List Expr → Expr
  | acc, [] => acc
  | acc, e :: rest => foldBin op (.bin op acc e) rest

def isOperatorKey (k : List Char) : Bool := (semOp k).isSome

mutual
  /-- the expression an operator object / operand denotes -/
  def semE : Nat → J → T Expr
    | 0, _ => .error (.unmodelled "fuel")
    | fuel + 1, j =>
      match j with
      | .str s => rawExpr s
      | .num b => .ok (.atom (.const (numConst b)))
      | .bool b => .ok (.atom (.const (.bool b)))
      | .obj (.cons key value .nil) =>
        if key == "obj".toList then
          match value with
          | .str s => rawExpr s
          | _ => bad "object must be a string"
        else if key == "const".toList then
          match value with
          | .str s => .ok (.atom (.const (.str (String.ofList s))))
          | .num b => .ok (.atom (.const (numConst b)))
          | .bool b => .ok (.atom (.const (.bool b)))
          | _ => bad "constant"
        else if key == "call".toList then do
          let a ← semCall fuel value
          pure (.atom a)
        else match semOp key, value with
          | some op, .arr xs => do
            let es ← semList fuel xs
            match es with
            | [] => bad "no operands"
            | [e] =>
              -- one operand: the operand itself; `not` of an operator object is the logical negation
              match op, xs with
              | .neq, .cons (.obj (.cons k _ .nil)) .nil => if isOperatorKey k then pure (.paren true e) else pure e
              | _, _ => pure e
            | e :: rest =>
              if (op == .and || op == .or) && rest.length < 1 then bad "arity" else pure (foldBin op e rest)
          | _, _ => bad "unknown operator or operands"
      | _ => bad "not an expression"

  def semList : Nat → JL → T (List Expr)
    | 0, _ => .error (.unmodelled "fuel")
    | _, .nil => .ok []
    | fuel + 1, .cons x rest => do
      let e ← semE fuel x
      let more ← semList fuel rest
      pure (e :: more)

  /-- `{"call": [f, args…]}`: `f` is a built-in name or `receiver.method` -/
  def semCall : Nat → J → T Atom
    | 0, _ => .error (.unmodelled "fuel")
    | fuel + 1, v =>
      match v with
      | .arr (.cons (.str f) args) => do
        let es ← semList fuel args
        -- the callee: read `f()` with the front end and replace the (empty) argument list
        let lx := lex (f ++ "()".toList)
        if lx.errs > 0 then bad "callee does not lex" else
        match parseAtom realDec (fuelFor lx.toks) lx.toks with
        | .ok (.call g .nil, []) => pure (.call g (Args.ofList es))
        | .ok (.meth recv g .nil, []) => pure (.meth recv g (Args.ofList es))
        | _ => bad "callee"
      | _ => bad "call"
end

def semAction (j : J) : T Action :=
  match j with
  | .str s => rawAction s
  | .obj (.cons key value .nil) =>
    if key == "set".toList then
      match value with
      | .arr (.cons l (.cons r .nil)) => do
        let le ← semE (fuelOf l) l
        let re ← semE (fuelOf r) r
        match le with
        | .atom (.var v) => pure (.assign .set v re)
        | _ => bad "set target is no variable"
      | _ => bad "set operand count must be 2"
    else if key == "call".toList then do
      let a ← semCall (fuelOf value) value
      pure (.stmt a)
    else do
      -- any other operator object as an action: an expression statement is only legal for atoms
      let e ← semE (fuelOf j) j
      match e with
      | .atom a => pure (.stmt a)
      | _ => bad "action is no atom"
  | _ => bad "invalid then type"

def semActions : JL → T (List Action)
  | .nil => .ok []
  | .cons x rest => do
    let a ← semAction x
    let more ← semActions rest
    pure (a :: more)

/-- the rule a JSON rule denotes -/
def semRule (r : RuleJ) : T Rule :=
  if r.name.isEmpty then bad "rule name cannot be blank" else
  match r.when, r.then_ with
  | .null, _ => bad "rule when condition cannot be nil"
  | _, none => bad "rule then condition cannot be nil"
  | w, some ts => do
    let cond ← semE (fuelOf w) w
    let acts ← semActions ts
    pure { name := String.ofList r.name, desc := String.ofList r.desc, salience := r.salience, cond, acts }

end Grule.Json

namespace Grule.Json
open Grule Grule.Syntax

/-- a literal that denotes exactly the constant (floats keep a fractional part so that they stay floats) -/
def fullConst : Const → List Char
  | .float b => let s := fmtF b; if s.contains '.' then s else s ++ ".0".toList
  | c => textC (fun _ => none) c

mutual
  def printE : Expr → List Char
    | .bin op l r => ['('] ++ printE l ++ [' '] ++ op.sym.toList ++ [' '] ++ printE r ++ [')']
    | .paren neg e => (if neg then ['!'] else []) ++ ['('] ++ printE e ++ [')']
    | .atom a => printA a
  def printA : Atom → List Char
    | .const c => fullConst c
    | .var v => printV v
    | .call f args => f.toList ++ ['('] ++ printArgs args ++ [')']
    | .meth recv f args => printA recv ++ ['.'] ++ f.toList ++ ['('] ++ printArgs args ++ [')']
    | .member recv n => printA recv ++ ['.'] ++ n.toList
    | .sel recv idx => printA recv ++ ['['] ++ printE idx ++ [']']
    | .neg a => ['!'] ++ printA a
  def printV : Var → List Char
    | .root n => n.toList
    | .field v n => printV v ++ ['.'] ++ n.toList
    | .index v e => printV v ++ ['['] ++ printE e ++ [']']
  def printArgs : Args → List Char
    | .nil => []
    | .cons e .nil => printE e
    | .cons e rest => printE e ++ [',', ' '] ++ printArgs rest
end

def printAction : Action → List Char
  | .assign op v e => printV v ++ [' '] ++ op.sym.toList ++ [' '] ++ printE e ++ [';']
  | .stmt a => printA a ++ [';']

/-- the rule with every grouping explicit; the description is left out (it is compared as a value) -/
def printRule (r : Rule) : List Char :=
  "rule ".toList ++ r.name.toList ++ " salience ".toList ++ intChars r.salience ++ " { when ".toList ++ printE r.cond ++
  " then ".toList ++ (r.acts.flatMap (fun a => printAction a ++ [' '])) ++ "}\n".toList

-- parentheses that only group do not belong to the meaning
mutual
  def eraseE : Expr → Expr
    | .bin op l r => .bin op (eraseE l) (eraseE r)
    | .paren false e => eraseE e
    | .paren true e => .paren true (eraseE e)
    | .atom a => .atom (eraseA a)
  def eraseA : Atom → Atom
    | .const c => .const c
    | .var v => .var (eraseV v)
    | .call f args => .call f (eraseArgs args)
    | .meth recv f args => .meth (eraseA recv) f (eraseArgs args)
    | .member recv n => .member (eraseA recv) n
    | .sel recv idx => .sel (eraseA recv) (eraseE idx)
    | .neg a => .neg (eraseA a)
  def eraseV : Var → Var
    | .root n => .root n
    | .field v n => .field (eraseV v) n
    | .index v e => .index (eraseV v) (eraseE e)
  def eraseArgs : Args → Args
    | .nil => .nil
    | .cons e rest => .cons (eraseE e) (eraseArgs rest)
end

def eraseAction : Action → Action
  | .assign op v e => .assign op (eraseV v) (eraseE e)
  | .stmt a => .stmt (eraseA a)

def eraseRule (r : Rule) : Rule := { r with cond := eraseE r.cond, acts := r.acts.map eraseAction }

end Grule.Json

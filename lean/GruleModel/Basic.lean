def hello := "world"

/-
  ast/KnowledgeBase.go (KnowledgeLibrary, KnowledgeBase), builder/RuleBuilder.go and the
  registering side of antlr/GruleParserV3Listener.go: which nodes enter the working memory, in
  which order, and what `AddRuleEntry` / `RemoveRuleEntry` / `NewKnowledgeBaseInstance` do.
-/
import GruleModel.Engine
namespace Grule

def wmAdd (k txt : Snap) (l : List (Snap × Snap)) : List (Snap × Snap) :=
  if (snapGet k l).isSome then l else l ++ [(k, txt)]

-- registration in listener (exit) order: children first
mutual
  def regE (ft : LitText) (w : WM) : Expr → WM
    | .bin op l r =>
      let w := regE ft w l
      let w := regE ft w r
      { w with exprs := wmAdd (snapE (.bin op l r)) (textE ft (.bin op l r)) w.exprs }
    | .paren neg e =>
      let w := regE ft w e
      { w with exprs := wmAdd (snapE (.paren neg e)) (textE ft (.paren neg e)) w.exprs }
    | .atom a =>
      let w := regA ft w a
      { w with exprs := wmAdd (snapE (.atom a)) (textE ft (.atom a)) w.exprs }
  def regA (ft : LitText) (w : WM) : Atom → WM
    | .const k => { w with atoms := wmAdd (snapA (.const k)) (textA ft (.const k)) w.atoms }
    | .var v =>
      let w := regV ft w v
      { w with atoms := wmAdd (snapA (.var v)) (textA ft (.var v)) w.atoms }
    | .call f args =>
      let w := regArgs ft w args
      { w with atoms := wmAdd (snapA (.call f args)) (textA ft (.call f args)) w.atoms }
    | .meth recv f args =>
      let w := regA ft w recv
      let w := regArgs ft w args
      { w with atoms := wmAdd (snapA (.meth recv f args)) (textA ft (.meth recv f args)) w.atoms }
    | .member recv n =>
      let w := regA ft w recv
      { w with atoms := wmAdd (snapA (.member recv n)) (textA ft (.member recv n)) w.atoms }
    | .sel recv idx =>
      let w := regA ft w recv
      let w := regE ft w idx
      { w with atoms := wmAdd (snapA (.sel recv idx)) (textA ft (.sel recv idx)) w.atoms }
    | .neg a =>
      let w := regA ft w a
      { w with atoms := wmAdd (snapA (.neg a)) (textA ft (.neg a)) w.atoms }
  def regV (ft : LitText) (w : WM) : Var → WM
    | .root n => { w with vars := wmAdd (snapV (.root n)) (textV ft (.root n)) w.vars }
    | .field v n =>
      let w := regV ft w v
      { w with vars := wmAdd (snapV (.field v n)) (textV ft (.field v n)) w.vars }
    | .index v e =>
      let w := regV ft w v
      let w := regE ft w e
      { w with vars := wmAdd (snapV (.index v e)) (textV ft (.index v e)) w.vars }
  def regArgs (ft : LitText) (w : WM) : Args → WM
    | .nil => w
    | .cons e rest => regArgs ft (regE ft w e) rest
end

def regAction (ft : LitText) (w : WM) : Action → WM
  | .assign _ v e => regE ft (regV ft w v) e
  | .stmt a => regA ft w a

def regRule (ft : LitText) (w : WM) (r : Rule) : WM :=
  r.acts.foldl (regAction ft) (regE ft w r.cond)

structure KB where
  name : String
  version : String
  entries : List RuleEntry := []
  wm : WM := {}
  deriving Repr, Inhabited

def KB.contains (kb : KB) (key : String) : Bool := kb.entries.any (·.key == key)

/-- what one grammatical resource does to the knowledge base; `errs` = number of errors reported.
    `grlOrder` is the iteration order of `Grl.RuleEntries` in `ExitGrl` (a Go map): a permutation
    oracle; duplicates inside the resource were already dropped by `ReceiveRuleEntry`. -/
def KB.addRules (kb : KB) (rules : List Rule) : KB × Nat :=
  -- Grl.ReceiveRuleEntry: first occurrence of a name wins, later ones are errors
  let step := fun (acc : List Rule × Nat) (r : Rule) =>
    if acc.1.any (·.name == r.name) then (acc.1, acc.2 + 1) else (acc.1 ++ [r], acc.2)
  let (grl, e1) := rules.foldl step ([], 0)
  -- ExitGrl: KnowledgeBase.AddRuleEntry
  let step2 := fun (acc : KB × Nat) (r : Rule) =>
    if acc.1.contains r.name then (acc.1, acc.2 + 1)
    else ({ acc.1 with entries := acc.1.entries ++ [{ key := r.name, rule := r }] }, acc.2)
  grl.foldl step2 (kb, e1)

/-- BuildRuleFromResource on a text that parses to `rules` -/
def KB.build (ft : LitText) (kb : KB) (rules : List Rule) : KB × Nat :=
  let wm := rules.foldl (regRule ft) kb.wm
  let (kb', errs) := ({ kb with wm := wm }).addRules rules
  ({ kb' with wm := kb'.wm.indexVariables }, errs)

/-- KnowledgeBase.RemoveRuleEntry (on a knowledge base or an instance) -/
def removeEntry (newName : String → String) (entries : List RuleEntry) (name : String) : List RuleEntry :=
  match entries.find? (·.key == name) with
  | none => entries
  | some e =>
    let nn := newName e.rule.name
    let e' : RuleEntry := { key := nn, rule := { e.rule with name := nn }, deleted := true }
    -- delete(map, name); map[nn] = e'   (an existing entry under nn is overwritten)
    (entries.filter (fun x => x.key != name && x.key != nn)) ++ [e']

def KB.remove (kb : KB) (name : String) : KB :=
  { kb with entries := removeEntry (fun n => "Deleted_" ++ n) kb.entries name }

/-- KnowledgeLibrary.RemoveRuleEntry: the new name is `Deleted_<fresh uuid>` -/
def KB.removeLib (kb : KB) (uuid : String) (name : String) : KB :=
  { kb with entries := removeEntry (fun _ => "Deleted_" ++ uuid) kb.entries name }

/-- all working-memory keys reachable from the rule entries (what `Clone` puts on the clone table) -/
def reachableWM (entries : List RuleEntry) : WM :=
  entries.foldl (fun w e => regRule (fun _ => none) w e.rule) {}

def keysSubset (a b : List (Snap × Snap)) : Bool := a.all (fun (k, _) => (snapGet k b).isSome)

def hasKey (k : Snap) (l : List (Snap × Snap)) : Bool := (snapGet k l).isSome

/-- the part of a working memory whose nodes are reachable from the given entries: what `Clone` and
    `MakeCatalog` keep (unreachable nodes — left behind by a rejected resource or an overwritten
    tomb-stone — are garbage) -/
def WM.restrict (w : WM) (entries : List RuleEntry) : WM :=
  let r := reachableWM entries
  { exprs := w.exprs.filter (fun (k, _) => hasKey k r.exprs)
    atoms := w.atoms.filter (fun (k, _) => hasKey k r.atoms)
    vars := w.vars.filter (fun (k, _) => hasKey k r.vars)
    exprIdx := (w.exprIdx.filter (fun (v, _) => hasKey v r.vars)).map (fun (v, es) => (v, es.filter (fun k => hasKey k r.exprs)))
    atomIdx := (w.atomIdx.filter (fun (v, _) => hasKey v r.vars)).map (fun (v, as) => (v, as.filter (fun k => hasKey k r.atoms))) }

/-- NewKnowledgeBaseInstance: every rule entry (removed ones included, with their flag) and the reachable
    part of the working memory -/
def KB.instantiate (kb : KB) : Option Instance :=
  some { entries := kb.entries, wm := kb.wm.restrict kb.entries }

/-- StoreKnowledgeBaseToWriter followed by LoadKnowledgeBaseFromReader, at the level of knowledge bases:
    removed entries are not stored; the working memory is restricted to what the stored entries reach -/
def KB.storeLoad (kb : KB) : KB :=
  let live := kb.entries.filter (fun e => !e.deleted)
  { kb with entries := live.map (fun e => { e with key := e.rule.name }), wm := kb.wm.restrict live }

end Grule

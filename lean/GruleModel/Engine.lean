/-
  engine/GruleEngine.go: ExecuteWithContext and FetchMatchingRules; ast/RuleEntry.go: Evaluate/Execute.

  Go map iteration order is an oracle (`order`): for every pass over `RuleEntries` (one per cycle)
  the list of entry keys in the order visited. Cancellation is an oracle too (`cancelAt`): the index
  of the first `ctx.Err()` poll that reports an error (polls are counted in code order).
-/
import GruleModel.Eval
namespace Grule

structure RuleEntry where
  key : String          -- key in KnowledgeBase.RuleEntries
  rule : Rule           -- rule.name is RuleEntry.RuleName (renamed `Deleted_…` on removal)
  deleted : Bool := false
  deriving Repr, Inhabited

/-- a knowledge-base instance: rules, working memory and what persists between calls -/
structure Instance where
  entries : List RuleEntry
  wm : WM
  memoE : Memo := []
  memoA : Memo := []
  retracted : List String := []    -- RuleNames whose entries carry Retracted = true
  deriving Repr, Inhabited

inductive Outcome
  | ok
  | cycleLimit
  | ctx                               -- exactly ctx.Err()
  | evalErr (rule : String) (wrapsCtx : Bool)
  | actionErr (rule : String) (wrapsCtx : Bool)
  | unmodelled (msg : String)
  deriving DecidableEq, Repr, Inhabited

inductive TEv
  | begin (c : Nat)
  | eval (c : Nat) (rule : String) (cand : Bool)
  | exec (c : Nat) (rule : String)
  deriving DecidableEq, Repr, Inhabited

structure RunCfg where
  maxCycle : Nat
  retErr : Bool := false
  cancelAt : Option Nat := none
  /-- a listener cancels the context while it handles its k-th callback (0-based) -/
  cancelAtEvent : Option Nat := none
  order : Nat → Option (List String) := fun _ => none   -- pass number (0-based) ↦ keys in visiting order
  deriving Inhabited

structure LoopState where
  es : EState
  polls : Nat := 0
  passes : Nat := 0
  trace : List TEv := []     -- newest first
  deriving Repr, Inhabited

def LoopState.emit (ls : LoopState) (e : TEv) : LoopState := { ls with trace := e :: ls.trace }

/-- one `if ctx.Err() != nil { return … ctx.Err() }` site: one call, and a second one to build the
    returned error when the first reports cancellation -/
def poll (rc : RunCfg) (ls : LoopState) : Bool × LoopState :=
  let c := ls.es.cancelled || (match rc.cancelAt with | some k => decide (k ≤ ls.polls) | none => false)
    || (match rc.cancelAtEvent with | some k => decide (k < ls.trace.length) | none => false)
  (c, { ls with polls := ls.polls + (if c then 2 else 1) })

def isRetracted (es : EState) (e : RuleEntry) : Bool := es.retracted.contains e.rule.name

/-- entries in the order the oracle dictates for this pass (keys it does not mention keep their
    relative order at the end; unknown keys are ignored) -/
def orderEntries (ord : Option (List String)) (entries : List RuleEntry) : List RuleEntry :=
  match ord with
  | none => entries
  | some ks =>
    let named := ks.filterMap (fun k => entries.find? (fun e => e.key == k))
    named ++ entries.filter (fun e => !ks.contains e.key)

inductive CondResult | cand (b : Bool) | failed | unmodelled (m : String)
  deriving Repr

/-- RuleEntry.Evaluate after its context poll: (can, err≠nil) -/
def evalCond (c : Cfg) (es : EState) (e : RuleEntry) : CondResult × EState :=
  if isRetracted es e then (.cand false, es) else
  match evalE c es e.rule.cond with
  | (.ok (.bool b), es') => (.cand b, es')
  | (.ok _, es') => (.failed, es')                 -- "the when is not a boolean expression"
  | (.error (.unmodelled m), es') => (.unmodelled m, es')
  | (.error _, es') => (.failed, es')              -- error value or recovered panic

/-- the `for _, ruleEntry := range knowledge.RuleEntries` pass of one cycle -/
def evalPass (rc : RunCfg) (c : Cfg) (cycle : Nat) :
    List RuleEntry → LoopState → List RuleEntry → Option Outcome × LoopState × List RuleEntry
  | [], ls, acc => (none, ls, acc)
  | e :: rest, ls, acc =>
    let (cancelled, ls) := poll rc ls
    if cancelled then (some .ctx, ls, acc) else
    if isRetracted ls.es e || e.deleted then evalPass rc c cycle rest ls acc else
    -- RuleEntry.Evaluate
    let (cancelled, ls) := poll rc ls
    if cancelled then
      if rc.retErr then (some (.evalErr e.rule.name true), ls, acc)
      else evalPass rc c cycle rest (ls.emit (.eval cycle e.rule.name false)) acc
    else
      match evalCond c ls.es e with
      | (.unmodelled m, es') => (some (.unmodelled m), { ls with es := es' }, acc)
      | (.failed, es') =>
        let ls := { ls with es := es' }
        if rc.retErr then (some (.evalErr e.rule.name false), ls, acc)
        else evalPass rc c cycle rest (ls.emit (.eval cycle e.rule.name false)) acc
      | (.cand b, es') =>
        let ls := { ls with es := es' }
        evalPass rc c cycle rest (ls.emit (.eval cycle e.rule.name b)) (if b then acc ++ [e] else acc)

/-- the salience scan: first entry of maximal salience -/
def pickRunner : RuleEntry → List RuleEntry → RuleEntry
  | r, [] => r
  | r, p :: rest => if r.rule.salience < p.rule.salience then pickRunner p rest else pickRunner r rest

/-- the `for { … }` loop; `fuel` iterations remain, `cycle` firings so far -/
def runLoop (rc : RunCfg) (c : Cfg) (entries : List RuleEntry) : Nat → Nat → LoopState → Outcome × LoopState
  | 0, _, ls => (.unmodelled "fuel exhausted", ls)     -- unreachable with fuel = maxCycle + 1
  | fuel + 1, cycle, ls =>
    let (cancelled, ls) := poll rc ls
    if cancelled then (.ctx, ls) else
    let ls := ls.emit (.begin (cycle + 1))
    let ord := orderEntries (rc.order ls.passes) entries
    let ls := { ls with passes := ls.passes + 1 }
    match evalPass rc c (cycle + 1) ord ls [] with
    | (some out, ls, _) => (out, ls)
    | (none, ls, acc) =>
      -- the context is checked once more after the pass
      let (cancelled, ls) := poll rc ls
      if cancelled then (.ctx, ls) else
      match acc with
      | [] => (.ok, ls)
      | r0 :: rs =>
      let cycle := cycle + 1
      if cycle > rc.maxCycle then (.cycleLimit, ls) else
      let runner := pickRunner r0 rs
      let ls := ls.emit (.exec cycle runner.rule.name)
      -- RuleEntry.Execute
      let (cancelled, ls) := poll rc ls
      if cancelled then (.actionErr runner.rule.name true, ls) else
      match execActions c ls.es 0 runner.rule.acts with
      | (.error (.unmodelled m), es') => (.unmodelled m, { ls with es := es' })
      | (.error _, es') => (.actionErr runner.rule.name false, { ls with es := es' })
      | (.ok _, es') =>
        let ls := { ls with es := es' }
        if es'.complete then (.ok, ls) else runLoop rc c entries fuel cycle ls

structure RunResult where
  outcome : Outcome
  trace : List TEv          -- oldest first
  store : Store
  inst : Instance
  polls : Nat
  log : List Ev             -- oldest first
  deriving Repr, Inhabited

def mkCfg (memo : Bool) (tab : BinOp → OpTable) (cells : SetCells) (methods : MethodTable) (wm : WM) : Cfg :=
  { memo, tab, cells, methods, wm }

/-- GruleEngine.ExecuteWithContext -/
def execute (rc : RunCfg) (c : Cfg) (inst : Instance) (st : Store) : RunResult :=
  -- WorkingMemory.ResetAll(); knowledge.Reset()
  let es0 : EState := resetAll { st := st, memoE := inst.memoE, memoA := inst.memoA, retracted := [] }
  let (out, ls) := runLoop rc c inst.entries (rc.maxCycle + 1) 0 { es := es0 }
  { outcome := out, trace := ls.trace.reverse, store := ls.es.st, polls := ls.polls, log := ls.es.log.reverse,
    inst := { inst with memoE := ls.es.memoE, memoA := ls.es.memoA, retracted := ls.es.retracted } }

-- FetchMatchingRules --------------------------------------------------------------------------

/-- sort.SliceStable(runnable, salience descending) -/
def insertStable (e : RuleEntry) : List RuleEntry → List RuleEntry
  | [] => [e]
  | x :: rest => if e.rule.salience ≥ x.rule.salience then e :: x :: rest else x :: insertStable e rest

def sortStable (l : List RuleEntry) : List RuleEntry := l.foldr insertStable []

def fetchPass (retErr : Bool) (c : Cfg) : List RuleEntry → EState → List RuleEntry → Option Outcome × EState × List RuleEntry
  | [], es, acc => (none, es, acc)
  | e :: rest, es, acc =>
    if e.deleted then fetchPass retErr c rest es acc else
    match evalCond c es e with
    | (.unmodelled m, es') => (some (.unmodelled m), es', acc)
    | (.failed, es') => if retErr then (some (.evalErr e.rule.name false), es', acc) else fetchPass retErr c rest es' acc
    | (.cand b, es') => fetchPass retErr c rest es' (if b then acc ++ [e] else acc)

structure FetchResult where
  outcome : Outcome
  rules : List RuleEntry
  store : Store
  inst : Instance
  deriving Repr, Inhabited

/-- GruleEngine.FetchMatchingRules: ResetAll and knowledge.Reset() -/
def fetch (retErr : Bool) (order : Option (List String)) (c : Cfg) (inst : Instance) (st : Store) : FetchResult :=
  let es0 : EState := resetAll { st := st, memoE := inst.memoE, memoA := inst.memoA, retracted := [] }
  let (out, es, acc) := fetchPass retErr c (orderEntries order inst.entries) es0 []
  let inst' := { inst with memoE := es.memoE, memoA := es.memoA, retracted := es.retracted }
  match out with
  | some o => { outcome := o, rules := [], store := es.st, inst := inst' }
  | none => { outcome := .ok, rules := sortStable acc, store := es.st, inst := inst' }

end Grule

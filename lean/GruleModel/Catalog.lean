/-
  The catalog stream: records by schema, the frame, and the loader's treatment of decode errors.
-/
import GruleModel.WireSchema
namespace Grule.Wire

inductive MV
  | str (b : Bytes)
  | u64 (n : Nat)
  | bool (b : Bool)
  | rawBool (b : Bytes) (flag : Bool)
  | strs (l : List Bytes)
  deriving DecidableEq, Repr, Inhabited

def MV.fits : Fld → MV → Prop
  | .str, .str b => b.length < 2 ^ 64
  | .u64, .u64 n => n < 2 ^ 64
  | .bool, .bool _ => True
  | .rawBool, .rawBool b _ => b.length < 2 ^ 64
  | .strs, .strs l => l.length < 2 ^ 64 ∧ ∀ b ∈ l, b.length < 2 ^ 64
  | _, _ => False

def encMV : MV → Bytes
  | .str b => encBytes b
  | .u64 n => encU64 n
  | .bool b => encBool b
  | .rawBool b f => encBytes b ++ encBool f
  | .strs l => encCounted encBytes l

def mapDec {α β : Type} (f : α → β) (d : Dec α) : Dec β := fun bs =>
  match d bs with
  | .error e => .error e
  | .ok (a, r) => .ok (f a, r)

def decFld : Fld → Dec MV
  | .str => mapDec .str decBytes
  | .u64 => mapDec .u64 decU64
  | .bool => mapDec .bool decBool
  | .rawBool => mapDec (fun p => .rawBool p.1 p.2) (seqDec decBytes (fun _ => decBool))
  | .strs => mapDec .strs (decCounted decBytes)

theorem wb_fld (f : Fld) : WB (MV.fits f) encMV (decFld f) := by
  cases f with
  | str =>
    constructor
    · intro a rest h
      cases a <;> simp only [MV.fits] at h
      simp only [decFld, mapDec, encMV, wb_bytes.roundtrip _ rest h]
    · intro a k h hk
      cases a <;> simp only [MV.fits] at h
      obtain ⟨e, he⟩ := wb_bytes.prefixFails _ k h hk
      exact ⟨e, by simp only [decFld, mapDec, encMV, he]⟩
  | u64 =>
    constructor
    · intro a rest h
      cases a <;> simp only [MV.fits] at h
      simp only [decFld, mapDec, encMV, wb_u64.roundtrip _ rest h]
    · intro a k h hk
      cases a <;> simp only [MV.fits] at h
      obtain ⟨e, he⟩ := wb_u64.prefixFails _ k h hk
      exact ⟨e, by simp only [decFld, mapDec, encMV, he]⟩
  | bool =>
    constructor
    · intro a rest h
      cases a <;> simp only [MV.fits] at h
      simp only [decFld, mapDec, encMV, wb_bool.roundtrip _ rest trivial]
    · intro a k h hk
      cases a <;> simp only [MV.fits] at h
      obtain ⟨e, he⟩ := wb_bool.prefixFails _ k trivial hk
      exact ⟨e, by simp only [decFld, mapDec, encMV, he]⟩
  | rawBool =>
    have hs := wb_seq (okb := fun _ (_ : Bool) => True) (eb := fun _ f => encBool f) wb_bytes (fun _ _ => wb_bool)
    constructor
    · intro a rest h
      cases a <;> simp only [MV.fits] at h
      rename_i b f
      have := hs.roundtrip (b, f) rest ⟨h, trivial⟩
      simp only at this
      simp only [decFld, mapDec, encMV, this]
    · intro a k h hk
      cases a <;> simp only [MV.fits] at h
      rename_i b f
      obtain ⟨e, he⟩ := hs.prefixFails (b, f) k ⟨h, trivial⟩ hk
      simp only at he
      exact ⟨e, by simp only [decFld, mapDec, encMV, he]⟩
  | strs =>
    have hc := wb_counted wb_bytes
    constructor
    · intro a rest h
      cases a <;> simp only [MV.fits] at h
      simp only [decFld, mapDec, encMV, hc.roundtrip _ rest h]
    · intro a k h hk
      cases a <;> simp only [MV.fits] at h
      obtain ⟨e, he⟩ := hc.prefixFails _ k h hk
      exact ⟨e, by simp only [decFld, mapDec, encMV, he]⟩

/-- a record: the fields one after the other -/
def decSchema : List Fld → Dec (List MV)
  | [] => fun bs => .ok ([], bs)
  | f :: fs => fun bs =>
    match decFld f bs with
    | .error e => .error e
    | .ok (v, rest) =>
      match decSchema fs rest with
      | .error e => .error e
      | .ok (vs, rest') => .ok (v :: vs, rest')

def Fits : List Fld → List MV → Prop
  | [], [] => True
  | f :: fs, v :: vs => MV.fits f v ∧ Fits fs vs
  | _, _ => False

theorem wb_schema : ∀ (s : List Fld), WB (Fits s) (encList encMV) (decSchema s)
  | [] => by
    constructor
    · intro l rest h
      cases l with
      | nil => rfl
      | cons => simp [Fits] at h
    · intro l k h hk
      cases l with
      | nil => simp [encList] at hk
      | cons => simp [Fits] at h
  | f :: fs => by
    have ih := wb_schema fs
    have hf := wb_fld f
    constructor
    · intro l rest h
      cases l with
      | nil => simp [Fits] at h
      | cons v vs =>
        simp only [Fits] at h
        simp only [encList, decSchema]
        rw [List.append_assoc, hf.roundtrip v _ h.1]
        simp only
        rw [ih.roundtrip vs rest h.2]
    · intro l k h hk
      cases l with
      | nil => simp [Fits] at h
      | cons v vs =>
        simp only [Fits] at h
        simp only [encList, decSchema] at hk ⊢
        by_cases hlt : k < (encMV v).length
        · obtain ⟨e, he⟩ := hf.prefixFails v k h.1 hlt
          rw [List.take_append_of_le_length (Nat.le_of_lt hlt), he]
          exact ⟨e, rfl⟩
        · have hle : (encMV v).length ≤ k := Nat.le_of_not_lt hlt
          rw [List.take_append, List.take_of_length_le hle, hf.roundtrip v _ h.1]
          simp only
          have : k - (encMV v).length < (encList encMV vs).length := by
            simp only [List.length_append] at hk; omega
          obtain ⟨e, he⟩ := ih.prefixFails vs _ h.2 this
          rw [he]
          exact ⟨e, rfl⟩

end Grule.Wire

namespace Grule.Wire

-- more combinators ----------------------------------------------------------------------------------------

def pairDec {α β : Type} (da : Dec α) (db : Dec β) : Dec (α × β) := seqDec da (fun _ => db)

theorem wb_pair {α β : Type} {oka : α → Prop} {okb : β → Prop} {ea : α → Bytes} {eb : β → Bytes} {da : Dec α} {db : Dec β}
    (ha : WB oka ea da) (hb : WB okb eb db) :
    WB (fun p : α × β => oka p.1 ∧ okb p.2) (fun p => ea p.1 ++ eb p.2) (pairDec da db) :=
  wb_seq (okb := fun _ b => okb b) (eb := fun _ b => eb b) ha (fun _ _ => hb)

/-- a decoded value that must satisfy a check (the format version) -/
def guardDec {α : Type} (d : Dec α) (p : α → Bool) : Dec α := fun bs =>
  match d bs with
  | .error e => .error e
  | .ok (a, r) => if p a then .ok (a, r) else .error (.bad "check failed")

theorem wb_guard {α : Type} {ok : α → Prop} {e : α → Bytes} {d : Dec α} (h : WB ok e d) (p : α → Bool) :
    WB (fun a => ok a ∧ p a = true) e (guardDec d p) := by
  constructor
  · rintro a rest ⟨h1, h2⟩
    simp only [guardDec, h.roundtrip a rest h1, h2, if_true]
  · rintro a k ⟨h1, _⟩ hk
    obtain ⟨er, he⟩ := h.prefixFails a k h1 hk
    exact ⟨er, by simp only [guardDec, he]⟩

-- records and the frame ---------------------------------------------------------------------------------------

/-- key, node type, (AstID, GrlText, Snapshot), fields -/
abbrev MetaT := Bytes × (Nat × ((Bytes × (Bytes × Bytes)) × List MV))

def okBytes (b : Bytes) : Prop := b.length < 2 ^ 64

def metaBodyDec (ty : Nat) : Dec ((Bytes × (Bytes × Bytes)) × List MV) :=
  match schemaOf ty with
  | none => fun _ => .error (.bad "unknown meta number")
  | some (_, s) => pairDec (pairDec decBytes (pairDec decBytes decBytes)) (decSchema s)

def metaBodyEnc (p : (Bytes × (Bytes × Bytes)) × List MV) : Bytes :=
  (encBytes p.1.1 ++ (encBytes p.1.2.1 ++ encBytes p.1.2.2)) ++ encList encMV p.2

def metaBodyOk (ty : Nat) (p : (Bytes × (Bytes × Bytes)) × List MV) : Prop :=
  ∃ n s, schemaOf ty = some (n, s) ∧ (okBytes p.1.1 ∧ okBytes p.1.2.1 ∧ okBytes p.1.2.2) ∧ Fits s p.2

theorem wb_metaBody (ty : Nat) : WB (metaBodyOk ty) metaBodyEnc (metaBodyDec ty) := by
  cases hs : schemaOf ty with
  | none =>
    constructor
    · rintro a rest ⟨n, s, h, _⟩; rw [hs] at h; cases h
    · rintro a k ⟨n, s, h, _⟩; rw [hs] at h; cases h
  | some ns =>
    obtain ⟨n, s⟩ := ns
    have h3 := wb_pair (wb_pair wb_bytes (wb_pair wb_bytes wb_bytes)) (wb_schema s)
    constructor
    · rintro a rest ⟨n', s', h, hb, hf⟩
      rw [hs] at h; cases h
      simp only [metaBodyDec, hs]
      exact h3.roundtrip a rest ⟨⟨hb.1, hb.2.1, hb.2.2⟩, hf⟩
    · rintro a k ⟨n', s', h, hb, hf⟩ hk
      rw [hs] at h; cases h
      simp only [metaBodyDec, hs]
      exact h3.prefixFails a k ⟨⟨hb.1, hb.2.1, hb.2.2⟩, hf⟩ hk

def metaDec : Dec MetaT := pairDec decBytes (seqDec decU64 metaBodyDec)
def metaEnc (m : MetaT) : Bytes := encBytes m.1 ++ (encU64 m.2.1 ++ metaBodyEnc m.2.2)
def metaOk (m : MetaT) : Prop := okBytes m.1 ∧ (m.2.1 < 2 ^ 64 ∧ metaBodyOk m.2.1 m.2.2)

theorem wb_meta : WB metaOk metaEnc metaDec :=
  wb_pair wb_bytes (wb_seq (okb := metaBodyOk) (eb := fun _ b => metaBodyEnc b) wb_u64 (fun ty _ => wb_metaBody ty))

abbrev StrMap := List (Bytes × Bytes)
abbrev StrListMap := List (Bytes × List Bytes)

def strMapDec : Dec StrMap := decCounted (pairDec decBytes decBytes)
def strMapEnc : StrMap → Bytes := encCounted (fun p => encBytes p.1 ++ encBytes p.2)
def strMapOk (m : StrMap) : Prop := m.length < 2 ^ 64 ∧ ∀ p ∈ m, okBytes p.1 ∧ okBytes p.2
theorem wb_strMap : WB strMapOk strMapEnc strMapDec := wb_counted (wb_pair wb_bytes wb_bytes)

def strListMapDec : Dec StrListMap := decCounted (pairDec decBytes (decCounted decBytes))
def strListMapEnc : StrListMap → Bytes := encCounted (fun p => encBytes p.1 ++ encCounted encBytes p.2)
def strListMapOk (m : StrListMap) : Prop :=
  m.length < 2 ^ 64 ∧ ∀ p ∈ m, okBytes p.1 ∧ (p.2.length < 2 ^ 64 ∧ ∀ b ∈ p.2, okBytes b)
theorem wb_strListMap : WB strListMapOk strListMapEnc strListMapDec :=
  wb_counted (wb_pair wb_bytes (wb_counted wb_bytes))

/-- "1.8" -/
def versionBytes : Bytes := [49, 46, 56]

/-- the catalog: format version, knowledge base name and version, the node table, the working memory's name
    and version and its five maps -/
abbrev CatalogT :=
  Bytes × (Bytes × (Bytes × (List MetaT × (Bytes × (Bytes × (StrMap × (StrMap × (StrMap × (StrListMap × StrListMap)))))))))

def catalogDec : Dec CatalogT :=
  pairDec (guardDec decBytes (fun v => v == versionBytes))
    (pairDec decBytes (pairDec decBytes (pairDec (decCounted metaDec) (pairDec decBytes (pairDec decBytes
      (pairDec strMapDec (pairDec strMapDec (pairDec strMapDec (pairDec strListMapDec strListMapDec)))))))))

def catalogEnc (c : CatalogT) : Bytes :=
  encBytes c.1 ++ (encBytes c.2.1 ++ (encBytes c.2.2.1 ++ (encCounted metaEnc c.2.2.2.1 ++ (encBytes c.2.2.2.2.1 ++
    (encBytes c.2.2.2.2.2.1 ++ (strMapEnc c.2.2.2.2.2.2.1 ++ (strMapEnc c.2.2.2.2.2.2.2.1 ++ (strMapEnc c.2.2.2.2.2.2.2.2.1 ++
      (strListMapEnc c.2.2.2.2.2.2.2.2.2.1 ++ strListMapEnc c.2.2.2.2.2.2.2.2.2.2)))))))))

def catalogOk (c : CatalogT) : Prop :=
  (okBytes c.1 ∧ (c.1 == versionBytes) = true) ∧ (okBytes c.2.1 ∧ (okBytes c.2.2.1 ∧
    ((c.2.2.2.1.length < 2 ^ 64 ∧ ∀ m ∈ c.2.2.2.1, metaOk m) ∧ (okBytes c.2.2.2.2.1 ∧ (okBytes c.2.2.2.2.2.1 ∧
      (strMapOk c.2.2.2.2.2.2.1 ∧ (strMapOk c.2.2.2.2.2.2.2.1 ∧ (strMapOk c.2.2.2.2.2.2.2.2.1 ∧
        (strListMapOk c.2.2.2.2.2.2.2.2.2.1 ∧ strListMapOk c.2.2.2.2.2.2.2.2.2.2)))))))))

theorem wb_catalog : WB catalogOk catalogEnc catalogDec := by
  unfold catalogOk catalogEnc catalogDec okBytes
  exact wb_pair (wb_guard wb_bytes (fun v => v == versionBytes))
    (wb_pair wb_bytes (wb_pair wb_bytes (wb_pair (wb_counted wb_meta) (wb_pair wb_bytes (wb_pair wb_bytes
      (wb_pair wb_strMap (wb_pair wb_strMap (wb_pair wb_strMap (wb_pair wb_strListMap wb_strListMap)))))))))

/-- LoadKnowledgeBaseFromReader's reading phase: any decode error is an error -/
def loadBytes (bs : Bytes) : Except DErr CatalogT :=
  match catalogDec bs with
  | .ok (c, _) => .ok c
  | .error e => .error e

end Grule.Wire

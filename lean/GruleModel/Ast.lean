/-
  GRL abstract syntax, as the listener builds it (antlr/GruleParserV3Listener.go, ast/*.go).
  Argument lists are their own inductive (no `List Expr` nesting) so that structural recursion,
  `induction` and `deriving DecidableEq` work on the mutual block.
-/
import GruleModel.Value
namespace Grule

inductive BinOp
  | mul | div | mod | add | sub | band | bor | gt | lt | gte | lte | eq | neq | and | or
  deriving DecidableEq, Repr, Inhabited

inductive Const
  | str (s : String)
  | int (i : Int)
  | float (bits : UInt64)
  | bool (b : Bool)
  | nil
  deriving DecidableEq, Repr, Inhabited

mutual
  inductive Expr
    | bin (op : BinOp) (l r : Expr)
    | paren (neg : Bool) (e : Expr)          -- `( e )` / `!( e )`: a SingleExpression wrapper
    | atom (a : Atom)
  inductive Atom
    | const (c : Const)
    | var (v : Var)
    | call (f : String) (args : Args)                  -- built-in (DEFUNC) call
    | meth (recv : Atom) (f : String) (args : Args)    -- recv.f(args)
    | member (recv : Atom) (name : String)             -- recv.name  (after a call or selector)
    | sel (recv : Atom) (idx : Expr)                   -- recv[idx]
    | neg (a : Atom)                                   -- !a
  inductive Var
    | root (n : String)
    | field (v : Var) (n : String)
    | index (v : Var) (e : Expr)
  inductive Args
    | nil
    | cons (e : Expr) (rest : Args)
end

deriving instance Repr for Expr, Atom, Var, Args
instance : Inhabited Expr := ⟨.atom (.const .nil)⟩
instance : Inhabited Atom := ⟨.const .nil⟩
instance : Inhabited Var := ⟨.root ""⟩
instance : Inhabited Args := ⟨.nil⟩

inductive AssignOp | set | add | sub | mul | div
  deriving DecidableEq, Repr, Inhabited

inductive Action
  | assign (op : AssignOp) (target : Var) (rhs : Expr)
  | stmt (a : Atom)
  deriving Repr, Inhabited

structure Rule where
  name : String
  desc : String
  salience : Int
  cond : Expr
  acts : List Action
  deriving Repr, Inhabited

def Args.toList : Args → List Expr
  | .nil => []
  | .cons e r => e :: r.toList

def Args.ofList : List Expr → Args
  | [] => .nil
  | e :: r => .cons e (Args.ofList r)

end Grule

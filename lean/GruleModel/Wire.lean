/-
  The binary knowledge-base format (ast/Serializer.go): a flat sequence of four primitives
  (u64 little endian, length-prefixed bytes, one-byte bool, f64 bits), per-node-type field sequences
  (`Schema`, tied to the Go source by the T3 extractor), and the catalog frame.

  Decoders are functions `List UInt8 → Except DErr (α × List UInt8)`; `WB enc dec` ("well behaved") says
  `dec` inverts `enc` in front of any continuation and fails on every strict prefix of an encoding.
  WB is closed under sequencing and counted repetition, which gives the round-trip and truncation
  theorems for the whole catalog.
-/
namespace Grule.Wire

abbrev Bytes := List UInt8

inductive DErr
  | eof            -- io.EOF: nothing could be read at a field boundary
  | unexpected     -- io.ErrUnexpectedEOF / io.ErrShortBuffer: the stream ends inside a field
  | bad (msg : String)
  deriving DecidableEq, Repr, Inhabited

abbrev Dec (α : Type) := Bytes → Except DErr (α × Bytes)

def short (bs : Bytes) : DErr := if bs.isEmpty then .eof else .unexpected

-- little endian -------------------------------------------------------------------------------------------

def toLE : Nat → Nat → Bytes
  | 0, _ => []
  | k + 1, n => UInt8.ofNat (n % 256) :: toLE k (n / 256)

def fromLE : Bytes → Nat
  | [] => 0
  | b :: rest => b.toNat + 256 * fromLE rest

theorem toLE_length (k n : Nat) : (toLE k n).length = k := by
  induction k generalizing n with
  | zero => rfl
  | succ k ih => simp [toLE, ih]

theorem fromLE_toLE (k n : Nat) : fromLE (toLE k n) = n % 256 ^ k := by
  induction k generalizing n with
  | zero => simp [toLE, fromLE, Nat.mod_one]
  | succ k ih =>
    simp only [toLE, fromLE, ih]
    have h1 : (UInt8.ofNat (n % 256)).toNat = n % 256 := by
      simp
    rw [h1, Nat.pow_succ, Nat.mul_comm (256 ^ k) 256, Nat.mod_mul]

theorem fromLE_toLE_lt (k n : Nat) (h : n < 256 ^ k) : fromLE (toLE k n) = n := by
  rw [fromLE_toLE, Nat.mod_eq_of_lt h]

-- primitives ------------------------------------------------------------------------------------------------

def encU64 (n : Nat) : Bytes := toLE 8 n

def decU64 : Dec Nat := fun bs =>
  if bs.length < 8 then .error (short bs) else .ok (fromLE (bs.take 8), bs.drop 8)

def encBytes (b : Bytes) : Bytes := encU64 b.length ++ b

/-- ReadStringFromReader: length, then exactly that many bytes (io.ReadFull) -/
def decBytes : Dec Bytes := fun bs =>
  match decU64 bs with
  | .error e => .error e
  | .ok (n, rest) =>
    if rest.length < n then .error (short rest) else .ok (rest.take n, rest.drop n)

def encBool (b : Bool) : Bytes := [if b then 1 else 0]

def decBool : Dec Bool := fun bs =>
  match bs with
  | [] => .error .eof
  | b :: rest => .ok (b == 1, rest)

/-- well behaved: inverse in front of any continuation; fails on every strict prefix -/
structure WB {α : Type} (ok : α → Prop) (enc : α → Bytes) (dec : Dec α) : Prop where
  roundtrip : ∀ a rest, ok a → dec (enc a ++ rest) = .ok (a, rest)
  prefixFails : ∀ a k, ok a → k < (enc a).length → ∃ e, dec ((enc a).take k) = .error e

theorem wb_u64 : WB (fun n => n < 2 ^ 64) encU64 decU64 := by
  constructor
  · intro n rest hn
    unfold decU64 encU64
    have hl : (toLE 8 n).length = 8 := toLE_length 8 n
    simp only [List.length_append, hl]
    have : ¬ (8 + rest.length < 8) := by omega
    simp only [this, if_false]
    rw [List.take_left' hl, List.drop_left' hl, fromLE_toLE_lt 8 n (by simpa using hn)]
  · intro n k _ hk
    unfold decU64 encU64 at *
    rw [toLE_length] at hk
    have : ((toLE 8 n).take k).length < 8 := by simp [toLE_length]; omega
    exact ⟨short ((toLE 8 n).take k), by simp only [this, if_true]⟩

theorem wb_bytes : WB (fun b : Bytes => b.length < 2 ^ 64) encBytes decBytes := by
  constructor
  · intro b rest hb
    unfold decBytes encBytes
    rw [List.append_assoc, wb_u64.roundtrip b.length (b ++ rest) hb]
    simp only [List.length_append]
    have : ¬ (b.length + rest.length < b.length) := by omega
    simp only [this, if_false]
    rw [List.take_left' rfl, List.drop_left' rfl]
  · intro b k hb hk
    unfold decBytes encBytes at *
    by_cases h8 : k < (encU64 b.length).length
    · obtain ⟨e, he⟩ := wb_u64.prefixFails b.length k hb h8
      rw [List.take_append_of_le_length (Nat.le_of_lt h8), he]
      exact ⟨e, rfl⟩
    · have h8' : (encU64 b.length).length ≤ k := Nat.le_of_not_lt h8
      rw [List.take_append, List.take_of_length_le h8',
        wb_u64.roundtrip b.length _ hb]
      simp only
      have hl : (encU64 b.length).length = 8 := toLE_length 8 _
      simp only [List.length_append, hl] at hk
      have : (List.take (k - (encU64 b.length).length) b).length < b.length := by
        rw [List.length_take, hl]; omega
      simp only [this, if_true]
      exact ⟨_, rfl⟩

theorem wb_bool : WB (fun _ : Bool => True) encBool decBool := by
  constructor
  · intro b rest _
    cases b <;> rfl
  · intro b k _ hk
    have : k = 0 := by simp [encBool] at hk; omega
    subst this
    exact ⟨.eof, rfl⟩

-- sequencing ------------------------------------------------------------------------------------------------

def seqDec {α β : Type} (da : Dec α) (db : α → Dec β) : Dec (α × β) := fun bs =>
  match da bs with
  | .error e => .error e
  | .ok (a, rest) =>
    match db a rest with
    | .error e => .error e
    | .ok (b, rest') => .ok ((a, b), rest')

theorem wb_seq {α β : Type} {oka : α → Prop} {okb : α → β → Prop} {ea : α → Bytes} {eb : α → β → Bytes} {da : Dec α} {db : α → Dec β}
    (ha : WB oka ea da) (hb : ∀ a, oka a → WB (okb a) (eb a) (db a)) :
    WB (fun p : α × β => oka p.1 ∧ okb p.1 p.2) (fun p => ea p.1 ++ eb p.1 p.2) (seqDec da db) := by
  constructor
  · rintro ⟨a, b⟩ rest ⟨h1, h2⟩
    unfold seqDec
    simp only
    rw [List.append_assoc, ha.roundtrip a _ h1]
    simp only
    rw [(hb a h1).roundtrip b rest h2]
  · rintro ⟨a, b⟩ k ⟨h1, h2⟩ hk
    unfold seqDec
    simp only at hk ⊢
    by_cases hlt : k < (ea a).length
    · obtain ⟨e, he⟩ := ha.prefixFails a k h1 hlt
      rw [List.take_append_of_le_length (Nat.le_of_lt hlt), he]
      exact ⟨e, rfl⟩
    · have hle : (ea a).length ≤ k := Nat.le_of_not_lt hlt
      rw [List.take_append, List.take_of_length_le hle, ha.roundtrip a _ h1]
      simp only
      have : k - (ea a).length < (eb a b).length := by
        simp only [List.length_append] at hk; omega
      obtain ⟨e, he⟩ := (hb a h1).prefixFails b _ h2 this
      rw [he]
      exact ⟨e, rfl⟩

/-- transport along a bijection-like pair of maps (decoded value ↦ structure) -/
theorem wb_map {α β : Type} {ok : α → Prop} {e : α → Bytes} {d : Dec α} (f : α → β) (g : β → α)
    (h : WB ok e d) (hgf : ∀ b, ok (g b) → f (g b) = b) :
    WB (fun b => ok (g b)) (fun b => e (g b)) (fun bs => match d bs with | .error er => .error er | .ok (a, r) => .ok (f a, r)) := by
  constructor
  · intro b rest hb
    simp only [h.roundtrip (g b) rest hb, hgf b hb]
  · intro b k hb hk
    obtain ⟨er, he⟩ := h.prefixFails (g b) k hb hk
    exact ⟨er, by simp only [he]⟩

-- counted repetition ----------------------------------------------------------------------------------------

def encList {α : Type} (e : α → Bytes) : List α → Bytes
  | [] => []
  | a :: rest => e a ++ encList e rest

def decN {α : Type} (d : Dec α) : Nat → Dec (List α)
  | 0 => fun bs => .ok ([], bs)
  | n + 1 => fun bs =>
    match d bs with
    | .error e => .error e
    | .ok (a, rest) =>
      match decN d n rest with
      | .error e => .error e
      | .ok (as, rest') => .ok (a :: as, rest')

theorem wb_decN {α : Type} {ok : α → Prop} {e : α → Bytes} {d : Dec α} (h : WB ok e d) :
    ∀ n, WB (fun l : List α => l.length = n ∧ ∀ a ∈ l, ok a) (encList e) (decN d n) := by
  intro n
  induction n with
  | zero =>
    constructor
    · rintro l rest ⟨hl, _⟩
      have : l = [] := List.eq_nil_of_length_eq_zero hl
      subst this
      rfl
    · rintro l k ⟨hl, _⟩ hk
      have : l = [] := List.eq_nil_of_length_eq_zero hl
      subst this
      simp [encList] at hk
  | succ n ih =>
    constructor
    · rintro l rest ⟨hl, hok⟩
      cases l with
      | nil => simp at hl
      | cons a as =>
        simp only [encList, decN]
        rw [List.append_assoc, h.roundtrip a _ (hok a (by simp))]
        simp only
        rw [ih.roundtrip as rest ⟨by simpa using hl, fun x hx => hok x (by simp [hx])⟩]
    · rintro l k ⟨hl, hok⟩ hk
      cases l with
      | nil => simp at hl
      | cons a as =>
        simp only [encList, decN] at hk ⊢
        by_cases hlt : k < (e a).length
        · obtain ⟨er, he⟩ := h.prefixFails a k (hok a (by simp)) hlt
          rw [List.take_append_of_le_length (Nat.le_of_lt hlt), he]
          exact ⟨er, rfl⟩
        · have hle : (e a).length ≤ k := Nat.le_of_not_lt hlt
          rw [List.take_append, List.take_of_length_le hle, h.roundtrip a _ (hok a (by simp))]
          simp only
          have : k - (e a).length < (encList e as).length := by
            simp only [List.length_append] at hk; omega
          obtain ⟨er, he⟩ := ih.prefixFails as _ ⟨by simpa using hl, fun x hx => hok x (by simp [hx])⟩ this
          rw [he]
          exact ⟨er, rfl⟩

/-- a count followed by that many items -/
def encCounted {α : Type} (e : α → Bytes) (l : List α) : Bytes := encU64 l.length ++ encList e l

def decCounted {α : Type} (d : Dec α) : Dec (List α) := fun bs =>
  match decU64 bs with
  | .error e => .error e
  | .ok (n, rest) => decN d n rest

theorem wb_counted {α : Type} {ok : α → Prop} {e : α → Bytes} {d : Dec α} (h : WB ok e d) :
    WB (fun l : List α => l.length < 2 ^ 64 ∧ ∀ a ∈ l, ok a) (encCounted e) (decCounted d) := by
  constructor
  · rintro l rest ⟨hl, hok⟩
    unfold decCounted encCounted
    rw [List.append_assoc, wb_u64.roundtrip l.length _ hl]
    simp only
    exact (wb_decN h l.length).roundtrip l rest ⟨rfl, hok⟩
  · rintro l k ⟨hl, hok⟩ hk
    unfold decCounted encCounted at *
    by_cases hlt : k < (encU64 l.length).length
    · obtain ⟨er, he⟩ := wb_u64.prefixFails l.length k hl hlt
      rw [List.take_append_of_le_length (Nat.le_of_lt hlt), he]
      exact ⟨er, rfl⟩
    · have hle : (encU64 l.length).length ≤ k := Nat.le_of_not_lt hlt
      rw [List.take_append, List.take_of_length_le hle, wb_u64.roundtrip l.length _ hl]
      simp only
      have : k - (encU64 l.length).length < (encList e l).length := by
        simp only [List.length_append] at hk; omega
      exact (wb_decN h l.length).prefixFails l _ ⟨rfl, hok⟩ this

end Grule.Wire

/-
  `GetSnapshot` of every AST node type (ast/*.go), as `List Char` printers.
  Tag strings are hoisted into `def`s (never unfolded by `simp`); printers are right-nested
  `pre ++ (child ++ post)` so that the infix lemmas apply by `exact`.
  Also `grlText`: the `ctx.GetText()` of a node (token concatenation), which `WorkingMemory.Reset`
  reads.
-/
import GruleModel.Ast
import GruleModel.FloatFmt
namespace Grule

abbrev Snap := List Char

def t_E : Snap := "E(".toList
def t_SE : Snap := "SE(".toList
def t_EL : Snap := "EL(".toList
def t_ER : Snap := "ER(".toList
def t_EA : Snap := "EA(".toList
def t_A : Snap := "A(".toList
def t_C : Snap := "C(".toList
def t_F : Snap := "F(n:".toList
def t_AL : Snap := "AL(".toList
def t_MAS : Snap := "MAS(".toList
def t_VN : Snap := "V(N:".toList
def t_VO : Snap := "V(O:".toList
def t_arrow : Snap := "->".toList
def t_MV : Snap := "->MV:".toList
def t_selarrow : Snap := "-[]>".toList
def t_close : Snap := ")".toList
def t_bang : Snap := "!".toList
def t_comma : Snap := ",".toList
def t_AS : Snap := "AS(".toList
def t_TE : Snap := "TE(".toList
def t_TEL : Snap := "TEL(".toList
def t_TS : Snap := "TS(".toList
def t_WS : Snap := "WS(".toList

def BinOp.sym : BinOp → String
  | .mul => "*" | .div => "/" | .mod => "%" | .add => "+" | .sub => "-" | .band => "&" | .bor => "|"
  | .gt => ">" | .lt => "<" | .gte => ">=" | .lte => "<=" | .eq => "==" | .neq => "!="
  | .and => "&&" | .or => "||"

def BinOp.snap (o : BinOp) : Snap := o.sym.toList

def hexDigit (n : Nat) : Char := if n < 10 then Char.ofNat (48 + n) else Char.ofNat (87 + n)

def hexPad (width n : Nat) : List Char :=
  (List.range width).reverse.map (fun i => hexDigit ((n / 16^i) % 16))

/-- strconv.QuoteToASCII -/
def quoteASCIIChar (c : Char) : List Char :=
  let n := c.toNat
  if c == '"' then ['\\', '"'] else if c == '\\' then ['\\', '\\']
  else if n == 7 then ['\\', 'a'] else if n == 8 then ['\\', 'b'] else if n == 12 then ['\\', 'f']
  else if n == 10 then ['\\', 'n'] else if n == 13 then ['\\', 'r'] else if n == 9 then ['\\', 't']
  else if n == 11 then ['\\', 'v']
  else if n < 32 || n == 127 then ['\\', 'x'] ++ hexPad 2 n
  else if n < 128 then [c]
  else if n < 65536 then ['\\', 'u'] ++ hexPad 4 n
  else ['\\', 'U'] ++ hexPad 8 n

def quoteASCII (s : String) : List Char := ['"'] ++ (s.toList.flatMap quoteASCIIChar ++ ['"'])

def snapC : Const → Snap
  | .str s => t_C ++ ("string->".toList ++ (quoteASCII s ++ t_close))
  | .int i => t_C ++ ("int64->".toList ++ (intChars i ++ t_close))
  | .float b => t_C ++ ("float64->".toList ++ (fmtShortestChars b ++ t_close))
  | .bool b => t_C ++ ("bool->".toList ++ ((toString b).toList ++ t_close))
  | .nil => t_C ++ ("invalid->".toList ++ t_close)

def bangIf (b : Bool) : Snap := if b then t_bang else []

mutual
  def snapE : Expr → Snap
    | .bin op l r =>
        t_E ++ (t_EL ++ (snapE l ++ (t_close ++ (op.snap ++ (t_ER ++ (snapE r ++ (t_close ++ t_close)))))))
    | .paren neg e => t_E ++ (t_SE ++ (bangIf neg ++ (snapE e ++ (t_close ++ t_close))))
    | .atom a => t_E ++ (t_EA ++ (snapA a ++ (t_close ++ t_close)))
  def snapA : Atom → Snap
    | .const c => t_A ++ (snapC c ++ t_close)
    | .var v => t_A ++ (snapV v ++ t_close)
    | .call f args => t_A ++ (t_F ++ (f.toList ++ (t_comma ++ (t_AL ++ (snapArgs args ++ (t_close ++ (t_close ++ t_close)))))))
    | .meth recv f args =>
        t_A ++ (snapA recv ++ (t_arrow ++ (t_F ++ (f.toList ++ (t_comma ++ (t_AL ++ (snapArgs args ++ (t_close ++ (t_close ++ t_close)))))))))
    | .member recv n => t_A ++ (snapA recv ++ (t_MV ++ (n.toList ++ t_close)))
    | .sel recv idx =>
        -- (the code used to write the receiver twice — 4th `else if` branch and the selector branch — which doubled the
        --  snapshot at every level of a chained selector; fixed in /repo d4abfaa)
        t_A ++ (snapA recv ++ (t_selarrow ++ (t_MAS ++ (snapE idx ++ (t_close ++ t_close)))))
    | .neg a => t_A ++ (t_bang ++ (snapA a ++ t_close))
  def snapV : Var → Snap
    | .root n => t_VN ++ (n.toList ++ t_close)
    | .field v n => t_VO ++ (snapV v ++ (t_arrow ++ (n.toList ++ t_close)))
    | .index v e => t_VO ++ (snapV v ++ (t_arrow ++ (t_MAS ++ (snapE e ++ (t_close ++ t_close)))))
  /-- comma-separated argument snapshots (without the surrounding `AL(`…`)`) -/
  def snapArgs : Args → Snap
    | .nil => []
    | .cons e .nil => snapE e
    | .cons e rest => snapE e ++ (t_comma ++ snapArgs rest)
end

def AssignOp.sym : AssignOp → String
  | .set => "=" | .add => "+=" | .sub => "-=" | .mul => "*=" | .div => "/="

def snapAction : Action → Snap
  | .assign op v e => t_TE ++ (t_AS ++ (snapV v ++ (op.sym.toList ++ (snapE e ++ (t_close ++ t_close)))))
  | .stmt a => t_TE ++ (snapA a ++ t_close)

def snapActs : List Action → Snap
  | [] => []
  | [a] => snapAction a
  | a :: rest => snapAction a ++ (t_comma ++ snapActs rest)

/-- RuleEntry.GetSnapshot -/
def snapRule (r : Rule) : Snap :=
  "R(N:".toList ++ r.name.toList ++ " DEC:\"".toList ++ r.desc.toList ++ "\" SAL:".toList ++ intChars r.salience ++
  " W:".toList ++ (t_WS ++ snapE r.cond ++ t_close) ++ " T:".toList ++
  (t_TS ++ (t_TEL ++ snapActs r.acts ++ t_close) ++ t_close) ++ "})".toList

-- GrlText ------------------------------------------------------------------------------

/-- the canonical literal notation the scenario generator uses (so that `GetText()` is predictable) -/
def quoteGrl (s : String) : Snap :=
  let esc (c : Char) : List Char :=
    if c == '"' then ['\\', '"'] else if c == '\\' then ['\\', '\\']
    else if c == '\n' then ['\\', 'n'] else if c == '\t' then ['\\', 't'] else if c == '\r' then ['\\', 'r'] else [c]
  ['"'] ++ (s.toList.flatMap esc) ++ ['"']

/-- the source text of a literal where it is known (`GetText()` of the literal's parse-tree node): float texts always
    come from here, the other kinds fall back to the canonical notation -/
abbrev LitText := Const → Option String

/-- a float-text table as a `LitText` -/
def LitText.ofFloats (ft : UInt64 → String) : LitText
  | .float b => some (ft b)
  | _ => none

/-- literal text of a constant -/
def textC (ft : LitText) (c : Const) : Snap :=
  match ft c with
  | some t => t.toList
  | none =>
    match c with
    | .str s => quoteGrl s
    | .int i => intChars i
    | .float _ => "?".toList
    | .bool b => (toString b).toList
    | .nil => "nil".toList

mutual
  def textE (ft : LitText) : Expr → Snap
    | .bin op l r => textE ft l ++ (op.snap ++ textE ft r)
    | .paren neg e => bangIf neg ++ ("(".toList ++ (textE ft e ++ t_close))
    | .atom a => textA ft a
  def textA (ft : LitText) : Atom → Snap
    | .const c => textC ft c
    | .var v => textV ft v
    | .call f args => f.toList ++ ("(".toList ++ (textArgs ft args ++ t_close))
    | .meth recv f args => textA ft recv ++ (".".toList ++ (f.toList ++ ("(".toList ++ (textArgs ft args ++ t_close))))
    | .member recv n => textA ft recv ++ (".".toList ++ n.toList)
    | .sel recv idx => textA ft recv ++ ("[".toList ++ (textE ft idx ++ "]".toList))
    | .neg a => t_bang ++ textA ft a
  def textV (ft : LitText) : Var → Snap
    | .root n => n.toList
    | .field v n => textV ft v ++ (".".toList ++ n.toList)
    | .index v e => textV ft v ++ ("[".toList ++ (textE ft e ++ "]".toList))
  def textArgs (ft : LitText) : Args → Snap
    | .nil => []
    | .cons e .nil => textE ft e
    | .cons e rest => textE ft e ++ (t_comma ++ textArgs ft rest)
end

end Grule

/-
  Expression / atom / variable evaluation and action execution (ast/Expression.go,
  ExpressionAtom.go, Variable.go, Assignment.go, ArgumentList.go, ArrayMapSelector.go,
  BuiltInFunctions.go, ThenExpression*.go) with the working memory's memoisation
  (ast/WorkingMemory.go).

  One definition, two instances: `memo := true` is the engine as written (Impl); `memo := false`
  never consults nor fills the memo tables: that is the from-scratch semantics (Spec) the
  properties speak about.
-/
import GruleModel.Store
import GruleModel.Snapshot
namespace Grule

/-- is `pat` a contiguous sub-list of `s` (strings.Contains) -/
def isInfixB (pat s : Snap) : Bool :=
  match s with
  | [] => pat.isEmpty
  | _ :: t => pat.isPrefixOf s || isInfixB pat t

/-- ast.WorkingMemory, keyed by snapshot (each key stands for the first node registered under it) -/
structure WM where
  exprs : List (Snap × Snap) := []          -- snapshot ↦ GrlText
  atoms : List (Snap × Snap) := []
  vars  : List (Snap × Snap) := []
  exprIdx : List (Snap × List Snap) := []   -- variable snapshot ↦ expression snapshots
  atomIdx : List (Snap × List Snap) := []
  deriving Repr, Inhabited

def snapGet {α} (k : Snap) : List (Snap × α) → Option α
  | [] => none
  | (k', v) :: rest => if k == k' then some v else snapGet k rest

def snapSet {α} (k : Snap) (v : α) : List (Snap × α) → List (Snap × α)
  | [] => [(k, v)]
  | (k', v') :: rest => if k == k' then (k, v) :: rest else (k', v') :: snapSet k v rest

/-- WorkingMemory.IndexVariables -/
def WM.indexVariables (w : WM) : WM :=
  { w with
    exprIdx := w.vars.map (fun (vs, _) => (vs, (w.exprs.filter (fun (es, _) => isInfixB vs es)).map (·.1)))
    atomIdx := w.vars.map (fun (vs, _) => (vs, (w.atoms.filter (fun (as, _) => isInfixB vs as)).map (·.1))) }

inductive Ev
  | call (site : Snap) (f : String) (args : List Val)   -- a user method really ran
  | builtin (f : String) (args : List Val)
  | evalE (k : Snap)                                    -- an Expression node was really evaluated
  | evalA (k : Snap)                                    -- an ExpressionAtom node was really evaluated
  | resetAll
  | resetVar (v : Snap) (cleared : List Snap)
  | forget (name : String) (cleared : List Snap)
  | actionStart (i : Nat)
  | write (target : Snap)
  deriving Repr, Inhabited

abbrev Memo := List (Snap × Val)

structure EState where
  st : Store
  memoE : Memo := []
  memoA : Memo := []
  retracted : List String := []
  complete : Bool := false
  cancelled : Bool := false
  ncalls : Nat := 0          -- number of user-method calls so far (programmed failures key on it)
  log : List Ev := []        -- newest first
  deriving Repr, Inhabited

/-- semantics of user methods on fact objects (harness catalogue in `Main`; arbitrary in theorems):
    `methods f ncalls st recv args = (result, store')` -/
inductive MRes
  | noMethod                          -- MethodByName finds nothing: an error value
  | badArgs                           -- reflect.Value.Call panics before the method body runs
  | ran (r : R Val) (st : Store) (cancel : Bool)   -- the body ran (possibly panicking); `cancel`: it cancelled the run's context
  deriving Inhabited

abbrev MethodTable := String → Nat → Store → Val → List Val → MRes

structure Cfg where
  memo : Bool
  tab : BinOp → OpTable
  cells : SetCells
  methods : MethodTable
  wm : WM
  deriving Inhabited

def EState.push (s : EState) (e : Ev) : EState := { s with log := e :: s.log }

-- memo operations ----------------------------------------------------------------------------

def memoErase (keys : List Snap) (m : Memo) : Memo := m.filter (fun (k, _) => !keys.contains k)

/-- WorkingMemory.ResetVariable -/
def resetVariable (w : WM) (v : Snap) (s : EState) : EState :=
  let es := (snapGet v w.exprIdx).getD []
  let as := (snapGet v w.atomIdx).getD []
  { s with memoE := memoErase es s.memoE, memoA := memoErase as s.memoA,
           log := .resetVar v (es ++ as) :: s.log }

/-- WorkingMemory.Reset(name) -/
def resetName (w : WM) (name : String) (s : EState) : EState :=
  let n := name.toList
  match w.vars.find? (fun (_, txt) => txt == n) with
  | some (vs, _) => resetVariable w vs (s.push (.forget name []))
  | none =>
    let es := (w.exprs.filter (fun (k, txt) => isInfixB n k || isInfixB n txt)).map (·.1)
    let as := (w.atoms.filter (fun (k, txt) => isInfixB n k || isInfixB n txt)).map (·.1)
    { s with memoE := memoErase es s.memoE, memoA := memoErase as s.memoA,
             log := .forget name (es ++ as) :: s.log }

/-- WorkingMemory.ResetAll -/
def resetAll (s : EState) : EState :=
  { s with memoE := [], memoA := [], log := .resetAll :: s.log }

-- operators -----------------------------------------------------------------------------------

def isPanic {α} : R α → Bool
  | .error (.panic _) => true
  | .error (.unmodelled _) => true   -- propagate like a panic: the whole scenario is dropped
  | _ => false

/-- `GetValueElem`: nil pointers / interfaces become the zero Value; an interface holding a
    scalar yields the scalar; everything else is unchanged -/
def derefOperand (st : Store) : Val → Val
  | .nilptr => .invalid
  | .ref p => match st.get p with
    | some (.iface (some (.leaf x))) => x
    | _ => .ref p
  | v => v

def evalBinOp (c : Cfg) (st : Store) (op : BinOp) (l r : Val) : R Val :=
  evalTable (c.tab op) (derefOperand st l) (derefOperand st r)

/-- pkg.EvaluateLogicSingle -/
def logicSingle (st : Store) (v : Val) : Option Bool :=
  match derefOperand st v with
  | .bool b => some b
  | _ => none

def negate (neg : Bool) (v : Val) : Val :=
  if neg then match v with
    | .bool b => .bool (!b)
    | v => v
  else v

-- string / array / map built-in methods ------------------------------------------------------

def strContains (s sub : String) : Bool := isInfixB sub.toList s.toList

def strIndexAux (pat : List Char) : List Char → Nat → Option Nat
  | [], i => if pat.isEmpty then some i else none
  | c :: t, i => if pat.isPrefixOf (c :: t) then some i else strIndexAux pat t (i + 1)

def utf8Len (s : String) : Nat := s.utf8ByteSize

/-- byte offset of the first occurrence (`strings.Index`; a valid UTF-8 needle only matches at rune boundaries) -/
def byteIndexAux (pat : List Char) : List Char → Nat → Option Nat
  | [], off => if pat.isEmpty then some off else none
  | c :: t, off => if pat.isPrefixOf (c :: t) then some off else byteIndexAux pat t (off + c.utf8Size)

/-- byte offset of the last occurrence (`strings.LastIndex`) -/
def lastByteIndexAux (pat : List Char) : List Char → Nat → Option Nat → Option Nat
  | [], off, best => if pat.isEmpty then some off else best
  | c :: t, off, best =>
    lastByteIndexAux pat t (off + c.utf8Size) (if pat.isPrefixOf (c :: t) then some off else best)

/-- non-overlapping occurrences of a non-empty needle (`strings.Count`) -/
def countAux (pat : List Char) : Nat → List Char → Nat
  | 0, _ => 0
  | _, [] => 0
  | fuel + 1, c :: t =>
    if pat.isPrefixOf (c :: t) then 1 + countAux pat fuel ((c :: t).drop pat.length) else countAux pat fuel t

/-- `strings.ReplaceAll` with a non-empty needle -/
def replaceAux (pat rep : List Char) : Nat → List Char → List Char
  | 0, l => l
  | _, [] => []
  | fuel + 1, c :: t =>
    if pat.isPrefixOf (c :: t) then rep ++ replaceAux pat rep fuel ((c :: t).drop pat.length) else c :: replaceAux pat rep fuel t

def isAsciiSpace (c : Char) : Bool := c == ' ' || c == '\t' || c == '\n' || c == '\r' || c.toNat == 11 || c.toNat == 12

/-- the functions modelled over character lists are kept away from very long receivers (a scenario that grows a string
    exponentially is dropped, not slowed down) -/
def longRecv (s : String) (f : String) : Bool :=
  s.utf8ByteSize > 4096 && (f == "Count" || f == "Index" || f == "LastIndex" || f == "Repeat" || f == "Replace" || f == "Trim")

def strMethod (s : String) (f : String) (args : List Val) : R Val :=
  if longRecv s f then unmodelled "string function on a very long receiver" else
  match f, args with
  | "Len", [] => .ok (.int .int s.utf8ByteSize)
  | "Len", _ => evalErr "function Len requires no argument"
  | "ToUpper", [] => if s.toList.all (fun c => c.toNat < 128) then .ok (.str s.toUpper) else unmodelled "unicode case"
  | "ToUpper", _ => evalErr "requires no argument"
  | "ToLower", [] => if s.toList.all (fun c => c.toNat < 128) then .ok (.str s.toLower) else unmodelled "unicode case"
  | "ToLower", _ => evalErr "requires no argument"
  | "Contains", [.str a] => .ok (.bool (strContains s a))
  | "Contains", _ => evalErr "function Contains requires 1 string argument"
  | "HasPrefix", [.str a] => .ok (.bool (a.toList.isPrefixOf s.toList))
  | "HasPrefix", _ => evalErr "function HasPrefix requires 1 string argument"
  | "HasSuffix", [.str a] => .ok (.bool (a.toList.reverse.isPrefixOf s.toList.reverse))
  | "HasSuffix", _ => evalErr "function HasSuffix requires 1 string argument"
  | "Compare", [.str a] => .ok (.int .int (if s < a then -1 else if a < s then 1 else 0))
  | "Compare", _ => evalErr "function Compare requires 1 string argument"
  | "In", as =>
    let rec go : List Val → R Val
      | [] => .ok (.bool false)
      | .str a :: rest => if a == s then .ok (.bool true) else go rest
      | _ :: _ => evalErr "function StrIn requires string arguments"
    go as
  | "Count", [.str a] =>
    .ok (.int .int (if a.toList.isEmpty then s.toList.length + 1 else countAux a.toList (s.toList.length + 1) s.toList))
  | "Count", _ => evalErr "function Count requires 1 string argument"
  | "Index", [.str a] => .ok (.int .int (match byteIndexAux a.toList s.toList 0 with | some i => (i : Int) | none => -1))
  | "Index", _ => evalErr "function Index requires 1 string argument"
  | "LastIndex", [.str a] =>
    .ok (.int .int (match lastByteIndexAux a.toList s.toList 0 none with | some i => (i : Int) | none => -1))
  | "LastIndex", _ => evalErr "function LastIndex requires 1 string argument"
  | "Repeat", [.int _ k] =>
    if k < 0 then unmodelled "Repeat with a negative count" else if k > 64 then unmodelled "large Repeat"
    else .ok (.str (String.ofList ((List.replicate k.toNat s.toList).flatten)))
  | "Repeat", [.uint _ k] =>
    if k > 64 then unmodelled "large Repeat" else .ok (.str (String.ofList ((List.replicate k s.toList).flatten)))
  | "Repeat", [.float _ _] => unmodelled "Repeat with a float count"
  | "Repeat", _ => evalErr "function Repeat requires 1 numeric argument"
  | "Replace", [.str a, .str b] =>
    if a.toList.isEmpty then
      .ok (.str (String.ofList (b.toList ++ s.toList.flatMap (fun c => c :: b.toList))))
    else .ok (.str (String.ofList (replaceAux a.toList b.toList (s.toList.length + 1) s.toList)))
  | "Replace", _ => evalErr "function Cmpare requires 2 string argument"
  | "Trim", [] =>
    if s.toList.all (fun c => c.toNat < 128) then
      .ok (.str (String.ofList ((s.toList.dropWhile isAsciiSpace).reverse.dropWhile isAsciiSpace).reverse))
    else unmodelled "unicode space"
  | "Trim", _ => evalErr "function Trim requires no argument"
  | "Split", _ => unmodelled "Split" | "MatchString", _ => unmodelled "MatchString"
  | _, _ => evalErr "call function is not supported for string"

def nodeLen : Node → Option Nat
  | n => match n.elem with
    | some (.slice es) => some es.length
    | some (.jarr es) => some es.length
    | some (.map _ _ es) => some es.length
    | some (.jobj es) => some es.length
    | _ => none

/-- `valueNode.CallFunction(f, args...)` -/
def callMethod (c : Cfg) (site : Snap) (s : EState) (recv : Val) (f : String) (args : List Val) : R Val × EState :=
  match recv with
  | .int .. => (evalErr "not supported for type", s)
  | .uint .. => (evalErr "not supported for type", s)
  | .float .. => (evalErr "not supported for type", s)
  | .bool _ => (evalErr "not supported for type", s)
  | .str x => (strMethod x f args, s)
  | .time _ => (unmodelled "methods of time.Time", s)
  | .invalid => (panicErr "Kind/Type on zero Value", s)   -- IsObject false, IsInterface false → error; conservatively:
  | .nilptr => (unmodelled "method on nil pointer", s)
  | .ref p =>
    match s.st.get p with
    | none => (unmodelled "dangling reference", s)
    | some n =>
      match n.cls with
      | .goSlice | .jArr =>
        if f == "Len" then
          if args.isEmpty then (.ok (.int .int (nodeLen n).get!), s) else (evalErr "function Len requires no argument", s)
        else if f == "Append" then (unmodelled "Append", s)
        else (evalErr "not supported for array", s)
      | .goMap =>
        if f == "Len" then
          if args.isEmpty then (.ok (.int .int (nodeLen n).get!), s) else (evalErr "function Len requires no argument", s)
        else (evalErr "not supported for map", s)
      | .jObj => (unmodelled "method on JSON object", s)
      | .goStruct =>
        match c.methods f s.ncalls s.st recv args with
        | .noMethod => (evalErr "have no function named", s)
        | .badArgs => (panicErr "reflect: Call with wrong argument", s)
        | .ran r st' cn => (r, { s with st := st', ncalls := s.ncalls + 1, cancelled := s.cancelled || cn, log := .call site f args :: s.log })
      | _ => (unmodelled "method receiver", s)

-- DEFUNC ----------------------------------------------------------------------------------------

def floatOfVal? : Val → Option UInt64
  | .float .f64 b => some b
  | _ => none

def foldF (f : Float → Float → Bool) : List Val → Option UInt64
  | [] => some (0:Float).toBits
  | v :: rest =>
    match floatOfVal? v with
    | none => none
    | some b0 =>
      let rec go (acc : UInt64) : List Val → Option UInt64
        | [] => some acc
        | w :: ws => match floatOfVal? w with
          | none => none
          | some b => go (if f (Float.ofBits b) (Float.ofBits acc) then b else acc) ws
      go b0 rest

def badCall : R Val := panicErr "reflect: Call with wrong argument"

/-- the side-effect-free built-ins (BuiltInFunctions.go); wrong arity or argument type is a panic
    raised by reflect.Value.Call -/
def pureBuiltin (st : Store) (f : String) (args : List Val) : R Val :=
  match f, args with
  | "Log", [.str _] => .ok .invalid
  | "Log", _ => badCall
  | "StringContains", [.str a, .str b] => .ok (.bool (strContains a b))
  | "StringContains", _ => badCall
  | "IsNil", [v] =>
    match v with
    | .nilptr => .ok (.bool true)
    | .ref p => match st.get p with
      | some _ => .ok (.bool false)
      | none => unmodelled "dangling reference"
    | .time _ => .ok (.bool false)
    | _ => panicErr "reflect: call of reflect.Value.IsNil on scalar Value"
  | "IsNil", _ => badCall
  | "IsZero", [v] =>
    match v with
    | .nilptr => .ok (.bool true)
    | .str x => .ok (.bool x.isEmpty)
    | .int _ i => .ok (.bool (i == 0))
    | .uint _ n => .ok (.bool (n == 0))
    | .float _ b => .ok (.bool (Float.ofBits b == 0))
    | .bool _ => .ok (.bool false)
    | .time _ => unmodelled "IsZero(time)"
    | .ref p => match st.get p with
      | some (.iface _) => unmodelled "IsZero(interface)"
      | some _ => .ok (.bool false)
      | none => unmodelled "dangling reference"
    | .invalid => badCall
  | "IsZero", _ => badCall
  | "Max", as => match foldF (· > ·) as with
    | some b => .ok (.float .f64 b)
    | none => badCall
  | "Min", as => match foldF (· < ·) as with
    | some b => .ok (.float .f64 b)
    | none => badCall
  | "Abs", [.float .f64 b] => .ok (.float .f64 (Float.abs (Float.ofBits b)).toBits)
  | "Abs", _ => badCall
  | _, _ => unmodelled s!"built-in {f}"

/-- built-ins that act on the engine state -/
def isEffectful (f : String) : Bool := f == "Complete" || f == "Retract" || f == "Forget" || f == "Changed"

/-- BuiltInFunctions, called through reflection -/
def callBuiltin (c : Cfg) (s : EState) (f : String) (args : List Val) : R Val × EState :=
  let s := s.push (.builtin f args)
  if args.any (· == .invalid) then (badCall, s) else
  if f == "Complete" then
    match args with
    | [] => (.ok .invalid, { s with complete := true })
    | _ => (badCall, s)
  else if f == "Retract" then
    match args with
    | [.str n] => (.ok .invalid, { s with retracted := n :: s.retracted })
    | _ => (badCall, s)
  else if f == "Forget" || f == "Changed" then
    match args with
    | [.str n] => (.ok .invalid, resetName c.wm n s)
    | _ => (badCall, s)
  else (pureBuiltin s.st f args, s)

-- evaluation ------------------------------------------------------------------------------------

def constVal : Const → R Val
  | .str s => .ok (.str s)
  | .int i => .ok (.int .int64 i)
  | .float b => .ok (.float .f64 b)
  | .bool b => .ok (.bool b)
  | .nil => panicErr "reflect: call of reflect.Value.Type on zero Value"   -- NewGoValueNode(val, val.Type()…)

/-- remembered values live in the nodes the working memory holds (`e.Value`, `e.Evaluated` are fields of the shared node
    objects): a value can be remembered only under the snapshot of a registered node -/
def memoPutE (c : Cfg) (k : Snap) (v : Val) (s : EState) : EState :=
  if c.memo && (snapGet k c.wm.exprs).isSome then { s with memoE := snapSet k v s.memoE } else s
def memoPutA (c : Cfg) (k : Snap) (v : Val) (s : EState) : EState :=
  if c.memo && (snapGet k c.wm.atoms).isSome then { s with memoA := snapSet k v s.memoA } else s
def memoGetE (c : Cfg) (k : Snap) (s : EState) : Option Val := if c.memo then snapGet k s.memoE else none
def memoGetA (c : Cfg) (k : Snap) (s : EState) : Option Val := if c.memo then snapGet k s.memoA else none

/-- every successful evaluation of a memoisable node is remembered (`e.Value = val; e.Evaluated = true`) -/
def finishE (c : Cfg) (k : Snap) : R Val × EState → R Val × EState
  | (.ok v, s) => (.ok v, memoPutE c k v s)
  | (.error e, s) => (.error e, s)

def finishA (c : Cfg) (k : Snap) : R Val × EState → R Val × EState
  | (.ok v, s) => (.ok v, memoPutA c k v s)
  | (.error e, s) => (.error e, s)

/-- short-circuit decision of `&&` / `||` once the left operand is known -/
def shortCircuit (st : Store) (op : BinOp) (lr : R Val) : Option (R Val) :=
  if op == .and || op == .or then
    match lr with
    | .error _ => some (evalErr "left hand expression error")
    | .ok lv =>
      match logicSingle st lv with
      | some b => if (op == .and && !b) || (op == .or && b) then some (.ok (.bool b)) else none
      | none => none
  else none

/-- combine two evaluated operands (`lerr`/`rerr` checks, then the operator) -/
def combine (c : Cfg) (st : Store) (op : BinOp) (lr rr : R Val) : R Val :=
  if isPanic rr then rr else
  match lr, rr with
  | .error _, _ => evalErr "left hand expression error"
  | _, .error _ => evalErr "right hand expression error"
  | .ok lv, .ok rv => evalBinOp c st op lv rv

def negResult (neg : Bool) : R Val → R Val
  | .ok v => .ok (negate neg v)
  | .error e => .error e

mutual
  def evalE (c : Cfg) (s : EState) : Expr → R Val × EState
    | .atom a =>
      let k := snapE (.atom a)
      match memoGetE c k s with
      | some v => (.ok v, s)
      | none => finishE c k (evalA c (s.push (.evalE k)) a)
    | .paren neg e =>
      let k := snapE (.paren neg e)
      match memoGetE c k s with
      | some v => (.ok v, s)
      | none =>
        let (r, s1) := evalE c (s.push (.evalE k)) e
        finishE c k (negResult neg r, s1)
    | .bin op l r =>
      let k := snapE (.bin op l r)
      match memoGetE c k s with
      | some v => (.ok v, s)
      | none =>
        let (lr, s1) := evalE c (s.push (.evalE k)) l
        if isPanic lr then (lr, s1) else
        match shortCircuit s1.st op lr with
        | some res => finishE c k (res, s1)
        | none =>
          let (rr, s2) := evalE c s1 r
          finishE c k (combine c s2.st op lr rr, s2)

  def evalA (c : Cfg) (s : EState) : Atom → R Val × EState
    | .const k0 =>
      let k := snapA (.const k0)
      match memoGetA c k s with
      | some v => (.ok v, s)
      | none => finishA c k (constVal k0, s.push (.evalA k))
    | .var v =>
      let k := snapA (.var v)
      match memoGetA c k s with
      | some x => (.ok x, s)
      | none => finishA c k (evalV c (s.push (.evalA k)) v)
    | .call f args =>
      -- never memoised at atom level
      match evalArgs c (s.push (.evalA (snapA (.call f args)))) args with
      | (.ok vs, s1) => callBuiltin c s1 f vs
      | (.error e, s1) => (.error e, s1)
    | .neg a =>
      let k := snapA (.neg a)
      match memoGetA c k s with
      | some x => (.ok x, s)
      | none =>
        let (r, s1) := evalA c (s.push (.evalA k)) a
        finishA c k (negResult true r, s1)
    | .meth recv f args =>
      let k := snapA (.meth recv f args)
      match memoGetA c k s with
      | some x => (.ok x, s)
      | none =>
        match evalA c (s.push (.evalA k)) recv with
        | (.error e, s1) => (.error e, s1)
        | (.ok rv, s1) =>
          match evalArgs c s1 args with
          | (.error e, s2) => (.error e, s2)
          | (.ok vs, s2) => finishA c k (callMethod c k s2 rv f vs)
    | .member recv n =>
      let k := snapA (.member recv n)
      match memoGetA c k s with
      | some x => (.ok x, s)
      | none =>
        match evalA c (s.push (.evalA k)) recv with
        | (.error e, s1) => (.error e, s1)
        | (.ok rv, s1) => finishA c k (readField s1.st rv n, s1)
    | .sel recv idx =>
      -- never memoised at atom level
      match evalA c (s.push (.evalA (snapA (.sel recv idx)))) recv with
      | (.error e, s1) => (.error e, s1)
      | (.ok rv, s1) =>
        match evalE c s1 idx with
        | (.error e, s2) => (.error e, s2)
        | (.ok iv, s2) => (readSel s2.st rv iv, s2)

  /-- Variable.Evaluate: variables themselves are never memoised -/
  def evalV (c : Cfg) (s : EState) : Var → R Val × EState
    | .root n => (readRoot s.st n, s)
    | .field v n =>
      match evalV c s v with
      | (.error e, s1) => (.error e, s1)
      | (.ok pv, s1) => (readField s1.st pv n, s1)
    | .index v e =>
      match evalV c s v with
      | (.error e, s1) => (.error e, s1)
      | (.ok pv, s1) =>
        match evalE c s1 e with
        | (.error e, s2) => (.error e, s2)
        | (.ok iv, s2) => (readIndex s2.st pv iv, s2)

  /-- ArgumentList.Evaluate: left to right, stops at the first failure -/
  def evalArgs (c : Cfg) (s : EState) : Args → R (List Val) × EState
    | .nil => (.ok [], s)
    | .cons e rest =>
      match evalE c s e with
      | (.error err, s1) => (.error err, s1)
      | (.ok v, s1) =>
        match evalArgs c s1 rest with
        | (.error err, s2) => (.error err, s2)
        | (.ok vs, s2) => (.ok (v :: vs), s2)
end

-- actions ---------------------------------------------------------------------------------------

/-- Variable.resetTarget: the container below the outermost selector of the path, if any -/
def Var.outerContainer : Var → Option Var
  | .root _ => none
  | .field v _ => v.outerContainer
  | .index v _ => match v.outerContainer with
    | some w => some w
    | none => some v

def Var.resetKey (v : Var) : Var := v.outerContainer.getD v

/-- is the value a JSON object (a node that is both an object and a map: `o.n` and `o["n"]` are one cell)? -/
def isMapLike (st : Store) (pv : Val) : Bool :=
  match pv with
  | .ref p =>
    match st.get p with
    | some n => (match n.cls with | .jObj => true | _ => false)
    | none => false
  | _ => false

/-- the key a field assignment resets by: the outermost container below a selector, else — for a member of a JSON
    object — the object, else the variable itself -/
def fieldResetKey (st : Store) (v : Var) (f : String) (pv : Val) : Snap :=
  if (Var.field v f).outerContainer.isNone && isMapLike st pv then snapV v else snapV (Var.field v f).resetKey

/-- Variable.Assign -/
def assignVar (c : Cfg) (s : EState) (target : Var) (new : Val) : R Unit × EState :=
  match target with
  | .root n =>
    match writeRoot s.st n new with
    | .ok st' =>
      let s1 := { s with st := st', log := .write (snapV target) :: s.log }
      (.ok (), if c.memo then resetVariable c.wm (snapV target) s1 else s1)
    | .error e => (.error e, s)
  | .field v f =>
    match evalV c s v with
    | (.error e, s1) => (.error e, s1)
    | (.ok pv, s1) =>
      match writeField c.cells s1.st pv f new with
      | .ok st' =>
        let s2 := { s1 with st := st', log := .write (snapV target) :: s1.log }
        (.ok (), if c.memo then resetVariable c.wm (fieldResetKey s1.st v f pv) s2 else s2)
      | .error e => (.error e, s1)
  | .index v e =>
    match evalV c s v with
    | (.error e, s1) => (.error e, s1)
    | (.ok pv, s1) =>
      match evalE c s1 e with
      | (.error e, s2) => (.error e, s2)
      | (.ok iv, s2) =>
        match writeIndex c.cells s2.st pv iv new with
        | .ok st' =>
          let s3 := { s2 with st := st', log := .write (snapV target) :: s2.log }
          (.ok (), if c.memo then resetVariable c.wm (snapV target.resetKey) s3 else s3)
        | .error e => (.error e, s2)

def AssignOp.binop : AssignOp → Option BinOp
  | .set => none | .add => some .add | .sub => some .sub | .mul => some .mul | .div => some .div

/-- ThenExpression.Execute -/
def execAction (c : Cfg) (s : EState) : Action → R Unit × EState
  | .assign op target rhs =>
    match evalE c s rhs with
    | (.error e, s1) => (.error e, s1)
    | (.ok rv, s1) =>
      match op.binop with
      | none => assignVar c s1 target rv
      | some bop =>
        match evalV c s1 target with
        | (.error e, s2) => (.error e, s2)
        | (.ok cur, s2) =>
          match evalBinOp c s2.st bop cur rv with
          | .error e => (.error e, s2)
          | .ok nv => assignVar c s2 target nv
  | .stmt a =>
    match evalA c s a with
    | (.error e, s1) => (.error e, s1)
    | (.ok _, s1) => (.ok (), s1)

/-- ThenExpressionList.Execute: in order, stop at the first failure -/
def execActions (c : Cfg) (s : EState) (i : Nat) : List Action → R Unit × EState
  | [] => (.ok (), s)
  | a :: rest =>
    match execAction c (s.push (.actionStart i)) a with
    | (.error e, s1) => (.error e, s1)
    | (.ok _, s1) => execActions c s1 (i + 1) rest

end Grule

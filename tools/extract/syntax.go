package main

// T2: the syntax facts the Lean front-end (Syntax/*.lean) is tied to, regenerated from
//   antlr/parser/grulev3/grulev3_parser.go  (go/ast: precedence predicates of `expression` / `expressionAtom`),
//   antlr/grulev3.g4                        (operator rules, lexer rule order, fixed token texts, identifier ranges),
//   docs/en/GRL_en.md                       (the published precedence table)
// -> lean/GruleModel/Gen/SyntaxFacts.lean

import (
	"fmt"
	"go/ast"
	"go/parser"
	"os"
	"path/filepath"
	"regexp"
	"strconv"
	"strings"
)

type level struct {
	opRule     string
	pred, next int
}

// in func `name` of the generated parser: every `p.Precpred(ctx, N)` followed by the first operator-rule call and
// the recursive call `p.<name>(M)`
func precLevels(file *ast.File, name string) ([]level, error) {
	var out []level
	for _, d := range file.Decls {
		fd, ok := d.(*ast.FuncDecl)
		if !ok || fd.Name.Name != name || fd.Body == nil {
			continue
		}
		var cur *level
		ast.Inspect(fd.Body, func(n ast.Node) bool {
			ce, ok := n.(*ast.CallExpr)
			if !ok {
				return true
			}
			fn := src(ce.Fun)
			switch {
			case fn == "p.Precpred" && len(ce.Args) == 2:
				if v, err := strconv.Atoi(src(ce.Args[1])); err == nil {
					if cur == nil || cur.pred != v {
						if cur != nil {
							out = append(out, *cur)
						}
						cur = &level{pred: v, next: -1}
					}
				}
			case fn == "p."+name && len(ce.Args) == 1 && cur != nil:
				if v, err := strconv.Atoi(src(ce.Args[0])); err == nil && cur.next < 0 {
					cur.next = v
				}
			case strings.HasPrefix(fn, "p.") && len(ce.Args) == 0 && cur != nil && cur.opRule == "":
				r := strings.TrimPrefix(fn, "p.")
				if r != "GetParserRuleContext" && r != "GetTokenStream" && r != "GetErrorHandler" && r != "GetInterpreter" &&
					r != "GetState" && r != "TriggerExitRuleEvent" && r != "GetParseListeners" && r != "SetError" && r != "HasError" &&
					len(r) > 0 && r[0] >= 'A' && r[0] <= 'Z' {
					cur.opRule = r
				}
			}
			return true
		})
		if cur != nil {
			out = append(out, *cur)
		}
		return out, nil
	}
	return nil, fmt.Errorf("func %s not found", name)
}

var ruleRe = regexp.MustCompile(`(?s)^\s*(fragment\s+)?([A-Za-z_][A-Za-z_0-9]*)\s*:(.*)$`)

// the rules of a .g4 file: name -> body text, in order
func g4Rules(text string) (names []string, body map[string]string, frag map[string]bool) {
	body = map[string]string{}
	frag = map[string]bool{}
	// strip line comments
	var b strings.Builder
	for _, ln := range strings.Split(text, "\n") {
		if strings.HasPrefix(strings.TrimSpace(ln), "//") {
			continue
		}
		b.WriteString(ln)
		b.WriteString("\n")
	}
	// split at ';' outside quotes and character classes
	src := b.String()
	var parts []string
	start, inQ, inC := 0, false, false
	for i := 0; i < len(src); i++ {
		c := src[i]
		switch {
		case c == '\\' && (inQ || inC):
			i++
		case c == '\'' && !inC:
			inQ = !inQ
		case c == '[' && !inQ:
			inC = true
		case c == ']' && !inQ:
			inC = false
		case c == ';' && !inQ && !inC:
			parts = append(parts, src[start:i])
			start = i + 1
		}
	}
	for _, p := range parts {
		m := ruleRe.FindStringSubmatch(p)
		if m == nil {
			continue
		}
		names = append(names, m[2])
		body[m[2]] = strings.TrimSpace(m[3])
		frag[m[2]] = m[1] != ""
	}
	return
}

var litRe = regexp.MustCompile(`^'((?:\\.|[^'\\])*)'$`)
var rangeRe = regexp.MustCompile(`'((?:\\u[0-9A-Fa-f]{4})|[^'\\])'\s*\.\.\s*'((?:\\u[0-9A-Fa-f]{4})|[^'\\])'`)

func g4Char(s string) int {
	if strings.HasPrefix(s, `\u`) {
		v, _ := strconv.ParseInt(s[2:], 16, 32)
		return int(v)
	}
	return int([]rune(s)[0])
}

func unescapeLit(s string) string {
	s = strings.ReplaceAll(s, `\'`, `'`)
	s = strings.ReplaceAll(s, `\\`, `\`)
	return s
}

func runSyntax(repo, out string) error {
	pf, err := parser.ParseFile(fset, filepath.Join(repo, "antlr/parser/grulev3/grulev3_parser.go"), nil, 0)
	if err != nil {
		return err
	}
	exprLv, err := precLevels(pf, "expression")
	if err != nil {
		return err
	}
	atomLv, err := precLevels(pf, "expressionAtom")
	if err != nil {
		return err
	}
	g4b, err := os.ReadFile(filepath.Join(repo, "antlr/grulev3.g4"))
	if err != nil {
		return err
	}
	names, body, frag := g4Rules(string(g4b))

	// fixed texts of lexer rules: a single literal, or a sequence of one-letter case-insensitive fragments
	fixed := map[string]string{}
	letter := map[string]string{} // fragment A : [aA]
	letRe := regexp.MustCompile(`^\[([a-z])([A-Z])\]$`)
	for _, n := range names {
		if frag[n] {
			if m := letRe.FindStringSubmatch(body[n]); m != nil && strings.ToUpper(m[1]) == m[2] && n == m[2] {
				letter[n] = m[1]
			}
		}
	}
	var lexOrder []string
	for _, n := range names {
		if frag[n] || !(n[0] >= 'A' && n[0] <= 'Z') {
			continue
		}
		lexOrder = append(lexOrder, n)
		b := body[n]
		if m := litRe.FindStringSubmatch(b); m != nil {
			fixed[n] = "=" + unescapeLit(m[1])
			continue
		}
		fs := strings.Fields(b)
		w := ""
		ok := len(fs) > 0
		for _, f := range fs {
			if l, is := letter[f]; is {
				w += l
			} else {
				ok = false
			}
		}
		if ok {
			fixed[n] = "~" + w
		}
	}
	// operator rules of the parser: rule -> token names -> texts
	opRule := func(n string) []string {
		var syms []string
		for _, t := range strings.Split(body[n], "|") {
			t = strings.TrimSpace(t)
			if f, ok := fixed[t]; ok {
				syms = append(syms, f[1:])
			} else {
				syms = append(syms, "?"+t)
			}
		}
		return syms
	}
	ranges := func(n string) [][2]int {
		var rs [][2]int
		for _, m := range rangeRe.FindAllStringSubmatch(body[n], -1) {
			rs = append(rs, [2]int{g4Char(m[1]), g4Char(m[2])})
		}
		return rs
	}
	// documented table
	docb, err := os.ReadFile(filepath.Join(repo, "docs/en/GRL_en.md"))
	if err != nil {
		return err
	}
	var doc [][2]string
	in := false
	rowRe := regexp.MustCompile("^\\|\\s*([0-9]+)\\s*\\|(.*)\\|\\s*$")
	symRe := regexp.MustCompile("`([^`]*)`")
	for _, ln := range strings.Split(string(docb), "\n") {
		if strings.HasPrefix(ln, "### Operator precedence") {
			in = true
			continue
		}
		if in && strings.HasPrefix(ln, "###") {
			break
		}
		if !in {
			continue
		}
		if m := rowRe.FindStringSubmatch(ln); m != nil {
			for _, s := range symRe.FindAllStringSubmatch(m[2], -1) {
				doc = append(doc, [2]string{m[1], strings.ReplaceAll(s[1], `\|`, "|")})
			}
		}
	}

	var b strings.Builder
	b.WriteString("/- GENERATED by tools/extract (T2) from antlr/parser/grulev3/grulev3_parser.go, antlr/grulev3.g4 and docs/en/GRL_en.md. Do not edit. -/\n")
	b.WriteString("namespace Grule.Gen\n\n")
	lv := func(name string, ls []level) {
		b.WriteString("/-- (operator rule, precedence predicate, precedence passed to the right operand) in the generated parser -/\n")
		fmt.Fprintf(&b, "def %s : List (String × Nat × Nat) := [", name)
		for i, l := range ls {
			if i > 0 {
				b.WriteString(", ")
			}
			nx := l.next
			if nx < 0 {
				nx = 0
			}
			fmt.Fprintf(&b, "(%s, %d, %d)", leanStr(l.opRule), l.pred, nx)
		}
		b.WriteString("]\n\n")
	}
	lv("exprLevels", exprLv)
	lv("atomLevels", atomLv)
	b.WriteString("/-- operator rules of the grammar with the texts of their tokens -/\n")
	b.WriteString("def opRules : List (String × List String) := [\n")
	ops := []string{"mulDivOperators", "addMinusOperators", "comparisonOperator", "andLogicOperator", "orLogicOperator"}
	for i, n := range ops {
		var q []string
		for _, s := range opRule(n) {
			q = append(q, leanStr(s))
		}
		sep := ","
		if i == len(ops)-1 {
			sep = ""
		}
		fmt.Fprintf(&b, "  (%s, [%s])%s\n", leanStr(n), strings.Join(q, ", "), sep)
	}
	b.WriteString("]\n\n")
	b.WriteString("/-- assignment operators of rule `assignment` -/\n")
	{
		var q []string
		m := regexp.MustCompile(`\(([A-Z_| ]+)\)`).FindStringSubmatch(body["assignment"])
		if m != nil {
			for _, t := range strings.Split(m[1], "|") {
				t = strings.TrimSpace(t)
				if f, ok := fixed[t]; ok {
					q = append(q, leanStr(f[1:]))
				} else {
					q = append(q, leanStr("?"+t))
				}
			}
		}
		fmt.Fprintf(&b, "def assignOps : List String := [%s]\n\n", strings.Join(q, ", "))
	}
	b.WriteString("/-- the lexer rules in the order of the grammar file (ties go to the earlier rule) -/\n")
	{
		var q []string
		for _, n := range lexOrder {
			q = append(q, leanStr(n))
		}
		fmt.Fprintf(&b, "def lexerOrder : List String := [%s]\n\n", strings.Join(q, ", "))
	}
	b.WriteString("/-- lexer rules with a fixed text: (rule, case-insensitive?, text) -/\n")
	b.WriteString("def lexerFixed : List (String × Bool × String) := [\n")
	first := true
	for _, n := range lexOrder {
		f, ok := fixed[n]
		if !ok {
			continue
		}
		if !first {
			b.WriteString(",\n")
		}
		first = false
		fmt.Fprintf(&b, "  (%s, %v, %s)", leanStr(n), f[0] == '~', leanStr(f[1:]))
	}
	b.WriteString("\n]\n\n")
	rg := func(name, rule string) {
		fmt.Fprintf(&b, "def %s : List (Nat × Nat) := [", name)
		for i, r := range ranges(rule) {
			if i > 0 {
				b.WriteString(", ")
			}
			fmt.Fprintf(&b, "(%d, %d)", r[0], r[1])
		}
		b.WriteString("]\n")
	}
	b.WriteString("/-- identifier character ranges (fragments ISC and the ranges IC adds) -/\n")
	rg("iscRanges", "ISC")
	rg("icRanges", "IC")
	b.WriteString("\n/-- the published table (docs/en/GRL_en.md): (level, operator) -/\n")
	b.WriteString("def docPrec : List (Nat × String) := [")
	for i, d := range doc {
		if i > 0 {
			b.WriteString(", ")
		}
		fmt.Fprintf(&b, "(%s, %s)", d[0], leanStr(d[1]))
	}
	b.WriteString("]\n\nend Grule.Gen\n")
	return os.WriteFile(out, []byte(b.String()), 0o644)
}

package main

// T1: pkg/reflectmath.go  ->  lean/GruleModel/Gen/ArithTables.lean
//     model/GoDataAccessLayer.go: SetNumberValue -> conversion cells (same file)
//
// Accepts exactly the shapes listed in DESIGN.md appendix B; anything else becomes `.unknown "<src>"`.

import (
	"bytes"
	"fmt"
	"go/ast"
	"go/parser"
	"go/printer"
	"go/token"
	"os"
	"path/filepath"
	"strings"
)

var fset = token.NewFileSet()

func src(n ast.Node) string {
	var b bytes.Buffer
	printer.Fprint(&b, fset, n)
	s := b.String()
	s = strings.Join(strings.Fields(s), " ")
	return s
}

func leanStr(s string) string {
	s = strings.ReplaceAll(s, "\\", "\\\\")
	s = strings.ReplaceAll(s, "\"", "\\\"")
	return "\"" + s + "\""
}

var kindNames = map[string]string{
	"Int": ".int", "Int8": ".int8", "Int16": ".int16", "Int32": ".int32", "Int64": ".int64",
	"Uint": ".uint", "Uint8": ".uint8", "Uint16": ".uint16", "Uint32": ".uint32", "Uint64": ".uint64",
	"Float32": ".float32", "Float64": ".float64", "String": ".string", "Bool": ".bool",
}

func kindClass(k string) string {
	switch {
	case strings.HasPrefix(k, ".int"):
		return "Int"
	case strings.HasPrefix(k, ".uint"):
		return "Uint"
	case strings.HasPrefix(k, ".float"):
		return "Float"
	case k == ".string":
		return "String"
	case k == ".bool":
		return "Bool"
	}
	return "?"
}

// reflect.X selector -> lean kind
func kindOf(e ast.Expr) (string, bool) {
	se, ok := e.(*ast.SelectorExpr)
	if !ok {
		return "", false
	}
	if id, ok := se.X.(*ast.Ident); !ok || id.Name != "reflect" {
		return "", false
	}
	k, ok := kindNames[se.Sel.Name]
	return k, ok
}

func kindList(es []ast.Expr) ([]string, bool) {
	out := []string{}
	for _, e := range es {
		k, ok := kindOf(e)
		if !ok {
			return nil, false
		}
		out = append(out, k)
	}
	return out, true
}

// is `x.Kind()` with x == name
func isKindCall(e ast.Expr, name string) bool {
	ce, ok := e.(*ast.CallExpr)
	if !ok || len(ce.Args) != 0 {
		return false
	}
	se, ok := ce.Fun.(*ast.SelectorExpr)
	if !ok || se.Sel.Name != "Kind" {
		return false
	}
	id, ok := se.X.(*ast.Ident)
	return ok && id.Name == name
}

// `leftValue := left.Int()`: returns (varname, accessor)
func accessorBinding(s ast.Stmt, side string) (string, string, bool) {
	as, ok := s.(*ast.AssignStmt)
	if !ok || as.Tok != token.DEFINE || len(as.Lhs) != 1 || len(as.Rhs) != 1 {
		return "", "", false
	}
	id, ok := as.Lhs[0].(*ast.Ident)
	if !ok {
		return "", "", false
	}
	// left.Interface().(time.Time)
	if ta, ok := as.Rhs[0].(*ast.TypeAssertExpr); ok {
		if src(ta.Type) == "time.Time" && src(ta.X) == side+".Interface()" {
			return id.Name, "Time", true
		}
		return "", "", false
	}
	ce, ok := as.Rhs[0].(*ast.CallExpr)
	if !ok || len(ce.Args) != 0 {
		return "", "", false
	}
	se, ok := ce.Fun.(*ast.SelectorExpr)
	if !ok {
		return "", "", false
	}
	x, ok := se.X.(*ast.Ident)
	if !ok || x.Name != side {
		return "", "", false
	}
	return id.Name, se.Sel.Name, true
}

type env struct {
	lname, rname string // Go variable names bound to the operands
	lacc, racc   string // accessor class: Int Uint Float String Bool Time
}

// operand expression -> (side "l"/"r", conv)
func (e *env) operand(x ast.Expr) (string, string, bool) {
	switch v := x.(type) {
	case *ast.ParenExpr:
		return e.operand(v.X)
	case *ast.Ident:
		if v.Name == e.lname {
			return "l", ".id", true
		}
		if v.Name == e.rname {
			return "r", ".id", true
		}
	case *ast.CallExpr:
		if id, ok := v.Fun.(*ast.Ident); ok && len(v.Args) == 1 {
			side, c, ok := e.operand(v.Args[0])
			if !ok || c != ".id" {
				return "", "", false
			}
			switch id.Name {
			case "int64":
				return side, ".i64", true
			case "float64":
				return side, ".f64", true
			case "uint64":
				return side, ".u64", true
			}
		}
	}
	return "", "", false
}

var primNames = map[token.Token]string{
	token.MUL: ".mul", token.QUO: ".quo", token.REM: ".rem", token.ADD: ".add", token.SUB: ".sub",
	token.AND: ".band", token.OR: ".bor", token.GTR: ".gt", token.LSS: ".lt", token.GEQ: ".ge",
	token.LEQ: ".le", token.EQL: ".eq", token.NEQ: ".ne", token.LAND: ".land", token.LOR: ".lor",
}

// boolean expression over two time operands
func (e *env) texp(x ast.Expr) (string, bool) {
	switch v := x.(type) {
	case *ast.ParenExpr:
		return e.texp(v.X)
	case *ast.UnaryExpr:
		if v.Op == token.NOT {
			a, ok := e.texp(v.X)
			if ok {
				return "(.not " + a + ")", true
			}
		}
	case *ast.BinaryExpr:
		if v.Op == token.LOR {
			a, ok1 := e.texp(v.X)
			b, ok2 := e.texp(v.Y)
			if ok1 && ok2 {
				return "(.or " + a + " " + b + ")", true
			}
			return "", false
		}
		ls, lc, ok1 := e.operand(v.X)
		rs, rc, ok2 := e.operand(v.Y)
		if ok1 && ok2 && ls == "l" && rs == "r" && lc == ".id" && rc == ".id" {
			if v.Op == token.EQL {
				return ".seq", true
			}
			if v.Op == token.NEQ {
				return ".sne", true
			}
		}
	case *ast.CallExpr:
		se, ok := v.Fun.(*ast.SelectorExpr)
		if ok && len(v.Args) == 1 {
			ls, lc, ok1 := e.operand(se.X)
			rs, rc, ok2 := e.operand(v.Args[0])
			if ok1 && ok2 && ls == "l" && rs == "r" && lc == ".id" && rc == ".id" {
				switch se.Sel.Name {
				case "After":
					return ".after", true
				case "Before":
					return ".before", true
				case "Equal":
					return ".equal", true
				}
			}
		}
	}
	return "", false
}

// `return reflect.ValueOf(E), nil` / `return reflect.ValueOf(nil), fmt.Errorf(...)`
func (e *env) leaf(s ast.Stmt) string {
	rs, ok := s.(*ast.ReturnStmt)
	if !ok || len(rs.Results) != 2 {
		return ".unknown " + leanStr(src(s))
	}
	unk := ".unknown " + leanStr(src(rs))
	ce, ok := rs.Results[0].(*ast.CallExpr)
	if !ok || src(ce.Fun) != "reflect.ValueOf" || len(ce.Args) != 1 {
		return unk
	}
	arg := ce.Args[0]
	second := src(rs.Results[1])
	if src(arg) == "nil" {
		if strings.HasPrefix(second, "fmt.Errorf(") {
			return ".err"
		}
		return unk
	}
	if second != "nil" {
		return unk
	}
	if id, ok := arg.(*ast.Ident); ok && (id.Name == "false" || id.Name == "true") {
		return ".constB " + id.Name
	}
	if e.lacc == "Time" && e.racc == "Time" {
		if t, ok := e.texp(arg); ok {
			return ".timeE " + t
		}
		return unk
	}
	switch v := arg.(type) {
	case *ast.BinaryExpr:
		p, ok := primNames[v.Op]
		if !ok {
			return unk
		}
		ls, lc, ok1 := e.operand(v.X)
		rs2, rc, ok2 := e.operand(v.Y)
		if !ok1 || !ok2 || ls != "l" || rs2 != "r" {
			return unk
		}
		return fmt.Sprintf(".prim %s %s %s", p, lc, rc)
	case *ast.CallExpr:
		if src(v.Fun) == "fmt.Sprintf" && len(v.Args) == 3 {
			lit, ok := v.Args[0].(*ast.BasicLit)
			if !ok || lit.Kind != token.STRING {
				return unk
			}
			ls, lc, ok1 := e.operand(v.Args[1])
			if !ok1 || ls != "l" || lc != ".id" {
				return unk
			}
			if e.racc == "Time" {
				if src(v.Args[2]) == e.rname+".Format(time.RFC3339)" {
					return ".sprintfTimeR " + lit.Value
				}
				return unk
			}
			rs2, rc, ok2 := e.operand(v.Args[2])
			if !ok2 || rs2 != "r" || rc != ".id" {
				return unk
			}
			return ".sprintf " + lit.Value
		}
	}
	return unk
}

func accOK(acc string, kinds []string) bool {
	for _, k := range kinds {
		if kindClass(k) != acc {
			return false
		}
	}
	return true
}

type cell struct {
	kinds []string
	leaf  string
}
type row struct {
	kinds []string
	cells []cell
	dflt  string
}
type table struct {
	name  string
	deref bool
	rows  []row
	dflt  string
}

// is `x.Type().String() == "time.Time"`
func isTimeTest(e ast.Expr, side string) bool {
	return src(e) == side+".Type().String() == \"time.Time\""
}

// body of a `case <left kinds>:` clause (after the accessor binding)
func (e *env) rightSwitch(stmts []ast.Stmt, r *row) {
	r.dflt = ".unknown \"no default\""
	if len(stmts) == 1 {
		if sw, ok := stmts[0].(*ast.SwitchStmt); ok && sw.Init == nil && isKindCall(sw.Tag, "right") {
			for _, c := range sw.Body.List {
				cc := c.(*ast.CaseClause)
				if cc.List == nil {
					// default: maybe the time test for string + time
					r.dflt = e.defaultLeaf(cc.Body, false)
					continue
				}
				ks, ok := kindList(cc.List)
				if !ok || len(cc.Body) != 2 {
					r.cells = append(r.cells, cell{[]string{}, ".unknown " + leanStr(src(cc))})
					continue
				}
				rn, racc, ok := accessorBinding(cc.Body[0], "right")
				if !ok || !accOK(racc, ks) {
					r.cells = append(r.cells, cell{ks, ".unknown " + leanStr(src(cc.Body[0]))})
					continue
				}
				e2 := *e
				e2.rname, e2.racc = rn, racc
				r.cells = append(r.cells, cell{ks, e2.leaf(cc.Body[1])})
			}
			return
		}
	}
	// `if right.Kind() == reflect.K { rightValue := ...; return ... }  return ...`
	if len(stmts) == 2 {
		if is, ok := stmts[0].(*ast.IfStmt); ok && is.Init == nil && is.Else == nil {
			if be, ok := is.Cond.(*ast.BinaryExpr); ok && be.Op == token.EQL && isKindCall(be.X, "right") {
				if k, ok := kindOf(be.Y); ok && len(is.Body.List) == 2 {
					rn, racc, ok := accessorBinding(is.Body.List[0], "right")
					if ok && accOK(racc, []string{k}) {
						e2 := *e
						e2.rname, e2.racc = rn, racc
						r.cells = append(r.cells, cell{[]string{k}, e2.leaf(is.Body.List[1])})
						r.dflt = e.leaf(stmts[1])
						return
					}
				}
			}
		}
	}
	r.dflt = ".unknown " + leanStr(fmt.Sprintf("%d stmts", len(stmts)))
}

// default clause body. outer=true: `if left is time && right is time {...} return err`;
// outer=false (inside string row of Addition): `if right is time { ... } return err`; or plain `return err`.
func (e *env) defaultLeaf(stmts []ast.Stmt, outer bool) string {
	if len(stmts) == 1 {
		return e.leaf(stmts[0])
	}
	if len(stmts) == 2 {
		is, ok := stmts[0].(*ast.IfStmt)
		if ok && is.Init == nil && is.Else == nil && e.leaf(stmts[1]) == ".err" {
			if outer {
				be, ok := is.Cond.(*ast.BinaryExpr)
				if ok && be.Op == token.LAND && isTimeTest(be.X, "left") && isTimeTest(be.Y, "right") && len(is.Body.List) == 3 {
					ln, lacc, ok1 := accessorBinding(is.Body.List[0], "left")
					rn, racc, ok2 := accessorBinding(is.Body.List[1], "right")
					if ok1 && ok2 && lacc == "Time" && racc == "Time" {
						e2 := env{ln, rn, lacc, racc}
						return e2.leaf(is.Body.List[2])
					}
				}
			} else {
				if isTimeTest(is.Cond, "right") && len(is.Body.List) == 2 {
					rn, racc, ok := accessorBinding(is.Body.List[0], "right")
					if ok && racc == "Time" {
						e2 := *e
						e2.rname, e2.racc = rn, racc
						return e2.leaf(is.Body.List[1])
					}
				}
			}
		}
	}
	return ".unknown " + leanStr("default clause")
}

func extractTable(fd *ast.FuncDecl) table {
	t := table{name: fd.Name.Name, dflt: ".unknown \"no default\""}
	body := fd.Body.List
	if len(body) >= 1 && src(body[0]) == "left, right = GetValueElem(left), GetValueElem(right)" {
		t.deref = true
		body = body[1:]
	}
	// LogicAnd / LogicOr shape
	if len(body) == 2 {
		if is, ok := body[0].(*ast.IfStmt); ok && is.Init == nil && is.Else == nil {
			if src(is.Cond) == "left.Kind() == reflect.Bool && right.Kind() == reflect.Bool" && len(is.Body.List) == 3 {
				ln, lacc, ok1 := accessorBinding(is.Body.List[0], "left")
				rn, racc, ok2 := accessorBinding(is.Body.List[1], "right")
				if ok1 && ok2 && lacc == "Bool" && racc == "Bool" {
					e := env{ln, rn, lacc, racc}
					r := row{kinds: []string{".bool"}, dflt: e.leaf(body[1])}
					r.cells = append(r.cells, cell{[]string{".bool"}, e.leaf(is.Body.List[2])})
					t.rows = append(t.rows, r)
					t.dflt = e.leaf(body[1])
					return t
				}
			}
		}
	}
	if len(body) != 1 {
		t.dflt = ".unknown " + leanStr(fmt.Sprintf("body has %d statements", len(body)))
		return t
	}
	sw, ok := body[0].(*ast.SwitchStmt)
	if !ok || sw.Init != nil || !isKindCall(sw.Tag, "left") {
		t.dflt = ".unknown \"outer switch\""
		return t
	}
	for _, c := range sw.Body.List {
		cc := c.(*ast.CaseClause)
		if cc.List == nil {
			e := env{}
			t.dflt = e.defaultLeaf(cc.Body, true)
			continue
		}
		ks, ok := kindList(cc.List)
		if !ok || len(cc.Body) < 2 {
			t.rows = append(t.rows, row{kinds: []string{}, dflt: ".unknown " + leanStr(src(cc.List[0]))})
			continue
		}
		ln, lacc, ok := accessorBinding(cc.Body[0], "left")
		if !ok || !accOK(lacc, ks) {
			t.rows = append(t.rows, row{kinds: ks, dflt: ".unknown " + leanStr(src(cc.Body[0]))})
			continue
		}
		e := env{lname: ln, lacc: lacc}
		r := row{kinds: ks}
		e.rightSwitch(cc.Body[1:], &r)
		t.rows = append(t.rows, r)
	}
	return t
}

func leanList(xs []string) string { return "[" + strings.Join(xs, ", ") + "]" }

func (t table) lean() string {
	var b strings.Builder
	fmt.Fprintf(&b, "def %s : OpTable :=\n  { rows := [\n", leanName(t.name))
	for i, r := range t.rows {
		fmt.Fprintf(&b, "      { kinds := %s,\n        cells := [\n", leanList(r.kinds))
		for j, c := range r.cells {
			sep := ","
			if j == len(r.cells)-1 {
				sep = ""
			}
			fmt.Fprintf(&b, "          (%s, %s)%s\n", leanList(c.kinds), c.leaf, sep)
		}
		sep := ","
		if i == len(t.rows)-1 {
			sep = ""
		}
		fmt.Fprintf(&b, "        ],\n        dflt := %s }%s\n", r.dflt, sep)
	}
	fmt.Fprintf(&b, "    ],\n    dflt := %s }\n\n", t.dflt)
	fmt.Fprintf(&b, "def %s_deref : Bool := %v\n\n", leanName(t.name), t.deref)
	return b.String()
}

func leanName(goName string) string {
	return "tbl" + strings.TrimPrefix(goName, "Evaluate")
}

var arithFuncs = []string{
	"EvaluateMultiplication", "EvaluateDivision", "EvaluateModulo", "EvaluateAddition", "EvaluateSubtraction",
	"EvaluateBitAnd", "EvaluateBitOr", "EvaluateGreaterThan", "EvaluateLesserThan", "EvaluateGreaterThanEqual",
	"EvaluateLesserThanEqual", "EvaluateEqual", "EvaluateNotEqual", "EvaluateLogicAnd", "EvaluateLogicOr",
}

// ---- SetNumberValue ------------------------------------------------------------------------

// emits, per target class (Int/Uint/Float) and source base kind (Uint64/Float64/else=Int64), the
// conversion used: one of setInt/setUint/setFloat applied to conv(newvalue.Acc())
func extractSetNumber(fd *ast.FuncDecl) string {
	var b strings.Builder
	unk := func(msg string) string {
		return "def setNumberCells : List (List Kind × List (SrcBase × SetLeaf)) := [([], [(.int64, .unknown " + leanStr(msg) + ")])]\n"
	}
	if len(fd.Body.List) != 2 {
		return unk("body")
	}
	is, ok := fd.Body.List[0].(*ast.IfStmt)
	if !ok || src(is.Cond) != "pkg.IsNumber(target) && pkg.IsNumber(newvalue)" || len(is.Body.List) != 2 {
		return unk("guard")
	}
	sw, ok := is.Body.List[0].(*ast.SwitchStmt)
	if !ok || src(sw.Tag) != "target.Type().Kind()" {
		return unk("switch")
	}
	b.WriteString("def setNumberCells : List (List Kind × List (SrcBase × SetLeaf)) := [\n")
	for i, c := range sw.Body.List {
		cc := c.(*ast.CaseClause)
		ks, ok := kindList(cc.List)
		if !ok || len(cc.Body) != 2 {
			return unk("case")
		}
		cells := []string{}
		var walk func(s ast.Stmt)
		setLeaf := func(base string, body *ast.BlockStmt) {
			if len(body.List) != 1 {
				cells = append(cells, "(."+base+", .unknown \"body\")")
				return
			}
			es, ok := body.List[0].(*ast.ExprStmt)
			if !ok {
				cells = append(cells, "(."+base+", .unknown \"stmt\")")
				return
			}
			ce, ok := es.X.(*ast.CallExpr)
			if !ok || len(ce.Args) != 1 {
				cells = append(cells, "(."+base+", .unknown \"call\")")
				return
			}
			setter := strings.TrimPrefix(src(ce.Fun), "target.")
			arg := ce.Args[0]
			conv := ".id"
			if c2, ok := arg.(*ast.CallExpr); ok {
				if id, ok := c2.Fun.(*ast.Ident); ok && len(c2.Args) == 1 {
					switch id.Name {
					case "int64":
						conv = ".i64"
					case "uint64":
						conv = ".u64"
					case "float64":
						conv = ".f64"
					}
					arg = c2.Args[0]
				}
			}
			acc := strings.TrimSuffix(strings.TrimPrefix(src(arg), "newvalue."), "()")
			okAcc := (base == "uint64" && acc == "Uint") || (base == "float64" && acc == "Float") || (base == "int64" && acc == "Int")
			var s string
			switch setter {
			case "SetInt":
				s = ".setInt"
			case "SetUint":
				s = ".setUint"
			case "SetFloat":
				s = ".setFloat"
			}
			if s == "" || !okAcc {
				cells = append(cells, "(."+base+", .unknown "+leanStr(src(es))+")")
				return
			}
			cells = append(cells, fmt.Sprintf("(.%s, %s %s)", base, s, conv))
		}
		walk = func(s ast.Stmt) {
			switch v := s.(type) {
			case *ast.IfStmt:
				cond := src(v.Cond)
				base := ""
				if cond == "pkg.GetBaseKind(newvalue) == reflect.Uint64" {
					base = "uint64"
				} else if cond == "pkg.GetBaseKind(newvalue) == reflect.Float64" {
					base = "float64"
				}
				if base == "" {
					cells = append(cells, "(.int64, .unknown "+leanStr(cond)+")")
					return
				}
				setLeaf(base, v.Body)
				if v.Else != nil {
					walk(v.Else)
				}
			case *ast.BlockStmt:
				setLeaf("int64", v)
			}
		}
		walk(cc.Body[0])
		sep := ","
		if i == len(sw.Body.List)-1 {
			sep = ""
		}
		fmt.Fprintf(&b, "  (%s, [%s])%s\n", leanList(ks), strings.Join(cells, ", "), sep)
	}
	b.WriteString("]\n")
	return b.String()
}

func runArith(repo, out string) error {
	f, err := parser.ParseFile(fset, filepath.Join(repo, "pkg/reflectmath.go"), nil, 0)
	if err != nil {
		return err
	}
	funcs := map[string]*ast.FuncDecl{}
	for _, d := range f.Decls {
		if fd, ok := d.(*ast.FuncDecl); ok && fd.Recv == nil {
			funcs[fd.Name.Name] = fd
		}
	}
	var b strings.Builder
	b.WriteString("-- GENERATED by tools/extract (T1) from pkg/reflectmath.go and model/GoDataAccessLayer.go. Do not edit.\n")
	b.WriteString("import GruleModel.Arith\nnamespace Grule.Gen\nopen Grule\n\n")
	for _, n := range arithFuncs {
		fd, ok := funcs[n]
		if !ok {
			fmt.Fprintf(&b, "def %s : OpTable := { rows := [], dflt := .unknown \"function missing\" }\n\ndef %s_deref : Bool := false\n\n", leanName(n), leanName(n))
			continue
		}
		b.WriteString(extractTable(fd).lean())
	}
	// EvaluateLogicSingle: fixed shape check
	ls := "false"
	if fd, ok := funcs["EvaluateLogicSingle"]; ok {
		want := "{ left = GetValueElem(left) if left.Kind() == reflect.Bool { leftValue := left.Bool() return reflect.ValueOf(leftValue), nil } return reflect.ValueOf(nil), fmt.Errorf(\"can not use data type of %s in Logical AND comparison\", left.Kind().String()) }"
		if src(fd.Body) == want {
			ls = "true"
		}
	}
	fmt.Fprintf(&b, "def logicSingle_asExpected : Bool := %s\n\n", ls)

	g, err := parser.ParseFile(fset, filepath.Join(repo, "model/GoDataAccessLayer.go"), nil, 0)
	if err != nil {
		return err
	}
	found := false
	for _, d := range g.Decls {
		if fd, ok := d.(*ast.FuncDecl); ok && fd.Recv == nil && fd.Name.Name == "SetNumberValue" {
			b.WriteString(extractSetNumber(fd))
			found = true
		}
	}
	if !found {
		b.WriteString("def setNumberCells : List (List Kind × List (SrcBase × SetLeaf)) := [([], [(.int64, .unknown \"missing\")])]\n")
	}
	b.WriteString("\nend Grule.Gen\n")
	return os.WriteFile(out, []byte(b.String()), 0o644)
}

package main

// T3: ast/Serializer.go -> lean/GruleModel/Gen/WireSchema.lean
// For every *Meta type the field sequence of WriteMetaTo and of ReadMetaFrom, and the frame sequence of
// Write/ReadCatalog…, as token lists. Anything not understood becomes the token `.unknown "<src>"`.

import (
	"fmt"
	"go/ast"
	"go/parser"
	"os"
	"path/filepath"
	"sort"
	"strings"
)

func callName(e ast.Expr) string {
	ce, ok := e.(*ast.CallExpr)
	if !ok {
		return ""
	}
	return src(ce.Fun)
}

// tokens of one statement list (write side)
func wrTokens(stmts []ast.Stmt) []string {
	out := []string{}
	for _, s := range stmts {
		switch v := s.(type) {
		case *ast.AssignStmt:
			if len(v.Rhs) != 1 {
				out = append(out, ".unknown "+leanStr(src(v)))
				continue
			}
			ce, ok := v.Rhs[0].(*ast.CallExpr)
			if !ok {
				out = append(out, ".unknown "+leanStr(src(v)))
				continue
			}
			fn := src(ce.Fun)
			switch {
			case fn == "meta.NodeMeta.WriteMetaTo":
				out = append(out, ".node")
			case fn == "WriteStringToWriter":
				out = append(out, ".str")
			case fn == "WriteBoolToWriter":
				out = append(out, ".bool")
			case fn == "WriteFloatToWriter":
				out = append(out, ".f64")
			case fn == "WriteIntToWriter":
				arg := src(ce.Args[1])
				if strings.HasPrefix(arg, "uint64(len(") {
					out = append(out, ".count")
				} else {
					out = append(out, ".u64")
				}
			case fn == "writer.Write":
				out = append(out, ".raw")
			case fn == "value.WriteMetaTo":
				out = append(out, ".metaRec")
			default:
				out = append(out, ".unknown "+leanStr(src(v)))
			}
		case *ast.IfStmt:
			// `if err != nil { return err }`
			if src(v.Cond) == "err != nil" && len(v.Body.List) == 1 && src(v.Body.List[0]) == "return err" && v.Else == nil {
				continue
			}
			out = append(out, ".unknown "+leanStr(src(v.Cond)))
		case *ast.RangeStmt:
			inner := wrTokens(v.Body.List)
			out = append(out, ".lb")
			out = append(out, inner...)
			out = append(out, ".le")
		case *ast.ReturnStmt:
			if src(v) != "return nil" {
				out = append(out, ".unknown "+leanStr(src(v)))
			}
		default:
			out = append(out, ".unknown "+leanStr(src(s)))
		}
	}
	return out
}

// tokens of one statement list (read side)
func rdTokens(stmts []ast.Stmt) []string {
	out := []string{}
	for _, s := range stmts {
		switch v := s.(type) {
		case *ast.AssignStmt:
			if len(v.Rhs) == 1 {
				if ce, ok := v.Rhs[0].(*ast.CallExpr); ok {
					fn := src(ce.Fun)
					switch fn {
					case "meta.NodeMeta.ReadMetaFrom":
						out = append(out, ".node")
						continue
					case "ReadStringFromReader":
						out = append(out, ".str")
						continue
					case "ReadBoolFromReader":
						out = append(out, ".bool")
						continue
					case "ReadFloatFromReader":
						out = append(out, ".f64")
						continue
					case "ReadIntFromReader":
						out = append(out, ".u64")
						continue
					case "reader.Read", "readBytesFromReader":
						out = append(out, ".raw")
						continue
					case "append":
						// storing the element just read: `xs = append(xs, s)` with xs on both sides
						if len(ce.Args) == 2 && len(v.Lhs) == 1 && src(v.Lhs[0]) == src(ce.Args[0]) {
							if _, ok := ce.Args[1].(*ast.Ident); ok {
								continue
							}
						}
					case "meta.ReadMetaFrom":
						out = append(out, ".metaRec")
						continue
					case "make":
						continue // allocation of the destination
					}
					// conversions such as ValueType(i), int(i), NodeType(x)
					if len(ce.Args) == 1 {
						if _, ok := ce.Args[0].(*ast.Ident); ok {
							continue
						}
					}
				}
				// plain stores `meta.X = v`, `cat.X = str`, `cat.M[key] = val`
				switch v.Rhs[0].(type) {
				case *ast.Ident, *ast.IndexExpr:
					continue
				}
			}
			out = append(out, ".unknown "+leanStr(src(v)))
		case *ast.IfStmt:
			c := src(v.Cond)
			if c == "err != nil" && len(v.Body.List) == 1 && src(v.Body.List[0]) == "return err" && v.Else == nil {
				continue
			}
			if c == "uint64(readCount) != length" || c == "str != Version" {
				continue // checks that only reject
			}
			out = append(out, ".unknown "+leanStr(c))
		case *ast.ForStmt:
			inner := rdTokens(v.Body.List)
			out = append(out, ".lb")
			out = append(out, inner...)
			out = append(out, ".le")
		case *ast.ReturnStmt:
			if src(v) != "return nil" {
				out = append(out, ".unknown "+leanStr(src(v)))
			}
		case *ast.DeclStmt:
			continue // var meta Meta
		case *ast.SwitchStmt:
			// the node-type dispatch of the catalog reader
			if src(v.Tag) == "NodeType(metaType)" {
				out = append(out, ".dispatch")
				continue
			}
			out = append(out, ".unknown "+leanStr(src(v.Tag)))
		default:
			out = append(out, ".unknown "+leanStr(src(s)))
		}
	}
	return out
}

// a count is a u64 that is followed by a loop; a u64 followed by anything else is a plain u64
func normCounts(toks []string) []string {
	out := []string{}
	for i, t := range toks {
		if (t == ".u64" || t == ".count") && i+1 < len(toks) && toks[i+1] == ".lb" {
			out = append(out, ".count")
		} else if t == ".count" {
			out = append(out, ".u64")
		} else {
			out = append(out, t)
		}
	}
	return out
}

func runWire(repo, out string) error {
	f, err := parser.ParseFile(fset, filepath.Join(repo, "ast/Serializer.go"), nil, 0)
	if err != nil {
		return err
	}
	wr := map[string][]string{}
	rd := map[string][]string{}
	var frameW, frameR []string
	fields := map[string][]string{}
	for _, d := range f.Decls {
		switch v := d.(type) {
		case *ast.FuncDecl:
			if v.Recv == nil || len(v.Recv.List) != 1 {
				continue
			}
			recv := strings.TrimPrefix(src(v.Recv.List[0].Type), "*")
			switch v.Name.Name {
			case "WriteMetaTo":
				wr[recv] = normCounts(wrTokens(v.Body.List))
			case "ReadMetaFrom":
				rd[recv] = normCounts(rdTokens(v.Body.List))
			case "WriteCatalogToWriter":
				frameW = normCounts(wrTokens(v.Body.List))
			case "ReadCatalogFromReader":
				frameR = normCounts(rdTokens(v.Body.List))
			}
		case *ast.GenDecl:
			for _, sp := range v.Specs {
				ts, ok := sp.(*ast.TypeSpec)
				if !ok {
					continue
				}
				st, ok := ts.Type.(*ast.StructType)
				if !ok || !strings.HasSuffix(ts.Name.Name, "Meta") {
					continue
				}
				for _, fl := range st.Fields.List {
					for _, n := range fl.Names {
						fields[ts.Name.Name] = append(fields[ts.Name.Name], n.Name)
					}
				}
			}
		}
	}
	names := []string{}
	for n := range wr {
		names = append(names, n)
	}
	sort.Strings(names)
	var b strings.Builder
	b.WriteString("-- GENERATED by tools/extract (T3) from ast/Serializer.go. Do not edit.\n")
	b.WriteString("import GruleModel.WireSchema\nnamespace Grule.Gen\nopen Grule.Wire\n\n")
	b.WriteString("def wireWrite : List (String × List Tok) := [\n")
	for i, n := range names {
		sep := ","
		if i == len(names)-1 {
			sep = ""
		}
		fmt.Fprintf(&b, "  (%s, [%s])%s\n", leanStr(n), strings.Join(wr[n], ", "), sep)
	}
	b.WriteString("]\n\ndef wireRead : List (String × List Tok) := [\n")
	for i, n := range names {
		sep := ","
		if i == len(names)-1 {
			sep = ""
		}
		fmt.Fprintf(&b, "  (%s, [%s])%s\n", leanStr(n), strings.Join(rd[n], ", "), sep)
	}
	fmt.Fprintf(&b, "]\n\ndef frameWrite : List Tok := [%s]\n\ndef frameRead : List Tok := [%s]\n\n", strings.Join(frameW, ", "), strings.Join(frameR, ", "))
	// does RuleEntryMeta carry a Deleted field?
	hasDeleted := false
	for _, n := range fields["RuleEntryMeta"] {
		if n == "Deleted" {
			hasDeleted = true
		}
	}
	fmt.Fprintf(&b, "def ruleEntryMetaHasDeleted : Bool := %v\n\nend Grule.Gen\n", hasDeleted)
	return os.WriteFile(out, []byte(b.String()), 0o644)
}

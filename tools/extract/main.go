package main

import (
	"fmt"
	"os"
	"path/filepath"
)

// usage: extract <repo> <lean Gen dir>
func main() {
	if len(os.Args) != 3 {
		fmt.Fprintln(os.Stderr, "usage: extract <repo> <outdir>")
		os.Exit(2)
	}
	repo, out := os.Args[1], os.Args[2]
	os.MkdirAll(out, 0o755)
	steps := []struct {
		name string
		f    func(string, string) error
		file string
	}{
		{"arith", runArith, "ArithTables.lean"},
		{"wire", runWire, "WireSchema.lean"},
		{"syntax", runSyntax, "SyntaxFacts.lean"},
		{"loaders", runLoaders, "LoaderFacts.lean"},
	}
	for _, s := range steps {
		p := filepath.Join(out, s.file)
		os.Remove(p)
		if err := s.f(repo, p); err != nil {
			fmt.Fprintf(os.Stderr, "extract %s: %v\n", s.name, err)
			os.Exit(1)
		}
	}
}

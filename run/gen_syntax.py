"""GRL text in every legal rendering, and broken GRL text.

* `Render`: prints a rule AST (grl.py forms) as a token list with every notation the grammar and the
  documentation allow — keyword and boolean case, decimal / hex / octal integers, decimal, exponent and hex
  floats, double- and single-quoted strings with every escape form — and joins the tokens with arbitrary
  whitespace and comments. One constant value gets one notation per scenario (so that the source text of a
  node, which the engine's invalidation index is keyed on, does not depend on the occurrence).
* `add_parens`: redundant parentheses around sub-expressions (they become `par` nodes of the intended AST).
* `flat_chain`: operator chains without parentheses and their grouping by the published precedence table.
* `mutate_tokens` / `mutate_chars`: the token- and character-level mutations of property C17.
"""
import json
from grl import *
from rng import Rng

KEYWORDS = ["rule", "when", "then", "salience", "true", "false", "nil"]


def case_variant(rng, w):
    k = rng.below(4)
    if k == 0:
        return w
    if k == 1:
        return w.upper()
    if k == 2:
        return w.capitalize()
    return "".join(c.upper() if rng.chance(0.5) else c for c in w)


def esc_char(rng, ch, q):
    """one character of a string literal in quote style q, in some escape form"""
    n = ord(ch)
    simple = {7: "\\a", 8: "\\b", 12: "\\f", 10: "\\n", 13: "\\r", 9: "\\t", 11: "\\v", 92: "\\\\"}
    forms = []
    if ch == q:
        forms.append("\\" + q)
    elif ch == "\\":
        forms.append("\\\\")
    elif n in simple:
        forms += [simple[n], ch] if n in (10, 9, 13) else [simple[n]]   # raw newlines/tabs are legal inside a GRL string
    elif n < 0x20 or n == 0x7f:
        forms.append("\\x%02x" % n)
    else:
        forms.append(ch)
    # identifier characters and '.' stay as they are (see module comment); everything else may be escaped numerically
    if not (ch.isalnum() or ch in "._") or n >= 0x80:
        if n < 0x80:
            forms += ["\\x%02X" % n, "\\%03o" % n, "\\u%04x" % n]
        elif n < 0x10000:
            forms += ["\\u%04X" % n, "\\U%08x" % n, ch]
        else:
            forms += ["\\U%08X" % n, ch]
    return rng.choice(forms)


def float_variants(x, text):
    """decimal / exponent / hex renderings of the double x that denote exactly x (text = grl.float_text(x))"""
    out = [text]
    a = abs(x)
    sign = "-" if text.startswith("-") else ""
    hx = a.hex()                      # 0x1.8000000000000p+1
    out.append(sign + hx)
    m, e = hx.split("p")
    m2 = m.rstrip("0")
    if m2.endswith("."):
        m2 = m2[:-1]
    out.append(sign + m2 + "P" + e.replace("+", ""))
    out.append(sign + hx.replace("0x", "0X"))
    body = text.lstrip("-")
    if "e" not in body:
        ip, fp = body.split(".")
        # shift the decimal point: d.ddd = ddd e-3 (exact: same decimal value)
        digits = (ip + fp).lstrip("0") or "0"
        out.append(sign + digits + "e-%d" % len(fp))
        out.append(sign + digits + ".0E-%d" % len(fp))
        if ip == "0" and fp:
            out.append(sign + "." + fp)
        out.append(sign + body + "e0")
        out.append(sign + body + "E+00")
    else:
        mm, ee = body.split("e")
        out.append(sign + mm + "E" + ee)
        if not ee.startswith("-"):
            out.append(sign + mm + "e+" + ee)
    good = []
    for t in out:
        try:
            v = float.fromhex(t) if "x" in t.lower() else float(t)
        except ValueError:
            continue
        if f64bits(v) == f64bits(x):
            good.append(t)
    return good


class Render:
    def __init__(self, rng, exotic=True):
        self.r = rng
        self.exotic = exotic
        self.memo = {}

    def kw(self, w):
        return case_variant(self.r, w) if self.exotic else w

    def const(self, c):
        """token list of a constant"""
        key = json.dumps(c)
        if key in self.memo:
            return list(self.memo[key])
        r = self.r
        t = c[0]
        if t == "s":
            if not self.exotic:
                toks = [quote(c[1])]
            else:
                q = r.choice(['"', '"', "'"])
                toks = [q + "".join(esc_char(r, ch, q) for ch in c[1]) + q]
        elif t == "i":
            v = int(c[1])
            a = abs(v)
            forms = [str(a)]
            if self.exotic:
                forms += ["0x%x" % a, "0X%X" % a, "0%o" % a if a else "00"]
            toks = (["-"] if v < 0 else []) + [r.choice(forms)]
        elif t == "f":
            x = bits_f64(int(c[1]))
            vs = float_variants(x, c[2]) if self.exotic else [c[2]]
            txt = r.choice(vs)
            toks = (["-"] if txt.startswith("-") else []) + [txt.lstrip("-")]
        elif t == "b":
            toks = [self.kw("true" if c[1] else "false")]
        else:
            toks = [self.kw("nil")]
        self.memo[key] = toks
        return list(toks)

    def expr(self, e):
        t = e[0]
        if t == "bin":
            return self.expr(e[2]) + [e[1]] + self.expr(e[3])
        if t == "par":
            return (["!"] if e[1] else []) + ["("] + self.expr(e[2]) + [")"]
        return self.atom(e[1])

    def args(self, a):
        out = []
        for i, x in enumerate(a):
            if i:
                out.append(",")
            out += self.expr(x)
        return out

    def atom(self, a):
        t = a[0]
        if t == "c":
            return self.const(a[1])
        if t == "v":
            return self.var(a[1])
        if t == "call":
            return [a[1], "("] + self.args(a[2]) + [")"]
        if t == "meth":
            return self.atom(a[1]) + [".", a[2], "("] + self.args(a[3]) + [")"]
        if t == "mem":
            return self.atom(a[1]) + [".", a[2]]
        if t == "sel":
            return self.atom(a[1]) + ["["] + self.expr(a[2]) + ["]"]
        if t == "neg":
            return ["!"] + self.atom(a[1])
        raise ValueError(t)

    def var(self, v):
        t = v[0]
        if t == "root":
            return [v[1]]
        if t == "fld":
            return self.var(v[1]) + [".", v[2]]
        return self.var(v[1]) + ["["] + self.expr(v[2]) + ["]"]

    def action(self, a):
        if a[0] == "as":
            return self.var(a[2]) + [a[1]] + self.expr(a[3]) + [";"]
        return self.atom(a[1]) + [";"]

    def rule(self, r):
        toks = [self.kw("rule"), r["name"]]
        if r.get("desc") is not None and r.get("hasDesc", True):
            d = r["desc"]
            q = "'" if ('"' in d) else ('"' if ("'" in d or not self.exotic) else self.r.choice(['"', "'"]))
            toks.append(q + d + q)
        if r.get("hasSal", True):
            toks.append(self.kw("salience"))
            toks += self.const(["i", r["sal"]])
        toks += ["{", self.kw("when")] + self.expr(r["when"]) + [self.kw("then")]
        for a in r["then"]:
            toks += self.action(a)
        toks.append("}")
        return toks

    def doc(self, rules):
        out = []
        for r in rules:
            out += self.rule(r)
        return out

    # ---- joining ---------------------------------------------------------------------------
    SAFE = set("()[]{};,")

    def sep(self, a, b):
        r = self.r
        must = not (a[-1] in self.SAFE or b[0] in self.SAFE)
        if not self.exotic:
            return " " if must or r.chance(0.7) else ""
        k = r.below(10)
        if k < 4:
            s = " "
        elif k == 4:
            s = "\n"
        elif k == 5:
            s = "\t  "
        elif k == 6:
            s = " /* c; } \" ' */ "
        elif k == 7:
            s = " // rule when then {\n"
        elif k == 8:
            s = "/**/"
        else:
            s = ""
        if must and s == "":
            s = " "
        if s.startswith("/") and a[-1] in "/*":
            s = " " + s           # `/` followed by `/**/` would open a line comment
        return s

    def join(self, toks):
        if not toks:
            return self.r.choice(["", " ", "\n", "// nothing\n", "/* */"]) if self.exotic else ""
        out = [toks[0]]
        for a, b in zip(toks, toks[1:]):
            out.append(self.sep(a, b))
            out.append(b)
        if self.exotic and self.r.chance(0.3):
            out.append(self.r.choice(["\n", " ", " // end", "/* end */\n"]))
        if self.exotic and self.r.chance(0.2):
            out.insert(0, self.r.choice(["\n", "  ", "// start\n", "/* start */"]))
        return "".join(out)


def add_parens(e, rng, p=0.15):
    """redundant parentheses around sub-expressions (Expr positions only)"""
    t = e[0]
    if t == "bin":
        e = ["bin", e[1], add_parens(e[2], rng, p), add_parens(e[3], rng, p)]
    elif t == "par":
        e = ["par", e[1], add_parens(e[2], rng, p)]
    else:
        e = ["atom", parens_atom(e[1], rng, p)]
    while rng.chance(p):
        e = ["par", False, e]
    return e


def parens_atom(a, rng, p):
    t = a[0]
    if t == "v":
        return ["v", parens_var(a[1], rng, p)]
    if t == "call":
        return ["call", a[1], [add_parens(x, rng, p) for x in a[2]]]
    if t == "meth":
        return ["meth", parens_atom(a[1], rng, p), a[2], [add_parens(x, rng, p) for x in a[3]]]
    if t == "mem":
        return ["mem", parens_atom(a[1], rng, p), a[2]]
    if t == "sel":
        return ["sel", parens_atom(a[1], rng, p), add_parens(a[2], rng, p)]
    if t == "neg":
        return ["neg", parens_atom(a[1], rng, p)]
    return a


def parens_var(v, rng, p):
    if v[0] == "fld":
        return ["fld", parens_var(v[1], rng, p), v[2]]
    if v[0] == "idx":
        return ["idx", parens_var(v[1], rng, p), add_parens(v[2], rng, p)]
    return v


def parens_rule(rule, rng, p=0.15):
    r2 = dict(rule)
    r2["when"] = add_parens(rule["when"], rng, p)
    then = []
    for a in rule["then"]:
        if a[0] == "as":
            then.append(["as", a[1], parens_var(a[2], rng, p), add_parens(a[3], rng, p)])
        else:
            then.append(["st", parens_atom(a[1], rng, p)])
    r2["then"] = then
    return r2


# ---- flat operator chains ----------------------------------------------------------------------

def published_table(path="/repo/docs/en/GRL_en.md"):
    """the published precedence table, read from the documentation of the tree under test"""
    import re
    tbl = {}
    on = False
    for ln in open(path, encoding="utf-8"):
        if ln.startswith("### Operator precedence"):
            on = True
            continue
        if on and ln.startswith("###"):
            break
        m = re.match(r"^\|\s*([0-9]+)\s*\|(.*)\|\s*$", ln) if on else None
        if m:
            for sym in re.findall(r"`([^`]*)`", m.group(2)):
                tbl[sym.replace("\\|", "|")] = int(m.group(1))
    return tbl


try:
    DOC_PREC = published_table()
    assert len(DOC_PREC) == 15
except Exception:   # pragma: no cover
    DOC_PREC = {"*": 5, "/": 5, "%": 5, "+": 4, "-": 4, "&": 4, "|": 4,
                "==": 3, "!=": 3, "<": 3, "<=": 3, ">": 3, ">=": 3, "&&": 2, "||": 1}


def group(operands, ops):
    """the tree of `o0 op0 o1 op1 …` by the published precedence, left associative (shunting-yard)"""
    out, st = [operands[0]], []

    def reduce():
        op = st.pop()
        b = out.pop()
        a = out.pop()
        out.append(["bin", op, a, b])
    for op, o in zip(ops, operands[1:]):
        while st and DOC_PREC[st[-1]] >= DOC_PREC[op]:
            reduce()
        st.append(op)
        out.append(o)
    while st:
        reduce()
    return out[0]


def flat_chain(rng, kind):
    """(token-free) flat chain: operands (Expr atoms) and operators; kind: 'int' | 'bool'"""
    V = lambda s: atom(var(path(s)))
    ints = [V("F.I"), V("F.J"), V("F.I32"), V("F.U8"), V("F.In")] + [atom(cint(k)) for k in (0, 1, 2, 3, 5, 7, -1, -2)]
    if kind == "int":
        n = rng.range(2, 7)
        operands = [rng.choice(ints) for _ in range(n)]
        ops = []
        for i in range(n - 1):
            op = rng.choice(["*", "+", "-", "&", "|", "%", "*", "+", "-"])
            if op == "%":
                operands[i + 1] = atom(cint(rng.choice([2, 3, 5, 7])))
            ops.append(op)
        return operands, ops
    # bool: comparisons of int chains joined by && / ||
    nterms = rng.range(2, 4)
    operands, ops = [], []
    for t in range(nterms):
        if t:
            ops.append(rng.choice(["&&", "||"]))
        if rng.chance(0.25):
            b = rng.choice(["F.B", "F.C"])
            operands.append(atom(neg(var(path(b)))) if rng.chance(0.4) else V(b))
            continue
        lo, lops = flat_chain(rng, "int")
        ro, rops = flat_chain(rng, "int")
        lo, lops = lo[:3], lops[:2]
        ro, rops = ro[:2], rops[:1]
        operands += lo
        ops += lops
        ops.append(rng.choice(["<", "<=", ">", ">=", "==", "!="]))
        operands += ro
        ops += rops
    return operands, ops


def chain_tokens(render, operands, ops):
    toks = render.expr(operands[0])
    for op, o in zip(ops, operands[1:]):
        toks += [op] + render.expr(o)
    return toks


# ---- mutations (C17) ---------------------------------------------------------------------------

POOL = [";", "}", "{", "(", ")", "[", "]", ",", ".", "==", "=", "+=", "+", "-", "*", "/", "%", "&", "|", "&&", "||", "!", "!=", "<", ">=",
        "rule", "when", "then", "salience", "true", "FALSE", "nil", "Rule", "WHEN",
        "X", "F", "F.I", "Zz9", "_x", "é1", "x_y", "1", "0", "007", "08", "0x1f", "0x", "0xG", "1.5", "1.", ".5", "1e5", "1e", "e+5", "P-1",
        "0x1p4", "0x1.8p", "1e999", "1e-999", "99999999999999999999", "9223372036854775807", "9223372036854775808", "2147483648",
        '"s"', "'s'", '""', "''", '"a""b"', "'a''b'", '"\\q"', "'\\\"'", '"\\x4"', '"\\u12"', '"\\400"', '"\\U00110000"', '"\\ud800"', '"',
        "'", "#", "@", "$", "\\", "`", "~", "^", "?", ":", "/*", "*/", "//", "/* x */", " ", "·", " ", "\U0001F600", "\x00"]


def mutate_tokens(toks, rng):
    toks = list(toks)
    kind = rng.weighted([("delete", 3), ("duplicate", 2), ("swap", 2), ("replace", 3), ("insert", 3), ("drop-range", 1), ("casekw", 1)])
    n = len(toks)
    i = rng.below(max(1, n))
    if kind == "delete" and n:
        what = toks.pop(i)
        return toks, "delete[%d]=%r" % (i, what)
    if kind == "duplicate" and n:
        toks.insert(i, toks[i])
        return toks, "duplicate[%d]=%r" % (i, toks[i])
    if kind == "swap" and n >= 2:
        i = rng.below(n - 1)
        toks[i], toks[i + 1] = toks[i + 1], toks[i]
        return toks, "swap[%d]" % i
    if kind == "replace" and n:
        new = rng.choice(POOL)
        old = toks[i]
        toks[i] = new
        return toks, "replace[%d] %r -> %r" % (i, old, new)
    if kind == "drop-range" and n >= 3:
        j = min(n, i + rng.range(2, 6))
        del toks[i:j]
        return toks, "drop[%d:%d]" % (i, j)
    if kind == "casekw" and n:
        # an identifier position gets a reserved word, or a reserved word another spelling
        ids = [k for k, t in enumerate(toks) if t and (t[0].isalpha() or t[0] == "_") and t.lower() not in KEYWORDS]
        if ids:
            k = rng.choice(ids)
            old = toks[k]
            toks[k] = case_variant(rng, rng.choice(KEYWORDS))
            return toks, "reserved[%d] %r -> %r" % (k, old, toks[k])
    new = rng.choice(POOL)
    toks.insert(i, new)
    return toks, "insert[%d] %r" % (i, new)


CHARS = list("#@$\\`~^?:\"'(){}[];,.!=<>&|+-*/%_ e0x9\n\t") + ["é", "×", "·", "‌", "퟿", "�", "\x00", "\x7f", "　"]


def mutate_chars(text, rng):
    if not text:
        return rng.choice(CHARS), "insert-char into empty"
    kind = rng.weighted([("delete", 3), ("insert", 3), ("replace", 2), ("swap", 1), ("truncate", 2), ("quote", 2)])
    i = rng.below(len(text))
    if kind == "quote":
        # a quote character doubled, or a whole string literal written twice with nothing in between: the lexer reads
        # `"ab""cd"` as ONE string token whose body contains its own quote
        import re as _re
        lits = [m for m in _re.finditer(r'"(?:[^"\\\n]|\\.)*"|\'(?:[^\'\\\n]|\\.)*\'', text)]
        if lits:
            m = rng.choice(lits)
            if rng.chance(0.5):
                return text[:m.end()] + m.group(0) + text[m.end():], "string-literal-twice[%d]" % m.start()
            j = rng.range(m.start(), m.end() - 1)
            q = m.group(0)[0]
            return text[:j] + q + text[j:], "quote-inserted[%d]" % j
        kind = "insert"
    if kind == "delete":
        return text[:i] + text[i + 1:], "delete-char[%d]=%r" % (i, text[i])
    if kind == "insert":
        c = rng.choice(CHARS)
        return text[:i] + c + text[i:], "insert-char[%d]=%r" % (i, c)
    if kind == "replace":
        c = rng.choice(CHARS)
        return text[:i] + c + text[i + 1:], "replace-char[%d] %r -> %r" % (i, text[i], c)
    if kind == "swap" and i + 1 < len(text):
        return text[:i] + text[i + 1] + text[i] + text[i + 2:], "swap-char[%d]" % i
    return text[:i], "truncate[%d]" % i


# ---- scenarios ---------------------------------------------------------------------------------

def _facts(rng):
    import gen
    g = gen.RuleGen(rng, gen.PROFILES["stable"])
    return g.facts_full()


def valid_rules(rng, names, profile="stable", depth=None):
    """well-typed rules over the fact catalogue, renamed to `names`"""
    import gen
    g = gen.RuleGen(rng, gen.PROFILES[profile])
    rules = g.rules(len(names))
    for r_, n in zip(rules, names):
        # actions mention rule names (Retract): rename consistently
        old = r_["name"]
        r_["name"] = n
        r_["_old"] = old
    ren = {r_["_old"]: r_["name"] for r_ in rules}

    def fix(x):
        if isinstance(x, list):
            if len(x) == 3 and x[0] == "call" and x[1] == "Retract" and x[2] and x[2][0][0] == "atom" and x[2][0][1][0] == "c" and x[2][0][1][1][0] == "s":
                s = x[2][0][1][1][1]
                return ["call", "Retract", [["atom", ["c", ["s", ren.get(s, s)]]]]]
            return [fix(y) for y in x]
        return x
    for r_ in rules:
        r_["then"] = fix(r_["then"])
        del r_["_old"]
    return rules, g


def exec_op(inst, facts, rng, **kw):
    op = {"op": "exec", "inst": inst, "facts": facts, "max": rng.choice([3, 5, 8]), "retErr": False, "cancelAt": None, "listeners": 0}
    op.update(kw)
    return op


def build_op(text, rules=None, kb="K", **kw):
    op = {"op": "build", "lib": "L", "kb": kb, "wm": False, "text": text, "front": True, "ftext": []}
    if rules is not None:
        op["rules"] = rules
    op.update(kw)
    return op


def c17_scenario(rng, sid):
    """good text, instance; mutated text; the knowledge base afterwards (info, instance, run vs the earlier instance,
    sometimes store/load); then a good text re-using the mutant's sub-expressions"""
    rd = Render(rng.fork(), exotic=rng.chance(0.7))
    good1, g = valid_rules(rng.fork(), ["A", "B"][:rng.range(1, 2)])
    sals = [r_["sal"] for r_ in good1]
    det = len(set(sals)) == len(sals)
    ops = [build_op(rd.join(rd.doc(good1)), good1, expect_ok=True), {"op": "inst", "lib": "L", "kb": "K", "as": "a0"}]
    # the document to be broken
    names = ["C", "D"][:rng.range(1, 2)]
    if rng.chance(0.1):
        names[-1] = "A"           # a grammatical duplicate now and then
    base, g2 = valid_rules(rng.fork(), names)
    toks = rd.doc(base)
    nm = rng.weighted([(0, 1), (1, 8), (2, 2), (3, 1)])
    muts = []
    text = None
    if rng.chance(0.7):
        for _ in range(nm):
            toks, d = mutate_tokens(toks, rng)
            muts.append(d)
        text = rd.join(toks)
    else:
        text = rd.join(toks)
        for _ in range(max(1, nm)):
            text, d = mutate_chars(text, rng)
            muts.append(d)
    ops.append(build_op(text, None, mutations=muts))
    ops.append({"op": "info", "lib": "L", "kb": "K"})
    ops.append({"op": "inst", "lib": "L", "kb": "K", "as": "a1"})
    fx = g.facts_full()
    tw = "after-mutant"
    ops.append(exec_op("a1", fx, rng, twin=tw, det=det))
    ops.append(dict(ops[-1], inst="a0"))
    if rng.chance(0.3):
        ops.append({"op": "store", "lib": "L", "kb": "K", "as": "s0"})
        ops.append({"op": "load", "lib": "L2", "from": "s0", "overwrite": False})
        ops.append({"op": "inst", "lib": "L2", "kb": "K", "as": "l0"})
        ops.append({"op": "fetch", "inst": "l0", "facts": g.facts_full(), "retErr": False})
    # a good text that re-uses what the mutant's source contained (nodes a rejected text left in the working memory)
    again = json.loads(json.dumps(base))
    for r_, n in zip(again, ["E", "G"]):
        r_["name"] = n
    ops.append(build_op(rd.join(rd.doc(again)), again, expect_ok=True))
    ops.append({"op": "inst", "lib": "L", "kb": "K", "as": "a2"})
    ops.append(exec_op("a2", g2.facts_full(), rng))
    ops.append({"op": "info", "lib": "L", "kb": "K"})
    return {"id": sid, "profile": "stable", "ops": ops, "mutations": muts, "no_oracle": True}


def c05_scenario(rng, sid, profile="stable"):
    """an engine scenario whose rule texts are re-rendered: notations, spacing, comments, keyword case, redundant parentheses"""
    import gen
    sc = gen.engine_scenario(rng.fork(), sid, profile, wm=False)
    rd = Render(rng.fork(), exotic=True)
    for op in sc["ops"]:
        if op.get("op") == "build" and op.get("rules"):
            rules = [parens_rule(r_, rng, 0.12) for r_ in op["rules"]]
            op["plain"] = op["text"]
            op["rules"] = rules
            op["text"] = rd.join(rd.doc(rules))
            op["front"] = True
            op["wm"] = False
    sc["syntax"] = True
    return sc


def prec_scenario(rng, sid):
    """flat operator chains: grouping by the published table vs the real parser vs the model's parser, and the values"""
    rd = Render(rng.fork(), exotic=rng.chance(0.5))
    rules = []
    texts = []
    for i in range(rng.range(1, 3)):
        bo, bops = flat_chain(rng, "bool")
        io, iops = flat_chain(rng, "int")
        cond = group(bo, bops)
        rhs = group(io, iops)
        name = "P%d" % i
        target = rng.choice(["F.I", "F.J", "F.In"])
        rule = mkrule(name, cond, [["as", "=", path(target), rhs], ["st", ["call", "Retract", [atom(cstr(name))]]]], sal=i)
        rules.append(rule)
        toks = [rd.kw("rule"), name, rd.kw("salience"), str(i), "{", rd.kw("when")] + chain_tokens(rd, bo, bops) + [rd.kw("then")] + \
            rd.var(path(target)) + ["="] + chain_tokens(rd, io, iops) + [";", "Retract", "(", quote(name), ")", ";", "}"]
        texts.append(rd.join(toks))
    ops = [build_op("\n".join(texts), rules, expect_ok=True), {"op": "inst", "lib": "L", "kb": "K", "as": "i"}]
    for _ in range(2):
        st = [["F", fact(I=rng.range(-3, 9), J=rng.range(-2, 5), I32=rng.range(-5, 5), U8=rng.range(0, 9), In=rng.range(-4, 4),
                         B=rng.chance(0.5), C=rng.chance(0.5))]]
        ops.append({"op": "exec", "inst": "i", "facts": st, "max": 6, "retErr": False, "cancelAt": None, "listeners": 0})
    return {"id": sid, "profile": "stable", "ops": ops, "syntax": True}


def builtin_scenario(rng, sid):
    """the string built-ins on every kind of receiver (Go field, nested field, map value, top-level fact, JSON member by
    field and by selector, constant, call result), with needles that occur zero, one or several times: one rule per call
    storing the result, so that real engine, model and from-scratch semantics are compared on the value itself"""
    from grl import Printer
    recvs = [var(path("F.S")), var(path("F.T")), var(path("F.V.S")), var(idx(path("F.MS"), atom(cstr("a")))), var(root("TS")),
             var(path("J.s")), var(idx(root("J"), atom(cstr("s")))), cstr(rng.choice(["abcabc", "a/b/a", " x "])),
             meth(var(root("F")), "Str", atom(cstr(rng.choice(["ab", "a!a"]))))]
    needles = ["", "a", "b", "ab", "/", "s", "js", " ", "!", "zz"]
    rules = []
    for i in range(rng.range(2, 4)):
        recv = rng.choice(recvs)
        k = rng.weighted([("int", 5), ("str", 3), ("bool", 2)])
        if k == "int":
            f = rng.choice(["Count", "Index", "LastIndex", "LastIndex", "Len"])
            e = atom(meth(recv, f)) if f == "Len" else atom(meth(recv, f, atom(cstr(rng.choice(needles)))))
            tgt = path(rng.choice(["F.I", "F.J", "F.In"]))
        elif k == "str":
            f = rng.choice(["Replace", "Trim", "ToUpper", "ToLower", "Repeat"])
            if f == "Replace":
                e = atom(meth(recv, f, atom(cstr(rng.choice(needles[1:]))), atom(cstr(rng.choice(["", "X", "aa"])))))
            elif f == "Repeat":
                e = atom(meth(recv, f, atom(cint(rng.range(0, 3)))))
            else:
                e = atom(meth(recv, f))
            tgt = path(rng.choice(["F.P.S", "F.AS[0]"])) if False else path("F.P.S")
        else:
            f = rng.choice(["Contains", "HasPrefix", "HasSuffix", "In"])
            e = atom(meth(recv, f, atom(cstr(rng.choice(needles)))))
            tgt = path(rng.choice(["F.B", "F.C"]))
        name = "B%d" % i
        rules.append(mkrule(name, atom(cbool(True)), [["as", "=", tgt, e], ["st", ["call", "Retract", [atom(cstr(name))]]]], sal=i))
    pr = Printer()
    ops = [build_op(pr.doc(rules), rules, expect_ok=True), {"op": "inst", "lib": "L", "kb": "K", "as": "i"}]
    for _ in range(2):
        sv = lambda: rng.choice(["", "a", "abab", "a/b/a", "js js", " s ", "b!b"])
        st = [["F", fact(S=sv(), T=sv(), V=sub(N=1, S=sv()), P=sub(N=1, S="p"), MS={"a": sv(), "b": ""})],
              ["TS", leaf("string", sv())], ["J", jtree({"s": sv(), "n": 1})]]
        ops.append({"op": "exec", "inst": "i", "facts": st, "max": 6, "retErr": False, "cancelAt": None, "listeners": 0})
    return {"id": sid, "profile": "stable", "ops": ops, "syntax": True}


def bytes_scenario(rng, sid):
    """string literals with byte escapes >= 0x80 (\\xNN, \\NNN): Go strings that are not sequences of code points. The
    model declines them (unmodelled); the documented Go meaning is checked on the real engine directly:
    the literal has as many bytes as escapes/characters, and two spellings of the same bytes are equal."""
    def lit(bs, q):
        out = []
        for b in bs:
            if b >= 0x80 or rng.chance(0.3):
                out.append(rng.choice(["\\x%02x" % b, "\\x%02X" % b, "\\%03o" % b]))
            elif chr(b) in (q, "\\"):
                out.append("\\" + chr(b))
            else:
                out.append(chr(b))
        return q + "".join(out) + q
    conds = []
    expect = True
    for _ in range(rng.range(1, 4)):
        n = rng.range(1, 5)
        bs = [rng.choice([0xe9, 0xff, 0x80, 0xc3, 0xa9, 0x41, 0x7a, 0x20, 0xfe]) for _ in range(n)]
        q1, q2 = rng.choice(['"', "'"]), rng.choice(['"', "'"])
        k = rng.below(4)
        if k == 0:
            conds.append("%s.Len() == %d" % (lit(bs, q1), n))
        elif k == 1:
            conds.append("%s == %s" % (lit(bs, q1), lit(bs, q2)))
        elif k == 2:
            other = list(bs)
            other[rng.below(n)] ^= 0x01
            conds.append("%s != %s" % (lit(bs, q1), lit(other, q2)))
        else:
            # the UTF-8 encoding of U+00E9 is two bytes, the byte 0xE9 is one
            conds.append("\"\\xe9\".Len() + 1 == \"\\u00e9\".Len()")
    text = "rule B salience 1 { when %s then F.I = 77; Retract(\"B\"); }" % " && ".join(conds)
    ops = [{"op": "build", "lib": "L", "kb": "K", "wm": False, "text": text, "front": True, "ftext": [], "expect_ok": True},
           {"op": "inst", "lib": "L", "kb": "K", "as": "i"},
           {"op": "fetch", "inst": "i", "facts": [["F", fact(I=0)]], "retErr": True}]
    return {"id": sid, "profile": "stable", "ops": ops, "bytes": True, "expect_match": expect, "no_oracle": True}

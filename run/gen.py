"""Scenario generators. All randomness comes from one Rng (splitmix64 seeded by VERIF_SEED)."""
import json
from grl import *
from rng import Rng

INT_KINDS = {"int64", "int8", "int16", "int32", "int", "uint8", "uint16", "uint32", "uint64", "uint"}


class Cell:
    """an addressable piece of fact data"""

    def __init__(self, name, var, ty, kind, root, cls, writable=True):
        self.name = name      # text
        self.var = var        # Var AST
        self.ty = ty          # int | float | str | bool
        self.kind = kind      # Go kind of the cell
        self.root = root
        self.cls = cls        # field | ptrfield | valfield | slice | map | top | json | jsonsel | dynidx
        self.writable = writable


def catalogue():
    c = []
    def add(*a, **k): c.append(Cell(*a, **k))
    for n, k in [("I", "int64"), ("J", "int64"), ("I8", "int8"), ("I16", "int16"), ("I32", "int32"), ("In", "int"),
                 ("U8", "uint8"), ("U16", "uint16"), ("U32", "uint32"), ("U64", "uint64"), ("Un", "uint")]:
        add("F." + n, path("F." + n), "int", k, "F", "field")
    for n, k in [("F", "float64"), ("G", "float64"), ("F32", "float32")]:
        add("F." + n, path("F." + n), "float", k, "F", "field")
    for n in ["S", "T"]:
        add("F." + n, path("F." + n), "str", "string", "F", "field")
    for n in ["B", "C"]:
        add("F." + n, path("F." + n), "bool", "bool", "F", "field")
    add("F.P.N", path("F.P.N"), "int", "int64", "F", "ptrfield")
    add("F.P.S", path("F.P.S"), "str", "string", "F", "ptrfield")
    add("F.P.B", path("F.P.B"), "bool", "bool", "F", "ptrfield")
    add("F.P.F", path("F.P.F"), "float", "float64", "F", "ptrfield")
    add("F.V.N", path("F.V.N"), "int", "int64", "F", "valfield")
    add("F.V.S", path("F.V.S"), "str", "string", "F", "valfield")
    for i in [0, 1, 2]:
        add("F.A[%d]" % i, idx(path("F.A"), atom(cint(i))), "int", "int64", "F", "slice")
    for i in [0, 1]:
        add("F.AS[%d]" % i, idx(path("F.AS"), atom(cint(i))), "str", "string", "F", "slice")
        add("F.AF[%d]" % i, idx(path("F.AF"), atom(cint(i))), "float", "float64", "F", "slice")
        add("F.AP[%d].N" % i, fld(idx(path("F.AP"), atom(cint(i))), "N"), "int", "int64", "F", "slice")
    add("F.AA[1][0]", idx(idx(path("F.AA"), atom(cint(1))), atom(cint(0))), "int", "int64", "F", "slice")
    add("F.AA[0][1]", idx(idx(path("F.AA"), atom(cint(0))), atom(cint(1))), "int", "int64", "F", "slice")
    add("F.AA[F.J][0]", idx(idx(path("F.AA"), atom(var(path("F.J")))), atom(cint(0))), "int", "int64", "F", "dynidx")
    add("F.AA[1][F.J]", idx(idx(path("F.AA"), atom(cint(1))), atom(var(path("F.J")))), "int", "int64", "F", "dynidx")
    add("J.g[1][0]", idx(idx(path("J.g"), atom(cint(1))), atom(cint(0))), "float", "json", "J", "json")
    for k in ["a", "b"]:
        add('F.M["%s"]' % k, idx(path("F.M"), atom(cstr(k))), "int", "int64", "F", "map")
        add('F.MS["%s"]' % k, idx(path("F.MS"), atom(cstr(k))), "str", "string", "F", "map")
    for k in [1, 2]:
        add("F.MI[%d]" % k, idx(path("F.MI"), atom(cint(k))), "int", "int64", "F", "map")
    add("N", root("N"), "int", "int64", "N", "top")
    add("K", root("K"), "int", "int64", "K", "top")
    add("TS", root("TS"), "str", "string", "TS", "top")
    add("TB", root("TB"), "bool", "bool", "TB", "top")
    add("TF", root("TF"), "float", "float64", "TF", "top")
    add("J.n", path("J.n"), "float", "json", "J", "json")
    add("J.m", path("J.m"), "float", "json", "J", "json")
    add("J.s", path("J.s"), "str", "json", "J", "json")
    add("J.b", path("J.b"), "bool", "json", "J", "json")
    add("J.o.n", path("J.o.n"), "float", "json", "J", "json")
    add("J.a[0]", idx(path("J.a"), atom(cint(0))), "float", "json", "J", "json")
    add('J["n"]', idx(root("J"), atom(cstr("n"))), "float", "json", "J", "jsonsel")
    add('J.o["n"]', idx(path("J.o"), atom(cstr("n"))), "float", "json", "J", "jsonsel")
    add("F.A[F.J]", idx(path("F.A"), atom(var(path("F.J")))), "int", "int64", "F", "dynidx")
    add("F.A[F.U8]", idx(path("F.A"), atom(var(path("F.U8")))), "int", "int64", "F", "dynidx", writable=False)
    add("F.X", path("F.X"), "int", "iface", "F", "field")
    return c


CATALOGUE = catalogue()


class Profile:
    def __init__(self, name, classes, allow_top_write=True, dynidx=False, mixed_json=False, failures=0.0,
                 methods=True, impure=False, control=0.25, forget=0.1, lenreads=True, cancels=False):
        self.cancels = cancels
        self.name = name
        self.classes = classes
        self.allow_top_write = allow_top_write
        self.dynidx = dynidx
        self.mixed_json = mixed_json
        self.failures = failures
        self.methods = methods
        self.impure = impure
        self.control = control
        self.forget = forget
        self.lenreads = lenreads


PROFILES = {
    # inside the model's `Stable` region as of the current tree
    "stable": Profile("stable", {"field", "ptrfield", "valfield", "slice", "map", "top", "json"}),
    # everything the grammar allows on these facts
    "wild": Profile("wild", {"field", "ptrfield", "valfield", "slice", "map", "top", "json", "jsonsel", "dynidx"},
                    dynidx=True, mixed_json=True, failures=0.1, impure=True),
    "faulty": Profile("faulty", {"field", "ptrfield", "slice", "map", "top", "json", "dynidx"}, failures=0.5, dynidx=True),
    # fact methods that cancel the run's context from inside a condition or an action
    "cancel": Profile("cancel", {"field", "ptrfield", "slice", "map", "top"}, cancels=True),
}


class RuleGen:
    def __init__(self, rng: Rng, profile: Profile):
        self.r = rng
        self.p = profile
        cells = [c for c in CATALOGUE if c.cls in profile.classes]
        # a small pool per scenario so that rules interfere
        n = rng.range(3, 6)
        self.pool = []
        tries = 0

        def container(c):
            return c.name.split("[")[0]
        while len(self.pool) < n and tries < 100:
            tries += 1
            c = rng.choice(cells)
            if self.pool and rng.chance(0.45):
                # bias towards cells reached through the same container as one already chosen (aliasing shapes)
                rel = [x for x in cells if x not in self.pool and any(container(x) == container(y) and "[" in x.name for y in self.pool)]
                if rel:
                    c = rng.choice(rel)
            if c in self.pool:
                continue
            if not profile.mixed_json:
                # never address one JSON member in both forms
                if c.cls == "jsonsel" and any(x.cls == "json" for x in self.pool):
                    continue
                if c.cls == "json" and any(x.cls == "jsonsel" for x in self.pool):
                    continue
            self.pool.append(c)
        # make sure there is at least one int cell and one bool-ish way to write conditions
        if not any(c.ty == "int" for c in self.pool):
            self.pool.append(next(c for c in cells if c.ty == "int"))
        self.shared = {"int": [], "float": [], "str": [], "bool": []}
        self.rule_names = []
        self.uses_method_state = False
        self.made_holes = False

    # ---- leaves ----------------------------------------------------------------------------
    def cells_of(self, ty):
        return [c for c in self.pool if c.ty == ty]

    def const(self, ty):
        r = self.r
        if ty == "int":
            return atom(cint(r.choice([0, 1, 2, 3, 5, -1, 7, 10])))
        if ty == "float":
            return atom(cfloat(r.choice([0.5, 1.5, 2.0, 0.25, -1.5, 3.75, 0.1, 1e-3 * r.range(1, 3)])))
        if ty == "str":
            return atom(cstr(r.choice(["", "a", "ab", "b", "xy", "a b", 'q"t', "é", "\u0080"])))
        return atom(cbool(r.chance(0.5)))

    def read(self, ty):
        cs = self.cells_of(ty)
        if cs and self.r.chance(0.8):
            return atom(var(self.r.choice(cs).var))
        return self.const(ty)

    def remember(self, ty, e):
        if len(self.shared[ty]) < 8:
            self.shared[ty].append(e)
        return e

    def maybe_shared(self, ty):
        if self.shared[ty] and self.r.chance(0.35):
            return self.r.choice(self.shared[ty])
        return None

    # ---- typed expressions -----------------------------------------------------------------
    def expr(self, ty, d):
        s = self.maybe_shared(ty)
        if s is not None:
            return s
        e = getattr(self, ty + "_expr")(d)
        if d >= 1:
            self.remember(ty, e)
        return e

    def int_expr(self, d):
        r = self.r
        if d <= 0 or r.chance(0.35):
            return self.read("int")
        if self.p.cancels and r.chance(0.15):
            return atom(meth(var(root("F")), "CancelRet", atom(cint(r.range(0, 3)))))
        k = r.weighted([("arith", 6), ("heavy", 2 if self.p.methods else 0), ("sum", 1 if self.p.methods else 0),
                        ("len", 2 if self.p.lenreads else 0), ("mod", 1), ("bit", 1), ("geti", 1 if self.p.impure else 0),
                        ("fail", 1 if r.chance(self.p.failures) else 0),
                        ("strnum", 2)])
        if k == "strnum":
            # strings.Count / Index / LastIndex, also on JSON-backed strings and with repeated occurrences
            cs = self.cells_of("str")
            recv = var(r.choice(cs).var) if cs and r.chance(0.7) else cstr(r.choice(["abcabc", "a/b/a", "xx", "\u00e9-\u00e9", "a b a"]))
            if r.chance(0.5):
                recv = meth(recv, "Repeat", atom(cint(r.range(0, 3))))
            return atom(meth(recv, r.choice(["Count", "Index", "LastIndex"]), self.const("str")))
        # (selectors on call results — `F.GetA()[0]` — are generated by gen_c07 only: the engine caches the *addressable*
        #  element there, a live alias the model's value semantics cannot express once the slice is also written)
        if k == "arith":
            return bin_(r.choice(["+", "-", "*", "+"]), self.expr("int", d - 1), self.expr("int", d - 1))
        if k == "mod":
            return bin_("%", self.expr("int", d - 1), atom(cint(r.choice([2, 3, 5] + ([0] if r.chance(self.p.failures) else [])))))
        if k == "bit":
            return bin_(r.choice(["&", "|"]), self.expr("int", d - 1), self.expr("int", d - 1))
        if k == "heavy":
            if r.chance(0.3):
                # a counted method on a nested object
                recv = r.choice([path("F.P"), path("F.V"), idx(path("F.AP"), atom(cint(r.range(0, 1))))])
                return atom(meth(var(recv), "Score", self.i64_arg(0)))
            return atom(meth(var(root("F")), "Heavy", self.i64_arg(d - 1)))
        if k == "sum":
            return atom(meth(var(root("F")), "Sum", *[self.i64_arg(0) for _ in range(r.range(0, 3))]))
        if k == "geti":
            self.uses_method_state = True
            return atom(meth(var(root("F")), "GetI"))
        if k == "len":
            which = r.choice(["S", "A", "M"])
            if which == "S":
                cs = self.cells_of("str")
                recv = var(r.choice(cs).var) if cs else cstr("abc")
                return atom(meth(recv, "Len"))
            return atom(meth(var(path("F." + which)), "Len"))
        return self.fail_int()

    def i64_arg(self, d):
        """an argument that is certainly of kind int64 (reflect.Call does not convert)"""
        r = self.r
        cs = [c for c in self.cells_of("int") if c.kind == "int64"]
        if cs and r.chance(0.7):
            return atom(var(r.choice(cs).var))
        if d > 0 and r.chance(0.3):
            return bin_("+", self.i64_arg(0), atom(cint(r.range(0, 3))))
        return atom(cint(r.range(0, 4)))

    def fail_int(self):
        r = self.r
        k = r.choice(["boom", "nilptr", "oor", "nokey", "nofact", "failat", "modzero", "nofield", "badarg"])
        if k == "boom":
            return atom(meth(var(root("F")), "Boom", atom(cint(r.choice([0, 1, 1])))))
        if k == "nilptr":
            return atom(var(path("F.Q.N")))
        if k == "oor":
            return atom(var(idx(path("F.A"), atom(cint(r.choice([7, -1]))))))
        if k == "nokey":
            return atom(var(idx(path("F.M"), atom(cstr("zz")))))
        if k == "nofact":
            return atom(var(path("Z.x")))
        if k == "failat":
            self.uses_method_state = True   # keyed on the call count, which memoisation changes by design
            return atom(meth(var(root("F")), "FailAt", atom(cint(r.range(0, 4)))))
        if k == "modzero":
            return bin_("%", self.read("int"), atom(cint(0)))
        if k == "nofield":
            return atom(var(path("F.Nope")))
        return atom(meth(var(root("F")), "Heavy", atom(cstr("x"))))

    def float_expr(self, d):
        r = self.r
        if d <= 0 or r.chance(0.35):
            return self.read("float")
        k = r.weighted([("arith", 5), ("div", 2), ("mix", 2), ("half", 1 if self.p.methods else 0), ("max", 1)])
        if k == "arith":
            return bin_(r.choice(["+", "-", "*"]), self.expr("float", d - 1), self.expr("float", d - 1))
        if k == "div":
            a = self.expr(r.choice(["int", "float"]), d - 1)
            b = self.expr(r.choice(["int", "float"]), d - 1)
            return bin_("/", a, b)
        if k == "mix":
            if r.chance(0.5):
                return bin_(r.choice(["+", "-", "*"]), self.expr("int", d - 1), self.expr("float", d - 1))
            return bin_(r.choice(["+", "-", "*"]), self.expr("float", d - 1), self.expr("int", d - 1))
        if k == "half":
            cs = [c for c in self.cells_of("float") if c.kind == "float64"]
            a = atom(var(r.choice(cs).var)) if cs else atom(cfloat(1.5))
            return atom(meth(var(root("F")), "Half", a))
        cs = [c for c in self.cells_of("float") if c.kind == "float64"]
        args = [atom(var(r.choice(cs).var)) if cs and r.chance(0.6) else atom(cfloat(r.choice([0.5, 2.5, -1.0])))
                for _ in range(r.range(1, 3))]
        return atom(call(r.choice(["Max", "Min"]), *args))

    def str_expr(self, d):
        r = self.r
        if d <= 0 or r.chance(0.4):
            return self.read("str")
        k = r.weighted([("cat", 4), ("catnum", 2), ("upper", 2), ("strm", 1 if self.p.methods else 0), ("strfun", 2)])
        if k == "strfun":
            cs = self.cells_of("str")
            recv = var(r.choice(cs).var) if cs and r.chance(0.7) else cstr(r.choice([" a b ", "abab", "\tx\n", "a"]))
            f = r.choice(["Repeat", "Replace", "Trim"])
            if f == "Repeat":
                # constant receiver only: `F.S = F.S.Repeat(2)` in a loop would grow without bound
                return atom(meth(cstr(r.choice(["ab", "x", "", "a b"])), "Repeat", atom(cint(r.range(0, 3)))))
            if f == "Replace":
                needle = self.const("str")
                if needle == atom(cstr("")):
                    # an empty needle inserts the replacement at every rune boundary: exponential in a loop over a cell
                    recv = cstr(r.choice(["ab", "x", ""]))
                return atom(meth(recv, "Replace", needle, self.const("str")))
            return atom(meth(recv, "Trim"))
        if k == "cat":
            return bin_("+", self.expr("str", d - 1), self.expr("str", d - 1))
        if k == "catnum":
            other = self.expr(r.choice(["int", "bool", "float"]), d - 1)
            if other[0] == "bin" or r.chance(0.5):
                return bin_("+", self.expr("str", d - 1), other)
            return bin_("+", self.read("int"), self.expr("str", d - 1))
        if k == "upper":
            cs = self.cells_of("str")
            recv = var(r.choice(cs).var) if cs else cstr("abC")
            return atom(meth(recv, r.choice(["ToUpper", "ToLower"])))
        return atom(meth(var(root("F")), "Str", self.read("str")))

    def bool_expr(self, d):
        r = self.r
        if d <= 0:
            cs = self.cells_of("bool")
            if cs and r.chance(0.5):
                a = var(r.choice(cs).var)
                return atom(neg(a)) if r.chance(0.3) else atom(a)
            return self.cmp(0)
        k = r.weighted([("cmp", 8), ("and", 3), ("or", 3), ("not", 2), ("strpred", 2), ("cell", 1), ("isz", 1),
                        ("negm", 1 if self.p.methods else 0), ("paren", 2)])
        if k == "paren":
            return par(self.expr("bool", d - 1))
        if k == "cmp":
            return self.cmp(d - 1)
        if k == "and":
            return bin_("&&", self.expr("bool", d - 1), self.expr("bool", d - 1))
        if k == "or":
            return bin_("||", self.expr("bool", d - 1), self.expr("bool", d - 1))
        if k == "not":
            return par(self.expr("bool", d - 1), neg=True)
        if k == "strpred":
            cs = self.cells_of("str")
            recv = var(r.choice(cs).var) if cs else cstr("abc")
            f = r.choice(["Contains", "HasPrefix", "HasSuffix", "In"])
            if f == "In":
                return atom(meth(recv, "In", *[self.const("str") for _ in range(r.range(0, 3))]))
            a = meth(recv, f, self.const("str"))
            return atom(neg(a)) if r.chance(0.25) else atom(a)
        if k == "cell":
            return self.bool_expr(0)
        if k == "isz":
            c = r.choice(self.pool)
            if c.kind in ("json", "iface"):
                return self.cmp(d - 1)
            return atom(call("IsZero", atom(var(c.var))))
        return atom(meth(var(root("F")), "Neg", self.bool_expr(0)))

    def cmp(self, d):
        r = self.r
        fam = r.weighted([("int", 6), ("float", 2), ("str", 2), ("mixnum", 2), ("bool", 1)])
        if fam == "bool":
            return bin_(r.choice(["==", "!="]), self.expr("bool", 0), self.const("bool"))
        op = r.choice(["<", "<=", ">", ">=", "==", "!=", "<", ">"])
        if fam == "mixnum":
            a, b = self.expr("int", d), self.expr("float", d)
            return bin_(op, a, b) if r.chance(0.5) else bin_(op, b, a)
        a = self.expr(fam, d)
        b = self.const(fam) if r.chance(0.6) else self.expr(fam, d)
        return bin_(op, a, b)

    # ---- actions ----------------------------------------------------------------------------
    def writable(self):
        ws = [c for c in self.pool if c.writable]
        return ws

    def assignment(self):
        r = self.r
        c = r.choice(self.writable())
        if self.p.dynidx and any(x.cls == "dynidx" for x in self.pool) and r.chance(0.2):
            return assign("=", path("F.J"), r.choice([atom(cint(r.range(0, 3))), bin_("+", atom(var(path("F.J"))), atom(cint(1)))]))
        if c.ty == "int":
            if c.kind in ("json",):
                op = r.choice(["=", "+=", "-="])
                rhs = self.expr(r.choice(["int", "float"]), 1)
            elif c.kind == "iface":
                op = "="
                rhs = self.expr("int", 1)
            else:
                op = r.weighted([("=", 5), ("+=", 3), ("-=", 1), ("*=", 1), ("/=", 1)])
                rhs = self.expr(r.weighted([("int", 6), ("float", 1)]), 1)
                if op == "=" and r.chance(0.5):
                    # progress: c = c + k
                    rhs = bin_("+", atom(var(c.var)), atom(cint(r.range(1, 2))))
            if c.cls in ("map",) and c.kind == "int64":
                # map entries need exactly int64: int consts/int64 arithmetic only
                rhs = self.i64_arg(1) if op == "=" else atom(cint(r.range(1, 3)))
                if op in ("/=",):
                    op = "+="
        elif c.ty == "float":
            op = r.weighted([("=", 4), ("+=", 2), ("-=", 1), ("*=", 1), ("/=", 1)])
            rhs = self.expr(r.weighted([("float", 4), ("int", 1)]), 1)
            if c.kind == "json" and op == "=" and r.chance(0.3):
                rhs = self.expr("int", 0)
        elif c.ty == "str":
            op = r.weighted([("=", 3), ("+=", 2)])
            rhs = self.expr("str", 1)
            if op == "+=" and r.chance(0.3):
                rhs = self.expr("int", 0)
        else:
            op = "="
            rhs = self.expr("bool", 1)
        return assign(op, c.var, rhs)

    def control(self):
        r = self.r
        k = r.weighted([("retract_self", 3), ("retract_other", 3), ("retract_unknown", 1), ("complete", 2),
                        ("log", 1)])
        if k == "retract_self":
            return ("retract_self", None)
        if k == "retract_other":
            return ("retract_other", None)
        if k == "retract_unknown":
            return ("retract_unknown", None)
        if k == "complete":
            return stmt(call("Complete"))
        return stmt(call("Log", atom(cstr("x"))))

    def forget(self):
        r = self.r
        c = r.choice(self.pool)
        f = r.choice(["Forget", "Changed"])
        return stmt(call(f, atom(cstr(c.name))))

    def actions(self, name, all_names):
        r = self.r
        n = r.weighted([(1, 4), (2, 4), (3, 2), (4, 1)])
        acts = []
        for _ in range(n):
            x = r.below(100)
            if x < int(100 * self.p.control):
                a = self.control()
                if isinstance(a, tuple):
                    if a[0] == "retract_self":
                        a = stmt(call("Retract", atom(cstr(name))))
                    elif a[0] == "retract_unknown":
                        other = r.choice(all_names)
                        unknown = r.choice(["NoSuchRule", other.upper() if other.upper() not in all_names else "NoSuchRule",
                                            other + "x", other[:-1] if len(other) > 1 and other[:-1] not in all_names else "Zz", ""])
                        if unknown in all_names:
                            unknown = "NoSuchRule"
                        a = stmt(call("Retract", atom(cstr(unknown))))
                    else:
                        a = stmt(call("Retract", atom(cstr(r.choice(all_names)))))
                acts.append(a)
            elif x < int(100 * (self.p.control + self.p.forget)):
                acts.append(self.forget())
            elif self.p.impure and r.chance(0.15):
                # the documented pattern: change through a method, then announce it
                # (always announced: an unannounced change leaves the working memory incoherent, where the
                # engine's by-reference caching of struct fields and the model's by-value caching differ)
                acts.append(stmt(meth(var(root("F")), "SetI", self.i64_arg(1))))
                acts.append(stmt(call(r.choice(["Changed", "Forget"]), atom(cstr("F.I")))))
                self.uses_method_state = True
            elif r.chance(self.p.failures * 0.5):
                acts.append(assign("=", path("F.I"), self.fail_int()))
            elif self.p.cancels and r.chance(0.25):
                acts.append(stmt(meth(var(root("F")), "Cancel")))
            else:
                acts.append(self.assignment())
        if not any(a[0] == "as" for a in acts) and r.chance(0.7):
            # (never between a changing method call and its announcement)
            def is_seti(a):
                return a[0] == "st" and a[1][0] == "meth" and a[1][2] == "SetI"
            slots = [i for i in range(len(acts) + 1) if not (i > 0 and is_seti(acts[i - 1]))]
            acts.insert(r.choice(slots), self.assignment())
        return acts

    def rules(self, k):
        r = self.r
        names = ["R%d" % i for i in range(k)]
        if k >= 2 and r.chance(0.15):
            # names that differ only in letter case are different rules
            names[1] = "r0"
        if r.chance(0.1):
            names[0] = "Règle"
        out = []
        for nm in names:
            cond = self.expr("bool", r.range(1, 3))
            dyn = [c for c in self.pool if c.cls == "dynidx"]
            holeable = [c for c in self.pool if c.cls in ("map", "slice", "ptrfield", "json") and c.ty in ("int", "float", "str")]
            if (dyn and r.chance(0.35)) or (holeable and r.chance(0.12 + self.p.failures * 0.4)):
                # a sub-expression that evaluates fine at first and fails later: once the index has moved out of range
                # (same run), or when a later call's facts lack the key / element / pointer (same instance)
                c0 = r.choice(dyn) if dyn and (not holeable or r.chance(0.5)) else r.choice(holeable)
                first = bin_(r.choice(["==", "<", ">=", "!="]), atom(var(c0.var)), self.const(c0.ty))
                if r.chance(0.7):
                    first = par(first, neg=r.chance(0.3))
                cond = bin_(r.choice(["||", "&&"]), first, cond) if r.chance(0.7) else bin_(r.choice(["||", "&&"]), cond, first)
            if cond[0] == "atom" and r.chance(0.3):
                cond = par(cond)
            sal = r.choice([0, 0, 0, 1, -1, 5, 10, -2147483648, 2147483647, r.range(-3, 3)])
            desc = r.choice([None, None, "d " + nm, ""])
            rule = mkrule(nm, normalize(cond), [norm_action(a) for a in self.actions(nm, names)], sal, desc)
            if sal == 0 and r.chance(0.5):
                rule["hasSal"] = False
            out.append(rule)
        return out

    # ---- facts ------------------------------------------------------------------------------
    def facts(self):
        st = self.facts_full()
        r = self.r
        if not r.chance(0.22):
            return st
        self.made_holes = True
        # holes: what a rule reads may be missing in this call's facts (nil pointer, absent key, short slice, absent
        # JSON member) although an earlier call on the same instance found it
        f = dict((k, v) for k, v in st[0][1][2][2])
        def setf(name, node):
            for kv in st[0][1][2][2]:
                if kv[0] == name:
                    kv[1] = node
        for name in r.shuffle(["P", "M", "MS", "MI", "A", "AS", "AF", "AP", "AA"])[:r.range(1, 3)]:
            node = f[name]
            if name == "P":
                setf(name, ["ptr", "Sub", None])
            elif node[0] == "map":
                setf(name, [node[0], node[1], node[2], node[3][:r.range(0, 1)]])
            elif node[0] == "slice":
                setf(name, [node[0], node[1], node[2][:r.range(0, 1)]])
        if r.chance(0.3):
            for kv in st:
                if kv[0] == "J":
                    kv[1] = ["jobj", [m for m in kv[1][1] if m[0] not in (r.choice(["n", "m", "s", "o", "a"]),)]]
        return st

    def facts_full(self):
        r = self.r
        small = lambda: r.choice([0, 0, 1, 2, 3, 5])
        f = fact(I=small(), J=r.choice([0, 0, 1, 2]), I8=r.choice([0, 1, 126, -128]), I16=small(), I32=small(), In=small(),
                 U8=r.choice([0, 1, 2, 254]), U16=small(), U32=small(), U64=small(), Un=small(),
                 F=r.choice([0.0, 0.5, 1.5, 2.5]), G=r.choice([0.0, 1.0, -0.5]), F32=r.choice([0.0, 0.5, 1.25]),
                 S=r.choice(["", "a", "ab", "abc", "abab", "a/b/a"]), T=r.choice(["", "b", "xy", "xyx"]), B=r.chance(0.5), C=r.chance(0.5),
                 P=sub(N=small(), S=r.choice(["", "p"]), B=r.chance(0.5), F=r.choice([0.0, 1.5])), Q=None,
                 V=sub(N=small(), S=r.choice(["", "v"])),
                 A=[small(), small(), small()], AS=["x", "y"], AF=[0.5, 1.5],
                 AP=[sub(N=small()), sub(N=small())], AA=[[small(), small()], [small(), small()]],
                 M={"a": small(), "b": small()}, MS={"a": "s", "b": ""}, MI={1: small(), 2: small()},
                 X=leaf("int64", small()))
        st = [["F", f], ["N", leaf("int64", small())], ["K", leaf("int64", small())], ["TS", leaf("string", r.choice(["", "t"]))],
              ["TB", leaf("bool", r.chance(0.5))], ["TF", leaf("float64", r.choice([0.0, 0.5]))],
              ["J", jtree({"n": small(), "m": 1.5, "s": r.choice(["", "js", "jsjs", "a/b/a", "s s"]), "b": r.chance(0.5), "o": {"n": small()},
                           "a": [small(), 2], "g": [[small(), 1], [small(), 2]]})]]
        return st


def engine_scenario(rng: Rng, sid, profile="stable", nexec=None, wm=True):
    p = PROFILES[profile]
    g = RuleGen(rng, p)
    rules = g.rules(rng.range(1, 5))
    ops = [{"op": "build", "lib": "L", "kb": "K", "wm": wm, "text": Printer().doc(rules), "rules": rules,
            "ftext": [[b, t] for b, t in collect_ftext(rules, {}).items()]},
           {"op": "inst", "lib": "L", "kb": "K", "as": "i"}]
    # strings that are concatenated with themselves grow exponentially with the number of firings: bound the runs
    pr = Printer()
    growth = 1
    for r_ in rules:
        f = 1
        for a in r_["then"]:
            if a[0] == "as":
                tgt = pr.var(a[2])
                k = pr.expr(a[3]).count(tgt) + (1 if a[1] == "+=" else 0)
                if k >= 2:
                    f *= k
        growth = max(growth, f)
    cap = 12
    if growth >= 2:
        import math
        cap = max(1, int(math.log(1e5) / math.log(growth)))
    n = nexec if nexec is not None else rng.weighted([(1, 5), (2, 3), (3, 2)])
    for _ in range(n):
        if rng.chance(0.2):
            ops.append({"op": "fetch", "inst": "i", "facts": g.facts(), "retErr": rng.chance(0.2)})
        else:
            op = {"op": "exec", "inst": "i", "facts": g.facts(), "max": min(cap, rng.choice([0, 1, 2, 3, 5, 8, 12])),
                  "retErr": rng.chance(0.15), "cancelAt": None, "listeners": rng.choice([0, 0, 1, 2])}
            x = rng.below(100)
            if x < 12:
                op["cancelAt"] = rng.choice([0, 1, 2, 3, 4, 5, 7, 9, 12, 20, 33])
            elif x < 18:
                op["cancelAtEvent"] = rng.choice([0, 1, 2, 3, 4, 6, 9])
            if rng.chance(0.5):
                op["ctxErr"] = "deadline"
            ops.append(op)
    sc = {"id": sid, "profile": profile, "ops": ops, "meta": {"pool": [c.name for c in g.pool]}}
    if g.made_holes:
        sc["holes"] = True
    if g.uses_method_state:
        # impure / call-count-keyed fact methods: outside the property oracle's quantifier (documented
        # contract: such changes must be announced with Changed/Forget); kept for model correspondence
        sc["no_oracle"] = True
    return sc


if __name__ == "__main__":
    import sys
    seed = int(sys.argv[1]) if len(sys.argv) > 1 else 1
    n = int(sys.argv[2]) if len(sys.argv) > 2 else 10
    prof = sys.argv[3] if len(sys.argv) > 3 else "stable"
    rng = Rng(seed)
    for i in range(n):
        print(json.dumps(engine_scenario(rng.fork(), "s%d-%d" % (seed, i), prof)))

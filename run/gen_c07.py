"""C07: near-identical sibling rules, built together (both orders) and alone."""
import json
from grl import *
from rng import Rng


def V(s): return atom(var(path(s)))


def sibling_consts(rng):
    """(kind, a, b, probe fact value) — two constants that differ minimally"""
    k = rng.weighted([("float6", 4), ("floatexp", 2), ("sign", 2), ("intfloat", 2), ("str", 6), ("intdigit", 1)])
    if k == "float6":
        base = rng.choice([0.1234567, 1e-7, 3.0000001, 12.3456781, 0.0000004])
        a, b = base, base + rng.choice([1e-7, 2e-7, 1e-8, 1e-9])
        return k, cfloat(a), cfloat(b), ("float", (a + b) / 2)
    if k == "floatexp":
        a, b = rng.choice([(1e-7, 1e-8), (2.5e-7, 2.5e-8), (1e21, 1e22), (1.5e10, 1.5e11)])
        return k, cfloat(a), cfloat(b), ("float", (a + b) / 2)
    if k == "sign":
        a = rng.choice([1.5, 0.25, 2.0])
        return k, cfloat(a), cfloat(-a), ("float", 0.0)
    if k == "intfloat":
        n = rng.choice([0, 1, 2, 5])
        return k, cint(n), cfloat(float(n)), ("int", n)
    if k == "intdigit":
        n = rng.choice([10, 100, 12])
        return k, cint(n), cint(n + 1), ("int", n)
    base = rng.choice(["a", "ab", "x y", "", "k"])
    var = rng.choice(['"', '")', '"))))', ',', '","b', '\\', "'", "é", "\n", '->', 'a")))),E(EA(A(C(string->"b', ")", "(", " ", "A", "\t"])
    return k, cstr(base), cstr(base + var if rng.chance(0.6) else var + base), ("str", base)


def sibling_pair(rng):
    """two conditions that differ in exactly one place, and facts that tell them apart"""
    shape = rng.weighted([("const", 8), ("op", 2), ("neg", 2), ("order", 1), ("selector", 2), ("args", 3), ("argstr", 3)])
    facts = dict(I=1, J=0, F=0.0, S="a", B=True, A=[1, 2, 3], M={"a": 1, "b": 2})
    if shape == "const":
        k, ca, cb, probe = sibling_consts(rng)
        if probe[0] == "float":
            cell, facts["F"] = "F.F", probe[1]
            op = rng.choice([">", "<", ">=", "<=", "==", "!="])
        elif probe[0] == "int":
            cell, facts["I"] = "F.I", probe[1]
            op = rng.choice(["==", "<", ">=", "!="])
        else:
            cell, facts["S"] = "F.S", probe[1]
            op = rng.choice(["==", "!=", "<", ">="])
        ea, eb = bin_(op, V(cell), atom(ca)), bin_(op, V(cell), atom(cb))
    elif shape == "op":
        o1, o2 = rng.choice([("<", "<="), ("==", "!="), (">", ">="), ("<", ">")])
        ea, eb = bin_(o1, V("F.I"), atom(cint(1))), bin_(o2, V("F.I"), atom(cint(1)))
    elif shape == "neg":
        inner = bin_("==", V("F.I"), atom(cint(1)))
        if rng.chance(0.5):
            ea, eb = par(inner), par(inner, neg=True)
        else:
            ea, eb = atom(var(path("F.B"))), atom(neg(var(path("F.B"))))
    elif shape == "order":
        ea, eb = bin_("-", V("F.I"), V("F.J")), bin_("-", V("F.J"), V("F.I"))
        ea, eb = bin_(">", ea, atom(cint(0))), bin_(">", eb, atom(cint(0)))
    elif shape == "selector":
        if rng.chance(0.4):
            # selectors on call results: same selector, different receivers — and the other way round
            if rng.chance(0.5):
                ea = bin_("==", atom(sel(meth(var(root("F")), "GetA"), atom(cint(0)))), atom(cint(1)))
                eb = bin_("==", atom(sel(meth(var(root("F")), "GetM"), atom(cstr("b")))), atom(cint(1)))
                if rng.chance(0.5):
                    eb = bin_("==", atom(sel(meth(var(root("F")), "GetA2"), atom(cint(0)))), atom(cint(2)))
            else:
                ea = bin_("==", atom(sel(meth(var(root("F")), "GetA"), atom(cint(0)))), atom(cint(1)))
                eb = bin_("==", atom(sel(meth(var(root("F")), "GetA"), atom(cint(1)))), atom(cint(1)))
        elif rng.chance(0.5):
            ea = bin_("==", atom(var(idx(path("F.A"), atom(cint(0))))), atom(cint(1)))
            eb = bin_("==", atom(var(idx(path("F.A"), atom(cint(1))))), atom(cint(1)))
        else:
            ea = bin_("==", atom(var(idx(path("F.M"), atom(cstr("a"))))), atom(cint(1)))
            eb = bin_("==", atom(var(idx(path("F.M"), atom(cstr("b"))))), atom(cint(1)))
    elif shape == "args":
        ea = bin_("==", atom(meth(var(root("F")), "Sum", atom(cint(1)), atom(cint(2)))), atom(cint(3)))
        eb = bin_("==", atom(meth(var(root("F")), "Sum", atom(cint(12)))), atom(cint(3)))
    else:
        x = rng.choice(['a","b', 'a")))),E(EA(A(C(string->"b', 'a,b', 'a"),E(EA(A(C(string->"b'])
        ea = bin_("==", atom(meth(var(root("F")), "Cat", atom(cstr("a")), atom(cstr("b")))), atom(cstr("a|b")))
        eb = bin_("==", atom(meth(var(root("F")), "Cat", atom(cstr(x)))), atom(cstr("a|b")))
    if rng.chance(0.3):
        extra = bin_("<", V("F.J"), atom(cint(5)))
        ea, eb = bin_("&&", ea, extra), bin_("&&", eb, extra)
    if rng.chance(0.2):
        ea, eb = par(ea, neg=True), par(eb, neg=True)
    return shape, ea, eb, facts


def scenario(rng, sid):
    shape, ea, eb, fv = sibling_pair(rng)
    ra = mkrule("A", normalize(ea), [assign("=", path("F.U8"), atom(cint(1))), stmt(call("Retract", atom(cstr("A"))))], sal=rng.choice([0, 1]))
    rb = mkrule("B", normalize(eb), [assign("=", path("F.U16"), atom(cint(1))), stmt(call("Retract", atom(cstr("B"))))], sal=rng.choice([0, 1]))
    both = [ra, rb] if rng.chance(0.5) else [rb, ra]
    pr = Printer()

    def build(kb, rules):
        return {"op": "build", "lib": "L", "kb": kb, "wm": True, "text": pr.doc(rules), "rules": rules,
                "ftext": [[b, t] for b, t in collect_ftext(rules, {}).items()]}
    ops = []
    if rng.chance(0.3):
        # two resources, one rule each
        ops += [build("K", [both[0]]), build("K", [both[1]])]
    else:
        ops.append(build("K", both))
    ops += [build("KA", [ra]), build("KB", [rb])]
    for kb, inst in (("K", "i"), ("KA", "ia"), ("KB", "ib")):
        ops.append({"op": "inst", "lib": "L", "kb": kb, "as": inst})
    fstates = [fv]
    alt = dict(fv)
    alt["I"] = fv["I"] + 1
    alt["F"] = fv["F"] + 1e-7
    alt["S"] = fv["S"] + "b"
    fstates.append(alt)
    for f in fstates:
        st = [["F", fact(**f)]]
        for inst in ("i", "ia", "ib"):
            ops.append({"op": "fetch", "inst": inst, "facts": st, "retErr": False})
        for inst in ("i", "ia", "ib"):
            ops.append({"op": "exec", "inst": inst, "facts": st, "max": 4, "retErr": False, "cancelAt": None, "listeners": 0})
    return {"id": sid, "profile": "stable", "ops": ops, "shape": shape}


if __name__ == "__main__":
    import sys
    rng = Rng(int(sys.argv[1]) if len(sys.argv) > 1 else 1)
    for i in range(int(sys.argv[2]) if len(sys.argv) > 2 else 5):
        print(json.dumps(scenario(rng.fork(), "c07-%d" % i)))

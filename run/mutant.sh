#!/bin/bash
# usage: run/mutant.sh <patch.diff> <tier> <prop>...   — apply a seeded change to /repo, run checks, undo
patch=$1; tier=$2; shift 2
cd /repo || exit 2
if ! git diff --quiet; then echo "repo dirty"; exit 2; fi
if ! git apply --3way "$patch" 2>/tmp/apply.err; then
  if ! git apply "$patch" 2>>/tmp/apply.err; then echo "PATCH DOES NOT APPLY"; cat /tmp/apply.err | head -5; git checkout -- . ; exit 3; fi
fi
git reset -q   # keep changes in worktree only
cd /verif
for p in "$@"; do
  out=$(python3 run/check.py --property $p --tier $tier 2>&1 | tail -4)
  echo "$out" | grep -E "VIOLATION|PASS|FAIL|KNOWN" | cut -c1-200
done
git -C /repo checkout -- . ; git -C /repo clean -fdq

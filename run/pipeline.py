"""Run scenarios through the Go harness (real engine) and the Lean driver (model), canonicalise, diff."""
import json
import os
import subprocess
import sys
import time

ROOT = os.path.dirname(os.path.dirname(os.path.abspath(__file__)))
WORK = os.path.join(ROOT, ".work")
BIN = os.path.join(WORK, "bin")
LEAN_DIR = os.path.join(ROOT, "lean")
GOENV = dict(os.environ, GOFLAGS="-mod=mod", GOPROXY="off", CGO_ENABLED="0")
GOENV.pop("GOSUMDB", None)


def sh(cmd, cwd=None, env=None, timeout=3600, check=True, stdin=None):
    p = subprocess.run(cmd, cwd=cwd, env=env, stdout=subprocess.PIPE, stderr=subprocess.STDOUT, timeout=timeout,
                       input=stdin)
    if check and p.returncode != 0:
        raise RuntimeError("command failed: %s\n%s" % (cmd, p.stdout.decode(errors="replace")[-4000:]))
    return p


def build_harness(tags="verif", race=False):
    os.makedirs(BIN, exist_ok=True)
    out = os.path.join(BIN, "harness" + ("-race" if race else ""))
    if os.path.exists(out):
        os.remove(out)
    # go.sum must follow /repo's
    src = "/repo/go.sum"
    dst = os.path.join(ROOT, "harness", "go.sum")
    with open(src, "rb") as f:
        data = f.read()
    with open(dst, "wb") as f:
        f.write(data)
    env = dict(GOENV)
    cmd = ["go", "build", "-tags", tags, "-o", out]
    if race:
        cmd.insert(2, "-race")
        env["CGO_ENABLED"] = "1"
    cmd.append(".")
    sh(cmd, cwd=os.path.join(ROOT, "harness"), env=env)
    return out


def build_extract():
    os.makedirs(BIN, exist_ok=True)
    out = os.path.join(BIN, "extract")
    if os.path.exists(out):
        os.remove(out)
    env = dict(GOENV, GOTOOLCHAIN="local")
    sh(["go", "build", "-o", out, "."], cwd=os.path.join(ROOT, "tools", "extract"), env=env)
    return out


def regenerate():
    """delete and re-emit lean/GruleModel/Gen/*.lean from /repo's working tree"""
    ex = build_extract()
    gen = os.path.join(LEAN_DIR, "GruleModel", "Gen")
    sh([ex, "/repo", gen])


def lake_build(targets, timeout=3600):
    p = sh(["lake", "build"] + targets, cwd=LEAN_DIR, check=False, timeout=timeout)
    return p.returncode, p.stdout.decode(errors="replace")


def split_chunks(lines, n):
    k = max(1, (len(lines) + n - 1) // n)
    return [lines[i:i + k] for i in range(0, len(lines), k)]


def run_parallel(cmd, lines, cwd=None, jobs=8, timeout=900, env=None):
    """feed `lines` (list of str) to `jobs` copies of cmd; returns output lines in order"""
    if not lines:
        return []
    chunks = split_chunks(lines, jobs)
    procs = []
    for ch in chunks:
        p = subprocess.Popen(cmd, cwd=cwd, stdin=subprocess.PIPE, stdout=subprocess.PIPE, stderr=subprocess.PIPE, env=env)
        procs.append((p, ch))
    # write in threads to avoid deadlock
    import threading
    outs = [None] * len(procs)

    def work(i, p, ch):
        try:
            o, e = p.communicate(("\n".join(ch) + "\n").encode(), timeout=timeout)
        except subprocess.TimeoutExpired:
            p.kill()
            o, e = p.communicate()
        outs[i] = (o.decode(errors="replace"), e.decode(errors="replace"), p.returncode)

    ths = [threading.Thread(target=work, args=(i, p, ch)) for i, (p, ch) in enumerate(procs)]
    for t in ths:
        t.start()
    for t in ths:
        t.join()
    res = []
    for i, (o, e, rc) in enumerate(outs):
        got = [l for l in o.split("\n") if l.strip()]
        if len(got) != len(chunks[i]):
            # a crash: re-run the chunk's scenarios one at a time to find and isolate it
            got = []
            for line in chunks[i]:
                try:
                    p = subprocess.run(cmd, cwd=cwd, input=(line + "\n").encode(), stdout=subprocess.PIPE,
                                       stderr=subprocess.PIPE, timeout=120, env=env)
                except subprocess.TimeoutExpired:
                    sid = json.loads(line).get("id")
                    got.append(json.dumps({"id": sid, "crash": "timeout (120 s) on this scenario alone", "rc": -9}))
                    continue
                ls = [l for l in p.stdout.decode(errors="replace").split("\n") if l.strip()]
                if len(ls) == 1:
                    got.append(ls[0])
                else:
                    sid = json.loads(line).get("id")
                    got.append(json.dumps({"id": sid, "crash": p.stderr.decode(errors="replace")[-2000:], "rc": p.returncode}))
        res.extend(got)
    return res


def run_go(scenarios, jobs=8, binary=None):
    binary = binary or os.path.join(BIN, "harness")
    lines = [json.dumps(s) for s in scenarios]
    env = dict(os.environ, GOMEMLIMIT="2GiB")
    out = run_parallel([binary], lines, jobs=jobs, env=env)
    res = [json.loads(l) for l in out]
    for g in res:
        for r in g.get("res", []) or []:
            if isinstance(r, dict) and "out" in r:
                for k in ("trace", "pollAt", "calls", "rules"):
                    if k in r and r[k] is None:
                        r[k] = []
    return res


def run_lean(scenarios, jobs=8):
    lines = [json.dumps(s) for s in scenarios]
    out = run_parallel(["lake", "env", "lean", "--run", "Main.lean"], lines, cwd=LEAN_DIR, jobs=jobs)
    return [json.loads(l) for l in out]



def run_isolated(scenarios, binary=None, timeout=20.0, mem_bytes=8 << 30, jobs=8):
    """one harness process per worker, one scenario at a time; a process that dies or does not answer within `timeout`
    is replaced and the scenario gets {"crash": …} / {"hang": …} as its result. The child's address space is capped."""
    import resource
    import select
    import threading
    binary = binary or os.path.join(BIN, "harness")
    results = [None] * len(scenarios)
    idx = list(range(len(scenarios)))
    lock = threading.Lock()

    def limit():
        resource.setrlimit(resource.RLIMIT_AS, (mem_bytes, mem_bytes))

    def spawn():
        return subprocess.Popen([binary], stdin=subprocess.PIPE, stdout=subprocess.PIPE, stderr=subprocess.PIPE, preexec_fn=limit,
                                env=dict(os.environ, GOMEMLIMIT="2GiB", GOGC="50"))

    def worker():
        p = spawn()
        while True:
            with lock:
                if not idx:
                    break
                i = idx.pop(0)
            line = (json.dumps(scenarios[i]) + "\n").encode()
            try:
                p.stdin.write(line)
                p.stdin.flush()
            except Exception:
                pass
            t0 = time.time()
            buf = b""
            status = None
            while True:
                left = timeout - (time.time() - t0)
                if left <= 0:
                    status = "hang"
                    break
                r, _, _ = select.select([p.stdout], [], [], min(left, 0.5))
                if r:
                    chunk = os.read(p.stdout.fileno(), 1 << 16)
                    if not chunk:
                        status = "crash"
                        break
                    buf += chunk
                    if buf.endswith(b"\n"):
                        break
                elif p.poll() is not None:
                    status = "crash"
                    break
            if status is None:
                try:
                    results[i] = json.loads(buf.decode(errors="replace"))
                    continue
                except Exception:
                    status = "garbled"
            err = b""
            try:
                p.kill()
                err = p.stderr.read()[-600:]
            except Exception:
                pass
            results[i] = {"id": scenarios[i].get("id"), status: True, "stderr": err.decode(errors="replace"), "wall": time.time() - t0}
            p = spawn()
        try:
            p.stdin.close()
            p.wait(timeout=5)
        except Exception:
            p.kill()
    ts = [threading.Thread(target=worker) for _ in range(max(1, jobs))]
    for t in ts:
        t.start()
    for t in ts:
        t.join()
    return results

# ---- order hints ---------------------------------------------------------------------------------

def add_order_hints(scenario, gores):
    """derive, from the real run's listener trace and poll indices, the map iteration order of every
    pass and write it into the exec ops as `orders` (the model's order oracle)."""
    sc = json.loads(json.dumps(scenario))
    if "res" not in gores:
        return sc
    # track rule keys per instance as far as needed: we only need names of inactive entries to fill gaps
    for op, r in zip(sc["ops"], gores["res"]):
        if op.get("op") != "exec" or "trace" not in r:
            continue
        trace, pollat = r["trace"] or [], r["pollAt"] or []
        passes = []
        cur = None
        last_poll = None
        for ev, pa in zip(trace, pollat):
            if ev[0] == "b":
                cur = []
                passes.append(cur)
                last_poll = pa
            elif ev[0] == "e":
                gap = pa - last_poll - 2
                ca = op.get("cancelAt")
                if ca is not None and pa - 2 >= ca:
                    # the poll inside RuleEntry.Evaluate reported cancellation: it costs two Err() calls
                    gap -= 1
                for _ in range(max(0, gap)):
                    cur.append(None)
                cur.append(ev[2])
                last_poll = pa
        out = r.get("out", "")
        total = r.get("polls", 0)
        last_is_pass = bool(trace) and trace[-1][0] in ("b", "e")
        if passes and last_is_pass and last_poll is not None:
            # the run ended inside (or right after) the last pass: entries visited after the last reported one
            # are not observable through events, but every inactive one of them cost one poll
            if out.startswith("evalErr:"):
                cost = 3 if out.endswith(":true") else 2
                for _ in range(max(0, total - last_poll - cost)):
                    passes[-1].append(None)
                passes[-1].append(out.split(":")[1])
            elif out == "ctx":
                for _ in range(max(0, total - last_poll - 2)):
                    passes[-1].append(None)
        elif out.startswith("evalErr:") and passes:
            passes[-1].append(out.split(":")[1])
        op["orders_raw"] = passes
        op["retracted_final"] = r.get("retracted") or []
    return sc


def add_uuid_hints(sc, gores):
    """KnowledgeLibrary.RemoveRuleEntry renames the entry to Deleted_<random uuid>: hand the observed uuid to the model"""
    seen = set()
    for op, r in zip(sc["ops"], gores.get("res", [])):
        rules = r.get("rules") if isinstance(r, dict) else None
        if op.get("op") == "remove" and not op.get("inst") and not op.get("viaKb") and rules:
            for key, name, sal, desc, deleted, snap in rules:
                if deleted and key.startswith("Deleted_") and (op.get("lib"), op.get("kb"), key) not in seen:
                    # the entry that was not tomb-stoned before this op
                    op["uuid"] = key[len("Deleted_"):]
        if rules and op.get("op") in ("remove", "build", "info", "load") and not op.get("inst"):
            for key, name, sal, desc, deleted, snap in rules:
                if deleted:
                    seen.add((op.get("lib"), op.get("kb"), key))
    return sc


def fill_orders(sc, keys_by_inst):
    """replace None placeholders (an inactive entry was visited here) by keys of entries known to be inactive:
    removed ones, and those absent from an earlier pass of the same call (retracted)"""
    for op in sc["ops"]:
        if op.get("op") != "exec" or "orders_raw" not in op:
            continue
        info = keys_by_inst.get(op["inst"], ([], set()))
        keys, deleted = info
        inactive = set(deleted)
        orders = []
        raw = op.pop("orders_raw")
        finally_retracted = set(op.pop("retracted_final", []))
        for pi, p in enumerate(raw):
            named = [k for k in p if k is not None]
            pref = [k for k in keys if k not in named and k in inactive]
            pref2 = [k for k in keys if k not in named and k not in inactive and k in finally_retracted]
            other = [k for k in keys if k not in named and k not in inactive and k not in finally_retracted]
            spare = pref + pref2 + other
            out = []
            for k in p:
                if k is None:
                    out.append(spare.pop(0) if spare else "?")
                else:
                    out.append(k)
            orders.append(out + spare)
            if pi < len(raw) - 1:
                inactive |= set(k for k in keys if k not in named)
        op["orders"] = orders
    return sc


def instance_keys(scenario, gores):
    """rule keys (by RuleName at the time) and removed ones of every instance, from the real results"""
    keys = {}
    for op, r in zip(scenario["ops"], gores.get("res", [])):
        if op.get("op") == "inst" and r.get("ok"):
            keys[op["as"]] = ([x[1] for x in r["rules"]], set(x[1] for x in r["rules"] if x[4]))
        if op.get("op") == "remove" and op.get("inst") and "rules" in r:
            keys[op["inst"]] = ([x[1] for x in r["rules"]], set(x[1] for x in r["rules"] if x[4]))
    return keys


# ---- canonicalisation ----------------------------------------------------------------------------

def canon_node(n):
    if not isinstance(n, list) or not n:
        return n
    tag = n[0]
    if tag == "struct":
        return ["struct", [[k, canon_node(v)] for k, v in n[-1]]]
    if tag == "ptr":
        return ["ptr", canon_node(n[-1]) if n[-1] is not None else None]
    if tag == "iface":
        return ["iface", canon_node(n[-1]) if n[-1] is not None else None]
    if tag == "slice":
        return ["slice", [canon_node(x) for x in n[-1]]]
    if tag == "map":
        return ["map", sorted(([k, canon_node(v)] for k, v in n[-1]), key=lambda kv: json.dumps(kv[0]))]
    if tag == "jobj":
        return ["jobj", sorted(([k, canon_node(v)] for k, v in n[-1]), key=lambda kv: kv[0])]
    if tag == "jarr":
        return ["jarr", [canon_node(x) for x in n[-1]]]
    if tag == "time":
        return ["time", str(n[1]), str(n[2]), (str(n[3]) if n[3] is not None else None)]
    if tag in ("float64", "float32"):
        b = int(n[1])
        if (b >> 52) & 0x7FF == 0x7FF and (b & ((1 << 52) - 1)) != 0:
            return [tag, "NaN"]
    return [tag] + [str(x) if not isinstance(x, bool) else x for x in n[1:]]


def canon_store(st):
    return sorted(([k, canon_node(v)] for k, v in st), key=lambda kv: kv[0])


def canon_calls(calls, go):
    out = []
    for c in calls or []:
        if go:
            args = []
            for a in c[1:]:
                if isinstance(a, bool):
                    args.append(["bool", a])
                elif isinstance(a, str):
                    args.append(["string", a])
                elif isinstance(a, list) and a and a[0] == "f64":
                    args.append(canon_node(["float64", a[1]]))
                else:
                    args.append(["num", str(int(a))])
            out.append([c[0]] + args)
        else:
            args = []
            for a in c[1:]:
                if a[0] == "bool":
                    args.append(["bool", a[1]])
                elif a[0] == "string":
                    args.append(["string", a[1]])
                elif a[0].startswith("float"):
                    args.append(canon_node(["float64", a[1]]))
                else:
                    args.append(["num", str(a[1])])
            out.append([c[0]] + args)
    return out


def canon_fetch_rules(rules):
    """sorted by salience desc; ties as sorted groups"""
    groups = {}
    order = []
    for name, sal in rules:
        sal = int(sal)
        if sal not in groups:
            groups[sal] = []
            order.append(sal)
        groups[sal].append(name)
    return [[s, sorted(groups[s])] for s in order]


def canon_binop(r):
    if "v" in r:
        return {"v": canon_node(r["v"])}
    return {k: v for k, v in r.items() if k in ("err", "panic", "out")}


def canon_result(op, r, go):
    """the comparable part of one op result"""
    if "panic" in r or "crash" in r or "modelError" in r or "skip" in r:
        return r
    kind = op.get("op")
    out = {}
    if kind == "build":
        out["ok"] = r.get("ok")
        out["rules"] = r.get("rules")
        if op.get("front"):
            # the model read the text itself: compare the error channels (lexer / parser), not the error count
            if go:
                ek = r.get("errkinds") or {}
                out["lex"] = ek.get("lex", 0) > 0
                out["syntax"] = ek.get("syntax", 0) > 0
            else:
                out["lex"] = r.get("lexErrs", 0) > 0
                out["syntax"] = not r.get("grammatical", True)
        elif "nerr" in r:
            out["nerr"] = r["nerr"]
        if "wm" in r:
            out["wm"] = r["wm"]
    elif kind == "jsonbuild":
        out["tok"] = r.get("tok")
        out["ok"] = r.get("ok")
        out["rules"] = r.get("rules")
        if r.get("tok"):
            out["text"] = r.get("text")
    elif kind == "inst":
        out["ok"] = r.get("ok")
        if r.get("ok"):
            out["rules"] = r.get("rules")
    elif kind == "exec":
        out["out"] = r.get("out")
        out["trace"] = r.get("trace") or []
        out["polls"] = r.get("polls")
        out["store"] = canon_store(r.get("store", []))
        out["calls"] = canon_calls(r.get("calls"), go)
        out["memo"] = r.get("memo")
        out["retracted"] = r.get("retracted")
        if go and "escaped" in r:
            out["escaped"] = r["escaped"]
    elif kind == "fetch":
        o = r.get("out")
        if o and o.startswith("evalErr:"):
            o = "evalErr"
        out["out"] = o
        out["rules"] = canon_fetch_rules(r.get("rules", []))
        out["store"] = canon_store(r.get("store", []))
    elif kind == "concurrent":
        out["results"] = [{"out": x.get("out"), "store": canon_store(x.get("store", []))} if "out" in x else x for x in (r.get("results") or [])]
    elif kind in ("remove", "info"):
        out["rules"] = r.get("rules")
    elif kind == "store":
        out["ok"] = r.get("ok")
    elif kind == "load":
        out["ok"] = r.get("ok")
        if r.get("ok"):
            out["rules"] = r.get("rules")
            out["name"] = r.get("name")
            out["version"] = r.get("version")
    else:
        out = r
    return out


def first_diff(a, b, path=""):
    if type(a) != type(b):
        return "%s: %r vs %r" % (path, a, b)
    if isinstance(a, dict):
        for k in sorted(set(a) | set(b)):
            if k not in a or k not in b:
                return "%s.%s: present on one side only (%r vs %r)" % (path, k, a.get(k), b.get(k))
            d = first_diff(a[k], b[k], path + "." + k)
            if d:
                return d
        return None
    if isinstance(a, list):
        if len(a) != len(b):
            for i, (x, y) in enumerate(zip(a, b)):
                d = first_diff(x, y, "%s[%d]" % (path, i))
                if d:
                    return d
            return "%s: length %d vs %d (%s | %s)" % (path, len(a), len(b), json.dumps(a)[-300:], json.dumps(b)[-300:])
        for i, (x, y) in enumerate(zip(a, b)):
            d = first_diff(x, y, "%s[%d]" % (path, i))
            if d:
                return d
        return None
    if a != b:
        return "%s: %r vs %r" % (path, a, b)
    return None


def compare(scenario, gores, leanres):
    """returns (status, detail): status in ok | unmodelled | mismatch | crash"""
    if "res" not in gores:
        return "crash", "go: " + json.dumps(gores)[:500]
    if "res" not in leanres:
        return "crash", "lean: " + json.dumps(leanres)[:500]
    for i, (op, g, l) in enumerate(zip(scenario["ops"], gores["res"], leanres["res"])):
        if "skip" in l:
            continue
        if "modelError" in l:
            return "crash", "op %d (%s): model error %s" % (i, op.get("op"), l["modelError"])
        lo = l.get("out", "")
        if isinstance(lo, str) and lo.startswith("unmodelled:"):
            return "unmodelled", "op %d: %s" % (i, lo)
        cg, cl = canon_result(op, g, True), canon_result(op, l, False)
        d = first_diff(cg, cl, "op%d(%s)" % (i, op.get("op")))
        if d:
            return "mismatch", d
    return "ok", ""


def compare_spec(scenario, gores, leanres):
    """property oracle: the real engine against the memo-free (from-scratch) semantics.
    returns list of (op index, kind, detail) of divergences; kind in trace|store|out|fetch"""
    out = []
    if "res" not in gores or "res" not in leanres:
        return out
    for i, (op, g, l) in enumerate(zip(scenario["ops"], gores["res"], leanres["res"])):
        sp = l.get("spec")
        if not sp or "out" not in g:
            continue
        if isinstance(sp.get("out"), str) and sp["out"].startswith("unmodelled:"):
            continue
        if op["op"] == "exec":
            d = first_diff(g.get("trace") or [], sp.get("trace") or [], "trace")
            if d:
                out.append((i, "trace", d))
                continue
            if g.get("out") != sp.get("out"):
                out.append((i, "out", "%s vs %s" % (g.get("out"), sp.get("out"))))
                continue
            d = first_diff(canon_store(g.get("store", [])), canon_store(sp.get("store", [])), "store")
            if d:
                out.append((i, "store", d))
        elif op["op"] == "fetch":
            go_out = g.get("out")
            if go_out and go_out.startswith("evalErr:"):
                go_out = "evalErr"
            so = sp.get("out")
            if so and so.startswith("evalErr:"):
                so = "evalErr"
            if go_out != so:
                out.append((i, "fetch", "%s vs %s" % (go_out, so)))
                continue
            d = first_diff(canon_fetch_rules(g.get("rules", [])), canon_fetch_rules(sp.get("rules", [])), "rules")
            if d:
                out.append((i, "fetch", d))
                continue
            d = first_diff(canon_store(g.get("store", [])), canon_store(sp.get("store", [])), "store")
            if d:
                out.append((i, "fetch", d))
    return out


def correspond(scenarios, jobs=8):
    """full two-pass pipeline; returns list of (scenario_with_hints, go, lean, status, detail)"""
    go = run_go(scenarios, jobs)
    hinted = []
    for sc, g in zip(scenarios, go):
        h = add_order_hints(sc, g)
        h = fill_orders(h, instance_keys(sc, g))
        h = add_uuid_hints(h, g)
        hinted.append(h)
    lean = run_lean(hinted, jobs)
    out = []
    for sc, g, l in zip(hinted, go, lean):
        st, d = compare(sc, g, l)
        out.append((sc, g, l, st, d))
    return out


if __name__ == "__main__":
    scs = [json.loads(l) for l in open(sys.argv[1]) if l.strip()]
    t0 = time.time()
    res = correspond(scs, jobs=int(os.environ.get("JOBS", "4")))
    for sc, g, l, st, d in res:
        print(sc["id"], st, d)
        if sc.get("no_oracle"):
            continue
        for i, kind, det in compare_spec(sc, g, l):
            print(sc["id"], "SPEC-DIVERGENCE", i, kind, det[:300])
    print("wall", time.time() - t0)

#!/bin/bash
# usage: run/seeded_all.sh [tier]  — every seeded change against the check of its own property (applies, runs, undoes)
tier=${1:-quick}
cd /verif
for d in seeded/*/; do
  id=$(basename $d); p=${id%%-*}
  r=$(bash run/mutant.sh /verif/$d/patch.diff $tier $p 2>&1 | tail -1 | cut -c1-150)
  n=$(bash -c "true"; ls /verif/replays 2>/dev/null | wc -l)
  echo "$id :: $r"
done

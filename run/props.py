"""Per-property check logic (validation + oracle part). The Lean obligations are handled by check.py."""
import glob
import json
import os
import subprocess

import gen
import pipeline as pl
from rng import Rng

ROOT = pl.ROOT

TRUSTED_BASE = [
    "Lean 4.33 kernel; axioms propext, Classical.choice, Quot.sound only (audited per theorem on every run)",
    "Lean compiler/interpreter and hardware Float for executing the model in the driver",
    "tools/extract (go/ast extractors, regenerated tables) and run/*.py + harness/*.go (generators, canonicalisation, diff)",
    "modelled, not verified: ANTLR runtime and generated parser, Go reflect/strconv/fmt/encoding-json/time, Go float64 = IEEE = Lean Float, "
    "user fact methods as catalogued in harness/types.go, facts form a tree (no aliasing), value-vs-reference caching on coherent states",
]


class Result:
    def __init__(self):
        self.evaluations = 0
        self.distinct_nontrivial = 0
        self.rule = ""
        self.samples = []
        self.distribution = {}
        self.corr_compared = 0
        self.corr_details = []
        self.corr_broken = False
        self.unmodelled = 0
        self.violations = []
        self._distinct = set()

    def count(self, key, n=1):
        self.distribution[key] = self.distribution.get(key, 0) + n


class Ctx:
    def __init__(self, prop, tier, seed, jobs, ob):
        self.prop = prop
        self.tier = tier
        self.seed = seed
        self.jobs = jobs
        self.ob = ob

    def n(self, quick, thorough):
        return quick if self.tier == "quick" else thorough


def gen_diff():
    """diff of regenerated Gen/*.lean against the committed copies (localises a source change)"""
    try:
        p = subprocess.run(["git", "-C", ROOT, "diff", "--stat", "--", "lean/GruleModel/Gen"], stdout=subprocess.PIPE,
                           stderr=subprocess.STDOUT, timeout=60)
        d = subprocess.run(["git", "-C", ROOT, "diff", "-U0", "--", "lean/GruleModel/Gen"], stdout=subprocess.PIPE,
                           stderr=subprocess.STDOUT, timeout=60)
        return (p.stdout.decode() + d.stdout.decode())[:4000]
    except Exception as e:  # pragma: no cover
        return "unavailable: %s" % e


def match_known(prop, v, known):
    for k in known:
        if k.get("status") != "known":
            continue
        if prop not in k.get("properties", [k.get("property")]):
            continue
        if k.get("signature") and k["signature"] == v.get("signature"):
            return k
    return None


def _complete_facts(sc):
    """witnesses written before a field was added to the harness' Fact struct: give the missing fields their zero value"""
    import grl
    zero = dict((k, v) for k, v in grl.fact()[2][2])
    order = [k for k, _ in grl.FACT_FIELDS]
    for o in sc.get("ops", []) if isinstance(sc, dict) else []:
        fl = [o["facts"]] if o.get("facts") else []
        fl += o.get("factsList") or []
        for facts in fl:
            for root in facts:
                node = root[1]
                if isinstance(node, list) and node[:2] == ["ptr", "Fact"] and node[2] and node[2][0] == "struct":
                    have = dict((k, v) for k, v in node[2][2])
                    if set(have) != set(order):
                        node[2][2] = [[k, have.get(k, zero[k])] for k in order]
    return sc


def corpus(prop):
    out = []
    for p in sorted(glob.glob(os.path.join(ROOT, "corpus", prop, "*.json"))):
        try:
            out.append(_complete_facts(json.load(open(p))))
        except Exception:
            pass
    return out


# ---- monitors over the real event stream ------------------------------------------------------------

def rule_table(scenario, gores, inst):
    """name -> salience for the instance, from the real `inst` result"""
    tbl = {}
    for op, r in zip(scenario["ops"], gores.get("res", [])):
        if op.get("op") == "inst" and op.get("as") == inst and r.get("ok"):
            for key, name, sal, desc, deleted, snap in r["rules"]:
                tbl[name] = (int(sal), deleted)
        if op.get("op") == "remove" and op.get("inst") == inst and "rules" in r:
            tbl = {}
            for key, name, sal, desc, deleted, snap in r["rules"]:
                tbl[name] = (int(sal), deleted)
    return tbl


def monitor_trace(op, r, rules):
    """structural well-formedness of the listener stream and the decision logic visible in it.
    returns list of (property, signature, detail)"""
    out = []
    tr = r.get("trace") or []
    res = r.get("out", "")
    maxc = op["max"]
    cycle = 0
    cands = None
    seen = None
    fired_in_cycle = 0
    nexec = 0
    for i, ev in enumerate(tr):
        if ev[0] == "b":
            if ev[1] != cycle + 1:
                out.append(("C06", "cycle-numbering", "event %d: begin %s after cycle %d" % (i, ev[1], cycle)))
            cycle = ev[1]
            cands, seen, fired_in_cycle = [], set(), 0
        elif ev[0] == "e":
            if cands is None or ev[1] != cycle:
                out.append(("C06", "eval-outside-cycle", "event %d: %s" % (i, ev)))
                continue
            if fired_in_cycle:
                out.append(("C03", "eval-after-exec", "event %d: %s evaluated after the cycle's execution" % (i, ev[2])))
            if ev[2] in seen:
                out.append(("C06", "eval-twice", "event %d: %s evaluated twice in cycle %d" % (i, ev[2], cycle)))
            seen.add(ev[2])
            if ev[3]:
                cands.append(ev[2])
        elif ev[0] == "x":
            nexec += 1
            fired_in_cycle += 1
            if ev[1] != cycle:
                out.append(("C06", "exec-cycle-number", "event %d: %s" % (i, ev)))
            if fired_in_cycle > 1:
                out.append(("C03", "two-exec-in-cycle", "cycle %d fires twice" % cycle))
            if cands is None or ev[2] not in cands:
                out.append(("C06", "exec-non-candidate", "event %d: %s fired without being reported candidate" % (i, ev[2])))
            elif rules:
                best = max(rules[c][0] for c in cands if c in rules) if any(c in rules for c in cands) else None
                if best is not None and ev[2] in rules and rules[ev[2]][0] < best:
                    out.append(("C03", "non-maximal-salience", "cycle %d fired %s (salience %d) although a candidate has %d"
                                % (cycle, ev[2], rules[ev[2]][0], best)))
    if nexec > maxc:
        out.append(("C06", "more-firings-than-maxcycle", "%d firings with MaxCycle %d" % (nexec, maxc)))
    if res == "limit":
        # one more firing would be needed: the last cycle has a candidate and no exec
        if not (cands and fired_in_cycle == 0 and nexec == maxc):
            out.append(("C06", "limit-error-unjustified", "limit returned with %d firings, candidates %s" % (nexec, cands)))
    if res == "ok" and cands and fired_in_cycle == 0:
        out.append(("C06", "ok-with-pending-candidate", "returned nil although %s are candidates" % cands))
    if not r.get("listenersAgree", True):
        out.append(("C06", "listeners-disagree", "registered listeners saw different event streams"))
    if "escaped" in r:
        out.append(("C14", "panic-escaped", r["escaped"][:200]))
    return out


def classify_spec_divergence(op, g, sp, kind, detail):
    """owner properties of a divergence between the real run and the from-scratch semantics"""
    owners = []
    sig = kind
    if kind == "trace":
        tr, st = g.get("trace") or [], sp.get("trace") or []
        i = 0
        while i < len(tr) and i < len(st) and tr[i] == st[i]:
            i += 1
        a = tr[i] if i < len(tr) else None
        b = st[i] if i < len(st) else None
        if a and b and a[0] == "e" and b[0] == "e" and a[:3] == b[:3]:
            if a[3] and not b[3]:
                sig = "stale-true-candidate"
                owners = ["C06"]
                cyc = a[1]
                fired = [e for e in tr if e[0] == "x" and e[1] == cyc]
                if fired and fired[0][2] == a[2]:
                    owners.append("C01")
            else:
                sig = "stale-false-candidate"
                owners = ["C02", "C06"]
        elif a and a[0] == "x" and (b is None or b[0] != "x" or b[2] != a[2]):
            sig = "fired-differently"
            owners = ["C01", "C03"]
        elif a is None and b is not None:
            sig = "stopped-early"
            owners = ["C02", "C06"]
        else:
            sig = "trace-shape"
            owners = ["C06"]
    elif kind == "store":
        sig = "action-wrote-other-value"
        owners = ["C04"]
    elif kind == "out":
        sig = "outcome"
        owners = ["C06", "C14"]
    elif kind == "fetch":
        sig = "fetch-result"
        owners = ["C11", "C08"]
    return owners, sig


def scenario_key(sc):
    return json.dumps([o.get("text", o.get("op")) for o in sc["ops"]], sort_keys=True)


def nontrivial_engine(g):
    """a run is non-trivial when at least two rule firings happened in some exec of the scenario"""
    for r in g.get("res", []):
        tr = r.get("trace")
        if tr and len([e for e in tr if e[0] == "x"]) >= 2:
            return True
    return False


def engine_sweep(ctx, res, scenarios, owners=None, corr_profiles=("stable", "wild", "faulty"), oracle=True,
                 nontrivial=nontrivial_engine):
    """run scenarios through the pipeline; fill `res`. `owners`: which properties' violations to keep (None: ctx.prop)"""
    want = set(owners or [ctx.prop])
    out = pl.correspond(scenarios, jobs=ctx.jobs)
    for sc, g, l, status, detail in out:
        res.evaluations += 1
        prof = sc.get("profile", "stable")
        res.count("profile:" + prof)
        if status == "unmodelled":
            res.unmodelled += 1
            res.count("unmodelled")
            continue
        if status == "crash":
            res.corr_details.append({"id": sc["id"], "status": status, "detail": detail[:500], "scenario": sc})
            res.corr_broken = True
            continue
        res.corr_compared += 1
        if status == "mismatch" and prof in corr_profiles:
            res.corr_details.append({"id": sc["id"], "status": status, "detail": detail[:500], "scenario": sc})
            res.corr_broken = True
            if ".calls" in detail and "C13" in want:
                # the real engine evaluated a counted method more often (or differently) than the at-most-once model
                for op, gr, lr in zip(sc["ops"], g.get("res", []), l.get("res", [])):
                    if op.get("op") == "exec" and len(gr.get("calls") or []) > len(lr.get("calls") or []):
                        res.violations.append({"signature": "oracle:extra-method-evaluation", "detail": detail[:300], "scenario": sc,
                                               "impl": {"calls": gr.get("calls")}, "model": {"calls": lr.get("calls")}})
                        break
        key = scenario_key(sc)
        if nontrivial(g) and key not in res._distinct:
            res._distinct.add(key)
            res.distinct_nontrivial += 1
            if len(res.samples) < 3:
                res.samples.append({"id": sc["id"], "text": sc["ops"][0].get("text", "")[:600],
                                    "outcomes": [r.get("out") for r in g.get("res", []) if "out" in r]})
        # distribution
        for op, r in zip(sc["ops"], g.get("res", [])):
            if op.get("op") == "exec" and "trace" in r:
                res.count("exec")
                res.count("outcome:" + str(r.get("out", "")).split(":")[0])
                nfire = len([e for e in r["trace"] if e[0] == "x"])
                res.count("firings:%s" % ("0" if nfire == 0 else "1" if nfire == 1 else "2-4" if nfire < 5 else "5+"))
                flips = set()
                last = {}
                for e in r["trace"]:
                    if e[0] == "e":
                        if e[2] in last and last[e[2]] != e[3]:
                            flips.add(e[2])
                        last[e[2]] = e[3]
                if flips:
                    res.count("runs-with-candidate-flip")
            if op.get("op") == "fetch":
                res.count("fetch")
        # monitors
        for op, r in zip(sc["ops"], g.get("res", [])):
            if op.get("op") == "exec" and "trace" in r:
                rules = rule_table(sc, g, op["inst"])
                for owner, sig, det in monitor_trace(op, r, rules):
                    if owner in want:
                        res.violations.append({"signature": "monitor:" + sig, "detail": det, "scenario": sc,
                                               "impl": r, "op_index": sc["ops"].index(op)})
        # property oracle: real vs from-scratch
        if oracle and not sc.get("no_oracle"):
            for i, kind, det in pl.compare_spec(sc, g, l):
                owners_i, sig = classify_spec_divergence(sc["ops"][i], g["res"][i], l["res"][i].get("spec", {}), kind, det)
                owners_i = owners_i + extra_owners(sc)
                first_call = min([j for j, o in enumerate(sc["ops"]) if o.get("op") in ("exec", "fetch")] or [i])
                if i > first_call:
                    owners_i.append("C08")   # a later call on a used instance diverges from the from-scratch semantics
                res.count("spec-divergence:" + sig)
                if want & set(owners_i):
                    res.violations.append({"signature": "oracle:" + sig + gap_class(sc), "detail": det, "scenario": sc,
                                           "impl": g["res"][i], "spec": l["res"][i].get("spec"), "op_index": i})
    return res


def extra_owners(sc):
    """properties that own any divergence of a scenario because of what its rules use"""
    txt = " ".join(o.get("text", "") for o in sc["ops"] if o.get("op") == "build")
    out = []
    if "Retract(" in txt or "Complete(" in txt:
        out.append("C10")
    if sc.get("holes") or any(k in txt for k in ("Boom(", "FailAt(", "F.Q.N", "Z.x", "F.Nope", '"zz"', "% 0", "[7]", "[-1]", 'Heavy("x")', "[F.J]")):
        out.append("C14")
    if "Heavy(" in txt or "Sum(" in txt or "Str(" in txt or "Half(" in txt or "Neg(" in txt:
        out.append("C13")
    return out


def gap_class(sc):
    """which known invalidation gaps a scenario's rules exhibit syntactically (see DESIGN.md §6);
    part of a violation's signature so that a different gap is reported as a new violation"""
    return ""


def generic_replay(ctx, path):
    res = Result()
    payload = json.load(open(path))
    sc = payload.get("scenario")
    if not sc:
        res.rule = "replay of a broken obligation: nothing to run"
        return res
    engine_sweep(ctx, res, [sc], owners=[ctx.prop])
    res.rule = "replay of %s" % path
    return res


def gen_engine(ctx, n, mix, tag):
    rng = Rng(ctx.seed * 1000003 + hash_tag(tag))
    scs = []
    for i in range(n):
        prof = rng.weighted(mix)
        scs.append(gen.engine_scenario(rng.fork(), "%s-%d-%d" % (tag, ctx.seed, i), prof))
    return scs


def hash_tag(tag):
    h = 0
    for ch in tag:
        h = (h * 131 + ord(ch)) & 0xFFFFFFFF
    return h


ENGINE_RULE = ("engine scenarios: 1-5 type-directed rules over a 3-6 cell pool of the harness fact schema (Go struct, nested "
               "pointer, slice, map, JSON, top-level), built, instantiated, then 1-3 Execute/FetchMatchingRules calls; "
               "real engine vs Impl model (correspondence) and vs from-scratch semantics (oracle); distinct = by rule text, "
               "non-trivial = some run fired at least two rules")


def run_engine_generic(ctx, mix=(("stable", 6), ("wild", 3), ("faulty", 1)), quick=1000, thorough=12000, owners=None):
    res = Result()
    res.rule = ENGINE_RULE
    scs = corpus(ctx.prop) + gen_engine(ctx, ctx.n(quick, thorough), list(mix), ctx.prop)
    # chunk to bound memory
    for i in range(0, len(scs), 1500):
        engine_sweep(ctx, res, scs[i:i + 1500], owners=owners)
    return res


def cancel_variants(ctx, sc, g, rng):
    """from a cancellation-free base scenario and its real run: one scenario per chosen cancellation point"""
    out = []
    for i, (op, r) in enumerate(zip(sc["ops"], g.get("res", []))):
        if op.get("op") != "exec" or "polls" not in r:
            continue
        P = r["polls"]
        E = len(r.get("trace") or [])
        pts = list(range(0, P + 2))
        evs = list(range(0, E))
        if ctx.tier == "quick":
            pts = sorted(set([0, 1, 2, P - 1, P, P + 1] + [rng.below(P + 2) for _ in range(5)]))
            pts = [p for p in pts if 0 <= p <= P + 1]
            evs = sorted(set([rng.below(E) for _ in range(3)])) if E else []
        for p in pts:
            v = json.loads(json.dumps(sc))
            v["id"] = "%s@p%d" % (sc["id"], p)
            v["ops"][i]["cancelAt"] = p
            if p % 2 == 1:
                v["ops"][i]["ctxErr"] = "deadline"
            v["cancel"] = {"op": i, "poll": p}
            out.append(v)
        for k in evs:
            v = json.loads(json.dumps(sc))
            v["id"] = "%s@e%d" % (sc["id"], k)
            v["ops"][i]["cancelAtEvent"] = k
            v["cancel"] = {"op": i, "event": k}
            out.append(v)
        break
    return out


def monitor_cancel(sc, g):
    """C15 on the real engine: once a poll has reported cancellation the result is the context's error (possibly
    wrapped with the rule's name), and a pre-cancelled context fires nothing"""
    out = []
    info = sc.get("cancel")
    if not info:
        return out
    i = info["op"]
    r = g.get("res", [])[i] if i < len(g.get("res", [])) else {}
    res = str(r.get("out", ""))
    ctxclass = res == "ctx" or res.endswith(":true")
    if "poll" in info:
        reached = r.get("polls", 0) > info["poll"]
        if reached and not ctxclass:
            out.append(("C15", "cancelled-but-not-reported", "poll %d reported cancellation, result %s" % (info["poll"], res)))
        self_cancel = any(c and c[0] in ("Cancel", "CancelRet") for c in (r.get("calls") or []))
        if not reached and ctxclass and not self_cancel:
            out.append(("C15", "ctx-error-without-cancellation", "run ended after %s polls, result %s" % (r.get("polls"), res)))
        if info["poll"] == 0 and (r.get("trace") or []):
            out.append(("C15", "precancelled-but-events", "events %s" % r.get("trace")[:3]))
    else:
        k = info["event"]
        tr = r.get("trace") or []
        if len(tr) > k + 1:
            # after the listener cancelled during event k at most evaluation reports may follow, never an execution
            later = tr[k + 1:]
            if any(e[0] == "x" for e in later):
                out.append(("C15", "fired-after-listener-cancel", "event %d cancelled, later events %s" % (k, later[:4])))
        if len(tr) > k and not ctxclass:
            out.append(("C15", "cancelled-but-not-reported", "listener cancelled at event %d, result %s" % (k, res)))
    return out


def run_c15(ctx):
    res = Result()
    res.rule = ("base engine scenarios (no cancellation) are run once on the real engine to count its ctx.Err() polls P and listener events E; "
                "then one scenario per cancellation point: cancelAt=p for p in 0..P+1 (quick: boundary points + 5 random; thorough: all), "
                "listener-triggered cancellation at event k, Canceled and DeadlineExceeded alternating, plus fact methods that cancel from inside "
                "a condition/action; real engine vs model (trace, facts, poll count) and the C15 monitor; non-trivial = cancellation was reached")
    rng = Rng(ctx.seed * 7919 + 15)
    nbase = ctx.n(40, 400)
    base = []
    for i in range(nbase):
        sc = gen.engine_scenario(rng.fork(), "c15-%d-%d" % (ctx.seed, i), rng.weighted([("stable", 5), ("wild", 3), ("cancel", 2)]), nexec=1)
        for op in sc["ops"]:
            op.pop("cancelAt", None)
            op.pop("cancelAtEvent", None)
            if op.get("op") == "fetch":
                op.update({"op": "exec", "max": 5, "retErr": False, "listeners": 0})
        base.append(sc)
    gos = pl.run_go(base, jobs=ctx.jobs)
    variants = corpus(ctx.prop)
    for sc, g in zip(base, gos):
        variants.extend(cancel_variants(ctx, sc, g, rng))
    reached = [0]

    def nontriv(g):
        return True
    for i in range(0, len(variants), 2000):
        chunk = variants[i:i + 2000]
        before = len(res.violations)
        out = pl.correspond(chunk, jobs=ctx.jobs)
        for sc, g, l, status, detail in out:
            res.evaluations += 1
            if status == "unmodelled":
                res.unmodelled += 1
                continue
            if status == "crash":
                res.corr_details.append({"id": sc["id"], "status": status, "detail": detail[:500], "scenario": sc})
                res.corr_broken = True
                continue
            res.corr_compared += 1
            if status == "mismatch":
                res.corr_details.append({"id": sc["id"], "status": status, "detail": detail[:500], "scenario": sc})
                res.corr_broken = True
            info = sc.get("cancel") or {}
            r = g.get("res", [])[info.get("op", 0)] if g.get("res") else {}
            hit = ("poll" in info and r.get("polls", 0) > info["poll"]) or ("event" in info and len(r.get("trace") or []) > info["event"])
            res.count("cancellation-reached" if hit else "run-ended-before-cancellation")
            res.count("outcome:" + str(r.get("out", "")).split(":")[0])
            key = scenario_key(sc) + json.dumps(info)
            if hit and key not in res._distinct:
                res._distinct.add(key)
                res.distinct_nontrivial += 1
                if len(res.samples) < 3:
                    res.samples.append({"id": sc["id"], "cancel": info, "text": sc["ops"][0].get("text", "")[:400], "out": r.get("out"),
                                        "trace": (r.get("trace") or [])[:8]})
            for owner, sig, det in monitor_cancel(sc, g):
                res.violations.append({"signature": "monitor:" + sig, "detail": det, "scenario": sc, "impl": r})
            for op, rr in zip(sc["ops"], g.get("res", [])):
                if op.get("op") == "exec" and "trace" in rr:
                    for owner, sig, det in monitor_trace(op, rr, rule_table(sc, g, op["inst"])):
                        if owner == "C15":
                            res.violations.append({"signature": "monitor:" + sig, "detail": det, "scenario": sc, "impl": rr})
    return res


# ---- C19 / C05 operator grids -------------------------------------------------------------------------
from fractions import Fraction
import struct as _struct

INT_RANGES = {"int8": 8, "int16": 16, "int32": 32, "int64": 64, "int": 64}
UINT_RANGES = {"uint8": 8, "uint16": 16, "uint32": 32, "uint64": 64, "uint": 64}


def _f64bits(x):
    return _struct.unpack("<Q", _struct.pack("<d", x))[0]


def _bits_f64(b):
    return _struct.unpack("<d", _struct.pack("<Q", b))[0]


def operand_values(kind, rich):
    if kind in INT_RANGES:
        w = INT_RANGES[kind]
        vals = {0, 1, -1, 2, -(2 ** (w - 1)), 2 ** (w - 1) - 1, 5, -7}
        if rich:
            vals |= {x for x in (127, 128, -128, -129, 255, 256, 2 ** 31 - 1, 2 ** 31, -(2 ** 31), 2 ** 53 - 1, 2 ** 53, 2 ** 53 + 1, -(2 ** 53) - 1,
                                  2 ** 62, 2 ** 63 - 1) if -(2 ** (w - 1)) <= x < 2 ** (w - 1)}
        return [[kind, str(v)] for v in sorted(vals)]
    if kind in UINT_RANGES:
        w = UINT_RANGES[kind]
        vals = {0, 1, 2, 2 ** w - 1, 5}
        if rich:
            vals |= {x for x in (127, 128, 255, 256, 2 ** 31, 2 ** 32 - 1, 2 ** 53, 2 ** 53 + 1, 2 ** 63 - 1, 2 ** 63, 2 ** 64 - 1) if x < 2 ** w}
        return [[kind, str(v)] for v in sorted(vals)]
    if kind == "float64":
        xs = [0.0, -0.0, 1.0, -1.0, 0.5, -0.5, 1.5, -1.5, -2.5, 5.0, 2.0 ** 53, 2.0 ** 53 + 2, -(2.0 ** 53), 9.223372036854775807e18, 1e300, -1e300, 5e-324,
              255.0, 256.0, 127.0, 128.0, -128.0, 2147483648.0]
        if rich:
            xs += [float("inf"), float("-inf"), float("nan"), 1e-7, 2e-7, 0.1, 1.8446744073709552e19, 3.4028234663852886e38]
        return [["float64", str(_f64bits(x))] for x in xs]
    if kind == "float32":
        xs = [0.0, 1.0, -1.0, 0.5, 1.5, 5.0, 16777216.0, 255.0, 128.0, -128.0]
        if rich:
            xs += [float("inf"), float("nan"), 3.4028234663852886e38]
        return [["float32", str(_f64bits(x))] for x in xs]
    if kind == "string":
        return [["string", v] for v in ["", "a", "ab", "b", "A", "é", "a b", "10", "9"]]
    if kind == "bool":
        return [["bool", True], ["bool", False]]
    if kind == "time":
        return [["time", "0", "0", None], ["time", "0", "2", None], ["time", "0", "0", "0"], ["time", "0", "1", "0"], ["time", "5", "1", None],
                ["time", "-5", "0", None], ["time", "5", "2", "5"], ["time", "1000000000", "3", None]]
    return []


NUM_KINDS = list(INT_RANGES) + list(UINT_RANGES) + ["float32", "float64"]
CMP_OPS = ["<", "<=", ">", ">=", "==", "!="]
ARITH_OPS = ["+", "-", "*", "/", "%", "&", "|"]


def exact_value(leaf):
    k = leaf[0]
    if k in INT_RANGES or k in UINT_RANGES:
        return Fraction(int(leaf[1]))
    if k in ("float64", "float32"):
        x = _bits_f64(int(leaf[1]))
        if x != x or x in (float("inf"), float("-inf")):
            return None
        return Fraction(x)
    return None


def in_c19_domain(l, r):
    """the property's quantifier: same family, NaN excluded, integers inside the int64 window"""
    fam = lambda k: "num" if k in NUM_KINDS else k
    if fam(l[0]) != fam(r[0]):
        return False
    for x in (l, r):
        if x[0] in ("float64", "float32"):
            v = _bits_f64(int(x[1]))
            if v != v:
                return False
        if x[0] in UINT_RANGES and int(x[1]) >= 2 ** 63:
            return False
    return True


def wrap_operand(rng, leaf):
    x = rng.below(10)
    if x == 0:
        return ["pscalar", leaf]
    if x == 1:
        return ["iscalar", leaf]
    return leaf


def unwrap(o):
    return o[1] if o[0] in ("pscalar", "iscalar") else o


def cmp_scenarios(ctx, rng, full):
    pairs = []
    fams = [(NUM_KINDS, NUM_KINDS), (["string"], ["string"]), (["bool"], ["bool"]), (["time"], ["time"])]
    cross = [("string", "int64"), ("bool", "string"), ("int64", "bool"), ("time", "int64"), ("float64", "string"), ("string", "time")]
    for ks1, ks2 in fams:
        for k1 in ks1:
            for k2 in ks2:
                v1 = operand_values(k1, True)
                v2 = operand_values(k2, True)
                for a in v1:
                    for b in v2:
                        pairs.append((a, b))
    for k1, k2 in cross:
        for a in operand_values(k1, False)[:3]:
            for b in operand_values(k2, False)[:3]:
                pairs.append((a, b))
    if not full:
        pairs = rng.shuffle(pairs)[:ctx.n(2500, 0) or len(pairs)]
    scs = []
    for i, (a, b) in enumerate(pairs):
        la, lb = wrap_operand(rng, a), wrap_operand(rng, b)
        ops = [{"op": "binop", "o": o, "l": la, "r": lb} for o in CMP_OPS] + [{"op": "binop", "o": o, "l": lb, "r": la} for o in CMP_OPS]
        scs.append({"id": "cmp-%d" % i, "ops": ops, "pair": [a, b]})
    return scs


def monitor_cmp(sc, g):
    """C19 evaluated directly on the real pkg.Evaluate* results"""
    out = []
    a, b = sc["pair"]
    if not in_c19_domain(a, b):
        return out
    rs = g.get("res", [])
    def val(i):
        r = rs[i] if i < len(rs) else {}
        v = r.get("v")
        return v[1] if v and v[0] == "bool" else None
    ab = [val(i) for i in range(6)]
    ba = [val(i) for i in range(6, 12)]
    if a[0] == "bool":
        if ab[4] is None or ab[5] is None or ab[4] == ab[5] or ab[4] != ba[4] or ab[5] != ba[5]:
            out.append(("bool-eq-ne", "%s vs %s: ==:%s !=:%s mirrored ==:%s !=:%s" % (a, b, ab[4], ab[5], ba[4], ba[5])))
        return out
    if any(x is None for x in ab + ba):
        out.append(("not-a-boolean-answer", "%s vs %s: %s %s" % (a, b, ab, ba)))
        return out
    lt, le, gt, ge, eq, ne = ab
    if [lt, eq, gt].count(True) != 1:
        out.append(("trichotomy", "%s vs %s: <:%s ==:%s >:%s" % (a, b, lt, eq, gt)))
    if le != (lt or eq):
        out.append(("le", "%s vs %s: <=:%s but <:%s ==:%s" % (a, b, le, lt, eq)))
    if ge != (gt or eq):
        out.append(("ge", "%s vs %s: >=:%s but >:%s ==:%s" % (a, b, ge, gt, eq)))
    if ne != (not eq):
        out.append(("ne", "%s vs %s: !=:%s ==:%s" % (a, b, ne, eq)))
    if ba != [gt, ge, lt, le, eq, ne]:
        out.append(("mirror", "%s vs %s: %s mirrored %s" % (a, b, ab, ba)))
    # value semantics where both operands denote their number exactly
    xa, xb = exact_value(a), exact_value(b)
    if xa is not None and xb is not None:
        mixed = (a[0] in ("float64", "float32")) != (b[0] in ("float64", "float32"))
        ok_exact = (not mixed) or all(abs(x) <= 2 ** 53 for x, leaf in ((xa, a), (xb, b)) if leaf[0] not in ("float64", "float32"))
        if ok_exact and [lt, eq, gt] != [xa < xb, xa == xb, xa > xb]:
            out.append(("value", "%s vs %s: answers %s, numbers compare %s" % (a, b, [lt, eq, gt], [xa < xb, xa == xb, xa > xb])))
    if a[0] == "time":
        ia, ib = int(a[1]), int(b[1])
        if [lt, eq, gt] != [ia < ib, ia == ib, ia > ib]:
            out.append(("instant", "%s vs %s: answers %s" % (a, b, [lt, eq, gt])))
    return out


def binop_sweep(ctx, res, scs, monitor, owner):
    go = pl.run_go(scs, jobs=ctx.jobs)
    lean = pl.run_lean(scs, jobs=ctx.jobs)
    for sc, g, l in zip(scs, go, lean):
        res.evaluations += 1
        if "res" not in g or "res" not in l:
            res.corr_details.append({"id": sc["id"], "status": "crash", "detail": json.dumps([g, l])[:400], "scenario": sc})
            res.corr_broken = True
            continue
        unm = any(isinstance(x.get("out"), str) and x["out"].startswith("unmodelled") for x in l["res"])
        if unm:
            res.unmodelled += 1
        else:
            res.corr_compared += 1
            d = pl.first_diff([pl.canon_binop(x) for x in g["res"]], [pl.canon_binop(x) for x in l["res"]], "ops")
            if d:
                res.corr_details.append({"id": sc["id"], "status": "mismatch", "detail": d[:400], "scenario": sc})
                res.corr_broken = True
        key = json.dumps(sc.get("pair") or sc["ops"][0])
        kinds = "%s x %s" % tuple(x[0] for x in sc["pair"]) if "pair" in sc else "?"
        res.count("kinds:" + kinds)
        if key not in res._distinct:
            res._distinct.add(key)
            res.distinct_nontrivial += 1
            if len(res.samples) < 4:
                res.samples.append({"pair": sc.get("pair"), "real": [x.get("v", x.get("err")) for x in g["res"]][:12]})
        for sig, det in monitor(sc, g):
            res.violations.append({"signature": "monitor:" + sig, "detail": det, "scenario": sc, "impl": g["res"]})
    # fold the per-kind-pair counts into one number to keep the evidence small
    cells = len([k for k in res.distribution if k.startswith("kinds:")])
    for k in [k for k in res.distribution if k.startswith("kinds:")]:
        del res.distribution[k]
    res.distribution["kind-pairs-hit"] = cells



def arith_scenarios(ctx, rng, full):
    """C05 (c): arithmetic / concatenation / logic operators over operand kind pairs and boundary values"""
    pairs = []
    for k1 in NUM_KINDS:
        for k2 in NUM_KINDS:
            for a in operand_values(k1, full):
                for b in operand_values(k2, full):
                    pairs.append((a, b))
    strs = [["string", x] for x in ("", "a", "ab c", "é")]
    bools = [["bool", True], ["bool", False]]
    for s_ in strs:
        for k in NUM_KINDS + ["string", "bool", "time"]:
            for b in (strs if k == "string" else bools if k == "bool" else operand_values(k, False)[:6]):
                pairs.append((s_, b))
                pairs.append((b, s_))
    for a in bools:
        for b in bools:
            pairs.append((a, b))
    for k in ("int64", "float64", "string", "time"):
        for b in operand_values(k, False)[:2]:
            pairs.append((bools[0], b))
    if not full:
        pairs = rng.shuffle(pairs)[:ctx.n(3000, 0) or len(pairs)]
    scs = []
    for i, (a, b) in enumerate(pairs):
        la, lb = wrap_operand(rng, a), wrap_operand(rng, b)
        ops = [{"op": "binop", "o": o, "l": la, "r": lb} for o in ARITH_OPS + ["&&", "||"] + CMP_OPS]
        scs.append({"id": "arith-%d" % i, "ops": ops, "pair": [a, b]})
    return scs


def _wrap64(x):
    x &= (1 << 64) - 1
    return x - (1 << 64) if x >= (1 << 63) else x


def monitor_arith(sc, g):
    """the documented arithmetic on the cases a few lines of Python settle independently: signed integers inside
    int64 without overflow, int/float promotion, `/` as the real quotient, string concatenation, && and ||"""
    out = []
    a, b = sc["pair"]
    rs = g.get("res", [])
    def val(i):
        r = rs[i] if i < len(rs) else {}
        return r.get("v")
    ints = set(INT_RANGES)
    flo = ("float64",)
    if a[0] in ints and b[0] in ints:
        x, y = int(a[1]), int(b[1])
        for i, (sym, f) in enumerate([("+", lambda: x + y), ("-", lambda: x - y), ("*", lambda: x * y)]):
            want = f()
            if -(2 ** 63) <= want < 2 ** 63:
                v = val(i)
                if not v or v[0] != "int64" or int(v[1]) != want:
                    out.append(("int-arith", "%s %s %s = %s, expected int64 %d" % (a, sym, b, v, want)))
        if y != 0:
            v = val(3)
            want = _f64bits(float(x) / float(y))
            if not v or v[0] != "float64" or int(v[1]) != want:
                out.append(("real-quotient", "%s / %s = %s, expected float64 bits %d" % (a, b, v, want)))
            v = val(4)
            import math
            want = int(math.fmod(x, y)) if abs(x) < 2 ** 53 and abs(y) < 2 ** 53 else None
            if want is not None and (not v or v[0] != "int64" or int(v[1]) != want):
                out.append(("int-mod", "%s %% %s = %s, expected %d" % (a, b, v, want)))
        v = val(5)
        if not v or int(v[1]) != _wrap64(x & y):
            out.append(("bit-and", "%s & %s = %s" % (a, b, v)))
        v = val(6)
        if not v or int(v[1]) != _wrap64(x | y):
            out.append(("bit-or", "%s | %s = %s" % (a, b, v)))
    elif (a[0] in ints and b[0] in flo) or (a[0] in flo and b[0] in ints) or (a[0] in flo and b[0] in flo):
        fx = float(int(a[1])) if a[0] in ints else _bits_f64(int(a[1]))
        fy = float(int(b[1])) if b[0] in ints else _bits_f64(int(b[1]))
        if fx == fx and fy == fy:
            for i, f in enumerate([lambda: fx + fy, lambda: fx - fy, lambda: fx * fy, lambda: fx / fy if fy != 0 else None]):
                try:
                    want = f()
                except OverflowError:
                    want = None
                if want is None or want != want:
                    continue
                v = val(i)
                if not v or v[0] != "float64" or int(v[1]) != _f64bits(want):
                    out.append(("float-promotion", "%s %s %s = %s, expected float64 %r" % (a, ARITH_OPS[i], b, v, want)))
    elif a[0] == "string" and b[0] == "string":
        v = val(0)
        if not v or v[0] != "string" or v[1] != a[1] + b[1]:
            out.append(("concat", "%s + %s = %s" % (a, b, v)))
    elif a[0] == "string" and b[0] in ints:
        v = val(0)
        if not v or v[0] != "string" or v[1] != a[1] + str(int(b[1])):
            out.append(("concat", "%s + %s = %s" % (a, b, v)))
    elif a[0] in ints and b[0] == "string":
        v = val(0)
        if not v or v[0] != "string" or v[1] != str(int(a[1])) + b[1]:
            out.append(("concat", "%s + %s = %s" % (a, b, v)))
    elif a[0] == "bool" and b[0] == "bool":
        v1, v2 = val(7), val(8)
        if not v1 or v1[1] != (a[1] and b[1]) or not v2 or v2[1] != (a[1] or b[1]):
            out.append(("logic", "%s && / || %s = %s %s" % (a, b, v1, v2)))
    # comparisons (ops 9..14: < <= > >= == !=) where both operands denote their number exactly
    xa, xb = exact_value(a), exact_value(b)
    if xa is not None and xb is not None and in_c19_domain(a, b):
        mixed = (a[0] in ("float64", "float32")) != (b[0] in ("float64", "float32"))
        ok_exact = (not mixed) or all(abs(x) <= 2 ** 53 for x, leaf in ((xa, a), (xb, b)) if leaf[0] not in ("float64", "float32"))
        if ok_exact:
            want = [xa < xb, xa <= xb, xa > xb, xa >= xb, xa == xb, xa != xb]
            got = [(val(9 + i) or [None, None])[1] for i in range(6)]
            if got != want:
                out.append(("comparison", "%s vs %s: < <= > >= == != give %s, the numbers compare %s" % (a, b, got, want)))
    return out

def run_c19(ctx):
    res = Result()
    res.rule = ("all ordered kind pairs inside the numeric family (12x12), strings, bools, times and a few cross-family pairs, values from a boundary-rich "
                "domain (zero, +-1, width limits, 2^31, 2^53+-1, 2^63-1, fractions, -0, Inf, equal instants in different locations / with monotonic "
                "reading), 10% of operands behind a pointer or inside an interface; for each pair the six operators in both operand orders are evaluated "
                "by the real pkg.Evaluate* functions and by the model over the regenerated tables; monitor = the C19 statement itself plus exact "
                "rational comparison where both operands denote exactly; quick: 2500 random pairs, thorough: the whole grid; distinct = operand pair")
    rng = Rng(ctx.seed * 31337 + 19)
    scs = cmp_scenarios(ctx, rng, ctx.tier == "thorough")
    for i in range(0, len(scs), 20000):
        binop_sweep(ctx, res, scs[i:i + 20000], monitor_cmp, "C19")
    return res


def monitor_c07(sc, g):
    """alone vs together on the real engine: what rule A (B) does in the joint knowledge base equals what it does alone"""
    out = []
    rs = g.get("res", [])
    ops = sc["ops"]
    # group the call ops by (kind, facts) in threes: joint, alone A, alone B
    calls = [(i, o) for i, o in enumerate(ops) if o.get("op") in ("fetch", "exec")]
    for j in range(0, len(calls) - 2, 3):
        (i0, o0), (i1, o1), (i2, o2) = calls[j:j + 3]
        if not (o0["inst"] == "i" and o1["inst"] == "ia" and o2["inst"] == "ib"):
            continue
        r0, r1, r2 = rs[i0], rs[i1], rs[i2]
        if o0["op"] == "fetch":
            joint = sorted(n for n, _ in (r0.get("rules") or []))
            alone = sorted([n for n, _ in (r1.get("rules") or [])] + [n for n, _ in (r2.get("rules") or [])])
            if joint != alone:
                out.append(("fetch-alone-vs-together", "together %s, alone %s" % (joint, alone)))
        else:
            fired0 = sorted(set(e[2] for e in (r0.get("trace") or []) if e[0] == "x"))
            fired12 = sorted(set(e[2] for e in (r1.get("trace") or []) + (r2.get("trace") or []) if e[0] == "x"))
            if fired0 != fired12:
                out.append(("exec-alone-vs-together", "together fired %s, alone %s" % (fired0, fired12)))
            # the two marker cells written by A and B
            def markers(r):
                try:
                    fs = dict(r["store"][0][1][1][1])
                    return (fs["U8"][1], fs["U16"][1])
                except Exception:
                    return None
            m0, m1, m2 = markers(r0), markers(r1), markers(r2)
            if m0 and m1 and m2 and (m0[0] != m1[0] or m0[1] != m2[1]):
                out.append(("effects-alone-vs-together", "together %s, A alone %s, B alone %s" % (m0, m1, m2)))
    for i, (o, r) in enumerate(zip(ops, rs)):
        if o.get("op") == "inst" and not r.get("ok"):
            out.append(("instance-fails", "NewKnowledgeBaseInstance failed for %s" % o.get("kb")))
        if o.get("op") == "build" and not r.get("ok"):
            out.append(("build-fails", "valid sibling rules rejected for %s" % o.get("kb")))
    return out


def run_c07(ctx):
    import gen_c07
    res = Result()
    res.rule = ("pairs of near-identical sibling rules — one constant changed beyond the 6th decimal / in sign / exponent / int-vs-float / by one string "
                "character incl. quotes, brackets, commas, backslash, snapshot-looking text; one operator, negation, operand order, selector or argument "
                "(list) changed — built together (both orders, one or two resources) and each alone; FetchMatchingRules and Execute on facts chosen between "
                "the two constants; monitor: joint behaviour of each rule = its behaviour alone; correspondence incl. exact snapshot strings and the "
                "working-memory key sets (sharing partition); plus the general engine stream")
    rng = Rng(ctx.seed * 104729 + 7)
    scs = corpus(ctx.prop) + [gen_c07.scenario(rng.fork(), "c07-%d-%d" % (ctx.seed, i)) for i in range(ctx.n(500, 8000))]
    for i in range(0, len(scs), 1500):
        chunk = scs[i:i + 1500]
        out = pl.correspond(chunk, jobs=ctx.jobs)
        for sc, g, l, status, detail in out:
            res.evaluations += 1
            res.count("shape:" + sc.get("shape", "?"))
            if status == "unmodelled":
                res.unmodelled += 1
                continue
            if status == "crash":
                res.corr_details.append({"id": sc["id"], "status": status, "detail": detail[:500], "scenario": sc})
                res.corr_broken = True
                continue
            res.corr_compared += 1
            if status == "mismatch":
                res.corr_details.append({"id": sc["id"], "status": status, "detail": detail[:500], "scenario": sc})
                res.corr_broken = True
            key = scenario_key(sc)
            told_apart = False
            for o, r in zip(sc["ops"], g.get("res", [])):
                if o.get("op") == "fetch" and o.get("inst") == "i" and len(r.get("rules") or []) == 1:
                    told_apart = True
            if told_apart and key not in res._distinct:
                res._distinct.add(key)
                res.distinct_nontrivial += 1
                if len(res.samples) < 4:
                    res.samples.append({"shape": sc.get("shape"), "text": sc["ops"][0].get("text", "")[:500]})
            for sig, det in monitor_c07(sc, g):
                res.violations.append({"signature": "monitor:" + sig, "detail": det, "scenario": sc})
            for i2, kind, det in pl.compare_spec(sc, g, l):
                res.violations.append({"signature": "oracle:" + kind, "detail": det, "scenario": sc, "op_index": i2})
    # general engine stream as well (sharing between arbitrary rules)
    scs2 = gen_engine(ctx, ctx.n(300, 3000), [("stable", 5), ("wild", 5)], "C07")
    engine_sweep(ctx, res, scs2, owners=["C07", "C01", "C02"])
    res.rule += "; non-trivial = some fact state on which exactly one of the two siblings matches"
    return res


def monitor_lib(sc, g):
    """C16 / C09 / C17(third sentence) evaluated on the real library: returns (owner, signature, detail)"""
    out = []
    rs = g.get("res", [])
    removed = {}        # (lib, kb) -> set of removed original names (by lib/kb-level RemoveRuleEntry)
    active_snap = {}    # (lib, kb) -> {name: snapshot} of active rules as last seen
    inst_kb = {}
    inst_removed = {}
    twins = {}
    for i, (o, r) in enumerate(zip(sc["ops"], rs)):
        kind = o.get("op")
        key = (o.get("lib"), o.get("kb"))
        rules = r.get("rules") if isinstance(r, dict) else None
        if rules is not None and kind in ("build", "remove", "info", "load") and not o.get("inst"):
            if kind == "load":
                key = (o.get("lib"), r.get("name"))
            names = [x[1] for x in rules if not x[4]]
            if len(names) != len(set(names)):
                out.append(("C16", "two-active-rules-one-name", "op %d: %s" % (i, names)))
            for x in rules:
                if x[0] != x[1]:
                    out.append(("C16", "key-differs-from-name", "op %d: key %s name %s" % (i, x[0], x[1])))
            snaps = {x[1]: x[5] for x in rules if not x[4]}
            if kind == "build" and o.get("expect") in ("dup", "syntax"):
                if r.get("ok"):
                    out.append(("C16" if o.get("expect") == "dup" else "C17", "rejected-text-accepted", "op %d: %s text returned nil" % (i, o.get("expect"))))
                before = active_snap.get(key, {})
                for n, sn in before.items():
                    if snaps.get(n) != sn:
                        out.append(("C16", "existing-rule-changed-by-rejected-build", "op %d: rule %s" % (i, n)))
            if kind == "build" and not o.get("expect") and not r.get("ok"):
                out.append(("C17", "valid-text-rejected", "op %d" % i))
            active_snap[key] = snaps
        if kind == "remove" and not o.get("inst"):
            removed.setdefault(key, set()).add(o["rule"])
        if kind == "build" and r.get("ok") and o.get("rules"):
            for rr in o["rules"]:
                removed.get(key, set()).discard(rr["name"])
        if kind == "load" and r.get("ok"):
            pass
        if kind == "inst":
            if not r.get("ok"):
                known = key in active_snap
                if known:
                    out.append(("C09", "instance-creation-failed", "op %d: NewKnowledgeBaseInstance failed for %s" % (i, key)))
            else:
                inst_kb[o["as"]] = key
                inst_removed[o["as"]] = set(x[1] for x in r.get("rules", []) if x[4]) | set(x[0] for x in r.get("rules", []) if x[4])
                # what the instance shows must be what the blueprint shows
                bp = active_snap.get(key)
                got = {x[1]: x[5] for x in r.get("rules", []) if not x[4]}
                if bp is not None and bp != got:
                    out.append(("C09", "instance-differs-from-blueprint", "op %d: %s vs %s" % (i, sorted(got), sorted(bp))))
        if kind == "remove" and o.get("inst"):
            inst_removed.setdefault(o["inst"], set()).add(o["rule"])
        if kind in ("fetch", "exec") and isinstance(r, dict):
            names = [x[0] for x in (r.get("rules") or [])] + [e[2] for e in (r.get("trace") or []) if e[0] in ("e", "x")]
            for n in names:
                if n.startswith("Deleted_"):
                    out.append(("C16", "removed-rule-matched-or-fired", "op %d: %s" % (i, n)))
            gone = inst_removed.get(o.get("inst"), set())
            for n in names:
                if n in gone and o.get("op") and n in [x for x in gone]:
                    # a name removed on this instance may not show up (the tomb-stone carries another name)
                    out.append(("C16", "rule-removed-on-instance-still-active", "op %d: %s" % (i, n)))
        if kind == "ptrcheck" and r.get("shared"):
            out.append(("C09", "shared-mutable-state", "op %d: %s" % (i, r["shared"][:3])))
        if kind == "exec" and o.get("twin") and isinstance(r, dict) and "store" in r:
            view = (json.dumps(r.get("out")), json.dumps(r.get("store")), [e[2] for e in (r.get("trace") or []) if e[0] == "x"])
            if o["twin"] in twins:
                j, other = twins[o["twin"]]
                if o.get("det") and other != view:
                    what = "outcome" if other[0] != view[0] else "facts" if other[1] != view[1] else "fired rules"
                    out.append(("C12", "loaded-kb-behaves-differently", "ops %d/%d: the loaded knowledge base and the stored one differ in %s on the same facts: %s vs %s" % (
                        j, i, what, str(other[2])[:120], str(view[2])[:120])))
            else:
                twins[o["twin"]] = (i, view)
    return out


def add_isolation_probes(sc, rng):
    """C09: pointer-graph check over blueprint and instances; blueprint must look the same after instances were used"""
    insts = [o["as"] for o in sc["ops"] if o.get("op") == "inst" and o.get("lib") == "L"]
    kbs = sorted(set(o["kb"] for o in sc["ops"] if o.get("op") == "inst" and o.get("lib") == "L"))
    for kb in kbs:
        mine = [o["as"] for o in sc["ops"] if o.get("op") == "inst" and o.get("lib") == "L" and o.get("kb") == kb]
        sc["ops"].append({"op": "ptrcheck", "lib": "L", "kb": kb, "insts": mine})
    return sc


def run_lib(ctx, tag):
    import gen_lib
    res = Result()
    res.rule = ("operation histories on a knowledge library with one or two knowledge bases: build, duplicate-name build (alone, next to a new rule, inside one "
                "resource), syntactically broken text, RemoveRuleEntry on library / knowledge base / instance, re-build of a removed name, instantiate, "
                "Execute / FetchMatchingRules on instances, store, load (overwrite or not, into the same or another library), each history closed by "
                "instantiating and running every knowledge base and a reflective pointer-graph comparison of blueprint and instances; real library vs model "
                "after every step; monitors: unique active names, key = name, removed rules never match or fire, rejected texts leave existing rules "
                "unchanged, instance creation always succeeds, instance = blueprint, no shared objects; non-trivial = history contains a removal or a rejected build")
    rng = Rng(ctx.seed * 15485863 + hash_tag(tag))
    n = ctx.n(600, 10000)
    scs = corpus(ctx.prop) + [add_isolation_probes(gen_lib.scenario(rng.fork(), "%s-%d-%d" % (tag, ctx.seed, i), maxlen=ctx.n(10, 30), focus=ctx.prop if i % 2 else None), rng) for i in range(n)]
    for i in range(0, len(scs), 2000):
        out = pl.correspond(scs[i:i + 2000], jobs=ctx.jobs)
        for sc, g, l, status, detail in out:
            res.evaluations += 1
            if status == "unmodelled":
                res.unmodelled += 1
                continue
            if status == "crash":
                res.corr_details.append({"id": sc["id"], "status": status, "detail": detail[:500], "scenario": sc})
                res.corr_broken = True
                continue
            res.corr_compared += 1
            if status == "mismatch":
                res.corr_details.append({"id": sc["id"], "status": status, "detail": detail[:500], "scenario": sc})
                res.corr_broken = True
            kinds = [o.get("op") + (":" + o["expect"] if o.get("expect") else "") for o in sc["ops"]]
            for k in set(kinds):
                res.count("op:" + k, kinds.count(k))
            key = json.dumps([(o.get("op"), o.get("text"), o.get("rule"), o.get("kb")) for o in sc["ops"]])
            if any(k in ("remove", "build:dup", "build:syntax") for k in kinds) and key not in res._distinct:
                res._distinct.add(key)
                res.distinct_nontrivial += 1
                if len(res.samples) < 3:
                    res.samples.append({"id": sc["id"], "ops": kinds})
            for owner, sig, det in monitor_lib(sc, g):
                if owner == ctx.prop or (ctx.prop == "C16" and owner == "C17") or (ctx.prop == "C17" and owner in ("C16", "C09")):
                    res.violations.append({"signature": "monitor:" + sig, "detail": det, "scenario": sc})
            for i2, kind, det in ([] if sc.get("no_oracle") else pl.compare_spec(sc, g, l)):
                res.violations.append({"signature": "oracle:" + kind, "detail": det, "scenario": sc, "op_index": i2})
    return res


def run_c09(ctx):
    res = run_lib(ctx, "C09")
    # concurrent creation + execution, compared with the sequential meaning
    import gen_lib
    rng = Rng(ctx.seed * 32452843 + 9)
    scs = []
    for i in range(ctx.n(40, 400)):
        r = rng.fork()
        names = gen_lib.NAMES[:r.range(1, 4)]
        rules = [gen_lib.simple_rule(r, x) for x in names]
        for j, rr in enumerate(rules):
            rr["sal"] = str(10 - j)          # distinct saliences: the outcome does not depend on map order
        from grl import Printer
        ops = [{"op": "build", "lib": "L", "kb": "K", "wm": False, "text": Printer().doc(rules), "rules": rules, "ftext": []},
               {"op": "concurrent", "lib": "L", "kb": "K", "max": 6, "factsList": [gen_lib.facts(r) for _ in range(r.choice([2, 4, 8, 16]))]},
               {"op": "info", "lib": "L", "kb": "K"}]
        scs.append({"id": "conc-%d-%d" % (ctx.seed, i), "profile": "stable", "ops": ops})
    binary = None
    if ctx.tier == "thorough":
        try:
            binary = pl.build_harness(race=True)
        except Exception as e:  # pragma: no cover
            res.distribution["race-build"] = "failed: %s" % str(e)[:200]
    for procs in ([1, 2, 16] if ctx.tier == "thorough" else [16]):
        os.environ["GOMAXPROCS"] = str(procs)
        go = pl.run_go(scs, jobs=4, binary=binary)
        lean = pl.run_lean(scs, jobs=ctx.jobs)
        for sc, g, l in zip(scs, go, lean):
            res.evaluations += 1
            res.count("concurrent-runs(GOMAXPROCS=%d)" % procs)
            st, d = pl.compare(sc, g, l)
            if st == "crash" and "DATA RACE" in json.dumps(g):
                res.violations.append({"signature": "race-detector", "detail": json.dumps(g)[:600], "scenario": sc})
            elif st in ("mismatch", "crash"):
                res.corr_details.append({"id": sc["id"], "status": st, "detail": d[:500], "scenario": sc})
                res.corr_broken = True
                res.violations.append({"signature": "concurrent-differs-from-sequential", "detail": d[:400], "scenario": sc})
            else:
                res.corr_compared += 1
    os.environ.pop("GOMAXPROCS", None)
    return res


def run_c12(ctx):
    import gen_lib
    res = Result()
    res.rule = ("(a) library histories with store/load (KB-level model, behaviour of loaded instances vs model vs from-scratch semantics, store->load->store->load); "
                "(b) byte level: every stream the real StoreKnowledgeBaseToWriter produced is decoded by the Lean decoder, must re-encode to the identical bytes, "
                "and real loader and model loader must agree on accept/reject at cut offsets (quick: 0..24, the last 24, 120 random; thorough: every offset of the shortest streams up to 40 000 loads, 1 000 offsets of each other stream); "
                "(c) a writer failing at its k-th Write call makes the store fail (k = 0..writes-1, sampled in quick); non-trivial = distinct (stream, cut) pairs")
    # (a)
    sub = run_lib(ctx, "C12")
    for k in ("evaluations", "corr_compared", "unmodelled"):
        setattr(res, k, getattr(sub, k))
    res.corr_details += sub.corr_details
    res.corr_broken = sub.corr_broken
    res.violations += sub.violations
    res.distribution.update(sub.distribution)
    # (b) collect real streams
    rng = Rng(ctx.seed * 49979687 + 12)
    base = []
    for i in range(ctx.n(6, 40)):
        r = rng.fork()
        sc = gen.engine_scenario(r, "c12s-%d-%d" % (ctx.seed, i), r.choice(["stable", "wild"]), nexec=0, wm=False)
        sc["ops"] = [o for o in sc["ops"] if o.get("op") == "build"]
        if r.chance(0.4):
            sc["ops"].append({"op": "remove", "lib": "L", "kb": "K", "rule": sc["ops"][0]["rules"][0]["name"], "viaKb": r.chance(0.5)})
        sc["ops"].append({"op": "store", "lib": "L", "kb": "K", "as": "s", "hex": True, "failAt": r.below(40)})
        base.append(sc)
    go = pl.run_go(base, jobs=ctx.jobs)
    wire = []
    budget = [40000]
    for sc, g in sorted(zip(base, go), key=lambda p: len(((p[1].get("res") or [{}])[-1].get("hex")) or "")):
        st = g.get("res", [{}])[-1]
        h = st.get("hex")
        if not h:
            res.corr_details.append({"id": sc["id"], "status": "crash", "detail": "store gave no bytes: %s" % json.dumps(st)[:300], "scenario": sc})
            res.corr_broken = True
            continue
        if st.get("failStoreErr") is False and st.get("writes", 0) > sc["ops"][-1]["failAt"]:
            res.violations.append({"signature": "monitor:store-succeeds-with-failing-writer", "detail": "failAt %d of %d writes" % (sc["ops"][-1]["failAt"], st.get("writes")), "scenario": sc})
        n = len(h) // 2
        if ctx.tier == "thorough" and budget[0] >= n + 1:
            cuts = list(range(0, n + 1))          # every offset, while the budget of 40 000 loads lasts
            budget[0] -= n + 1
        elif ctx.tier == "thorough":
            cuts = sorted(set(list(range(0, min(200, n))) + list(range(max(0, n - 200), n + 1)) + [rng.below(n) for _ in range(600)]))
        else:
            cuts = sorted(set(list(range(0, min(25, n))) + list(range(max(0, n - 24), n + 1)) + [rng.below(n) for _ in range(120)]))
        # the stream is sent once per scenario (a `wire` op), the cuts refer to it
        cutops = [{"op": "loadhex", "cut": k, "probe": True} for k in cuts]
        for j in range(0, len(cutops), 400):
            wire.append({"id": "%s-w%d" % (sc["id"], j), "ops": [{"op": "wire", "hex": h}] + cutops[j:j + 400], "n": n, "hex": h})
    gw = pl.run_go(wire, jobs=ctx.jobs)
    lw = pl.run_lean(wire, jobs=ctx.jobs)
    for sc, g, l in zip(wire, gw, lw):
        if "res" not in g or "res" not in l:
            res.corr_details.append({"id": sc["id"], "status": "crash", "detail": json.dumps([g, l])[:400], "scenario": {"id": sc["id"]}})
            res.corr_broken = True
            continue
        for op, gr, lr in zip(sc["ops"], g["res"], l["res"]):
            res.evaluations += 1
            if op["op"] == "wire":
                res.count("streams-decoded")
                if not (lr.get("decoded") and lr.get("reencodeEqual") and lr.get("rest") == 0):
                    res.corr_details.append({"id": sc["id"], "status": "mismatch", "detail": "model decoder vs real stream: %s" % json.dumps(lr)[:300],
                                             "scenario": {"id": sc["id"], "hex": sc["hex"][:2000]}})
                    res.corr_broken = True
                continue
            res.corr_compared += 1
            k = op["cut"]
            key = "%s@%d" % (sc["id"].split("-w")[0], k)
            if key not in res._distinct:
                res._distinct.add(key)
                res.distinct_nontrivial += 1
            if gr.get("ok") != lr.get("ok"):
                res.corr_details.append({"id": sc["id"], "status": "mismatch", "detail": "cut %d of %d: real loader ok=%s, model ok=%s" % (k, sc["n"], gr.get("ok"), lr.get("ok")),
                                         "scenario": {"id": sc["id"], "cut": k, "hex": sc["hex"]}})
                res.corr_broken = True
            if k < sc["n"] and gr.get("ok"):
                res.violations.append({"signature": "monitor:truncated-stream-loads", "detail": "stream of %d bytes cut at %d loads without error (rules %s, instance ok %s)" % (
                    sc["n"], k, gr.get("nrules"), gr.get("instOk")), "scenario": {"id": sc["id"], "cut": k, "hex": sc["hex"]}})
            if k == sc["n"] and not gr.get("ok"):
                res.violations.append({"signature": "monitor:complete-stream-rejected", "detail": "the complete stream (%d bytes) is rejected" % sc["n"], "scenario": {"id": sc["id"], "hex": sc["hex"]}})
            res.count("cut-rejected" if not gr.get("ok") else "complete-accepted")
    if len(res.samples) < 2:
        res.samples.append({"streams": len(base), "cuts": res.distinct_nontrivial})
    res.samples += sub.samples[:2]
    return res



# ---- C17 / C05: the front end ------------------------------------------------------------------------

def monitor_c17(sc, g, l):
    """the three sentences of C17 on the real builder, with the model's recogniser (Syntax/*.lean) as the
    independent oracle for "grammatical with valid literals". returns (signature, detail)"""
    out = []
    rs, ls = g.get("res", []), l.get("res", [])
    before = None
    twins = {}
    rejected_seen = False
    for i, (o, r) in enumerate(zip(sc["ops"], rs)):
        m = ls[i] if i < len(ls) else {}
        kind = o.get("op")
        if kind == "build" and o.get("front"):
            if "panic" in r:
                out.append(("builder-panics", "op %d: %s on %r" % (i, r["panic"], o["text"][:200])))
                continue
            verdict = (m.get("verdict") or "").split(".")[-1]
            names_now = sorted(x[1] for x in r.get("rules", []) if not x[4])
            if verdict and verdict not in ("unmodelled", "fuel"):
                model_ok = m.get("ok")
                if r.get("ok") and not model_ok:
                    out.append(("accepts-what-the-grammar-rejects", "op %d: BuildRuleFromResource returned nil; recogniser: %s (lexErrs %s, grammatical %s); text %r" % (
                        i, verdict, m.get("lexErrs"), m.get("grammatical"), o["text"][:300])))
                if not r.get("ok") and model_ok:
                    out.append(("rejects-a-grammatical-text", "op %d: error although the text lexes, parses and has valid literals and fresh names; text %r" % (i, o["text"][:300])))
            if not r.get("ok"):
                rejected_seen = True
                if r.get("nerr", 0) == -1:
                    out.append(("error-is-no-reporter", "op %d" % i))
                elif r.get("nerr", 0) < 1:
                    out.append(("reporter-without-errors", "op %d" % i))
                ek = r.get("errkinds") or {}
                if verdict in ("lexical", "syntactic") and ek.get("lex", 0) + ek.get("syntax", 0) < 1:
                    out.append(("syntax-problem-without-syntax-error", "op %d: recogniser says %s, reporter lists %s" % (i, verdict, ek)))
                # what was loaded before is still there, unchanged
                if before is not None:
                    now = {x[1]: x[5] for x in r.get("rules", []) if not x[4]}
                    for n, sn in before.items():
                        if now.get(n) != sn:
                            out.append(("rejected-text-changed-existing-rule", "op %d: rule %s" % (i, n)))
            else:
                # every rule of the text is in the knowledge base under its name with its description and salience
                want = o.get("rules")
                if want is not None:
                    have = {x[1]: x for x in r.get("rules", []) if not x[4]}
                    for w in want:
                        x = have.get(w["name"])
                        if x is None:
                            out.append(("accepted-rule-missing", "op %d: rule %s" % (i, w["name"])))
                        elif str(x[2]) != str(int(w["sal"])) or x[3] != w["desc"]:
                            out.append(("accepted-rule-differs", "op %d: rule %s has salience %s description %r, declared %s %r" % (i, w["name"], x[2], x[3], w["sal"], w["desc"])))
            if o.get("expect_ok") and not r.get("ok"):
                out.append(("rejects-a-grammatical-text", "op %d: a generated valid document was rejected: %r" % (i, o["text"][:300])))
            before = {x[1]: x[5] for x in r.get("rules", []) if not x[4]}
        if kind == "inst" and rejected_seen and not r.get("ok"):
            out.append(("instance-creation-fails-after-rejected-text", "op %d" % i))
        if kind == "store" and rejected_seen and not r.get("ok"):
            out.append(("store-fails-after-rejected-text", "op %d" % i))
        if kind == "exec" and o.get("twin") and isinstance(r, dict) and "store" in r:
            view = (json.dumps(r.get("out")), json.dumps(r.get("store")), [e[2] for e in (r.get("trace") or []) if e[0] == "x"])
            if o["twin"] in twins:
                j, other, rules_then = twins[o["twin"]]
                same_rules = True
                # comparable when the knowledge base holds the same rules as when the earlier instance was made
                inst_rules = {}
                for oo, rr in zip(sc["ops"], rs):
                    if oo.get("op") == "inst" and rr.get("ok"):
                        inst_rules[oo["as"]] = sorted(x[5] for x in rr.get("rules", []) if not x[4])
                a, b = sc["ops"][j]["inst"], o["inst"]
                if inst_rules.get(a) == inst_rules.get(b) and o.get("det") and other != view:
                    out.append(("old-rules-behave-differently-after-rejected-text", "ops %d/%d: fired %s vs %s" % (j, i, other[2], view[2])))
            else:
                twins[o["twin"]] = (i, view, None)
    return out


def front_sweep(ctx, res, scs, prop, oracle=True):
    for i in range(0, len(scs), 1500):
        chunk = scs[i:i + 1500]
        out = pl.correspond(chunk, jobs=ctx.jobs)
        for sc, g, l, status, detail in out:
            res.evaluations += 1
            if status == "unmodelled":
                res.unmodelled += 1
                continue
            if status == "crash":
                res.corr_details.append({"id": sc["id"], "status": status, "detail": detail[:500], "scenario": sc})
                res.corr_broken = True
                continue
            res.corr_compared += 1
            if status == "mismatch":
                res.corr_details.append({"id": sc["id"], "status": status, "detail": detail[:500], "scenario": sc})
                res.corr_broken = True
            yield sc, g, l, status


def run_c17(ctx):
    import gen_syntax
    res = Result()
    res.rule = ("a valid generated document (any rendering: keyword case, literal notations, spacing, comments) is loaded and instantiated; then a document "
                "broken by 0-3 token mutations (delete, duplicate, swap, replace, insert, drop a range, reserved word as identifier) or character mutations "
                "(delete, insert, replace, swap, truncate; illegal characters, quotes, brackets) is offered; monitors: accept/reject against the model's "
                "recogniser (Lean lexer+parser+literal checks), error is a GruleErrorReporter with >= 1 error (a lexer/parser one for syntax problems), "
                "accepted rules present with name/description/salience, rejected text leaves the rules unchanged, instances/store/load/run keep working "
                "and the old rules behave as on the instance made before; then a valid document re-using the mutant's sub-expressions; "
                "non-trivial = distinct mutated texts that were rejected")
    rng = Rng(ctx.seed * 7368787 + 17)
    scs = corpus(ctx.prop) + [gen_syntax.c17_scenario(rng.fork(), "c17-%d-%d" % (ctx.seed, i)) for i in range(ctx.n(1500, 30000))]
    for sc, g, l, status in front_sweep(ctx, res, scs, "C17"):
        for o, r, m in zip(sc["ops"], g.get("res", []), l.get("res", [])):
            if o.get("op") == "build" and "mutations" in o:
                v = (m.get("verdict") or "?").split(".")[-1]
                res.count("verdict:" + v)
                for mu in o["mutations"]:
                    res.count("mutation:" + mu.split("[")[0].split(" ")[0])
                if not r.get("ok") and o["text"] not in res._distinct:
                    res._distinct.add(o["text"])
                    res.distinct_nontrivial += 1
                    if len(res.samples) < 5:
                        res.samples.append({"mutations": o["mutations"], "verdict": v, "text": o["text"][:300]})
        for sig, det in monitor_c17(sc, g, l):
            res.violations.append({"signature": "monitor:" + sig, "detail": det, "scenario": sc})
    # library histories with rejected resources between other operations (third sentence, longer histories)
    sub = run_lib(ctx, "C17")
    res.evaluations += sub.evaluations
    res.corr_compared += sub.corr_compared
    res.corr_details += sub.corr_details
    res.corr_broken = res.corr_broken or sub.corr_broken
    res.violations += sub.violations
    for k, v in sub.distribution.items():
        res.count("lib:" + k, v)
    return res


def run_c05(ctx):
    import gen_syntax
    res = Result()
    res.rule = ("(a) engine scenarios (typed expression trees over all operators, operand kinds, built-ins, fact methods incl. variadic, selectors) whose rule "
                "texts are re-rendered with every literal notation (dec/hex/octal ints, decimal/exponent/hex floats, both quote styles and every escape form, "
                "any-case booleans and keywords), arbitrary whitespace/comments and redundant parentheses: the real engine's runs against the model run on the "
                "model's own parse of the text (correspondence), against the from-scratch semantics (oracle), and the model's parse against the generator's "
                "tree (astEq); (b) flat operator chains without parentheses grouped by the published precedence table (three-way: published table, model "
                "parser, real parser via exact snapshots) and evaluated; (c) the operator grid: all 15 operators x operand kinds x boundary values against the "
                "regenerated tables; non-trivial = distinct rule texts executed with at least one firing")
    rng = Rng(ctx.seed * 15485863 + 5)
    n = ctx.n(700, 12000)
    scs = corpus(ctx.prop)
    for i in range(n):
        r = rng.fork()
        if i % 3 == 2:
            scs.append(gen_syntax.prec_scenario(r, "c05p-%d-%d" % (ctx.seed, i)))
        elif i % 7 == 3:
            scs.append(gen_syntax.builtin_scenario(r, "c05b-%d-%d" % (ctx.seed, i)))
        else:
            scs.append(gen_syntax.c05_scenario(r, "c05-%d-%d" % (ctx.seed, i), r.choice(["stable", "stable", "wild"])))
    for sc, g, l, status in front_sweep(ctx, res, scs, "C05"):
        fired = False
        for o, r, m in zip(sc["ops"], g.get("res", []), l.get("res", [])):
            if o.get("op") == "build" and o.get("front"):
                if m.get("astEq") is False:
                    res.violations.append({"signature": "monitor:grouping-differs-from-published-table", "scenario": sc,
                                           "detail": "the parse of %r is not the tree the published precedence/associativity gives" % o["text"][:300]})
                if o.get("expect_ok") and not r.get("ok"):
                    res.violations.append({"signature": "monitor:valid-expression-rejected", "scenario": sc, "detail": o["text"][:300]})
                res.count("builds")
            if o.get("op") == "exec" and any(e[0] == "x" for e in (r.get("trace") or [])):
                fired = True
        if fired:
            key = sc["ops"][0].get("text")
            if key not in res._distinct:
                res._distinct.add(key)
                res.distinct_nontrivial += 1
                if len(res.samples) < 4:
                    res.samples.append({"text": key[:400]})
        if not sc.get("no_oracle"):
            for i2, kind, det in pl.compare_spec(sc, g, l):
                res.violations.append({"signature": "oracle:" + kind, "detail": det, "scenario": sc, "op_index": i2})
    # (b') string literals that are byte strings: outside the model, checked on the real engine against the Go meaning
    bsc = [gen_syntax.bytes_scenario(rng.fork(), "c05b-%d-%d" % (ctx.seed, i)) for i in range(ctx.n(150, 2000))]
    for sc, g in zip(bsc, pl.run_go(bsc, jobs=ctx.jobs)):
        res.evaluations += 1
        rs = g.get("res", [])
        res.count("byte-literal-scenarios")
        if len(rs) < 3 or not rs[0].get("ok"):
            res.violations.append({"signature": "monitor:byte-escape-literal-rejected", "scenario": sc, "detail": sc["ops"][0]["text"][:300]})
            continue
        matched = [x[0] for x in (rs[2].get("rules") or [])]
        if (matched == ["B"]) != sc["expect_match"] or rs[2].get("out") not in ("ok", None, ""):
            res.violations.append({"signature": "monitor:byte-string-literal-has-wrong-bytes", "scenario": sc,
                                   "detail": "expected the condition to hold by Go's string semantics; matched %s, outcome %s: %s" % (matched, rs[2].get("out"), sc["ops"][0]["text"][:300])})
    # (c) operator grid
    grid = Result()
    scs = arith_scenarios(ctx, Rng(ctx.seed * 2750159 + 55), ctx.tier == "thorough")
    for i in range(0, len(scs), 20000):
        binop_sweep(ctx, grid, scs[i:i + 20000], monitor_arith, "C05")
    res.evaluations += grid.evaluations
    res.corr_compared += grid.corr_compared
    res.corr_details += grid.corr_details
    res.corr_broken = res.corr_broken or grid.corr_broken
    res.unmodelled += grid.unmodelled
    res.violations += grid.violations
    for k, v in grid.distribution.items():
        res.count("grid:" + k, v)
    res.count("grid:operand-pairs", len(scs))
    return res


# ---- C18: JSON rule documents --------------------------------------------------------------------------

def run_c18(ctx):
    import gen_json
    res = Result()
    res.rule = ("well-typed generated rules re-expressed as JSON in every style (plain strings, operator objects, obj/const wrappers, bare numbers and "
                "booleans, n-ary operand lists, single-operand not, call objects, nested to any depth; descriptions and string constants over quotes, "
                "backslashes, control characters, non-ASCII printable and unprintable code points; numbers up to 1e19 and down to 1e-7) and malformed "
                "documents (33 kinds). Pass 1: the Lean translator model and the meaning Sem(j) (operator tree read directly, printed with every grouping "
                "explicit). Pass 2 on the real code: JSONResource.Load + BuildRuleFromResource of the document into K, the plain GRL builder on the "
                "fully parenthesised Sem text into S; monitors: translator text = model text byte for byte (correspondence), the text is accepted by the "
                "builder, name/description/salience in K are the document's, runs of K and S on the same facts agree (outcome, facts, fired rules), "
                "malformed documents are rejected with an error and without panic; non-trivial = distinct documents whose rules fired")
    rng = Rng(ctx.seed * 86028121 + 18)
    n = ctx.n(900, 15000)
    scs = corpus(ctx.prop)
    for i in range(n):
        r = rng.fork()
        scs.append(gen_json.malformed(r, "c18m-%d-%d" % (ctx.seed, i)) if i % 5 == 4 else gen_json.scenario(r, "c18-%d-%d" % (ctx.seed, i)))
    # pass 1: the model alone
    first = [{"id": sc["id"], "ops": [{"op": "jsonbuild", "lib": "L", "kb": "K", "json": sc["json"]}]} for sc in scs]
    l1 = pl.run_lean(first, jobs=ctx.jobs)
    full = []
    for sc, l in zip(scs, l1):
        m = (l.get("res") or [{}])[0]
        ops = [{"op": "jsonbuild", "lib": "L", "kb": "K", "json": sc["json"]}]
        if m.get("tok") and m.get("semOk") and not sc.get("malformed"):
            ops.append({"op": "build", "lib": "L", "kb": "S", "wm": False, "text": m.get("semText", ""), "front": True, "ftext": [], "expect_ok": True})
            ops.append({"op": "inst", "lib": "L", "kb": "K", "as": "k"})
            ops.append({"op": "inst", "lib": "L", "kb": "S", "as": "s"})
            for fi, fx in enumerate(sc.get("facts", [])):
                for who in ("k", "s"):
                    ops.append({"op": "exec", "inst": who, "facts": fx, "max": 6, "retErr": False, "cancelAt": None, "listeners": 0,
                                "twin": "f%d" % fi, "det": sc.get("det", False)})
        full.append(dict(sc, ops=ops, model1=m))
    for sc, g, l, status in front_sweep(ctx, res, full, "C18"):
        rs = g.get("res", [])
        r0 = rs[0] if rs else {}
        m0 = sc["model1"]
        res.count("flags:" + ",".join(sc.get("flags", [])) if sc.get("flags") else "flags:none")
        if "panic" in r0:
            res.violations.append({"signature": "monitor:translator-panics", "detail": "%s on %r" % (r0["panic"], sc["json"][:300]), "scenario": sc})
            continue
        if sc.get("malformed"):
            res.count("malformed:" + sc["malformed"])
            if r0.get("tok") or r0.get("ok"):
                res.violations.append({"signature": "monitor:malformed-document-accepted", "scenario": sc,
                                       "detail": "%s: the translator returned text %r (builder ok=%s) for %r" % (sc["malformed"], (r0.get("text") or "")[:200], r0.get("ok"), sc["json"][:300])})
            continue
        if not r0.get("tok"):
            res.violations.append({"signature": "monitor:valid-document-rejected-by-translator", "detail": "%s on %r" % (r0.get("why"), sc["json"][:400]), "scenario": sc})
            continue
        if not r0.get("ok"):
            res.violations.append({"signature": "monitor:translated-text-rejected-by-builder", "scenario": sc,
                                   "detail": "%s; text %r" % (r0.get("builderr"), (r0.get("text") or "")[:400])})
            continue
        have = {x[1]: x for x in r0.get("rules", []) if not x[4]}
        for mt in sc.get("meta", []):
            x = have.get(mt["name"])
            if x is None:
                res.violations.append({"signature": "monitor:rule-missing", "detail": mt["name"], "scenario": sc})
            elif str(x[2]) != str(mt["sal"]) or x[3] != mt["desc"]:
                res.violations.append({"signature": "monitor:name-description-salience-differ", "scenario": sc,
                                       "detail": "rule %s: salience %s description %r, document says %s %r" % (mt["name"], x[2], x[3], mt["sal"], mt["desc"])})
        if m0.get("astEq") is False:
            res.violations.append({"signature": "monitor:grouping-differs-from-nesting", "scenario": sc,
                                   "detail": "the parse of the translated text is not the operator tree (modulo grouping parentheses): %r" % (r0.get("text") or "")[:400]})
        # K (translated) against S (meaning)
        twins = {}
        fired = False
        for o, r in zip(sc["ops"], rs):
            if o.get("op") == "build" and o.get("kb") == "S" and not r.get("ok"):
                res.corr_details.append({"id": sc["id"], "status": "mismatch", "detail": "the explicit-grouping text of the meaning does not build: %r" % o["text"][:300], "scenario": sc})
                res.corr_broken = True
            if o.get("op") == "exec" and "store" in r:
                view = (json.dumps(r.get("out")), json.dumps(r.get("store")), [e[2] for e in (r.get("trace") or []) if e[0] == "x"])
                fired = fired or bool(view[2])
                if o["twin"] in twins:
                    other = twins[o["twin"]]
                    if o.get("det") and other != view:
                        what = "outcome" if other[0] != view[0] else "facts" if other[1] != view[1] else "fired rules"
                        res.violations.append({"signature": "monitor:translated-rule-means-something-else", "scenario": sc,
                                               "detail": "translated text and operator tree differ in %s: fired %s vs %s; text %r" % (what, other[2], view[2], (r0.get("text") or "")[:300])})
                else:
                    twins[o["twin"]] = view
        if fired and sc["json"] not in res._distinct:
            res._distinct.add(sc["json"])
            res.distinct_nontrivial += 1
            if len(res.samples) < 4:
                res.samples.append({"json": sc["json"][:400], "text": (r0.get("text") or "")[:400]})
    return res


# ---- C20: loaders on arbitrary input -------------------------------------------------------------------

C20_TIME_MS = lambda n: 3000.0 + 5.0 * n            # wall time budget for an input of n bytes
C20_ALLOC = lambda n: (64 << 20) + (64 << 10) * n   # bytes the loader may allocate in total (runtime.MemStats.TotalAlloc)


def c20_bases(ctx, rng):
    """valid inputs of the four kinds"""
    import gen_json
    import gen_syntax
    bases = {"grl": [], "jsonrule": [], "jsonfact": [], "grb": []}
    store = []
    for i in range(ctx.n(12, 60)):
        r = rng.fork()
        sc = gen.engine_scenario(r, "c20b-%d" % i, r.choice(["stable", "wild"]), nexec=0, wm=False)
        text = sc["ops"][0]["text"]
        bases["grl"].append(text.encode())
        if i % 2 == 0:
            rd = gen_syntax.Render(r.fork(), exotic=True)
            bases["grl"].append(rd.join(rd.doc(sc["ops"][0]["rules"])).encode())
        bases["jsonrule"].append(gen_json.scenario(r.fork(), "x")["json"].encode())
        store.append({"id": "c20s-%d" % i, "ops": [o for o in sc["ops"] if o.get("op") == "build"] + [{"op": "store", "lib": "L", "kb": "K", "as": "s", "hex": True}]})
        facts = {"n": r.range(-5, 5), "f": 1.5, "s": r.choice(["", "a", "é\n"]), "b": r.chance(0.5), "o": {"x": [1, 2, {"y": None}]}, "a": list(range(r.range(0, 6))),
                 "big": 2 ** 53, "e": 1e300, "neg": -0.0}
        bases["jsonfact"].append(json.dumps(facts).encode())
    for g in pl.run_go(store, jobs=ctx.jobs):
        h = (g.get("res") or [{}])[-1].get("hex")
        if h:
            bases["grb"].append(bytes.fromhex(h))
    return bases


def run_c20(ctx):
    import gen_bytes
    res = Result()
    res.rule = ("each of the four loaders (BuildRuleFromResource on GRL text, JSONResource+builder on JSON rule text, DataContext.AddJSON on JSON fact text, "
                "LoadKnowledgeBaseFromReader on a binary stream) runs in a child process with a capped address space (8 GiB) and a per-input wall-clock limit "
                "on: random bytes; valid inputs; and structure-aware mutants of valid inputs (bit flips, byte edits, inserts incl. quotes/brackets/comment "
                "openers/broken UTF-8, deletions, truncation at any offset, splicing, repeated ranges, boundary numbers in text and in 8-byte fields, edits "
                "of length/count fields, nesting bombs). Observation per input: result or error, recovered panic, process death, wall time, bytes allocated "
                "(MemStats.TotalAlloc). Budgets: time <= 3 s + 5 ms/byte, allocation <= 64 MiB + 64 KiB/byte. non-trivial = distinct mutated inputs")
    rng = Rng(ctx.seed * 49979693 + 20)
    if ctx.tier == "thorough":
        gen_bytes.DEPTHS = [10, 100, 300, 600]
    bases = c20_bases(ctx, rng)
    scs = []
    per = ctx.n(400, 6000)
    for kind in ("grl", "jsonrule", "jsonfact", "grb"):
        pool = bases[kind]
        for b in pool:
            scs.append((kind, b, "valid"))
        for i in range(per):
            r = rng.fork()
            if i % 10 == 0:
                scs.append((kind, gen_bytes.random_bytes(r, r.choice([0, 1, 2, 7, 8, 9, 16, 64, 300, 2000])), "random"))
                continue
            d = r.choice(pool) if pool else b""
            how = []
            for _ in range(r.weighted([(1, 6), (2, 3), (3, 1)])):
                d, m = gen_bytes.mutate(r, d, kind, pool)
                how.append(m)
            scs.append((kind, gen_bytes.cap(d), "+".join(how)))
    for w in corpus(ctx.prop):
        scs.append((w["kind"], bytes.fromhex(w["hex"]), "witness:" + w["id"]))
    jobs = [{"id": "c20-%d" % i, "ops": [{"op": "loader", "kind": k, "hex": d.hex()}]} for i, (k, d, how) in enumerate(scs)]
    out = pl.run_isolated(jobs, timeout=ctx.n(30.0, 90.0), jobs=min(ctx.jobs, 8))
    worst = {}
    for (kind, data, how), r in zip(scs, out):
        res.evaluations += 1
        res.count("kind:" + kind)
        for m in how.split("+"):
            res.count("mutation:" + m.split(":")[0])
        key = (kind, data)
        if how != "valid" and key not in res._distinct:
            res._distinct.add(key)
            res.distinct_nontrivial += 1
        n = len(data)
        depth, chain = gen_bytes.shape(data, kind)
        if kind == "jsonrule":
            d2, c2 = gen_bytes.shape_grl(data)      # raw GRL inside strings
            depth, chain = max(depth, d2), max(chain, c2)
        structured = kind in ("grl", "jsonrule") and (depth >= 40 or chain >= 40)
        witness = {"id": "w", "kind": kind, "hex": data.hex(), "how": how, "n": n, "nesting": depth, "chain": chain}
        if "res" not in r:
            what = "hang" if r.get("hang") else "crash"
            sig = "cost:%s:deep-or-long-expression" % kind if (what == "hang" and structured) else "%s:%s" % (what, kind)
            res.violations.append({"signature": sig, "detail": "%s loader: process %s on %d bytes (%s; nesting %d, chain %d): %s" % (
                kind, "did not answer within the limit" if what == "hang" else "died", n, how, depth, chain, (r.get("stderr") or "")[-300:]), "scenario": witness})
            continue
        x = r["res"][0]
        res.count("outcome:" + ("panic" if "panic" in x else "error" if x.get("err") else "ok"))
        if "panic" in x:
            res.violations.append({"signature": "panic:%s" % kind, "detail": "%s loader panics (%s) on %d bytes (%s)" % (kind, x["panic"][:200], n, how), "scenario": witness})
            continue
        ms, al = x.get("ms", 0.0), x.get("alloc", 0)
        w = worst.setdefault(kind, {"ms_per_byte": 0.0, "alloc_per_byte": 0.0})
        if not structured and n >= 64:
            w["ms_per_byte"] = max(w["ms_per_byte"], ms / n)
            w["alloc_per_byte"] = max(w["alloc_per_byte"], al / n)
        if ms > C20_TIME_MS(n) or al > C20_ALLOC(n):
            sig = "cost:%s:deep-or-long-expression" % kind if structured else "cost:%s" % kind
            res.violations.append({"signature": sig, "scenario": witness,
                                   "detail": "%s loader: %.0f ms and %.1f MiB allocated for %d bytes (%s; nesting %d, chain %d); budget %.0f ms, %.1f MiB" % (
                                       kind, ms, al / 2 ** 20, n, how, depth, chain, C20_TIME_MS(n), C20_ALLOC(n) / 2 ** 20)})
    for k, w in worst.items():
        res.distribution["worst-ms-per-byte:" + k] = round(w["ms_per_byte"], 4)
        res.distribution["worst-alloc-per-byte:" + k] = int(w["alloc_per_byte"])
    res.samples = [{"kind": k, "how": how, "n": len(d)} for (k, d, how) in scs[:3]]
    return res

PROPS = {}


def prop(pid, **kw):
    PROPS[pid] = kw


prop("C01", run=lambda ctx: run_engine_generic(ctx),
     explanation="memo transparency: Impl.execute refines the from-scratch semantics; firing soundness follows")
prop("C02", run=lambda ctx: run_engine_generic(ctx))
prop("C03", run=lambda ctx: run_engine_generic(ctx))
prop("C04", run=lambda ctx: run_engine_generic(ctx))
prop("C06", run=lambda ctx: run_engine_generic(ctx))
prop("C15", run=run_c15)
prop("C19", run=run_c19)
prop("C07", run=run_c07)
prop("C16", run=lambda ctx: run_lib(ctx, "C16"))
prop("C12", run=run_c12)
prop("C09", run=run_c09)
prop("C10", run=lambda ctx: run_engine_generic(ctx, mix=(("stable", 5), ("wild", 4), ("cancel", 1))))
prop("C11", run=lambda ctx: run_engine_generic(ctx))
prop("C13", run=lambda ctx: run_engine_generic(ctx))
prop("C14", run=lambda ctx: run_engine_generic(ctx, mix=(("faulty", 6), ("wild", 3), ("stable", 1))))
def run_c08(ctx):
    """the generic engine scenarios, and a share of them with a rule removed from the *instance* between two calls: what the
    instance remembers of nodes the removed rule shared with a live rule must still be forgotten at the next call"""
    res = Result()
    res.rule = ENGINE_RULE + "; a fifth of the scenarios remove a rule from the instance between two calls"
    scs = corpus(ctx.prop) + gen_engine(ctx, ctx.n(1000, 12000), [("stable", 6), ("wild", 3), ("faulty", 1)], ctx.prop)
    rng = Rng(ctx.seed * 7919 + 8)
    for sc in scs:
        if sc.get("witness") or rng.below(5) != 0:
            continue
        ops = sc["ops"]
        execs = [i for i, o in enumerate(ops) if o.get("op") in ("exec", "fetch") and o.get("inst")]
        names = [r["name"] for o in ops if o.get("op") == "build" for r in (o.get("rules") or [])]
        cancels = any(o.get("cancelAt") is not None or o.get("cancelAtEvent") is not None for o in ops)
        if len(execs) >= 2 and len(names) >= 2 and not cancels:
            # (not together with a cancellation point: a pass cut short leaves the iteration order of the remaining
            #  entries unobserved, and the order hints of a later call on the changed instance cannot be completed)
            ops.insert(execs[-1], {"op": "remove", "inst": ops[execs[-1]]["inst"], "rule": rng.choice(names)})
            sc["id"] += "+rm"
    for i in range(0, len(scs), 1500):
        engine_sweep(ctx, res, scs[i:i + 1500], owners=["C08", "C11"])
    return res


prop("C08", run=run_c08)
prop("C17", run=run_c17)
prop("C05", run=run_c05)
prop("C18", run=run_c18)
prop("C20", run=run_c20)
